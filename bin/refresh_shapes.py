#!/usr/bin/env python3
"""Development helper: after a deliberate change of a pinned function in /repo (a `fix:` or hook commit),
regenerates lean/OnetVerif/Shapes.lean and rewrites the `cxx_shape_*` block of every Props file listed in
meta/shapes.json (and the obligations in meta/Cxx.json) from the source as it is now.  Never run by a check:
the checks only *compare* the regenerated shapes with the committed expectations."""
import json, os, re, subprocess, sys
V = os.path.dirname(os.path.dirname(os.path.abspath(__file__)))
env = dict(os.environ, GOFLAGS="-mod=mod", GOPROXY="off", GOSUMDB="off", GOTOOLCHAIN="local")
subprocess.check_call(["go", "run", "./cmd/astfacts", "/repo", os.path.join(V, "lean/OnetVerif/Shapes.lean")],
                      cwd=os.path.join(V, "harness"), env=env)
specs = json.load(open(os.path.join(V, "meta/shapes.json")))
only = set(sys.argv[1:])
HEAD = ("\n/-! ### the code regions the model stands for\nRegenerated from /repo's source on every run (`harness/cmd/astfacts` → "
        "`OnetVerif/Shapes.lean`): the\ncalls that matter for synchronisation and data flow, the lock regions and (for decision "
        "logic) the\nconditions, in source order.  A re-ordering, a dropped call or a changed condition breaks these\nobligations "
        "even when no sampled input or schedule shows a difference; the check then searches for\na failing input. -/\n")
for P, names in specs.items():
    if only and P not in only:
        continue
    p = os.path.join(V, "lean/OnetVerif/Props/%s.lean" % P)
    s = open(p).read()
    txt = subprocess.run([sys.executable, os.path.join(V, "bin/mkshapes.py"), P] + names.split(),
                         capture_output=True, text=True, check=True).stdout
    i = s.find("\n/-! ### the code regions the model stands for")
    j = s.rfind("\nend %s" % P)
    assert j >= 0, P
    s = (s[:i] if i >= 0 else s[:j]) + HEAD + txt + s[j:]
    if "import OnetVerif.Shapes" not in s:
        lines = s.split("\n")
        k = max(n for n, l in enumerate(lines) if l.startswith("import "))
        lines.insert(k + 1, "import OnetVerif.Shapes")
        s = "\n".join(lines)
    open(p, "w").write(s)
    ths = re.findall(r"^theorem (\S+) :", txt, re.M)
    mp = os.path.join(V, "meta/%s.json" % P)
    m = json.load(open(mp))
    m["obligations"] = [o for o in m["obligations"] if "_shape_" not in o] + ["%s.%s" % (P, t) for t in ths]
    json.dump(m, open(mp, "w"), indent=1, ensure_ascii=False)
    print(P, len(ths))
