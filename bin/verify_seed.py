#!/usr/bin/env python3
"""Confirms a seeded breaking change and runs the checks against it (development-time self-test).

usage: verify_seed.py <Cxx> <out-dir of the seeding agent> <A|B> [--tier quick|thorough] [--props C01,C02]

Steps, all in a scratch worktree of /repo's HEAD outside /repo and /verif:
 1. demo test passes on the clean tree          2. patch applies, `go build ./...` and `go vet <pkg>` pass
 3. demo test fails with the patch              4. the touched packages' existing tests still pass
 5. `VERIF_REPO=<worktree> ./check Cxx <tier>` — VIOLATION expected
and stores patch.diff, the demo and meta.json under /verif/seeded/<Cxx>-<A|B>/.
"""
import json, os, re, shutil, subprocess, sys, time

V = os.path.dirname(os.path.dirname(os.path.abspath(__file__)))
ENV = dict(os.environ, GOFLAGS="-mod=mod", GOPROXY="off", GOSUMDB="off", GOTOOLCHAIN="local")
PKGDIR = {"onet": ".", "network": "network", "monitor": "simul/monitor", "app": "app", "log": "log",
          "simul": "simul", "platform": "simul/platform", "onet_test": ".", "network_test": "network"}


def sh(cmd, cwd=None, timeout=1800, env=None):
    p = subprocess.run(cmd, cwd=cwd, shell=isinstance(cmd, str), env=env or ENV, timeout=timeout,
                       stdout=subprocess.PIPE, stderr=subprocess.STDOUT)
    return p.returncode, p.stdout.decode("utf-8", "replace")


def main():
    prop, outdir, which = sys.argv[1], sys.argv[2], sys.argv[3]
    tier = "quick"
    props = [prop]
    if "--tier" in sys.argv:
        tier = sys.argv[sys.argv.index("--tier") + 1]
    if "--props" in sys.argv:
        props = sys.argv[sys.argv.index("--props") + 1].split(",")
    suffix = sys.argv[sys.argv.index("--suffix") + 1] if "--suffix" in sys.argv else ""
    patch = os.path.join(outdir, which + ".diff")
    demo = os.path.join(outdir, which + "_demo_test.go")
    wt = "/var/tmp/seedcheck-%s%s-%s" % (prop, suffix, which)
    sh("git -C /repo worktree remove --force %s" % wt)
    rc, o = sh("git -C /repo worktree add --detach %s HEAD" % wt)
    if rc != 0:
        sys.exit("worktree: " + o)
    meta = {"id": "%s%s-%s" % (prop, suffix, which), "property": prop, "repo_head": sh("git -C /repo rev-parse --short HEAD")[1].strip(),
            "ran": []}
    try:
        src = open(demo).read()
        pkg = re.search(r"^package (\w+)", src, re.M).group(1)
        pdir = PKGDIR.get(pkg, ".")
        tests = re.findall(r"^func (Test\w+)\(", src, re.M)
        run = "^(" + "|".join(tests) + ")$"
        dst = os.path.join(wt, pdir, "zz_seed_%s_demo_test.go" % which.lower())
        shutil.copy(demo, dst)
        # private network namespace: other sessions' test processes hold the suite's fixed ports
        ns = lambda x: "unshare -n sh -c 'ip link set lo up; %s'" % x.replace("'", "'\\''")
        cmd = "go test -vet=off -count=1 -timeout 300s -run '%s' ./%s" % (run, pdir)
        rc, o = sh(ns(cmd), cwd=wt)
        meta["ran"].append({"cmd": cmd + "   # clean tree", "rc": rc, "tail": o[-300:]})
        meta["demo_passes_without"] = rc == 0
        rc, o = sh("git apply %s" % patch, cwd=wt)
        meta["patch_applies"] = rc == 0
        if rc != 0:
            meta["ran"].append({"cmd": "git apply", "rc": rc, "tail": o[-400:]})
            raise SystemExit
        touched = sorted({os.path.dirname(f) or "." for f in re.findall(r"^\+\+\+ b/(\S+)", open(patch).read(), re.M)})
        rc, o = sh("go build ./... && go vet " + " ".join("./" + t for t in touched), cwd=wt)
        meta["builds_and_vets"] = rc == 0
        meta["ran"].append({"cmd": "go build ./... && go vet <touched>", "rc": rc, "tail": o[-300:]})
        rc, o = sh(ns(cmd), cwd=wt)
        meta["demo_fails_with"] = rc != 0
        meta["ran"].append({"cmd": cmd + "   # with the change", "rc": rc, "tail": o[-600:]})
        os.remove(dst)
        # existing tests of the touched packages (twice on failure: some are flaky)
        ok_all = True
        for t in touched:
            c = "go test -vet=off -count=1 -timeout 20m ./%s" % t
            # private network namespace: other sessions' test processes hold the suite's fixed ports
            ns = lambda x: "unshare -n sh -c 'ip link set lo up; %s'" % x.replace("'", "'\\''")
            rc, o = sh(ns(c), cwd=wt)
            fails = sorted(set(re.findall(r"^--- FAIL: (\S+)", o, re.M)))
            if rc != 0:
                base = json.load(open("/root/.vp/BASELINE.json"))
                stable = {s.split("::")[1] for s in base["stable_pass"]}
                bad = [f for f in fails if f in stable]
                if bad:
                    rc2, o2 = sh(ns(c + " -run '^(%s)$'" % "|".join(bad)), cwd=wt)
                    bad = sorted(set(re.findall(r"^--- FAIL: (\S+)", o2, re.M))) if rc2 != 0 else []
                meta["ran"].append({"cmd": c, "rc": rc, "failed": fails, "stable_tests_failing": bad})
                if bad:
                    ok_all = False
            else:
                meta["ran"].append({"cmd": c, "rc": 0})
        meta["existing_tests_pass"] = ok_all
        # the checks
        meta["checks"] = {}
        for p in props:
            t0 = time.time()
            rc, o = sh("./check %s %s" % (p, tier), cwd=V, env=dict(ENV, VERIF_REPO=wt), timeout=3600)
            lines = [l for l in o.splitlines() if l.startswith(("VIOLATION", "KNOWN-FINDING", p + " "))]
            meta["checks"][p] = {"tier": tier, "rc": rc, "wall_s": round(time.time() - t0, 1), "output": lines[-4:]}
            m = re.search(r"replay=(\S+)", o)
            if m and os.path.exists(os.path.join(V, m.group(1))):
                r = json.load(open(os.path.join(V, m.group(1))))
                meta["checks"][p]["replay_kind"] = r.get("kind")
                meta["checks"][p]["signature"] = r.get("signature")
                meta["checks"][p]["message"] = (r.get("message") or "")[:300]
        meta["caught"] = any(c["rc"] == 1 and any(l.startswith("VIOLATION") for l in c["output"]) for c in meta["checks"].values())
    finally:
        sh("git -C /repo worktree remove --force %s" % wt)
        sh("rm -rf %s" % wt)
    d = os.path.join(V, "seeded", meta["id"])
    os.makedirs(d, exist_ok=True)
    if os.path.exists(patch):
        shutil.copy(patch, os.path.join(d, "patch.diff"))
    if os.path.exists(demo):
        shutil.copy(demo, os.path.join(d, os.path.basename(demo).replace(which + "_", "")))
    notes = os.path.join(outdir, "NOTES.md")
    if os.path.exists(notes):
        shutil.copy(notes, os.path.join(d, "SEEDER_NOTES.md"))
    needs = os.path.join(V, "seeded", "NEEDS.json")
    if os.path.exists(needs):
        meta["needs_to_manifest"] = json.load(open(needs)).get(meta["id"], "see SEEDER_NOTES.md")
    meta["breaks_property"] = prop
    json.dump(meta, open(os.path.join(d, "meta.json"), "w"), indent=1)
    print(json.dumps({k: meta.get(k) for k in ("id", "demo_passes_without", "patch_applies", "builds_and_vets",
                                                "demo_fails_with", "existing_tests_pass", "caught")}))
    for p, c in meta.get("checks", {}).items():
        print(p, c["rc"], c.get("replay_kind"), c.get("signature"), "|", (c.get("message") or "")[:200])


if __name__ == "__main__":
    main()
