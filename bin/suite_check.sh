#!/bin/bash
# suite_check.sh [rev]: runs onet's pinned test suite (guard off, no build tag) on a scratch worktree of /repo at <rev>
# (default HEAD) inside a private network namespace and compares the result with /root/.vp/BASELINE.json "stable_pass".
# Development-time helper (after fix:/hook commits); prints the stable tests that did not pass.
rev=${1:-HEAD}
wt=/var/tmp/lead-suite-$$
export GOFLAGS=-mod=mod GOPROXY=off GOSUMDB=off GOTOOLCHAIN=local
git -C /repo worktree add --detach $wt $rev >/dev/null 2>&1 || exit 2
trap 'git -C /repo worktree remove --force '$wt' >/dev/null 2>&1; rm -rf '$wt' /var/tmp/lead-suite-$$.json' EXIT
unshare -n sh -c "ip link set lo up; cd $wt && go test -json -vet=off -count=1 -timeout 25m ./..." > /var/tmp/lead-suite-$$.json 2>/dev/null
python3 - /var/tmp/lead-suite-$$.json <<'EOF'
import json, sys
base = json.load(open("/root/.vp/BASELINE.json"))
res = {}
for l in open(sys.argv[1], errors="replace"):
    try:
        e = json.loads(l)
    except Exception:
        continue
    if e.get("Test") and e.get("Action") in ("pass", "fail", "skip"):
        res[e["Package"] + "::" + e["Test"]] = e["Action"]
stable = base["stable_pass"]
bad = [t for t in stable if res.get(t) != "pass"]
print("suite: %d results, %d of %d stable tests passed" % (len(res), len(stable) - len(bad), len(stable)))
for t in bad:
    print("  NOT PASSED:", t, res.get(t))
sys.exit(1 if bad else 0)
EOF
