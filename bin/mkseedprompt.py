#!/usr/bin/env python3
"""Writes the prompt for a fresh seeding agent: mkseedprompt.py <Cxx> <round suffix, e.g. r3>
The agent gets only the property's text, its own scratch worktree and the list of earlier seeded changes
(file, function, what they need to manifest) so that it looks elsewhere. Output: /tmp/seed-prompt-<Cxx><suffix>.txt"""
import json, os, re, subprocess, sys
V = os.path.dirname(os.path.dirname(os.path.abspath(__file__)))
prop, suf = sys.argv[1], sys.argv[2]
tmpl = open(os.path.join(V, "notes", "SEED_PROMPT.txt")).read()
wt = "/tmp/seed-%s%s" % (prop, suf)
# the template was written for round 1 with the placeholder __ID__
body = tmpl.replace("/tmp/seed-__ID__", wt)
needs = json.load(open(os.path.join(V, "seeded", "NEEDS.json")))
done = []
for d in sorted(os.listdir(os.path.join(V, "seeded"))):
    pd = os.path.join(V, "seeded", d, "patch.diff")
    if not d.startswith(prop) or not os.path.exists(pd):
        continue
    txt = open(pd).read()
    files = sorted(set(re.findall(r"^\+\+\+ b/(\S+)", txt, re.M)))
    funcs = sorted(set(m.split("(")[0].split()[-1] if "(" in m else m for m in re.findall(r"^@@.*@@ func (?:\([^)]*\) )?(\w+)", txt, re.M)))
    done.append("- %s (%s; near %s): manifests with: %s" % (", ".join(files), d, ", ".join(funcs) or "?", needs.get(d, "see notes")))
props = [json.loads(l) for l in open(os.path.join(V, "properties.jsonl")) if l.strip()]
p = next(x for x in props if x["id"] == prop)
out = body
if done:
    out += "\nALREADY DONE BY EARLIER ROUNDS — do not repeat these or close variants of them; break the property through OTHER code sites or OTHER mechanisms (other functions, other clauses of the property statement, other fault/interleaving/input classes):\n" + "\n".join(done) + "\n"
out += "\nPROPERTY:\n" + json.dumps(p, indent=1) + "\n"
path = "/tmp/seed-prompt-%s%s.txt" % (prop, suf)
open(path, "w").write(out)
subprocess.run("git -C /repo worktree remove --force %s 2>/dev/null; rm -rf %s; git -C /repo worktree add --detach %s HEAD && mkdir -p %s-out" % (wt, wt, wt, wt), shell=True, stdout=subprocess.DEVNULL, stderr=subprocess.DEVNULL)
print(path)
