#!/bin/bash
# runs the quick (or $1) tier of every registered check and prints one line per property
cd "$(dirname "$0")/.." || exit 2
tier=${1:-quick}
for p in $(python3 -c "import json;print(' '.join(c['property_id'] for c in json.load(open('MANIFEST.json'))['checks']))"); do
  s=$(date +%s)
  out=$(./check $p $tier 2>&1); rc=$?
  echo "$p rc=$rc $(( $(date +%s) - s ))s | $(echo "$out" | grep -E "^(VIOLATION|KNOWN-FINDING|C[0-9]+ )" | tr '\n' ';' | cut -c1-400)"
done
