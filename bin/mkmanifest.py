#!/usr/bin/env python3
"""Builds MANIFEST.json and known_findings.json from meta/Cxx.json (run by hand at development
time; never by a check)."""
import json, os, glob
V = os.path.dirname(os.path.dirname(os.path.abspath(__file__)))
props = [json.loads(l) for l in open(os.path.join(V, "properties.jsonl"))]
checks, na, findings = [], [], []
for p in props:
    pid = p["id"]
    mp = os.path.join(V, "meta", pid + ".json")
    m = json.load(open(mp)) if os.path.exists(mp) else None
    if not m or not m.get("obligations") or m.get("not_applicable"):
        na.append({"property_id": pid, "reason": (m or {}).get("not_applicable", "check not built yet (work in progress; see DESIGN.md §6 for the planned model and theorems)")})
        continue
    checks.append({
        "property_id": pid,
        "quick_cmd": "./check %s quick" % pid,
        "thorough_cmd": "./check %s thorough" % pid,
        "evidence_file": "/verif/evidence/%s.json" % pid,
        "replay_cmd_template": "./check %s --replay {path}" % pid,
        "engine": "lean-proof+correspondence",
        "level_claimed": {"category": "proof", "text": m["level_text"], "design_ref": m.get("design_ref", "DESIGN.md §6 " + pid)},
        "level_note": m["level_note"],
        "technique": m.get("technique", "Lean 4 proof + differential correspondence check"),
    })
    for f in m.get("findings", []):
        f = dict(f, property=pid)
        if f.get("status") == "fixed":
            f["record"] = "fixed: property=%s %s %s" % (pid, str(f.get("commit", ""))[:12], f.get("what", ""))
        else:
            f["record"] = "known: property=%s signature=%s %s" % (pid, f.get("signature", ""), f.get("what", ""))
        findings.append(f)
hooks_commits = []
hp = os.path.join(V, "meta", "hooks.json")
if os.path.exists(hp):
    hooks_commits = json.load(open(hp)).get("source_commits", [])
man = {
    "version": 1,
    "setup_cmd": "./setup.sh",
    "hooks": {
        "guard": "verif",
        "enable": "go build -tags verif (the harness module replaces go.dedis.ch/onet/v3 by /repo and is rebuilt from the working tree on every check)",
        "baseline_off_cmd": "cd /repo && GOFLAGS=-mod=mod go test -json -vet=off -count=1 -timeout 25m ./...",
        "source_commits": hooks_commits,
        "add_only": True,
    },
    "engines": [{
        "name": "lean-proof+correspondence", "path": "bin/verifcheck.py",
        "serves_properties": [c["property_id"] for c in checks],
        "kind_free_text": "Lean 4 theorems about hand-written executable models (lean/OnetVerif), audited with #print axioms on every run; a Go harness (harness/, built from /repo's working tree with -tags verif) drives the real code and the compiled Lean model with the same operation sequences and diffs canonical observations; the harness also evaluates each property's own oracle to find failing inputs; three regenerated ties are re-derived from /repo's source on every run and compared by kernel-checked theorems: pure functions translated to Lean definitions and proved equal to the model (harness/cmd/go2lean -> Gen/*.lean, Props/*Gen.lean), call/condition/assignment sequences of the modelled functions (harness/cmd/astfacts -> Shapes.lean, pinned by rfl in Props/*.lean), and per file a property is anchored in the hash of every function's full shape (Ties.lean, pinned in Props/*Tie.lean)",
    }],
    "checks": checks,
    "not_applicable": na,
    "notes": "See DESIGN.md. known_findings.json lists genuine defects that are recorded rather than repaired; fixed ones are listed there with their commit and suppress nothing.",
}
json.dump(man, open(os.path.join(V, "MANIFEST.json"), "w"), indent=1)
json.dump({"findings": findings}, open(os.path.join(V, "known_findings.json"), "w"), indent=1)
print("checks:", [c["property_id"] for c in checks], "not built:", [n["property_id"] for n in na], "findings:", len(findings))
