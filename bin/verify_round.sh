#!/bin/bash
# verify_round.sh <suffix> <Cxx>...: confirms the seeded changes A and B of each property (bin/verify_seed.py) one after the other
cd "$(dirname "$0")/.." || exit 2
suf=$1; shift
mkdir -p /var/tmp/seedverify
for p in "$@"; do
  for w in A B; do
    [ -f /tmp/seed-$p$suf-out/$w.diff ] || { echo "$p$suf-$w: no diff"; continue; }
    python3 bin/verify_seed.py $p /tmp/seed-$p$suf-out $w --suffix $suf > /var/tmp/seedverify/$p$suf-$w.log 2>&1
    echo "$p$suf-$w: $(tail -2 /var/tmp/seedverify/$p$suf-$w.log | tr '\n' ' ' | cut -c1-400)"
  done
done
