#!/usr/bin/env python3
"""Development-time consistency check of /verif against /repo (run with python3-vt: needs jsonschema):
MANIFEST.json and evidence/*.json validate against the schemas; every `verif hook:` commit of /repo is in
MANIFEST.hooks.source_commits; every `fix:` commit of /repo is a `fixed` entry of known_findings.json (and vice versa);
every obligation of meta/Cxx.json is stated in Props/Cxx.lean or Props/CxxGen.lean; every check has an evidence file."""
import glob, json, os, re, subprocess, sys
import jsonschema
V = os.path.dirname(os.path.dirname(os.path.abspath(__file__)))
bad = 0
def err(*a):
    global bad
    bad += 1
    print("PROBLEM:", *a)
m = json.load(open(V + "/MANIFEST.json"))
try:
    jsonschema.validate(m, json.load(open("/root/.vp/MANIFEST.schema.json")))
except Exception as e:
    err("MANIFEST.json:", str(e)[:300])
es = json.load(open("/root/.vp/EVIDENCE.schema.json"))
for c in m["checks"]:
    f = c["evidence_file"]
    if not os.path.exists(f):
        err("no evidence file", f)
        continue
    try:
        jsonschema.validate(json.load(open(f)), es)
    except Exception as e:
        err(f, str(e)[:300])
props = [json.loads(l)["id"] for l in open(V + "/properties.jsonl") if l.strip()]
claimed = {c["property_id"] for c in m["checks"]} | {n["property_id"] for n in m.get("not_applicable", [])}
for p in props:
    if p not in claimed:
        err("property neither claimed nor not_applicable:", p)
log = subprocess.run(["git", "-C", "/repo", "log", "--format=%H %s"], capture_output=True, text=True).stdout.splitlines()
hooks = m["hooks"]["source_commits"]
known = json.load(open(V + "/known_findings.json"))["findings"]
fixed = [str(k.get("commit", "")) for k in known if k.get("status") == "fixed"]
for l in log:
    sha, msg = l.split(" ", 1)
    if msg.startswith("verif hook") and not any(sha.startswith(h[:7]) for h in hooks):
        err("hook commit not in MANIFEST.hooks.source_commits:", sha[:9], msg[:70])
    if msg.startswith("fix:") and not any(c and sha.startswith(c[:7]) for c in fixed):
        err("fix commit without a `fixed` entry in known_findings.json:", sha[:9], msg[:90])
for c in fixed:
    if c and not any(l.startswith(c[:7]) for l in log):
        err("fixed entry names a commit that is not in /repo:", c)
for h in hooks:
    if not any(l.startswith(h[:7]) for l in log):
        err("hook commit not in /repo:", h)
for p in props:
    mp = V + "/meta/%s.json" % p
    if not os.path.exists(mp):
        continue
    srcs = ""
    for f in (V + "/lean/OnetVerif/Props/%s.lean" % p, V + "/lean/OnetVerif/Props/%sGen.lean" % p):
        if os.path.exists(f):
            srcs += open(f).read()
    for n in json.load(open(mp)).get("obligations", []):
        if not re.search(r"\b(theorem|lemma)\s+(%s|%s)\b" % (re.escape(n.split(".")[-1]), re.escape(n)), srcs):
            err(p, "obligation not stated:", n)
import subprocess
r = subprocess.run([sys.executable, V + "/bin/mkties.py", "--check"], stdout=subprocess.PIPE, stderr=subprocess.STDOUT)
if r.returncode != 0:
    err("source ties are not those of /repo HEAD (run bin/mkties.py):", " ".join(r.stdout.decode().split()[-12:]))
print("lint: %d problem(s)" % bad)
sys.exit(1 if bad else 0)
