#!/usr/bin/env python3
"""prints `theorem cxx_shape_<fn> : Shapes.<fn> = [...] := rfl` for the named shapes, from the
current lean/OnetVerif/Shapes.lean (development helper: the output is pasted into Props/Cxx.lean)."""
import re, sys, os
V = os.path.dirname(os.path.dirname(os.path.abspath(__file__)))
src = open(os.path.join(V, "lean/OnetVerif/Shapes.lean")).read()
prop = sys.argv[1].lower()
for name in sys.argv[2:]:
    m = re.search(r"^def %s : List String := (\[.*\])$" % re.escape(name), src, re.M)
    if not m:
        sys.exit("no shape " + name)
    items = re.findall(r'"(?:[^"\\]|\\.)*"', m.group(1))
    body, line = [], "    "
    for it in items:
        if len(line) + len(it) > 96:
            body.append(line.rstrip()); line = "     "
        line += it + ", "
    body.append(line.rstrip().rstrip(","))
    short = "_".join(name.split("_")[1:])
    print("theorem %s_shape_%s :\n    Shapes.%s =\n   [%s] := rfl\n" % (prop, short, name, "\n".join(body).strip()))
