#!/usr/bin/env python3
"""Re-runs the checks against every stored seeded change (development-time self-test sweep).

usage: recheck_seeds.py [-j N] [--only C01,C02] [--ids C01r4-A,...] [--tier quick]

For every seeded/<id>/patch.diff: a scratch worktree of /repo's HEAD under /var/tmp, `git apply` (3-way fallback),
`go build ./...`, then `VERIF_REPO=<worktree> ./check <prop> <tier>` for the property the change breaks (and the extra
properties listed in meta.json "also"). The outcome goes to seeded/<id>/meta.json under "recheck" (head, verdict per
property, replay kind, signature) and one line is printed per change. The patch is confirmed (demo, package tests) by
bin/verify_seed.py when it is first stored; this sweep only asks whether the checks of today still report it.
"""
import json, os, re, subprocess, sys, time
from concurrent.futures import ThreadPoolExecutor

V = os.path.dirname(os.path.dirname(os.path.abspath(__file__)))
ENV = dict(os.environ, GOFLAGS="-mod=mod", GOPROXY="off", GOSUMDB="off", GOTOOLCHAIN="local")


def sh(cmd, cwd=None, env=None, timeout=3600):
    try:
        p = subprocess.run(cmd, cwd=cwd, shell=True, env=env or ENV, timeout=timeout, stdout=subprocess.PIPE, stderr=subprocess.STDOUT)
        return p.returncode, p.stdout.decode("utf-8", "replace")
    except subprocess.TimeoutExpired:
        return 124, "timeout"


def one(sid, tier):
    d = os.path.join(V, "seeded", sid)
    mf = os.path.join(d, "meta.json")
    meta = json.load(open(mf)) if os.path.exists(mf) else {"id": sid}
    prop = meta.get("breaks_property") or meta.get("property") or sid[:3]
    props = [prop] + [p for p in meta.get("also", []) if p != prop]
    wt = "/var/tmp/recheck-%s" % sid
    sh("git -C /repo worktree remove --force %s; rm -rf %s" % (wt, wt))
    rc, o = sh("git -C /repo worktree add --detach %s HEAD" % wt)
    head = sh("git -C /repo rev-parse --short HEAD")[1].strip()
    res = {"head": head, "when": time.strftime("%Y-%m-%d %H:%M"), "tier": tier, "checks": {}}
    try:
        rc, o = sh("git apply %s || git apply -3 %s" % (os.path.join(d, "patch.diff"), os.path.join(d, "patch.diff")), cwd=wt)
        if rc != 0:
            res["error"] = "patch no longer applies to HEAD: " + o[-300:]
        else:
            rc, o = sh("go build ./...", cwd=wt)
            if rc != 0:
                res["error"] = "does not build on HEAD: " + o[-300:]
        if "error" not in res:
            for p in props:
                t0 = time.time()
                rc, o = sh("./check %s %s" % (p, tier), cwd=V, env=dict(ENV, VERIF_REPO=wt))
                c = {"rc": rc, "wall_s": round(time.time() - t0, 1),
                     "output": [l[:300] for l in o.splitlines() if l.startswith(("VIOLATION", p + " "))][-3:]}
                m = re.search(r"replay=(\S+)", o)
                if m and os.path.exists(os.path.join(V, m.group(1))):
                    r = json.load(open(os.path.join(V, m.group(1))))
                    c["replay_kind"], c["signature"] = r.get("kind"), r.get("signature")
                res["checks"][p] = c
            res["caught"] = any(c["rc"] == 1 and any(l.startswith("VIOLATION") for l in c["output"]) for c in res["checks"].values())
            res["with_failing_input"] = any(c.get("replay_kind") == "oracle" for c in res["checks"].values())
    finally:
        sh("git -C /repo worktree remove --force %s; rm -rf %s" % (wt, wt))
    meta["recheck"] = res
    json.dump(meta, open(mf, "w"), indent=1)
    line = "%-10s %s" % (sid, res.get("error") or " ".join("%s:%s/%s/%s/%ss" % (p, "VIOLATION" if c["rc"] == 1 else "rc=%d" % c["rc"], c.get("replay_kind"), c.get("signature"), c["wall_s"]) for p, c in res["checks"].items()))
    print(line, flush=True)
    return line


def main():
    a = sys.argv[1:]
    j = int(a[a.index("-j") + 1]) if "-j" in a else 4
    tier = a[a.index("--tier") + 1] if "--tier" in a else "quick"
    only = a[a.index("--only") + 1].split(",") if "--only" in a else None
    ids = a[a.index("--ids") + 1].split(",") if "--ids" in a else None
    all_ids = sorted(x for x in os.listdir(os.path.join(V, "seeded")) if os.path.exists(os.path.join(V, "seeded", x, "patch.diff")))
    todo = [x for x in all_ids if (ids is None or x in ids) and (only is None or x[:3] in only)]
    with ThreadPoolExecutor(max_workers=j) as ex:
        list(ex.map(lambda s: one(s, tier), todo))


if __name__ == "__main__":
    main()
