#!/usr/bin/env python3
"""Refreshes the generated parts of DESIGN.md: Appendix D (per-property as-built notes from
notes/built/Cxx.md), Appendix E (seeded changes and which check catches them, from seeded/*/meta.json)
and Appendix F (false alarms, from notes/FALSE_ALARMS.md). Everything before the marker is hand-written."""
import glob, json, os, re
V = os.path.dirname(os.path.dirname(os.path.abspath(__file__)))
MARK = "<!-- GENERATED APPENDICES BEGIN (bin/mkdesign.py) -->"
p = os.path.join(V, "DESIGN.md")
s = open(p).read()
if MARK in s:
    s = s[:s.index(MARK)]
out = [s.rstrip() + "\n\n" + MARK + "\n"]
out.append("\n## Appendix D — as built, per property\n\nWritten by whoever built the property (lead or builder agent) when it was finished; later changes are in the git log.\n")
for f in sorted(glob.glob(os.path.join(V, "notes/built/C[0-9][0-9].md"))):
    out.append("\n" + open(f).read().strip() + "\n")
out.append("\n## Appendix E — independently seeded breaking changes and what catches them\n\n"
           "Each change was written by a fresh agent that saw only the property text and a scratch worktree, then confirmed by "
           "`bin/verify_seed.py` (patch applies to /repo HEAD, builds, vets, the touched packages' tests still pass, the demo fails "
           "with and passes without the change) and the check was run against it (`VERIF_REPO=<worktree> ./check Cxx quick`). "
           "Material: `seeded/<id>/`. \"first verdict\" is what the check said when the change was first stored (before any work on it), \"latest re-check\" what `bin/recheck_seeds.py` got from the checks as they are now (kind `oracle` = a concrete failing input is the replay).\n\n| id | files | first verdict | latest re-check | |\n|---|---|---|---|---|\n")
for f in sorted(glob.glob(os.path.join(V, "seeded/*/meta.json"))):
    m = json.load(open(f))
    d = os.path.dirname(f)
    files = sorted(set(re.findall(r"^\+\+\+ b/(\S+)", open(os.path.join(d, "patch.diff")).read(), re.M))) if os.path.exists(os.path.join(d, "patch.diff")) else []
    conf = all(m.get(k) for k in ("demo_passes_without", "patch_applies", "builds_and_vets", "demo_fails_with"))
    def verdict_of(c):
        if c.get("rc") != 1:
            return "missed (exit %s)" % c.get("rc")
        v = "VIOLATION"
        if c.get("replay_kind") in ("proof", "correspondence", "tie", "build"):
            v += " (no-failing-input-found)"
        return v
    re_ = m.get("recheck") or {}
    first = m.get("checks", {})
    for pr in sorted(set(first) | set(re_.get("checks", {}))):
        c = first.get(pr)
        r = re_.get("checks", {}).get(pr)
        now = "-"
        if re_.get("error"):
            now = "patch no longer applies to /repo " + str(re_.get("head"))
        elif r:
            now = "%s — %s / %s (/repo %s)" % (verdict_of(r), r.get("replay_kind"), (r.get("signature") or "-")[:80], re_.get("head"))
        out.append("| %s%s | %s | %s: %s | %s | %s |\n" % (
            m["id"], "" if conf else " (not confirmed)", ", ".join(files), pr,
            (verdict_of(c) + " — %s / %s" % (c.get("replay_kind"), (c.get("signature") or "-")[:80])) if c else "-", now, ""))
fa = os.path.join(V, "notes/FALSE_ALARMS.md")
if os.path.exists(fa):
    out.append("\n## Appendix F — false alarms on the unchanged tree and the corrections made\n\n" + re.sub(r"^# .*\n", "", open(fa).read()).strip() + "\n")
open(p, "w").write("".join(out))
print("DESIGN.md refreshed")
