#!/usr/bin/env python3
"""Development-time measure of the tie: which statements of /repo does the correspondence harness execute?

usage: covreport.py [quick|thorough] [C01 C02 ...]        (default: quick, all properties)

Builds the harness with `go build -cover` (coverage counters in every onet package), runs each property's
sub-command exactly as ./check does, and writes
  notes/coverage/<Cxx>.txt   per anchored file: coverage per function and the uncovered statement blocks (with source)
  notes/coverage/SUMMARY.txt one line per property and the union over all properties
Nothing here is a check; it tells the builders where the generators never go.
"""
import json, os, re, shutil, subprocess, sys

V = os.path.dirname(os.path.dirname(os.path.abspath(__file__)))
REPO = os.environ.get("VERIF_REPO", "/repo")
ENV = dict(os.environ, GOFLAGS="-mod=mod", GOPROXY="off", GOSUMDB="off", GOTOOLCHAIN="local")
MOD = "go.dedis.ch/onet/v3/"
W = "/var/tmp/onet-verif-cov"


def sh(cmd, cwd=None, env=None, timeout=None):
    p = subprocess.run(cmd, cwd=cwd, env=env or ENV, timeout=timeout, stdout=subprocess.PIPE, stderr=subprocess.STDOUT)
    return p.returncode, p.stdout.decode("utf-8", "replace")


def parse_profile(path):
    """-> {file: {(sl,sc,el,ec): (nstmt, count)}}"""
    prof = {}
    for line in open(path):
        m = re.match(r"(\S+):(\d+)\.(\d+),(\d+)\.(\d+) (\d+) (\d+)", line)
        if not m or not m.group(1).startswith(MOD):
            continue
        f = m.group(1)[len(MOD):]
        k = tuple(int(m.group(i)) for i in (2, 3, 4, 5))
        n, c = int(m.group(6)), int(m.group(7))
        d = prof.setdefault(f, {})
        old = d.get(k, (n, 0))
        d[k] = (n, old[1] + c)
    return prof


def funcs_of(path):
    """[(name, startline, endline)] by a cheap scan of top-level func declarations"""
    src = open(path).read().split("\n")
    out, cur = [], None
    for i, l in enumerate(src, 1):
        m = re.match(r"func (\([^)]*\) )?(\w+)", l)
        if m:
            recv = re.sub(r"[()*]", "", m.group(1) or "").split()
            name = (recv[-1] + "." if recv else "") + m.group(2)
            cur = [name, i, i]
            out.append(cur)
        if l.startswith("}") and cur:
            cur[2] = i
            cur = None
    return [tuple(x) for x in out], src


def report(prop, prof, anchors, fo):
    tot = cov = 0
    for f in anchors:
        blocks = prof.get(f, {})
        path = os.path.join(REPO, f)
        if not os.path.exists(path):
            continue
        fs, src = funcs_of(path)
        ft = sum(n for n, _ in blocks.values())
        fc = sum(n for n, c in blocks.values() if c)
        tot += ft
        cov += fc
        fo.write("\n== %s: %d/%d statements (%.0f%%)\n" % (f, fc, ft, 100.0 * fc / ft if ft else 0))
        for name, a, b in fs:
            bl = [(k, v) for k, v in blocks.items() if a <= k[0] <= b]
            n = sum(v[0] for _, v in bl)
            c = sum(v[0] for _, v in bl if v[1])
            if n == 0:
                continue
            fo.write("  %-45s %3d/%-3d %s\n" % (name, c, n, "" if c == n else ("NOT REACHED" if c == 0 else "partly")))
            if 0 < c < n:
                for k, v in sorted(bl):
                    if v[1] == 0:
                        txt = " ".join(s.strip() for s in src[k[0] - 1:min(k[2], k[0] + 2)])[:150]
                        fo.write("      uncovered %d-%d: %s\n" % (k[0], k[2], txt))
    return cov, tot


def main():
    args = sys.argv[1:]
    tier = "quick"
    if args and args[0] in ("quick", "thorough"):
        tier = args.pop(0)
    props = [json.loads(l) for l in open(os.path.join(V, "properties.jsonl")) if l.strip()]
    want = [a.upper() for a in args] or [p["id"] for p in props]
    shutil.rmtree(W, ignore_errors=True)
    os.makedirs(W)
    shutil.copy(os.path.join(REPO, "go.sum"), os.path.join(V, "harness", "go.sum"))
    exe = os.path.join(W, "oh_cover")
    rc, o = sh(["go", "build", "-cover", "-coverpkg=onetverif/harness/...,go.dedis.ch/onet/v3/...", "-tags", "verif", "-o", exe,
                "./cmd/onetharness"], cwd=os.path.join(V, "harness"))
    if rc != 0:
        sys.exit("build failed: " + o[-2000:])
    os.makedirs(os.path.join(V, "notes", "coverage"), exist_ok=True)
    summ = []
    union = {}
    for p in props:
        if p["id"] not in want:
            continue
        pid = p["id"]
        cd, wd = os.path.join(W, "cov_" + pid), os.path.join(W, "work_" + pid)
        os.makedirs(cd)
        os.makedirs(wd)
        rc, o = sh([exe, pid.lower(), "seed=1", "tier=" + tier, "out=" + os.path.join(wd, "out.jsonl"), "workdir=" + wd],
                   cwd=wd, env=dict(ENV, GOCOVERDIR=cd), timeout=3600)
        txt = os.path.join(W, pid + ".txt")
        rc2, o2 = sh(["go", "tool", "covdata", "textfmt", "-i=" + cd, "-o", txt], cwd=W)
        if rc2 != 0:
            summ.append("%s: no coverage data (%s)" % (pid, o2.strip()[-200:]))
            continue
        prof = parse_profile(txt)
        for f, d in prof.items():
            u = union.setdefault(f, {})
            for k, (n, c) in d.items():
                u[k] = (n, u.get(k, (n, 0))[1] + c)
        anchors = [f for f in p.get("anchors", {}).get("files", [])]
        with open(os.path.join(V, "notes", "coverage", pid + ".txt"), "w") as fo:
            fo.write("%s %s tier, harness rc=%d; statements of the anchored files executed by the harness sub-command %s\n" % (pid, tier, rc, pid.lower()))
            c, t = report(pid, prof, anchors, fo)
        summ.append("%s: %d/%d statements of its anchored files (%s) [%.0f%%]" % (pid, c, t, ", ".join(anchors), 100.0 * c / t if t else 0))
        shutil.rmtree(cd, ignore_errors=True)
        shutil.rmtree(wd, ignore_errors=True)
    allf = sorted(union)
    with open(os.path.join(V, "notes", "coverage", "UNION.txt"), "w") as fo:
        fo.write("union over %s (%s tier)\n" % (" ".join(want), tier))
        c, t = report("ALL", union, allf, fo)
    summ.append("UNION: %d/%d statements of all onet packages [%.0f%%]" % (c, t, 100.0 * c / t if t else 0))
    open(os.path.join(V, "notes", "coverage", "SUMMARY.txt"), "w").write("\n".join(summ) + "\n")
    print("\n".join(summ))
    shutil.rmtree(W, ignore_errors=True)


if __name__ == "__main__":
    main()
