#!/usr/bin/env python3
"""Driver of every check:  ./check <Cxx> <quick|thorough>   or   ./check <Cxx> --replay <file>

Pipeline (DESIGN.md §2.1):
  1. regenerate lean/OnetVerif/Generated.lean from /repo (constants the models depend on)
  2. proof obligations: lake build of Props/<Cxx>, `#print axioms` audit, forbidden-token grep
  3. build the Go harness from /repo's working tree (-tags verif), run it: it drives the real code,
     writes one record per case (ops for the model, the implementation's canonical observations,
     the verdict of the property's own oracle)
  4. pipe the same ops through the Lean model (`onetmodel`), diff the two observation streams
  5. verdict (§5), evidence/<Cxx>.json, replay files
"""
import hashlib
import json
import os
import re
import subprocess
import sys
import time

VERIF = os.path.dirname(os.path.dirname(os.path.abspath(__file__)))
REPO = os.environ.get("VERIF_REPO", "/repo")
LEAN = os.path.join(VERIF, "lean")
HARNESS = os.path.join(VERIF, "harness")
BUILD = os.path.join(VERIF, "build")
ALLOWED_AXIOMS = {"propext", "Classical.choice", "Quot.sound"}
FORBIDDEN = re.compile(r"\b(sorry|admit|native_decide|bv_decide|implemented_by|unsafe)\b|^\s*axiom\s|maxHeartbeats\s+0\b", re.M)

GOENV = dict(os.environ, GOFLAGS="-mod=mod", GOPROXY="off", GOSUMDB="off", GOTOOLCHAIN="local")


class BuildLock:
    """serialises lake / go builds of concurrently running checks"""
    def __enter__(self):
        import fcntl
        os.makedirs(BUILD, exist_ok=True)
        self.f = open(os.path.join(BUILD, ".lock"), "w")
        fcntl.flock(self.f, fcntl.LOCK_EX)
        return self

    def __exit__(self, *a):
        import fcntl
        fcntl.flock(self.f, fcntl.LOCK_UN)
        self.f.close()


def sh(cmd, cwd=None, env=None, timeout=None, inp=None):
    p = subprocess.run(cmd, cwd=cwd, env=env, timeout=timeout, input=inp,
                       stdout=subprocess.PIPE, stderr=subprocess.STDOUT)
    return p.returncode, p.stdout.decode("utf-8", "replace")


def strip_comments(src):
    # remove /- ... -/ (nested) and -- ... comments, keep string literals approximately
    out, i, depth = [], 0, 0
    while i < len(src):
        if src.startswith("/-", i):
            depth += 1
            i += 2
        elif depth and src.startswith("-/", i):
            depth -= 1
            i += 2
        elif depth:
            i += 1
        elif src.startswith("--", i):
            j = src.find("\n", i)
            i = len(src) if j < 0 else j
        else:
            out.append(src[i])
            i += 1
    return "".join(out)


def props_modules(prop):
    """Props/<Cxx>.lean and, when it exists, Props/<Cxx>Gen.lean (equivalence theorems between the definitions
    translated from the Go source, Gen/<Cxx>.lean, and the model; nothing imports it)"""
    mods = ["OnetVerif.Props.%s" % prop]
    if os.path.exists(os.path.join(LEAN, "OnetVerif", "Props", prop + "Gen.lean")):
        mods.append("OnetVerif.Props.%sGen" % prop)
    return mods


def lean_module_closure(prop):
    """Lean files (under lean/OnetVerif) the property's Props module(s) depend on."""
    seen, todo = set(), props_modules(prop)
    while todo:
        m = todo.pop()
        if m in seen or not m.startswith("OnetVerif."):
            continue
        path = os.path.join(LEAN, m.replace(".", "/") + ".lean")
        if not os.path.exists(path):
            continue
        seen.add(m)
        for mm in re.findall(r"^import\s+(\S+)", open(path).read(), re.M):
            todo.append(mm)
    return sorted(seen)


# ------------------------------------------------------------------------------------------------
# step 1: generated constants
def regenerate_constants(log):
    rc, out = sh([sys.executable, os.path.join(VERIF, "bin", "genconsts.py"), REPO,
                  os.path.join(LEAN, "OnetVerif", "Generated.lean")])
    log.append(out)
    if rc != 0:
        return False, out
    # structural facts ("shapes": call order, lock regions, conditions of the modelled functions)
    exe = os.path.join(BUILD, "astfacts")
    rc2, out2 = sh(["go", "build", "-o", exe, "./cmd/astfacts"], cwd=HARNESS, env=GOENV)
    if rc2 == 0:
        rc2, out2 = sh([exe, REPO, os.path.join(LEAN, "OnetVerif", "Shapes.lean")])
    log.append(out2)
    # definitions translated from the Go source (`harness/cmd/go2lean` -> lean/OnetVerif/Gen/*.lean).  A function
    # that cannot be translated any more is left out of its module; only the properties whose theorems
    # refer to that module lose an obligation (see gen_problem), every other check is unaffected.
    global GEN_OUT
    exe = os.path.join(BUILD, "go2lean")
    rc3, out3 = sh(["go", "build", "-o", exe, "./cmd/go2lean"], cwd=HARNESS, env=GOENV)
    if rc3 == 0:
        rc3, out3 = sh([exe, REPO, LEAN, os.path.join(VERIF, "meta", "go2lean.json")])
    log.append(out3)
    GEN_OUT = (rc3, out3)
    return rc2 == 0, out + out2


GEN_OUT = (0, "")


def gen_problem(prop):
    """the translator's complaint, if it concerns a generated module this property's theorems import"""
    rc, out = GEN_OUT
    if rc == 0:
        return None
    mods = [m for m in lean_module_closure(prop) if m.startswith("OnetVerif.Gen.")]
    hit = [m for m in mods if (m.replace(".", "/") + ".lean") in out]
    if hit or (mods and "not translated" not in out):
        return "translation of /repo's Go source to Lean failed: " + out[-600:]
    return None


# ------------------------------------------------------------------------------------------------
# step 2: proof obligations
def tie_obligations(prop):
    """Props/<Cxx>Tie.lean (written by bin/mkties.py): theorems that every function of the files the property is
    anchored in still has the full shape it had when the model was validated against it (Ties.lean is regenerated
    from $VERIF_REPO on every run)"""
    path = os.path.join(LEAN, "OnetVerif", "Props", prop + "Tie.lean")
    if not os.path.exists(path):
        return []
    return ["%s.%s" % (prop, n) for n in re.findall(r"^theorem\s+(\w+)", open(path).read(), re.M)]


def tie_diff(prop):
    """which functions differ from the expectation (for the replay file)"""
    try:
        exp = json.load(open(os.path.join(VERIF, "meta", "ties_expected.json"))).get(prop, {})
        now = json.load(open(os.path.join(BUILD, "digests.json")))
    except Exception:
        return "expected/actual digests not readable"
    out = []
    for f, e in sorted(exp.items()):
        n = now.get(f, {})
        ch = sorted(k for k in e if k in n and n[k] != e[k])
        gone = sorted(k for k in e if k not in n)
        new = sorted(k for k in n if k not in e)
        if ch or gone or new:
            out.append("%s: %s" % (f, "; ".join(x for x in ("changed: " + ", ".join(ch) if ch else "", "removed: " + ", ".join(gone) if gone else "",
                                                            "added: " + ", ".join(new) if new else "") if x)))
    return " | ".join(out) or "no difference found in the digests (stale Props/%sTie.lean? run bin/mkties.py)" % prop


def proof_obligations(prop, tier, log):
    """returns (obligations:list[str], discharged:list[str], problems:list[str], checker_cmd)"""
    names = load_meta(prop).get("obligations", [])
    ties = tie_obligations(prop)
    problems = []
    pmods = props_modules(prop)
    checker = "cd lean && lake build %s onetmodel && lake env lean <audit: #print axioms of every obligation>" % " ".join(pmods)
    if tier == "thorough":
        checker += " && lake env leanchecker %s" % " ".join(pmods)
    if not names:
        return [], [], ["no obligations registered for " + prop], checker
    rc, out = sh(["lake", "build"] + pmods + ["onetmodel"], cwd=LEAN)
    log.append(out[-4000:])
    if rc != 0:
        # find which theorem failed, if the error names a line
        problems.append("lake build failed: " + out[-1500:])
        return names + ties, [], problems, checker
    # forbidden tokens in every module the property depends on
    for m in lean_module_closure(prop):
        path = os.path.join(LEAN, m.replace(".", "/") + ".lean")
        src = strip_comments(open(path).read())
        mm = FORBIDDEN.search(src)
        if mm:
            problems.append("forbidden token %r in %s" % (mm.group(0).strip(), path))
    # the theorems must be declared in Props/<prop>.lean (or Props/<prop>Gen.lean) itself
    psrc = "\n".join(strip_comments(open(os.path.join(LEAN, m.replace(".", "/") + ".lean")).read()) for m in pmods)
    os.makedirs(BUILD, exist_ok=True)
    tie_ok = False
    if ties:
        tmod = "OnetVerif.Props.%sTie" % prop
        rc, out = sh(["lake", "build", tmod], cwd=LEAN)
        log.append(out[-1500:])
        tie_ok = rc == 0
        if not tie_ok:
            problems.append("source tie broken (Props/%sTie.lean no longer checks against the regenerated Ties.lean): %s" % (prop, tie_diff(prop)))
        else:
            pmods = pmods + [tmod]
            psrc += "\n" + open(os.path.join(LEAN, "OnetVerif", "Props", prop + "Tie.lean")).read()
    all_names = names + (ties if tie_ok else [])
    audit = os.path.join(BUILD, "Audit_%s.lean" % prop)
    with open(audit, "w") as f:
        for m in pmods:
            f.write("import %s\n" % m)
        for n in all_names:
            f.write("#print axioms %s\n" % n)
    rc, out = sh(["lake", "env", "lean", audit], cwd=LEAN)
    log.append(out[-6000:])
    discharged = []
    flat = re.sub(r"\s+", " ", out)
    for n in all_names:
        short = n.split(".")[-1]
        if not re.search(r"\b(theorem|lemma)\s+(%s|%s)\b" % (re.escape(short), re.escape(n)), psrc):
            problems.append("theorem %s is not stated in Props/%s.lean or Props/%sGen.lean" % (n, prop, prop))
            continue
        m = re.search(r"'%s' depends on axioms: \[([^\]]*)\]" % re.escape(n), flat)
        if m:
            ax = {a.strip() for a in m.group(1).split(",") if a.strip()}
            bad = ax - ALLOWED_AXIOMS
            if bad:
                problems.append("theorem %s depends on %s" % (n, sorted(bad)))
            else:
                discharged.append(n)
        elif re.search(r"'%s' does not depend on any axioms" % re.escape(n), flat):
            discharged.append(n)
        else:
            problems.append("theorem %s not found by the audit (%s)" % (n, out[-400:]))
    if tier == "thorough" and not problems:
        for m in pmods:
            rc, out = sh(["lake", "env", "leanchecker", m], cwd=LEAN)
            log.append(out[-2000:])
            if rc != 0:
                problems.append("leanchecker rejected %s: %s" % (m, out[-800:]))
                discharged = []
    return names + ties, discharged, problems, checker


# ------------------------------------------------------------------------------------------------
# step 3: harness
def build_harness(prop, log):
    os.makedirs(BUILD, exist_ok=True)
    import shutil
    try:
        shutil.copy(os.path.join(REPO, "go.sum"), os.path.join(HARNESS, "go.sum"))
    except Exception as e:  # noqa
        log.append("cp go.sum: %s" % e)
    exe = os.path.join(BUILD, "onetharness_%s_%d" % (prop, os.getpid()))
    cmd = ["go", "build", "-tags", "verif", "-o", exe]
    if os.path.realpath(REPO) != "/repo":
        # self-test against a scratch worktree: same module file with the replace directive redirected
        mf = os.path.join(BUILD, "go_%s_%d.mod" % (prop, os.getpid()))
        src = open(os.path.join(HARNESS, "go.mod")).read().replace("=> /repo", "=> " + os.path.realpath(REPO))
        open(mf, "w").write(src)
        shutil.copy(os.path.join(REPO, "go.sum"), os.path.join(BUILD, "go_%s_%d.sum" % (prop, os.getpid())))
        cmd += ["-modfile", mf]
    # Only this property's harness files (plus what they refer to) are compiled, so that a change of
    # /repo that breaks the harness of another property does not break this check.
    d = os.path.join(HARNESS, "cmd", "onetharness")
    allf = sorted(f for f in os.listdir(d) if f.endswith(".go") and not f.endswith("_test.go"))
    files = [f for f in allf if f == "main.go" or f.startswith("common") or re.match(r"%s(\D.*)?\.go$" % prop.lower(), f)]
    rc, out = 1, ""
    for _ in range(12):
        rc, out = sh(cmd + [os.path.join("cmd", "onetharness", f) for f in files], cwd=HARNESS, env=GOENV)
        if rc == 0:
            break
        missing = set(re.findall(r"undefined: (\w+)", out))
        added = False
        for name in missing:
            for f in allf:
                if f in files:
                    continue
                txt = open(os.path.join(d, f)).read()
                if re.search(r"^(func|var|type|const) (\([^)]*\) )?%s\b" % re.escape(name), txt, re.M) or \
                        re.search(r"^\t%s\s+(=|[A-Za-z*\[])" % re.escape(name), txt, re.M):
                    files.append(f)
                    added = True
                    break
        if not added:
            break
    if rc != 0 and len(files) < len(allf):
        rc2, out2 = sh(cmd + ["./cmd/onetharness"], cwd=HARNESS, env=GOENV)
        if rc2 == 0:
            rc, out = rc2, out2
    log.append("harness files: %s" % " ".join(files))
    log.append(out[-4000:])
    return rc == 0, out


def sh_group(cmd, cwd=None, env=None, timeout=None):
    """like sh, but the command gets its own process group and the whole group is killed at the time limit
    (harness cases run in sub-processes)"""
    import signal
    p = subprocess.Popen(cmd, cwd=cwd, env=env, stdout=subprocess.PIPE, stderr=subprocess.STDOUT, start_new_session=True)
    try:
        o, _ = p.communicate(timeout=timeout)
    except subprocess.TimeoutExpired:
        try:
            os.killpg(p.pid, signal.SIGKILL)
        except OSError:
            pass
        p.communicate()
        raise
    return p.returncode, o.decode("utf-8", "replace")


def run_harness(prop, tier, seed, log, replay=None, tag="", budget=None):
    # per-run names: concurrent runs of the same check must not delete each other's files
    out = os.path.join(BUILD, "run_%s_%s%s_%d.jsonl" % (prop, tier, tag, os.getpid()))
    work = os.path.join(BUILD, "work_%s_%d" % (prop, os.getpid()))
    import shutil
    shutil.rmtree(work, ignore_errors=True)
    os.makedirs(work, exist_ok=True)
    cmd = [os.path.join(BUILD, "onetharness_%s_%d" % (prop, os.getpid())), prop.lower(), "seed=%d" % seed, "tier=%s" % tier,
           "out=" + out, "workdir=" + work]
    if replay:
        cmd.append("replay=" + replay)
    t = 3600 if tier == "thorough" else 900
    if budget:
        # a search inside a quick check: stopped at the budget, the cases written so far are used
        t = budget
    try:
        rc, o = sh_group(cmd, cwd=work, env=GOENV, timeout=t)
    except subprocess.TimeoutExpired:
        rc, o = 124, ("search stopped at its budget of %d s" if budget else "harness timed out after %d s") % t
    log.append(o[-4000:])
    shutil.rmtree(work, ignore_errors=True)
    cases, stats = [], {}
    if os.path.exists(out):
        last = os.path.join(BUILD, "run_%s_%s%s.jsonl" % (prop, tier, tag))
        try:
            os.replace(out, last)
            out = last
        except OSError:
            pass
        for line in open(out):
            line = line.strip()
            if not line:
                continue
            try:
                r = json.loads(line)
            except Exception:
                continue
            if "stats" in r and "case" not in r:
                stats = r["stats"]
            else:
                cases.append(r)
    return rc, o, cases, stats


# ------------------------------------------------------------------------------------------------
# step 4: model
def run_model(cases, log):
    """feeds every case's ops to onetmodel; returns list of (case, first_diff | None)"""
    exe = os.path.join(LEAN, ".lake", "build", "bin", "onetmodel")
    lines, spans = [], []
    for c in cases:
        if c.get("nomodel"):
            spans.append(None)
            continue
        lines.append("reset")
        start = len(lines)
        lines.extend(c["ops"])
        spans.append((start, len(lines)))
    if not lines:
        return [(c, None) for c in cases], 0
    inp = ("\n".join(lines) + "\n").encode()
    if os.path.exists(exe):
        rc, out = sh([exe], inp=inp, cwd=LEAN)
    else:
        rc, out = sh(["lake", "env", "lean", "--run", "Driver/Main.lean"], inp=inp, cwd=LEAN)
    outs = out.split("\n")
    if outs and outs[-1] == "":
        outs.pop()
    res, compared = [], 0
    if rc != 0 or len(outs) != len(lines):
        log.append("model driver: rc=%s, %d lines in, %d lines out: %s" % (rc, len(lines), len(outs), out[-500:]))
    for c, sp in zip(cases, spans):
        if sp is None:
            res.append((c, None))
            continue
        a, b = sp
        mo = outs[a:b]
        diff = None
        impl = c.get("impl", [])
        if len(impl) != len(c["ops"]):
            diff = {"at": -1, "op": "", "impl": "<%d observations for %d ops>" % (len(impl), len(c["ops"])), "model": ""}
        else:
            for i, (x, y) in enumerate(zip(impl, mo + ["<no output>"] * (len(impl) - len(mo)))):
                if x != y:
                    diff = {"at": i, "op": c["ops"][i], "impl": x, "model": y}
                    break
        compared += 1
        c["model"] = mo
        res.append((c, diff))
    return res, compared


# ------------------------------------------------------------------------------------------------
def load_meta(prop):
    p = os.path.join(VERIF, "meta", prop + ".json")
    return json.load(open(p)) if os.path.exists(p) else {}


def load_known():
    p = os.path.join(VERIF, "known_findings.json")
    if not os.path.exists(p):
        return []
    return json.load(open(p)).get("findings", [])


def write_replay(prop, seed, kind, payload):
    d = os.path.join(VERIF, "replays")
    os.makedirs(d, exist_ok=True)
    h = hashlib.sha1(json.dumps(payload, sort_keys=True).encode()).hexdigest()[:10]
    path = os.path.join(d, "%s-%s-%s.json" % (prop, kind, h))
    payload = dict(payload, property=prop, seed=seed, kind=kind,
                   how_to_replay="./check %s --replay %s" % (prop, os.path.relpath(path, VERIF)))
    with open(path, "w") as f:
        json.dump(payload, f, indent=1)
    return os.path.relpath(path, VERIF)


def restore_generated():
    """a self-test run against a scratch worktree leaves the generated Lean files describing that
    worktree; put back what /repo says so that the working copy of /verif stays as committed"""
    global REPO
    if REPO == "/repo":
        return
    REPO = "/repo"
    try:
        with BuildLock():
            regenerate_constants([])
    except Exception:
        pass


def main():
    import atexit
    atexit.register(restore_generated)
    if len(sys.argv) < 3:
        print("usage: check <Cxx> <quick|thorough> | check <Cxx> --replay <file>")
        sys.exit(2)
    prop = sys.argv[1].upper()
    replay = None
    if sys.argv[2] == "--replay":
        replay = os.path.abspath(sys.argv[3])
        tier = "quick"
    else:
        tier = sys.argv[2]
    if os.environ.get("VERIF_TIER") in ("quick", "thorough") and not replay:
        tier = os.environ["VERIF_TIER"] if sys.argv[2] not in ("quick", "thorough") else tier
    seed = int(os.environ.get("VERIF_SEED", "1") or 1)
    t0 = time.time()
    log = []
    known = [k for k in load_known() if k.get("property") == prop]
    violations = []     # (replay_path, suffix)
    known_hit = {}
    meta = load_meta(prop)

    with BuildLock():
        okc, outc = regenerate_constants(log)
        names, discharged, problems, checker = proof_obligations(prop, tier, log)
        if not okc:
            problems.append("constant extraction from /repo failed: " + outc[-600:])
        gp = gen_problem(prop)
        if gp:
            problems.append(gp)
        okh, outh = build_harness(prop, log)
    cases, stats, results, compared = [], {}, [], 0
    harness_problem = None
    if not okh:
        harness_problem = "harness does not build against /repo (hooks or API changed): " + outh[-1200:]
    else:
        rc, o, cases, stats = run_harness(prop, tier, seed, log, replay=replay)
        if rc != 0:
            harness_problem = "harness exited with %s: %s" % (rc, o[-1200:])
        results, compared = run_model(cases, log)

    def triage(results):
        fails, mism = [], []
        for c, diff in results:
            if c.get("oracle") == "fail":
                sig = c.get("sig", "")
                k = next((k for k in known if k.get("status") == "known" and k.get("signature") == sig), None)
                if k is not None:
                    known_hit.setdefault(sig, (k, c))
                else:
                    fails.append(c)
            elif diff is not None:
                mism.append((c, diff))
        return fails, mism

    fails, mism = triage(results)
    unconfirmed = []
    if fails and len(fails) <= 3 and not replay and okh and os.environ.get("VERIF_NO_CONFIRM") != "1":
        # A case is written so that it replays exactly. A few isolated oracle failures are therefore replayed alone
        # before they are reported: a failure that shows again in any of three replays (or whose replay does not end
        # normally) is reported as it was; one that three complete replays in a row do not show is listed as
        # UNCONFIRMED (evidence + stdout) and is not a violation — on a machine stalled by other work a wall-clock
        # wait inside a harness can misfire once (DESIGN Appendix F).  Many failing cases are never filtered.
        keep = []
        for c in fails:
            rf = os.path.join(BUILD, "confirm_%s_%d.json" % (prop, os.getpid()))
            reproduced = False
            for attempt in range(3):
                try:
                    json.dump({k: c[k] for k in ("case", "class", "ops") if k in c}, open(rf, "w"))
                    rc2, o2, cs2, _ = run_harness(prop, tier, seed, log, replay=rf, tag="_confirm")
                    ok_run = rc2 == 0 and len(cs2) == 1 and cs2[0].get("oracle") == "ok"
                except Exception as e:  # anything unexpected counts as reproduced: never hide a failure by accident
                    log.append("confirm: %r" % (e,))
                    ok_run = False
                if not ok_run:
                    reproduced = True
                    break
            try:
                os.remove(rf)
            except OSError:
                pass
            (keep if reproduced else unconfirmed).append(c)
        fails = keep
        for c in unconfirmed:
            print("UNCONFIRMED: property=%s an oracle failure [%s] of case %s (class %s) did not show again in three replays of that case; not reported"
                  % (prop, c.get("sig"), c.get("case"), c.get("class")))
    searched = False

    def widen():
        # search with the thorough generator (other seed too) for a concrete failing input
        nonlocal searched
        if searched or not okh or replay:
            return []
        searched = True
        found = []
        for (t, s, tag) in ((("thorough", seed, "_search"),) if tier == "quick" else ()) + (("thorough", seed + 7919, "_search2"),):
            # inside a quick check each search run gets a time budget (VERIF_SEARCH_BUDGET seconds, default 200)
            budget = int(os.environ.get("VERIF_SEARCH_BUDGET", "200")) if tier == "quick" else None
            rc, o, cs, _ = run_harness(prop, t, s, log, tag=tag, budget=budget)
            rs, _ = run_model(cs, log)
            f, _m = triage(rs)
            found.extend(f)
            if found:
                break
        return found

    if fails:
        c = fails[0]
        path = write_replay(prop, seed, "oracle", {"what": "the property's oracle fails on the implementation",
                                                    "signature": c.get("sig"), "message": c.get("msg"),
                                                    "n_failing_cases": len(fails), "case_record": c})
        violations.append((path, ""))
    elif problems:
        more = widen()
        if more:
            c = more[0]
            path = write_replay(prop, seed, "oracle", {"what": "proof obligation broken; search found a failing input",
                                                        "broken": problems, "signature": c.get("sig"),
                                                        "message": c.get("msg"), "case_record": c})
            violations.append((path, ""))
        else:
            path = write_replay(prop, seed, "proof", {"what": "a proof obligation of this property no longer checks",
                                                       "broken": problems, "theorems": names})
            violations.append((path, " no-failing-input-found"))
    elif harness_problem:
        path = write_replay(prop, seed, "tie", {"what": "the correspondence check could not be run against /repo",
                                                 "correspondence": "harness sub-command " + prop.lower(),
                                                 "broken": harness_problem})
        violations.append((path, " no-failing-input-found"))
    elif mism:
        more = widen()
        c, diff = mism[0]
        if more:
            cc = more[0]
            path = write_replay(prop, seed, "oracle", {"what": "model/implementation disagree; search found a failing input",
                                                        "first_disagreement": {"case": c, "diff": diff},
                                                        "signature": cc.get("sig"), "message": cc.get("msg"),
                                                        "case_record": cc})
            violations.append((path, ""))
        else:
            path = write_replay(prop, seed, "correspondence",
                                {"what": "the Lean model and the implementation disagree; the theorems no longer speak about this code",
                                 "correspondence": "harness sub-command %s vs lean driver %s.Drv" % (prop.lower(), prop),
                                 "n_disagreeing_cases": len(mism), "diff": diff, "case_record": c})
            violations.append((path, " no-failing-input-found"))
    elif not cases and okh:
        path = write_replay(prop, seed, "tie", {"what": "the harness produced no cases", "log": log[-1][-800:] if log else ""})
        violations.append((path, " no-failing-input-found"))

    # evidence ------------------------------------------------------------------------------
    keys = set()
    for c in cases:
        if not c.get("trivial"):
            keys.add((c.get("class", ""), c.get("outcome", "")))
    samples = []
    for c in cases[:3] + cases[-2:]:
        samples.append({"class": c.get("class"), "ops": c.get("ops", [])[:12], "impl": c.get("impl", [])[:12],
                        "outcome": c.get("outcome"), "oracle": c.get("oracle")})
    samples.append({"obligations": names})
    ev = {
        "property_id": prop, "tier": tier, "seed": seed, "level": "proof",
        "coverage": {
            "obligations": len(names), "discharged": len(discharged),
            "checker_cmd": checker,
            "trusted_base": [
                "Lean 4.33.0 kernel" + (" + leanchecker re-check" if tier == "thorough" else ""),
                "axioms used by the audited theorems: subset of propext, Classical.choice, Quot.sound (printed by #print axioms on this run); no native_decide / bv_decide / sorry / own axioms (grep on this run)",
                "hand-written model lean/OnetVerif/Model/%s.lean: tied to /repo only by the correspondence run below" % prop,
                "Go harness harness/cmd/onetharness/%s*.go, python driver bin/verifcheck.py, lean driver Driver/Main.lean" % prop.lower(),
            ] + meta.get("trusted", []),
            "theorems": names,
            "evaluations": len(cases),
            "distinct_nontrivial": len(keys),
            "rule": meta.get("rule", "distinct (generator class, canonical outcome) pairs among the cases run on the implementation; cases flagged trivial by the generator are not counted"),
            "traces_validated_against_impl": compared,
            "model_impl_disagreements": len(mism),
            "oracle_failures": len(fails),
            "known_findings_reproduced": sorted(known_hit.keys()),
            "input_distribution": stats,
            "samples": samples,
            "exhaustive": False,
        },
        "assumptions": meta.get("assumptions", []),
        "wall_s": round(time.time() - t0, 2),
        "violations": len(violations),
    }
    # evidence describes /repo; self-test runs against a scratch worktree must not overwrite it
    evdir = os.path.join(VERIF, "evidence") if os.path.realpath(REPO) == "/repo" else os.path.join(BUILD, "evidence_selftest")
    os.makedirs(evdir, exist_ok=True)
    if not replay:
        with open(os.path.join(evdir, prop + ".json"), "w") as f:
            json.dump(ev, f, indent=1)
    with open(os.path.join(BUILD, "log_%s_%s.txt" % (prop, tier)), "w") as f:
        f.write("\n-----\n".join(log))

    for sig, (k, c) in sorted(known_hit.items()):
        print("KNOWN-FINDING: property=%s %s [%s]" % (prop, k.get("what", ""), sig))
    print("%s %s: %d/%d obligations discharged, %d cases on the implementation, %d compared with the model, "
          "%d disagreements, %d oracle failures, %.1fs" % (prop, tier, len(discharged), len(names), len(cases), compared,
                                                         len(mism), len(fails), time.time() - t0))
    if replay:
        for c, diff in results:
            print(json.dumps({"oracle": c.get("oracle"), "sig": c.get("sig"), "msg": c.get("msg"),
                              "impl": c.get("impl"), "model": c.get("model"), "diff": diff}, indent=1))
    try:
        os.remove(os.path.join(BUILD, "onetharness_%s_%d" % (prop, os.getpid())))
    except OSError:
        pass
    if violations:
        for path, suffix in violations:
            print("VIOLATION property=%s replay=%s%s" % (prop, path, suffix))
        sys.exit(1)
    sys.exit(0)


if __name__ == "__main__":
    main()
