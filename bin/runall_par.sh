#!/bin/bash
# runall_par.sh [tier] [jobs]: every registered check on /repo itself, <jobs> at a time; one line per property
cd "$(dirname "$0")/.." || exit 2
tier=${1:-quick}; jobs=${2:-4}
python3 -c "import json;print('\n'.join(c['property_id'] for c in json.load(open('MANIFEST.json'))['checks']))" |
xargs -P "$jobs" -I{} bash -c 's=$(date +%s); out=$(./check {} '"$tier"' 2>&1); rc=$?; echo "{} rc=$rc $(( $(date +%s) - s ))s | $(echo "$out" | grep -E "^(VIOLATION|C[0-9]+ )" | tr "\n" ";" | cut -c1-300)"'
