module onetverif/harness

go 1.13

require (
	github.com/BurntSushi/toml v0.3.1
	github.com/google/uuid v1.1.2
	github.com/gorilla/websocket v1.4.1
	go.dedis.ch/kyber/v3 v3.0.13
	go.dedis.ch/onet/v3 v3.0.0
	go.dedis.ch/protobuf v1.0.11
	go.etcd.io/bbolt v1.3.4
	golang.org/x/xerrors v0.0.0-20191011141410-1b5146add898
)

replace go.dedis.ch/onet/v3 => /repo
