package main

import (
	"fmt"
	"runtime"
	"strings"
	"sync"
	"sync/atomic"
	"time"

	"go.dedis.ch/kyber/v3/util/key"
	"go.dedis.ch/onet/v3/network"
	"onetverif/harness/fix"
	"onetverif/harness/h"
)

// The router's pause gate (round 7; lean/OnetVerif/Model/C09Pause.lean): Router.Pause / Unpause, the gate in
// handleConn, and Router.Stop, which begins with Unpause.  One op runs a whole script against a real router R
// (in-memory transport) with three peers a, b, c, each with one connection to R, hence three receive loops:
//
//	pausegate <tok>.<tok>. …      P  Router.Pause()        U  Router.Unpause() — nothing is waited for afterwards
//	                              a|b|c  that peer sends a message; waits until R dispatched it ("disp") or the
//	                                     loop stands at the gate ("gate": the message is dropped)
//	                              ha|hb|hc  the peer sends a message and its loop is held right after Receive
//	                                     came back, before it reads r.paused ("held")
//	                              ra|rb|rc  the held loop goes on: "disp" | "gate"
//
// and ends with Router.Stop: "stop=ret" | "stop=hang".  The whole op runs on ONE processor (GOMAXPROCS(1)): a
// goroutine readied last runs first, so `U.P.rb` makes loop b read the channel of the second Pause before the
// loop a that U has woken runs again — the window in which the old code's `r.paused = nil` erased that channel.
// "Stands at the gate" is read off a goroutine census (handleConn itself blocked in a channel receive).

type C10PgMsg struct{ V int64 }

var c10pgType network.MessageTypeID
var c10pgOnce sync.Once

// goroutines of handleConn that are blocked in `<-paused`
func c10atGate() int {
	buf := make([]byte, 1<<20)
	buf = buf[:runtime.Stack(buf, true)]
	n := 0
	for _, g := range strings.Split(string(buf), "\n\n") {
		l := strings.SplitN(g, "\n", 3)
		if len(l) >= 2 && strings.Contains(l[0], "[chan receive") && strings.HasPrefix(l[1], "go.dedis.ch/onet/v3/network.(*Router).handleConn(") {
			n++
		}
	}
	return n
}

func c10pausegate(cs *h.Case, script string) string {
	c10pgOnce.Do(func() { c10pgType = network.RegisterMessage(&C10PgMsg{}) })
	defer runtime.GOMAXPROCS(runtime.GOMAXPROCS(1))
	lm := network.NewLocalManager()
	mk := func(port int) (*network.Router, error) {
		kp := key.NewKeyPair(fix.Suite)
		si := network.NewServerIdentity(kp.Public, network.NewLocalAddress(fmt.Sprintf("127.0.0.1:%d", port)))
		r, err := network.NewLocalRouterWithManager(lm, si, fix.Suite)
		if err == nil {
			r.Quiet = true
		}
		return r, err
	}
	R, err := mk(2900)
	if err != nil {
		cs.Fail("harness", err.Error())
		return "harness-error"
	}
	got := make(chan int64, 64)
	R.RegisterProcessorFunc(c10pgType, func(e *network.Envelope) error { got <- e.Msg.(*C10PgMsg).V; return nil })
	peers := map[string]*network.Router{}
	byAddr := map[network.Address]string{}
	for i, n := range []string{"a", "b", "c"} {
		p, err := mk(2901 + i)
		if err != nil {
			cs.Fail("harness", err.Error())
			return "harness-error"
		}
		p.RegisterProcessorFunc(c10pgType, func(*network.Envelope) error { return nil })
		peers[n] = p
		byAddr[p.ServerIdentity.Address] = n
	}
	all := []*network.Router{R, peers["a"], peers["b"], peers["c"]}
	for _, x := range all {
		go x.Start()
	}
	for _, x := range all {
		for i := 0; i < 5000 && !x.Listening(); i++ {
			time.Sleep(time.Millisecond)
		}
	}
	defer func() {
		for _, n := range []string{"a", "b", "c"} {
			done := make(chan bool)
			go func(p *network.Router) { p.Stop(); close(done) }(peers[n])
			select {
			case <-done:
			case <-time.After(3 * time.Second):
			}
		}
	}()
	// hold[x] != nil: the next time the loop of x's connection comes back from Receive it waits there
	var mu sync.Mutex
	hold := map[string]chan struct{}{}
	heldAt := make(chan string, 8)
	network.VerifSetRouterHook(func(name string, rr *network.Router, c network.Conn) {
		if rr != R || name != "handle:received" || c == nil {
			return
		}
		mu.Lock()
		x := byAddr[c.Remote()]
		ch := hold[x]
		delete(hold, x)
		mu.Unlock()
		if ch != nil {
			heldAt <- x
			<-ch
		}
	})
	defer network.VerifSetRouterHook(nil)
	var seq int64
	send := func(x string) bool {
		_, err := peers[x].Send(R.ServerIdentity, &C10PgMsg{V: atomic.AddInt64(&seq, 1)})
		return err == nil
	}
	for _, x := range []string{"a", "b", "c"} {
		if !send(x) {
			cs.Fail("harness", "a peer cannot reach the router")
			return "harness-error"
		}
		select {
		case <-got:
		case <-time.After(5 * time.Second):
			cs.Fail("harness", "first contact not dispatched")
			return "harness-error"
		}
	}
	paused := false // what the harness itself did last: Pause or Unpause
	underPause := 0 // loops that came back from Receive since the last Pause
	released := map[string]chan struct{}{}
	var out []string
	// a loop that has its message either hands it to the dispatcher or ends up at the gate
	settle := func() string {
		if paused {
			underPause++
		}
		for end := time.Now().Add(4 * time.Second); time.Now().Before(end); {
			// first of all this routine parks: on the one processor the loop readied last (the one just released or
			// just sent to) runs first, then the loops an Unpause has readied — the census below stops the world
			// and must not come before them
			time.Sleep(300 * time.Microsecond)
			select {
			case <-got:
				if paused {
					underPause--
				}
				return "disp"
			default:
			}
			if paused && c10atGate() == underPause {
				return "gate"
			}
		}
		return "lost"
	}
	for _, tok := range strings.Split(script, ".") {
		switch {
		case tok == "P":
			R.Pause()
			if !paused {
				paused, underPause = true, 0
			}
			out = append(out, "ok")
		case tok == "U":
			R.Unpause()
			paused = false
			out = append(out, "ok")
		case tok == "a" || tok == "b" || tok == "c":
			if !send(tok) {
				out = append(out, "send-error")
				break
			}
			out = append(out, settle())
		case len(tok) == 2 && tok[0] == 'h' && peers[tok[1:]] != nil && released[tok[1:]] == nil:
			x := tok[1:]
			ch := make(chan struct{})
			mu.Lock()
			hold[x] = ch
			mu.Unlock()
			released[x] = ch
			if !send(x) {
				out = append(out, "send-error")
				break
			}
			select {
			case <-heldAt:
				out = append(out, "held")
			case <-time.After(4 * time.Second):
				out = append(out, "not-held")
			}
		case len(tok) == 2 && tok[0] == 'r' && released[tok[1:]] != nil:
			close(released[tok[1:]])
			delete(released, tok[1:])
			out = append(out, settle())
		default:
			return "bad-op"
		}
	}
	for _, ch := range released {
		close(ch)
	}
	for _, o := range out {
		if o == "lost" || o == "not-held" || o == "send-error" {
			// a step of the script did not settle within its patience (a swamped machine): what follows says nothing
			// about the gate's semantics; the case is not compared with the model, Stop's return is still judged
			cs.NoModel, cs.Trivial = true, true
		}
	}
	done := make(chan bool)
	go func() { R.Stop(); close(done) }()
	select {
	case <-done:
		out = append(out, "stop=ret")
	case <-time.After(5 * time.Second):
		out = append(out, "stop=hang")
		cs.Fail("hang:stop", fmt.Sprintf("Router.Stop did not return within 5 s after the Pause/Unpause history %s: %d receive loop(s) still wait at the pause gate", script, c10atGate()))
	}
	return strings.Join(out, ",")
}
