package main

import (
	"bufio"
	"bytes"
	"encoding/json"
	"fmt"
	"io/ioutil"
	"os"
	"os/exec"
	"strings"
	"sync"
	"time"

	"onetverif/harness/h"
)

// registerBatched registers a gen/exec harness whose cases share expensive fixtures (a cluster of servers):
// the cases are run in sub-processes, a batch of them one after the other per sub-process. When a sub-process
// dies — the code under test panicked in one of its own goroutines, which no recover of the harness can catch —
// or makes no progress for p.Timeout, the case that was running gets the observation `crash` / `hang` (an oracle
// failure with the panic text), and the rest of its batch goes to a new sub-process. A harness that cannot run
// a case therefore always says so with a concrete failing input; it never ends with "0 cases".
func registerBatched(p h.Prop, batch int) {
	if batch < 1 {
		batch = 1
	}
	// the sub-process side has a sub-command of its own, so that wrappers of the property's sub-command
	// (h.ExtendProp) do not see its list-of-cases file
	h.Register(p.Name+"-batch", func(c *h.Ctx) error { return batchChild(c, &p) })
	h.Register(p.Name, func(c *h.Ctx) error {
		if c.Replay != "" {
			b, err := ioutil.ReadFile(c.Replay)
			if err != nil {
				return err
			}
			var wrap struct {
				Rec *h.Case `json:"case_record"`
			}
			cs := &h.Case{}
			if json.Unmarshal(b, &wrap) == nil && wrap.Rec != nil {
				cs = wrap.Rec
			} else if err := json.Unmarshal(b, cs); err != nil {
				return err
			}
			cs.Impl, cs.Oracle, cs.Sig, cs.Msg = nil, "", "", ""
			for _, r := range runBatch(c, &p, []*h.Case{cs}) {
				c.Emit(r)
			}
			return nil
		}
		workers := p.Workers
		if workers < 1 {
			workers = 1
		}
		ch := make(chan []*h.Case, 4)
		var wg sync.WaitGroup
		for i := 0; i < workers; i++ {
			wg.Add(1)
			go func() {
				defer wg.Done()
				for b := range ch {
					if c.TooManyFails() {
						for range b {
							c.Count("skipped-after-too-many-failures")
						}
						continue
					}
					for _, r := range runBatch(c, &p, b) {
						c.Emit(r)
					}
				}
			}()
		}
		n := 0
		var cur []*h.Case
		p.Gen(c, func(cs *h.Case) {
			n++
			cs.ID = fmt.Sprintf("%d", n)
			cur = append(cur, cs)
			if len(cur) == batch {
				ch <- cur
				cur = nil
			}
		})
		if len(cur) > 0 {
			ch <- cur
		}
		close(ch)
		wg.Wait()
		if n == 0 {
			return fmt.Errorf("the generator of %s produced no case", p.Name)
		}
		return nil
	})
}

// batchChild: the sub-process side. The replay file holds a list of cases; every finished case is written to
// <workdir>/res.jsonl at once, so that the parent knows which case was running when the process died.
func batchChild(c *h.Ctx, p *h.Prop) error {
	b, err := ioutil.ReadFile(c.Replay)
	if err != nil {
		return err
	}
	var cases []*h.Case
	if err := json.Unmarshal(b, &cases); err != nil {
		return err
	}
	f, err := os.Create(c.Workdir + "/res.jsonl")
	if err != nil {
		return err
	}
	defer f.Close()
	for _, cs := range cases {
		func() {
			defer func() {
				if r := recover(); r != nil {
					for len(cs.Impl) < len(cs.Ops) {
						cs.Impl = append(cs.Impl, "panic")
					}
					cs.Fail("panic", fmt.Sprint(r))
				}
			}()
			p.Exec(c, cs)
		}()
		if cs.Oracle == "" {
			cs.Oracle = "ok"
		}
		if cs.Ops == nil {
			cs.Ops = []string{}
		}
		if cs.Impl == nil {
			cs.Impl = []string{}
		}
		line, err := json.Marshal(cs)
		if err != nil {
			return err
		}
		f.Write(append(line, '\n'))
	}
	return nil
}

// runBatch: the parent side; returns one record per case of the batch, in order.
func runBatch(c *h.Ctx, p *h.Prop, cases []*h.Case) []*h.Case {
	var done []*h.Case
	rest := cases
	to := p.Timeout
	if to == 0 {
		to = 60 * time.Second
	}
	for len(rest) > 0 {
		dir, err := ioutil.TempDir(c.Workdir, "batch")
		if err != nil {
			panic(err)
		}
		in := dir + "/in.json"
		b, _ := json.Marshal(rest)
		ioutil.WriteFile(in, b, 0600)
		cmd := exec.Command(os.Args[0], p.Name+"-batch", "replay="+in, "out="+dir+"/out.jsonl",
			fmt.Sprintf("seed=%d", c.Seed), "tier="+c.Tier, "workdir="+dir)
		cmd.Env = append(os.Environ(), "ONETHARNESS_BATCH=1")
		var stderr bytes.Buffer
		cmd.Stderr = &stderr
		cmd.Stdout = &stderr
		if err := cmd.Start(); err != nil {
			panic(err)
		}
		fin := make(chan error, 1)
		go func() { fin <- cmd.Wait() }()
		timedOut := false
		var lastSize int64 = -1
		lastProgress := time.Now()
	wait:
		for {
			select {
			case <-fin:
				break wait
			case <-time.After(100 * time.Millisecond):
				var sz int64
				if st, err := os.Stat(dir + "/res.jsonl"); err == nil {
					sz = st.Size()
				}
				if sz != lastSize {
					lastSize, lastProgress = sz, time.Now()
				} else if time.Since(lastProgress) > to {
					cmd.Process.Kill()
					<-fin
					timedOut = true
					break wait
				}
			}
		}
		got := 0
		if rf, err := os.Open(dir + "/res.jsonl"); err == nil {
			sc := bufio.NewScanner(rf)
			sc.Buffer(make([]byte, 1<<20), 1<<26)
			for sc.Scan() && got < len(rest) {
				var r h.Case
				if json.Unmarshal(sc.Bytes(), &r) != nil || r.Oracle == "" {
					break
				}
				r.ID = rest[got].ID
				rc := r
				done = append(done, &rc)
				got++
			}
			rf.Close()
		}
		os.RemoveAll(dir)
		if got == len(rest) {
			break
		}
		// the sub-process ended (or stood still) inside case `got`
		cs := rest[got]
		tail := stderr.String()
		if i := strings.Index(tail, "panic:"); i >= 0 {
			tail = tail[i:]
		} else if i := strings.Index(tail, "fatal error:"); i >= 0 {
			tail = tail[i:]
		} else if len(tail) > 600 {
			tail = tail[len(tail)-600:]
		}
		if len(tail) > 600 {
			tail = tail[:600]
		}
		what := "crash"
		if timedOut {
			what = "hang"
		}
		cs.Impl = nil
		for range cs.Ops {
			cs.Impl = append(cs.Impl, what)
		}
		cs.Outcome = what
		cs.Oracle = ""
		cs.Fail(what, tail)
		done = append(done, cs)
		rest = rest[got+1:]
		if c.TooManyFails() {
			break
		}
	}
	return done
}
