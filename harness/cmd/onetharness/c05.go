package main

import (
	"fmt"
	"runtime"
	"strconv"
	"strings"
	"sync"
	"time"

	"github.com/google/uuid"
	"go.dedis.ch/onet/v3"
	"go.dedis.ch/onet/v3/network"
	"onetverif/harness/fix"
	"onetverif/harness/h"
)

// C05: handlers of one instance run one at a time in acceptance order; a
// blocked handler delays only its own instance.
//
// script cases: the harness is the only scheduler. Handlers are gated (they
// block until the controller lets them return); `accept i m` hands message m
// to instance i through Overlay.Process (which must return although a handler
// of any instance is blocked), `exit i` lets i's running handler return.
// After each op the observation is what instance i is doing.
//
// storm cases: F feeder goroutines inject concurrently (Go's scheduler decides
// the order), handlers are short; the recorded accept/enter/exit history is
// then replayed on the model (trace validation) — Exec rewrites Ops with the
// observed events, ops[0] keeps the workload so the case can be re-run.

type c05event struct {
	kind string // accept, enter, exit
	inst int
	m    int
}

type c05inst struct {
	rec          *fix.Rec
	to           *onet.Token
	gate         chan struct{}
	entered      int
	exited       int
	accepted     int
	closed       bool
	doneReturned bool
	running      int
	order        []int // accepted, in order
	started      []int
	sendIn       map[int]string // message -> pattern of the send its handler waits in (op sendin)
}

type c05run struct {
	mu     sync.Mutex
	cond   *sync.Cond
	events []c05event
	insts  map[int]*c05inst
	byTok  map[string]int
	gated  bool
	fail   func(sig, msg string)
}

func (r *c05run) prepare(rec *fix.Rec) {
	id := rec.Tni.Token().ID().String()
	r.mu.Lock()
	i, ok := r.byTok[id]
	var in *c05inst
	if ok {
		in = r.insts[i]
		in.rec = rec
	}
	r.mu.Unlock()
	if !ok {
		return
	}
	rec.OnAccept = func(msg *onet.ProtocolMsg) {
		m3, ok := msg.Msg.(*fix.M3)
		if !ok {
			return
		}
		r.mu.Lock()
		r.events = append(r.events, c05event{"accept", i, m3.V})
		if !in.closed {
			in.accepted++
			in.order = append(in.order, m3.V)
		}
		r.cond.Broadcast()
		r.mu.Unlock()
	}
	rec.OnEnter = func(d fix.Delivery) {
		if d.Ty != 3 {
			return
		}
		r.mu.Lock()
		if in.doneReturned && r.gated {
			// scripted cases: Done() was called while the reader was inside a handler or idle with an empty
			// queue, so nothing was in flight — whatever was queued must be dropped
			r.fail("handler-after-done", fmt.Sprintf("instance %d: handler for %d entered after the instance's Done() had returned", i, d.Items[0].V))
		}
		if in.entered > in.exited {
			r.fail("handlers-overlap", fmt.Sprintf("instance %d: handler for %d entered while the handler for %d is still running", i, d.Items[0].V, in.running))
		}
		idx := in.entered
		if idx >= len(in.order) || in.order[idx] != d.Items[0].V {
			r.fail("not-acceptance-order", fmt.Sprintf("instance %d: handler #%d runs message %d, acceptance order is %v", i, idx, d.Items[0].V, in.order))
		}
		in.entered++
		in.running = d.Items[0].V
		in.started = append(in.started, d.Items[0].V)
		r.events = append(r.events, c05event{"enter", i, d.Items[0].V})
		r.cond.Broadcast()
		gate := in.gate
		pattern, inSend := in.sendIn[d.Items[0].V]
		r.mu.Unlock()
		if r.gated && inSend {
			c05sendIn(rec.Tni, d.Items[0].V, pattern, gate)
		} else if r.gated {
			<-gate
		} else if d.Items[0].V%3 == 0 {
			runtime.Gosched()
		} else if d.Items[0].V%7 == 0 {
			time.Sleep(50 * time.Microsecond)
		}
	}
	rec.OnExit = func(d fix.Delivery) {
		if d.Ty != 3 {
			return
		}
		r.mu.Lock()
		in.exited++
		r.events = append(r.events, c05event{"exit", i, d.Items[0].V})
		r.cond.Broadcast()
		r.mu.Unlock()
	}
}

// waitFor waits until pred holds (under r.mu) or the deadline passes.
func (r *c05run) waitFor(d time.Duration, pred func() bool) bool {
	deadline := time.Now().Add(d)
	done := make(chan struct{})
	go func() {
		select {
		case <-done:
		case <-time.After(d):
			r.mu.Lock()
			r.cond.Broadcast()
			r.mu.Unlock()
		}
	}()
	defer close(done)
	r.mu.Lock()
	defer r.mu.Unlock()
	for !pred() {
		if time.Now().After(deadline) {
			return false
		}
		r.cond.Wait()
	}
	return true
}

func c05exec(c *h.Ctx, cs *h.Case) {
	if len(cs.Ops) > 0 && strings.HasPrefix(cs.Ops[0], "c05 cstart ") {
		c05conn(c, cs)
		return
	}
	if len(cs.Ops) > 0 && strings.HasPrefix(cs.Ops[0], "c05 chstart ") {
		c05chan(c, cs)
		return
	}
	if len(cs.Ops) > 0 && strings.HasPrefix(cs.Ops[0], "c05 gstart ") {
		c05agg(c, cs)
		return
	}
	fixMu.Lock() // fix.Prepare is global
	defer fixMu.Unlock()
	f := c04get()
	k := 3
	ct := f.tree(false, k)
	r := &c05run{insts: map[int]*c05inst{}, byTok: map[string]int{}}
	r.cond = sync.NewCond(&r.mu)
	r.fail = func(sig, msg string) { cs.Fail(sig, msg) }
	// three instances, or as many as the ops name (class script-many: dozens of instances on one server)
	nInst := 3
	for _, op := range cs.Ops {
		if tk := strings.Fields(op); len(tk) >= 3 && (tk[1] == "accept" || tk[1] == "sendin" || tk[1] == "self" || tk[1] == "late" || tk[1] == "exit" || tk[1] == "close" || tk[1] == "rereg") {
			if i, err := strconv.Atoi(tk[2]); err == nil && i >= nInst && i < 4096 {
				nInst = i + 1
			}
		}
	}
	for i := 0; i < nInst; i++ {
		tok := fix.TokenFor(ct.t, ct.target, uuid.New())
		r.insts[i] = &c05inst{to: tok, gate: make(chan struct{}, 1000)}
		r.byTok[tok.ID().String()] = i
	}
	fix.Prepare = r.prepare
	defer func() {
		fix.Prepare = nil
		// let every blocked handler go and finish the instances
		r.mu.Lock()
		for _, in := range r.insts {
			for j := 0; j < 1000; j++ {
				select {
				case in.gate <- struct{}{}:
				default:
				}
			}
		}
		r.mu.Unlock()
		for _, in := range r.insts {
			if in.rec != nil && !in.closed {
				in.rec.Tni.Done()
			}
		}
	}()
	inject := func(i, m int) bool {
		in := r.insts[i]
		// feeders: the parent and the three children, by message number
		var from *onet.TreeNode
		if m%4 == 0 {
			from = ct.target.Parent
		} else {
			from = ct.target.Children[m%4-1]
		}
		round := uuid.UUID(in.to.RoundID)
		env, err := fix.Envelope(from.ServerIdentity, fix.TokenFor(ct.t, from, round), in.to, fix.Payload(3, m))
		if err != nil {
			panic(err)
		}
		done := make(chan struct{})
		go func() {
			f.cl.Overlay(ct.srv).Process(env)
			close(done)
		}()
		select {
		case <-done:
			return true
		case <-time.After(10 * time.Second):
			return false
		}
	}
	state := func(i int) string {
		in := r.insts[i]
		r.mu.Lock()
		defer r.mu.Unlock()
		if in.entered > in.exited {
			return fmt.Sprintf("in:%d", in.running)
		}
		return "idle"
	}
	if len(cs.Ops) > 0 && strings.HasPrefix(cs.Ops[0], "c05 storm ") {
		c05storm(c, cs, r, inject)
		return
	}
	r.gated = true
	for _, op := range cs.Ops {
		tk := strings.Fields(op)
		if len(tk) < 3 {
			cs.Impl = append(cs.Impl, "bad-op")
			continue
		}
		if tk[1] == "sleep" {
			// a handler may stay blocked for as long as it likes; meanwhile nothing else of its instance may run
			ms, _ := strconv.Atoi(tk[2])
			time.Sleep(time.Duration(ms) * time.Millisecond)
			cs.Impl = append(cs.Impl, "ok")
			continue
		}
		i, _ := strconv.Atoi(tk[2])
		in := r.insts[i]
		if in == nil {
			cs.Impl = append(cs.Impl, "bad-op")
			continue
		}
		switch tk[1] {
		case "accept", "self", "late", "sendin":
			if tk[1] == "sendin" && (len(tk) != 5 || !c05sendPatterns[tk[4]]) {
				cs.Impl = append(cs.Impl, "bad-op")
				continue
			}
			m, _ := strconv.Atoi(tk[3])
			if tk[1] == "sendin" {
				r.mu.Lock()
				if in.sendIn == nil {
					in.sendIn = map[int]string{}
				}
				in.sendIn[m] = tk[4]
				r.mu.Unlock()
				c.Count("op=sendin " + tk[4])
			}
			r.mu.Lock()
			expectEnter := !in.closed && in.entered == in.exited
			want := in.entered + 1
			r.mu.Unlock()
			handOver := inject
			if tk[1] == "late" {
				// the overlay looked the instance up (TransmitMsg, under instancesLock) just before the instance was
				// closed and calls ProcessProtocolMsg afterwards — nodeDone does not take transmitMux, so this
				// interleaving exists: the message goes straight to the protocol instance
				if in.rec == nil {
					cs.Impl = append(cs.Impl, "no-instance")
					continue
				}
				handOver = func(i, m int) bool {
					from := ct.target.Parent
					pm := &onet.ProtocolMsg{From: fix.TokenFor(ct.t, from, uuid.UUID(in.to.RoundID)), To: in.to,
						ServerIdentity: from.ServerIdentity, Msg: &fix.M3{V: m}, MsgType: network.MessageType(&fix.M3{})}
					done := make(chan struct{})
					go func() { in.rec.Tni.ProtocolInstance().ProcessProtocolMsg(pm); close(done) }()
					select {
					case <-done:
						return true
					case <-time.After(10 * time.Second):
						return false
					}
				}
			}
			if tk[1] == "self" {
				// the instance sends to its own node (from a goroutine of the protocol other than the handler)
				if in.rec == nil {
					cs.Impl = append(cs.Impl, "no-instance")
					continue
				}
				handOver = func(i, m int) bool {
					done := make(chan error, 1)
					go func() { done <- in.rec.Tni.SendTo(in.rec.Tni.TreeNode(), &fix.M3{V: m}) }()
					select {
					case err := <-done:
						if err != nil {
							cs.Fail("self-send-failed", err.Error())
						}
						return true
					case <-time.After(10 * time.Second):
						return false
					}
				}
			}
			if !handOver(i, m) {
				cs.Impl = append(cs.Impl, "hang")
				cs.Fail("handover-blocked", fmt.Sprintf("handing message %d to instance %d did not return within 10 s (a handler is blocked: %s)", m, i, state(i)))
				return
			}
			if expectEnter {
				if !r.waitFor(4*time.Second, func() bool { return in.entered >= want }) {
					cs.Impl = append(cs.Impl, "stuck")
					r.mu.Lock()
					others := 0
					for j, o := range r.insts {
						if j != i && o.entered > o.exited {
							others++
						}
					}
					r.mu.Unlock()
					if others >= 8 {
						// with a few blocked handlers elsewhere this is a lost wake-up of the instance itself; when it
						// only shows with many of them, the blocked handlers hold something the server's other instances need
						cs.Fail("delayed-by-other-instances", fmt.Sprintf("instance %d is idle with message %d queued and never starts its handler while %d other instances of the server sit in handlers that do not return", i, m, others))
					} else {
						cs.Fail("lost-wakeup", fmt.Sprintf("instance %d is idle with message %d queued and never starts its handler", i, m))
					}
					return
				}
			} else {
				time.Sleep(300 * time.Microsecond)
			}
			cs.Impl = append(cs.Impl, state(i))
		case "exit":
			r.mu.Lock()
			running := in.entered > in.exited
			wantExit := in.exited + 1
			more := !in.closed && in.accepted > in.entered
			wantEnter := in.entered + 1
			r.mu.Unlock()
			if !running {
				cs.Impl = append(cs.Impl, "no-handler")
				continue
			}
			in.gate <- struct{}{}
			if !r.waitFor(4*time.Second, func() bool { return in.exited >= wantExit && (!more || in.entered >= wantEnter) }) {
				cs.Impl = append(cs.Impl, "stuck")
				cs.Fail("lost-wakeup", fmt.Sprintf("instance %d: after its handler returned the next queued message is never handled", i))
				return
			}
			if !more {
				time.Sleep(300 * time.Microsecond)
			}
			cs.Impl = append(cs.Impl, state(i))
		case "rereg":
			// the instance the node is bound to is registered once more (a service that registers the instance it
			// hands back from NewProtocol, or calls RegisterProtocolInstance again): refused, and nothing else
			// happens — in particular the instance keeps its one reader (what follows in the case shows it:
			// handlers one at a time, in acceptance order)
			if in.rec == nil {
				cs.Impl = append(cs.Impl, "no-instance")
				continue
			}
			switch err := f.cl.Overlay(ct.srv).RegisterProtocolInstance(in.rec.Tni.ProtocolInstance()); err {
			case nil:
				cs.Impl = append(cs.Impl, "ok")
			case onet.ErrProtocolRegistered:
				cs.Impl = append(cs.Impl, "refused")
			case onet.ErrWrongTreeNodeInstance:
				cs.Impl = append(cs.Impl, "no-node")
			default:
				cs.Impl = append(cs.Impl, "err:other")
			}
		case "close":
			if in.rec == nil {
				cs.Impl = append(cs.Impl, "no-instance")
				continue
			}
			// Done() only closes the dispatch and unlists the instance: it must come back whatever the handlers of
			// the instance are doing (a Done() that ran handlers itself would be a second dispatcher: the enter hook
			// reports the overlap and then waits at the gate, in this routine)
			doneCh := make(chan struct{})
			go func() { in.rec.Tni.Done(); close(doneCh) }()
			select {
			case <-doneCh:
			case <-time.After(5 * time.Second):
				cs.Impl = append(cs.Impl, "hang")
				cs.Fail("done-blocked", fmt.Sprintf("Done() of instance %d did not return within 5 s (%s)", i, state(i)))
				return
			}
			r.mu.Lock()
			in.closed = true
			in.doneReturned = true
			r.mu.Unlock()
			time.Sleep(300 * time.Microsecond)
			cs.Impl = append(cs.Impl, state(i))
		default:
			cs.Impl = append(cs.Impl, "bad-op")
		}
	}
	time.Sleep(2 * time.Millisecond)
	r.mu.Lock()
	blocked := 0
	for _, in := range r.insts {
		if in.entered > in.exited {
			blocked++
		}
	}
	cs.Outcome = fmt.Sprintf("script events=%d blocked-at-end=%d", len(r.events), blocked)
	r.mu.Unlock()
}

func c05storm(c *h.Ctx, cs *h.Case, r *c05run, inject func(i, m int) bool) {
	tk := strings.Fields(cs.Ops[0])
	feeders, _ := strconv.Atoi(tk[2])
	per, _ := strconv.Atoi(tk[3])
	nInst, _ := strconv.Atoi(tk[4])
	var wg sync.WaitGroup
	for fd := 0; fd < feeders; fd++ {
		wg.Add(1)
		go func(fd int) {
			defer wg.Done()
			for j := 0; j < per; j++ {
				m := 1 + fd*per + j
				if !inject(m%nInst, m) {
					cs.Fail("handover-blocked", "hand-over did not return")
					return
				}
			}
		}(fd)
	}
	wg.Wait()
	total := feeders * per
	ok := r.waitFor(20*time.Second, func() bool {
		n := 0
		for _, in := range r.insts {
			n += in.exited
		}
		return n >= total
	})
	r.mu.Lock()
	defer r.mu.Unlock()
	if !ok {
		cs.Fail("not-all-handled", fmt.Sprintf("%d messages accepted, not all handled after 20 s", total))
	}
	ops := []string{cs.Ops[0]}
	impl := []string{"ok"}
	for _, e := range r.events {
		switch e.kind {
		case "accept":
			ops = append(ops, fmt.Sprintf("c05 ev-accept %d %d", e.inst, e.m))
			impl = append(impl, "ok")
		case "enter":
			ops = append(ops, fmt.Sprintf("c05 ev-enter %d", e.inst))
			impl = append(impl, strconv.Itoa(e.m))
		case "exit":
			ops = append(ops, fmt.Sprintf("c05 ev-exit %d", e.inst))
			impl = append(impl, strconv.Itoa(e.m))
		}
	}
	cs.Ops, cs.Impl = ops, impl
	for i, in := range r.insts {
		if fmt.Sprint(in.started) != fmt.Sprint(in.order) {
			cs.Fail("not-acceptance-order", fmt.Sprintf("instance %d handled %v, accepted %v", i, in.started, in.order))
		}
	}
	cs.Outcome = fmt.Sprintf("storm feeders=%d insts=%d", feeders, nInst)
}

func c05gen(c *h.Ctx, yield func(*h.Case)) {
	r := c.Rng
	// corpus: a blocked handler of instance 0 while instances 1 and 2 are fed
	yield(&h.Case{Class: "script-corpus", Ops: []string{
		"c05 accept 0 1", "c05 accept 0 2", "c05 accept 1 3", "c05 accept 1 4", "c05 accept 2 5",
		"c05 exit 1", "c05 exit 1", "c05 accept 0 6", "c05 exit 2", "c05 exit 0", "c05 exit 0", "c05 exit 0", "c05 exit 0"}})
	yield(&h.Case{Class: "script-corpus", Ops: []string{
		"c05 accept 0 1", "c05 close 0", "c05 accept 0 2", "c05 exit 0", "c05 accept 0 3", "c05 accept 1 4", "c05 exit 1"}})
	// the instance sends to its own node while its handler is busy and a backlog exists: one more arrival
	yield(&h.Case{Class: "script-corpus", Ops: []string{
		"c05 accept 0 1", "c05 accept 0 2", "c05 self 0 3", "c05 accept 0 4", "c05 exit 0", "c05 exit 0", "c05 exit 0", "c05 self 0 5", "c05 exit 0", "c05 exit 0"}})
	// the instance declares itself done inside the handler of a message that has others queued behind it
	// (taken from the queue together or not): none of them is handled
	yield(&h.Case{Class: "script-corpus", Ops: []string{
		"c05 accept 0 1", "c05 accept 0 2", "c05 accept 0 3", "c05 accept 0 4", "c05 exit 0", "c05 close 0", "c05 exit 0", "c05 exit 0", "c05 accept 0 5", "c05 accept 1 6", "c05 exit 1"}})
	// a hand-over that was looked up before the instance closed and arrives after: dropped by the instance itself
	yield(&h.Case{Class: "script-corpus", Ops: []string{
		"c05 accept 0 1", "c05 accept 0 2", "c05 close 0", "c05 late 0 3", "c05 exit 0", "c05 late 0 4", "c05 accept 1 5", "c05 late 1 6", "c05 exit 1", "c05 exit 1"}})
	// the instance is registered a second (third) time while its handler is blocked and messages are queued behind it
	yield(&h.Case{Class: "script-corpus", Ops: []string{
		"c05 accept 0 1", "c05 rereg 0", "c05 accept 0 2", "c05 accept 0 3", "c05 rereg 0", "c05 accept 0 4", "c05 exit 0", "c05 exit 0",
		"c05 accept 1 5", "c05 rereg 1", "c05 exit 1", "c05 rereg 1", "c05 accept 1 6", "c05 accept 1 7", "c05 accept 1 8", "c05 exit 0", "c05 exit 0",
		"c05 exit 1", "c05 exit 1", "c05 exit 1", "c05 close 0", "c05 rereg 0", "c05 rereg 2"}})
	// a handler that is slow inside a send to several nodes (the first encoding of the value waits): further
	// messages for the instance are taken and the other instances keep receiving
	for _, p := range []string{"children", "bcast", "multi", "par"} {
		yield(&h.Case{Class: "script-corpus", Ops: []string{
			"c05 sendin 0 1 " + p, "c05 accept 0 2", "c05 accept 1 3", "c05 accept 0 4", "c05 exit 1", "c05 accept 2 5", "c05 exit 0", "c05 exit 0",
			"c05 exit 0", "c05 exit 2"}})
	}
	// a handler that stays blocked for a long time (longer than any plausible internal time limit)
	yield(&h.Case{Class: "script-long-block", Ops: []string{"c05 accept 0 1", "c05 accept 0 2", "c05 accept 1 3", "c05 sleep 10600",
		"c05 accept 0 4", "c05 exit 1", "c05 exit 0", "c05 exit 0", "c05 exit 0"}})
	// a long backlog behind a handler that never returns must not hold back another instance
	{
		ops := []string{"c05 accept 0 1"}
		for m := 2; m <= c.Pick(140, 400); m++ {
			ops = append(ops, fmt.Sprintf("c05 accept 0 %d", m))
		}
		ops = append(ops, "c05 accept 1 1000", "c05 exit 1", "c05 accept 2 1001", "c05 exit 0", "c05 exit 0")
		yield(&h.Case{Class: "script-backlog", Ops: ops})
	}
	// many instances on one server, every one of them inside a handler that does not return: one more
	// instance must still get its messages handled (a blocked handler may not use up anything that the
	// server's other instances need)
	for n := 0; n < c.Pick(3, 12); n++ {
		N := 33 + r.Intn(c.Pick(38, 170))
		if n == 0 {
			N = 33
		}
		var ops []string
		for i := 0; i < N; i++ {
			ops = append(ops, fmt.Sprintf("c05 accept %d %d", i, i+1))
			if r.Intn(4) == 0 {
				ops = append(ops, fmt.Sprintf("c05 accept %d %d", i, 5000+i)) // and a backlog behind some of them
			}
		}
		ops = append(ops, fmt.Sprintf("c05 accept %d 1000", N), fmt.Sprintf("c05 exit %d", N), fmt.Sprintf("c05 accept %d 1001", N),
			fmt.Sprintf("c05 accept %d 1002", N), fmt.Sprintf("c05 exit %d", N), fmt.Sprintf("c05 exit %d", N))
		for j := 0; j < 6; j++ {
			ops = append(ops, fmt.Sprintf("c05 exit %d", r.Intn(N)))
		}
		ops = append(ops, fmt.Sprintf("c05 accept %d 1003", N), fmt.Sprintf("c05 exit %d", N))
		c.Count("class=script-many")
		yield(&h.Case{Class: "script-many", Ops: ops})
	}
	for n := 0; n < c.Pick(100, 2000); n++ {
		cs := &h.Case{Class: "script"}
		m := 0
		running := map[int]bool{}
		queued := map[int]int{}
		closed := map[int]bool{}
		created := map[int]bool{}
		for j := 0; j < 6+r.Intn(30); j++ {
			i := r.Intn(3)
			switch x := r.Intn(10); {
			case x < 5:
				m++
				if created[i] && !closed[i] && r.Intn(4) == 0 {
					cs.Ops = append(cs.Ops, fmt.Sprintf("c05 self %d %d", i, m))
					c.Count("op=self")
				} else if r.Intn(6) == 0 {
					cs.Ops = append(cs.Ops, fmt.Sprintf("c05 sendin %d %d %s", i, m, []string{"children", "par", "bcast", "multi", "parent"}[r.Intn(5)]))
				} else {
					cs.Ops = append(cs.Ops, fmt.Sprintf("c05 accept %d %d", i, m))
				}
				created[i] = true
				if !closed[i] {
					if running[i] {
						queued[i]++
					} else {
						running[i] = true
					}
				}
			case x < 9:
				cs.Ops = append(cs.Ops, fmt.Sprintf("c05 exit %d", i))
				if running[i] {
					if queued[i] > 0 && !closed[i] {
						queued[i]--
					} else {
						running[i] = false
					}
				}
			default:
				if created[i] && r.Intn(3) == 0 {
					cs.Ops = append(cs.Ops, fmt.Sprintf("c05 rereg %d", i))
					c.Count("op=rereg")
				} else if closed[i] && created[i] {
					m++
					cs.Ops = append(cs.Ops, fmt.Sprintf("c05 late %d %d", i, m))
					c.Count("op=late")
				} else if r.Intn(3) == 0 && (running[i] || queued[i] > 0 || created[i]) {
					cs.Ops = append(cs.Ops, fmt.Sprintf("c05 close %d", i))
					closed[i] = true
				}
			}
		}
		c.Count("class=script")
		yield(cs)
	}
	c05connGen(c, yield)
	c05chanGen(c, yield)
	c05aggGen(c, yield)
	for n := 0; n < c.Pick(30, 300); n++ {
		feeders := 1 + r.Intn(8)
		per := 5 + r.Intn(40)
		insts := 1 + r.Intn(3)
		c.Count(fmt.Sprintf("storm feeders=%d", feeders))
		yield(&h.Case{Class: "storm", Ops: []string{fmt.Sprintf("c05 storm %d %d %d", feeders, per, insts)}})
	}
}

func init() {
	h.RegisterProp(h.Prop{Name: "c05", Gen: c05gen, Exec: c05exec})
}
