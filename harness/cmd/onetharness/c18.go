package main

import (
	"bytes"
	"crypto/sha256"
	"encoding/hex"
	"encoding/json"
	"fmt"
	"go.dedis.ch/kyber/v3/util/encoding"
	"io"
	"io/ioutil"
	"math/rand"
	"os"
	"os/exec"
	"path/filepath"
	"reflect"
	"runtime"
	"sort"
	"strconv"
	"strings"
	"sync"
	"sync/atomic"
	"testing/iotest"
	"time"

	"github.com/BurntSushi/toml"
	"github.com/google/uuid"
	"go.dedis.ch/kyber/v3"
	"go.dedis.ch/kyber/v3/suites"
	"go.dedis.ch/onet/v3"
	"go.dedis.ch/onet/v3/app"
	"go.dedis.ch/onet/v3/network"
	"onetverif/harness/h"
)

// C18: configuration files round-trip and always yield the same identities.
// A case is one configuration file (group definition or private configuration):
// its text, the structure the TOML library decodes from it (ops `server` /
// `private`, what the Lean model starts from) and the reads: the file is
// written to disk, parsed n times in this process and once more in a second
// process (this binary re-executed), every parse is dumped canonically, all
// dumps must agree (the property's oracle) and the dump is compared with the
// model. `writeread` saves what was read and reads it again.

var c18suiteNames = []string{"Ed25519", "P256", "Residue512", "bn256.G1", "bn256.G2", "bn256.adapter"}

// service name -> suite ("" = registered without a suite); "ghost*" are never registered
var c18services = [][2]string{
	{"svcEd", "Ed25519"}, {"SvcEd2", "Ed25519"}, {"aaa", "Ed25519"}, {"Zeta", "Ed25519"}, {"zeta", "Ed25519"}, {"ZETA", "Ed25519"}, {"svc-x_1", "Ed25519"},
	{"svcP256", "P256"}, {"svcBn", "bn256.adapter"}, {"svcG1", "bn256.G1"}, {"svcQR", "Residue512"}, {"b", "P256"},
	{"plain", ""},
}

var c18once sync.Once

// c18regMu: the generator registers services while it computes the ops of some cases (whether a key is a point of a
// service's suite is asked of the registry) and takes them away again; cases are executed by another goroutine up to 64
// cases behind. The registry is process-wide, so a case must never run inside such a window.
var c18regMu sync.Mutex

// c18reverse: register the services in the opposite order. The second process does so: which
// services a binary registers first is no part of a configuration file, so the identities read -
// and the roster id - must not depend on it.
var c18reverse bool

func c18setup() {
	c18once.Do(func() {
		order := append([][2]string{}, c18services...)
		if c18reverse {
			for i, j := 0, len(order)-1; i < j; i, j = i+1, j-1 {
				order[i], order[j] = order[j], order[i]
			}
		}
		for _, e := range order {
			var err error
			fn := c16constructor // a service that can be instantiated: ParseCothority builds a real server (op parsecoth)
			if e[1] == "" {
				_, err = onet.RegisterNewService("c18"+e[0], fn)
			} else {
				_, err = onet.RegisterNewServiceWithSuite("c18"+e[0], suites.MustFind(e[1]), fn)
			}
			if err != nil {
				panic(err)
			}
		}
	})
}

func c18hex(s string) string { return h.Hex([]byte(s)) }

// ---------------------------------------------------------------- canonical dumps

func c18mb(m interface{ MarshalBinary() ([]byte, error) }) []byte {
	b, err := m.MarshalBinary()
	if err != nil {
		return []byte("marshal-error")
	}
	return b
}

func c18dump(list []*network.ServerIdentity) (string, []byte) {
	var pre []byte
	var parts []string
	for _, si := range list {
		pub := c18mb(si.Public)
		pre = append(pre, pub...)
		priv := "none"
		if p := si.GetPrivate(); p != nil {
			priv = h.Hex(c18mb(p))
		}
		var svcs []string
		for i := range si.ServiceIdentities {
			sid := &si.ServiceIdentities[i]
			sp := c18mb(sid.Public)
			pre = append(pre, sp...)
			spriv := "-"
			if p := sid.GetPrivate(); p != nil {
				spriv = h.Hex(c18mb(p))
			}
			svcs = append(svcs, fmt.Sprintf("%s:%s:%s:%s", c18hex(sid.Name), c18hex(sid.Suite), h.Hex(sp), spriv))
		}
		sv := "-"
		if len(svcs) > 0 {
			sv = strings.Join(svcs, "/")
		}
		parts = append(parts, fmt.Sprintf("pub=%s,addr=%s,desc=%s,url=%s,priv=%s,svcs=%s", h.Hex(pub), c18hex(string(si.Address)),
			c18hex(si.Description), c18hex(si.URL), priv, sv))
	}
	return "ok " + strings.Join(parts, ";") + " pre=" + h.Hex(pre), pre
}

// c18accessors: the per-service keys of an identity are consumed through ServicePublic / ServicePrivate /
// HasServicePublic / HasServiceKeyPair (network/struct.go): for every service entry the accessors must give that
// entry's keys, for a name without entry the server's own keys. Independent of the model.
func c18accessors(list []*network.ServerIdentity) string {
	for n, si := range list {
		for i := range si.ServiceIdentities {
			sid := &si.ServiceIdentities[i]
			if p := si.ServicePublic(sid.Name); p == nil || !p.Equal(sid.Public) {
				return fmt.Sprintf("server %d: ServicePublic(%q) is not the public key of that service entry", n, sid.Name)
			}
			if !si.HasServicePublic(sid.Name) {
				return fmt.Sprintf("server %d: HasServicePublic(%q) = false for a service entry with a public key", n, sid.Name)
			}
			priv := sid.GetPrivate()
			if got := si.ServicePrivate(sid.Name); (got == nil) != (priv == nil) || (got != nil && !got.Equal(priv)) {
				return fmt.Sprintf("server %d: ServicePrivate(%q) is not the private key of that service entry", n, sid.Name)
			}
			if si.HasServiceKeyPair(sid.Name) != (priv != nil) {
				return fmt.Sprintf("server %d: HasServiceKeyPair(%q) = %v, the entry has a private key: %v", n, sid.Name, si.HasServiceKeyPair(sid.Name), priv != nil)
			}
		}
		const nobody = "c18 no such service"
		if p := si.ServicePublic(nobody); p == nil || !p.Equal(si.Public) || si.HasServicePublic(nobody) || si.HasServiceKeyPair(nobody) {
			return fmt.Sprintf("server %d: a name without service entry does not get the server's own public key", n)
		}
		if got, own := si.ServicePrivate(nobody), si.GetPrivate(); (got == nil) != (own == nil) || (got != nil && !got.Equal(own)) {
			return fmt.Sprintf("server %d: a name without service entry does not get the server's own private key", n)
		}
	}
	return ""
}

// c18accDump: what the four accessors answer for every name, per identity
func c18accDump(list []*network.ServerIdentity, names []string) string {
	var parts []string
	for _, si := range list {
		var l []string
		for _, nme := range names {
			pr := "none"
			if p := si.ServicePrivate(nme); p != nil {
				pr = h.Hex(c18mb(p))
			}
			b := map[bool]string{true: "1", false: "0"}
			l = append(l, fmt.Sprintf("%s:%s:%s:%s", h.Hex(c18mb(si.ServicePublic(nme))), pr, b[si.HasServicePublic(nme)], b[si.HasServiceKeyPair(nme)]))
		}
		parts = append(parts, strings.Join(l, "/"))
	}
	return "ok " + strings.Join(parts, ";")
}

// c18devFull: /dev/full exists and behaves (a write to it fails)
var c18devFullOnce sync.Once
var c18devFullOK bool

func c18devFull() bool {
	c18devFullOnce.Do(func() {
		f, err := os.OpenFile("/dev/full", os.O_WRONLY, 0)
		if err != nil {
			return
		}
		_, werr := f.Write([]byte("x"))
		f.Close()
		c18devFullOK = werr != nil
	})
	return c18devFullOK
}

// c18quoteKey: a TOML key, quoted when it is not a bare key
func c18quoteKey(k string) string {
	for _, ch := range k {
		if !(ch >= 'a' && ch <= 'z' || ch >= 'A' && ch <= 'Z' || ch >= '0' && ch <= '9' || ch == '_' || ch == '-') {
			return c18quote(k)
		}
	}
	return k
}

func c18noteSig(note string) string {
	if strings.HasPrefix(note, "service-key-accessor") {
		return "service-key-accessor"
	}
	return "roster-id-not-from-keys"
}

var c18accessorNote atomic.Value // string: the last complaint of c18accessors on a private configuration

func c18idOfPre(pre []byte) string {
	d := sha256.Sum256(pre)
	return uuid.NewSHA1(uuid.NameSpaceURL, []byte(hex.EncodeToString(d[:]))).String()
}

// c18ensure (re)creates the file if the work directory was swept away by a concurrent run of the
// same check (bin/verifcheck.py clears build/work_C18 when it starts).
func c18ensure(file, text string) {
	if _, err := os.Stat(file); err != nil {
		os.MkdirAll(filepath.Dir(file), 0700)
		ioutil.WriteFile(file, []byte(text), 0600)
	}
}

// c18readGroup parses a group file; dump "err" / "panic" / "ok …"; note = oracle complaint.
func c18readGroup(file string) (dump string, g *app.Group, note string) {
	return c18readGroupVia(file, 0)
}

// c18readerModes: how the bytes of the file reach ReadGroupDescToml (an io.Reader may return fewer bytes than asked
// for, one at a time, or the last bytes together with io.EOF): the identities must not depend on it
var c18readerModes = []string{"file", "one byte per Read", "half of what is asked for per Read", "last bytes together with EOF", "a pipe written table by table"}

func c18readGroupVia(file string, mode int) (dump string, g *app.Group, note string) {
	defer func() {
		if r := recover(); r != nil {
			dump, g = "panic", nil
		}
	}()
	f, err := os.Open(file)
	if err != nil {
		// e.g. descriptors exhausted by files the code under test left open: collect them, try once more
		runtime.GC()
		time.Sleep(50 * time.Millisecond)
		if f, err = os.Open(file); err != nil {
			return "io-error: " + err.Error(), nil, ""
		}
	}
	defer f.Close()
	var rd io.Reader = f
	switch mode {
	case 1:
		rd = iotest.OneByteReader(f)
	case 2:
		rd = iotest.HalfReader(f)
	case 3:
		rd = iotest.DataErrReader(f)
	case 4:
		all, _ := ioutil.ReadAll(f)
		pr, pw := io.Pipe()
		go func() {
			rest := string(all)
			for len(rest) > 0 {
				cut := strings.Index(rest[1:], "[[")
				if cut < 0 {
					cut = len(rest) - 1
				}
				if _, err := pw.Write([]byte(rest[:cut+1])); err != nil {
					break // the reader has gone
				}
				rest = rest[cut+1:]
			}
			pw.Close()
		}()
		defer pr.Close()
		rd = pr
	}
	g, err = app.ReadGroupDescToml(rd)
	if err != nil {
		return "err", nil, ""
	}
	if g.Roster == nil {
		return "ok  pre=-", g, ""
	}
	d, pre := c18dump(g.Roster.List)
	id2, e2 := g.Roster.GetID()
	if want := c18idOfPre(pre); g.Roster.ID.String() != want || e2 != nil || id2.String() != want {
		note = fmt.Sprintf("roster id %s / GetID %s, keys in slice order give %s", g.Roster.ID, id2, want)
	}
	for _, si := range g.Roster.List {
		if g.GetDescription(si) != si.Description {
			note = "Group.Description differs from ServerIdentity.Description"
		}
	}
	if a := c18accessors(g.Roster.List); a != "" && note == "" {
		note = "service-key-accessor: " + a
	}
	return d, g, note
}

func c18readPrivate(file string) (dump string, hc *app.CothorityConfig) {
	defer func() {
		if r := recover(); r != nil {
			dump = "panic"
		}
	}()
	hc, err := app.LoadCothority(file)
	if err != nil {
		return "load-err", nil
	}
	si, err := hc.GetServerIdentity()
	if err != nil {
		return "err", hc
	}
	d, _ := c18dump([]*network.ServerIdentity{si})
	if a := c18accessors([]*network.ServerIdentity{si}); a != "" {
		c18accessorNote.Store(a)
	}
	// the URL of the identity (documented on CothorityConfig): the configured URL; without one, a server that has a
	// WebSocket TLS key announces https://<host>:<port+1>
	want := hc.URL
	if hc.WebSocketTLSCertificateKey != "" && hc.URL == "" {
		if p, err := strconv.Atoi(si.Address.Port()); err == nil {
			want = fmt.Sprintf("https://%s:%d", si.Address.Host(), p+1)
		}
	}
	if si.URL != want {
		c18accessorNote.Store(fmt.Sprintf("url-derivation: URL=%q WebSocketTLSCertificate=%q WebSocketTLSCertificateKey=%q Address=%q give the identity the URL %q, expected %q",
			hc.URL, hc.WebSocketTLSCertificate, hc.WebSocketTLSCertificateKey, hc.Address, si.URL, want))
	}
	return d, hc
}

// ---------------------------------------------------------------- second process

func init() {
	h.Register("c18child", func(c *h.Ctx) error {
		c18reverse = true
		c18setup()
		d := ""
		if strings.HasSuffix(c.Replay, ".private.toml") {
			d, _ = c18readPrivate(c.Replay)
		} else {
			d, _, _ = c18readGroup(c.Replay)
		}
		c.Emit(&h.Case{Class: "child", Impl: []string{d}, Ops: []string{"-"}})
		return nil
	})
}

func c18child(c *h.Ctx, file string) string {
	out := file + ".child.jsonl"
	defer os.Remove(out)
	cmd := exec.Command(os.Args[0], "c18child", "replay="+file, "out="+out)
	// the second process also differs in its scheduling: one processor only
	cmd.Env = append(os.Environ(), "GOMAXPROCS=1")
	var stderr bytes.Buffer
	cmd.Stderr, cmd.Stdout = &stderr, &stderr
	if err := cmd.Run(); err != nil {
		return "child-failed: " + err.Error() + " " + stderr.String()
	}
	b, _ := ioutil.ReadFile(out)
	var rec h.Case
	if json.Unmarshal(bytes.SplitN(b, []byte("\n"), 2)[0], &rec) != nil || len(rec.Impl) != 1 {
		return "child-failed: no record"
	}
	return rec.Impl[0]
}

// ---------------------------------------------------------------- exec

var c18fileSeq int64

type c18svc struct{ name, suite, pub, priv string }

func c18svcOps(m []c18svc, okOf func(service, label, pub string) bool) string {
	if len(m) == 0 {
		return "-"
	}
	sort.Slice(m, func(i, j int) bool { return m[i].name < m[j].name })
	var l []string
	for _, s := range m {
		l = append(l, fmt.Sprintf("%s:%s:%s:%s:%s", c18hex(s.name), c18hex(s.suite), c18hex(s.pub), c18b(okOf(s.name, s.suite, s.pub)), c18hex(s.priv)))
	}
	return strings.Join(l, ",")
}

func c18b(b bool) string {
	if b {
		return "1"
	}
	return "0"
}

// c18pointOK: does kyber accept the first MarshalSize bytes of the hex text as a point of the suite?
func c18pointOK(suiteName, pub string) bool {
	if suiteName == "" {
		suiteName = "Ed25519"
	}
	s, err := suites.Find(suiteName)
	if err != nil {
		return false
	}
	p := s.Point()
	n := p.MarshalSize() * 2
	if len(pub) < n {
		return false
	}
	b, err := hex.DecodeString(pub[:n])
	if err != nil {
		return false
	}
	return p.UnmarshalBinary(b) == nil
}

// c18svcPointOK: is the text a point of the service's suite? For a service that is not registered
// (the reader skips it; the model never looks at the answer) the suite named in the file is taken, so
// that the answer does not depend on when it is asked.
func c18svcPointOK(svc, label, pub string) bool {
	s := onet.ServiceFactory.Suite(svc)
	if s == nil {
		if label == "" {
			return false
		}
		return c18pointOK(label, pub)
	}
	return c18pointOK(s.String(), pub)
}

// c18badList: the key texts of a file that kyber rejects as points of the suite they are used with
// (hex, sorted, "-" for none); false when one text gets both verdicts or the TOML library rejects the text
func c18badList(verdicts map[string]bool, conflict bool) (string, bool) {
	if conflict {
		return "", false
	}
	var l []string
	for t, ok := range verdicts {
		if !ok {
			l = append(l, c18hex(t))
		}
	}
	if len(l) == 0 {
		return "-", true
	}
	sort.Strings(l)
	return strings.Join(l, ","), true
}

// c18ambiguous: the reader refuses the text because two keys differ only in case - then no key text is
// ever looked at (and what the TOML library decodes from such a text changes from call to call)
func c18ambiguous(text string, private bool) (amb bool) {
	defer func() { recover() }()
	var err error
	if private {
		f, e := ioutil.TempFile("", "c18amb")
		if e != nil {
			return false
		}
		f.WriteString(text)
		f.Close()
		defer os.Remove(f.Name())
		_, err = app.LoadCothority(f.Name())
	} else {
		_, err = app.ReadGroupDescToml(strings.NewReader(text))
	}
	return err != nil && strings.Contains(err.Error(), "differ only in case")
}

func c18badGroup(text string) (string, bool) {
	gt := &app.GroupToml{}
	if _, err := toml.Decode(text, gt); err != nil {
		return "-", true // the reader fails before any key is looked at
	}
	if c18ambiguous(text, false) {
		return "-", true
	}
	v := map[string]bool{}
	conflict := false
	note := func(t string, ok bool) {
		if old, seen := v[t]; seen && old != ok {
			conflict = true
		}
		v[t] = ok
	}
	for _, s := range gt.Servers {
		note(s.Public, c18pointOK(s.Suite, s.Public))
		for n, sc := range s.Services {
			note(sc.Public, c18svcPointOK(n, sc.Suite, sc.Public))
		}
	}
	return c18badList(v, conflict)
}

func c18badPrivate(text string) (string, bool) {
	hc := &app.CothorityConfig{}
	if _, err := toml.Decode(text, hc); err != nil {
		return "-", true
	}
	if c18ambiguous(text, true) {
		return "-", true
	}
	v := map[string]bool{}
	conflict := false
	note := func(t string, ok bool) {
		if old, seen := v[t]; seen && old != ok {
			conflict = true
		}
		v[t] = ok
	}
	note(hc.Public, c18pointOK(hc.Suite, hc.Public))
	for n, sc := range hc.Services {
		note(sc.Public, c18svcPointOK(n, sc.Suite, sc.Public))
	}
	return c18badList(v, conflict)
}

// ops describing a decoded group file
func c18groupOps(text string) ([]string, bool) {
	gt := &app.GroupToml{}
	if _, err := toml.Decode(text, gt); err != nil {
		return nil, false
	}
	ops := []string{"c18 text " + c18hex(text)}
	for _, s := range gt.Servers {
		var m []c18svc
		for n, sc := range s.Services {
			m = append(m, c18svc{n, sc.Suite, sc.Public, ""})
		}
		ops = append(ops, fmt.Sprintf("c18 server %s %s %s %s %s %s %s", c18hex(string(s.Address)), c18hex(s.Suite), c18hex(s.Public),
			c18b(c18pointOK(s.Suite, s.Public)), c18hex(s.Description), c18hex(s.URL), c18svcOps(m, c18svcPointOK)))
	}
	return ops, true
}

func c18privateOp(text string, n int, child bool) (string, bool) {
	hc := &app.CothorityConfig{}
	if _, err := toml.Decode(text, hc); err != nil {
		return "", false
	}
	var m []c18svc
	for name, sc := range hc.Services {
		m = append(m, c18svc{name, sc.Suite, sc.Public, sc.Private})
	}
	return fmt.Sprintf("c18 private %s %s %s %s %s %s %s %s %s %d %s", c18hex(hc.Suite), c18hex(hc.Public), c18b(c18pointOK(hc.Suite, hc.Public)),
		c18hex(hc.Private), c18hex(string(hc.Address)), c18hex(hc.Description), c18hex(hc.URL), c18hex(string(hc.WebSocketTLSCertificateKey)),
		c18svcOps(m, c18svcPointOK), n, c18b(child)), true
}

func c18preambleOps() []string {
	var su []string
	types := map[string]int{}
	for _, n := range c18suiteNames {
		s := suites.MustFind(n)
		ty := fmt.Sprintf("%T", s.Point()) // points of different Go types cannot be added (NewRoster's aggregate)
		if _, ok := types[ty]; !ok {
			types[ty] = len(types)
		}
		su = append(su, fmt.Sprintf("%s:%d:%d:%d", c18hex(s.String()), s.Point().MarshalSize(), s.Scalar().MarshalSize(), types[ty]))
	}
	var rg []string
	for _, e := range c18services {
		if e[1] != "" {
			rg = append(rg, c18hex("c18"+e[0])+"="+c18hex(e[1]))
		}
	}
	return []string{"c18 suites " + strings.Join(su, ","), "c18 reg " + strings.Join(rg, ",")}
}

func c18exec(c *h.Ctx, cs *h.Case) {
	c18setup()
	c18regMu.Lock()
	defer c18regMu.Unlock()
	dir := c.Workdir
	if dir == "" {
		dir = os.TempDir()
	}
	pre := c18preambleOps()
	text, haveText := "", false
	var lastHC *app.CothorityConfig // what the last `private` op loaded, and what it read
	lastPrivate := ""
	lastSaved := "" // the file the last `resave` wrote
	defer func() {
		if lastSaved != "" {
			os.Remove(lastSaved)
		}
	}()
	var expect []string // the server ops the text must decode to
	var outs []string
	// registry history: what every text read as last time, and which services were (un)registered since
	lastRead := map[string]string{}
	lastReadAt := map[string]int{}
	var changed []string
	validated := map[string]bool{}
	registryOracle := func(kind, first string) {
		key := kind + text
		if prev, ok := lastRead[key]; ok && prev != first {
			relevant := false
			for _, nme := range changed[lastReadAt[key]:] {
				relevant = relevant || strings.Contains(text, "Services."+nme+"]")
			}
			if !relevant {
				cs.Fail("registry-change-disagree", fmt.Sprintf("the same text reads differently after services it does not mention were registered / unregistered (%v):\n%s\n%s",
					changed[lastReadAt[key]:], prev, first))
			}
		}
		lastRead[key], lastReadAt[key] = first, len(changed)
	}
	newFile := func(suffix string) string {
		return filepath.Join(dir, fmt.Sprintf("c18-%d-%d%s", os.Getpid(), atomic.AddInt64(&c18fileSeq, 1), suffix))
	}
	for _, op := range cs.Ops {
		tk := strings.Fields(op)
		obs := "bad-op"
		switch {
		case len(tk) == 3 && tk[1] == "suites":
			if op == pre[0] {
				obs = "ok"
			}
		case len(tk) == 3 && tk[1] == "reg":
			if op == pre[1] {
				obs = "ok"
			}
		case len(tk) == 4 && tk[1] == "regadd":
			nme, ok := c20unhex(tk[2])
			if !ok || nme == "" {
				break
			}
			fn := c16constructor // a service that can be instantiated: ParseCothority builds a real server (op parsecoth)
			var err error
			if tk[3] == "-" {
				_, err = onet.RegisterNewService(nme, fn)
			} else {
				su, ok := c20unhex(tk[3])
				suite, e2 := suites.Find(su)
				if !ok || e2 != nil || suite.String() != su {
					break
				}
				_, err = onet.RegisterNewServiceWithSuite(nme, suite, fn)
			}
			obs = "ok"
			if err != nil {
				obs = "err"
			}
			changed = append(changed, nme)
		case len(tk) == 3 && tk[1] == "regdel":
			nme, ok := c20unhex(tk[2])
			if !ok || nme == "" {
				break
			}
			obs = "ok"
			if err := onet.UnregisterService(nme); err != nil {
				obs = "err"
			}
			changed = append(changed, nme)
		case len(tk) == 3 && tk[1] == "text":
			if b, ok := c20unhex(tk[2]); ok {
				text, expect, obs, haveText = b, nil, "ok", true
			}
		case len(tk) == 9 && tk[1] == "server":
			expect = append(expect, op)
			obs = "ok"
		case len(tk) == 4 && tk[1] == "readgroup":
			n, _ := strconv.Atoi(tk[2])
			if !validated[text] {
				ops, ok := c18groupOps(text)
				if !ok || strings.Join(ops[1:], "\n") != strings.Join(expect, "\n") || n < 1 {
					obs = "bad-text" // the ops do not describe what the TOML library decodes from the text
					break
				}
				validated[text] = true
			}
			file := newFile(".group.toml")
			c18ensure(file, text)
			first, _, note := c18readGroup(file)
			registryOracle("g", first)
			if note != "" {
				cs.Fail(c18noteSig(note), note)
			}
			if want, ok := c18filePubs(text); ok && strings.HasPrefix(first, "ok ") {
				if got := c18dumpPubs(first); strings.Join(got, ",") != strings.Join(want, ",") {
					cs.Fail("order-vs-file", fmt.Sprintf("the identities are not in the order of the file's servers (%d servers):\nfile  %v\nread  %v", len(want), want, got))
				}
			}
			for i := 1; i < n; i++ {
				c18ensure(file, text)
				// the re-reads take the bytes through readers that deliver them differently (i = 1: one byte per Read,
				// 2: half reads, 3: data together with EOF, 4: the file itself again, ...)
				mode := i % len(c18readerModes)
				if d, _, _ := c18readGroupVia(file, mode); d != first {
					cs.Fail("parses-disagree", fmt.Sprintf("parse %d of the same file (bytes delivered as: %s) differs from parse 1:\n%s\n%s", i+1, c18readerModes[mode], first, d))
					break
				}
			}
			if tk[3] == "1" {
				c18ensure(file, text)
				if d := c18child(c, file); d != first {
					cs.Fail("process-disagree", fmt.Sprintf("a second process (same services, registered in the opposite order) reads the same file differently:\n%s\n%s", first, d))
				}
			}
			os.Remove(file)
			obs = first
			outs = append(outs, "group:"+c18class(first))
		case len(tk) == 4 && tk[1] == "uses":
			// what a consumer does with the roster of a group it has read: rosters made from parts of its list
			// (onet.NewRoster promises a copy), servers added to those (Roster.Concat), a rotation, a subset.
			// The group that was read must still hold the identities of the file afterwards.
			k, err := strconv.Atoi(tk[2])
			su, _ := c20unhex(tk[3])
			suite, serr := suites.Find(su)
			if err != nil || k < 1 || !haveText || serr != nil {
				break
			}
			file := newFile(".group.toml")
			c18ensure(file, text)
			first, g, _ := c18readGroup(file)
			os.Remove(file)
			obs = first
			outs = append(outs, "uses:"+c18class(first))
			if g == nil || g.Roster == nil || len(g.Roster.List) == 0 {
				break
			}
			func() {
				defer func() {
					if r := recover(); r != nil {
						obs = "panic"
					}
				}()
				list := g.Roster.List
				if k > len(list) {
					k = len(list)
				}
				// outsiders with keys of the first server's suite (NewRoster cannot add points of different Go types)
				var outsiders []*network.ServerIdentity
				for i := 0; i < 2; i++ {
					// fresh points (kyber's Clone shares memory for some suites: nothing of the group is touched here)
					pt := suite.Point().Pick(suite.XOF([]byte(fmt.Sprintf("c18 outsider %d", i))))
					outsiders = append(outsiders, network.NewServerIdentity(pt, network.Address(fmt.Sprintf("tls://10.0.0.%d:7770", 98+i))))
				}
				for lo := 0; lo < len(list) && lo < 3; lo++ {
					for hi := lo + 1; hi <= len(list) && hi <= lo+k; hi++ {
						part := onet.NewRoster(list[lo:hi])
						part.Concat(outsiders[0])
						part.Concat(outsiders...)
						onet.NewRoster(part.List[:1]).Concat(outsiders[1], outsiders[0])
					}
				}
				g.Roster.Concat(outsiders[0])
				g.Roster.NewRosterWithRoot(list[k-1])
				g.Roster.RandomSubset(list[0], k)
				after, pre := c18dump(g.Roster.List)
				obs = after
				id2, e2 := g.Roster.GetID()
				switch {
				case after != first:
					cs.Fail("read-result-changed", fmt.Sprintf("the group that was read no longer holds the identities of the file after rosters were made from parts of its list and extended with Concat:\nread   %s\nlater  %s", first, after))
				case e2 != nil || !id2.Equal(g.Roster.ID) || id2.String() != c18idOfPre(pre):
					cs.Fail("read-result-changed", fmt.Sprintf("after the uses Roster.ID is %s, GetID() %s, the keys in slice order give %s", g.Roster.ID, id2, c18idOfPre(pre)))
				}
			}()
		case len(tk) == 4 && tk[1] == "acc":
			// the per-service keys of the identities that were read, asked for by name through ServicePublic /
			// ServicePrivate / HasServicePublic / HasServiceKeyPair (network/struct.go): compared with the model's
			// look-up; the oracle service-key-accessor (c18accessors) runs on every read anyway
			var names []string
			okN := true
			for _, hxn := range strings.Split(tk[3], ",") {
				nme, ok := c20unhex(hxn)
				okN = okN && ok
				names = append(names, nme)
			}
			if !okN {
				break
			}
			var list []*network.ServerIdentity
			switch tk[2] {
			case "g":
				if !haveText {
					break
				}
				file := newFile(".group.toml")
				c18ensure(file, text)
				first, g, _ := c18readGroup(file)
				os.Remove(file)
				obs = first
				if g != nil && g.Roster != nil {
					list = g.Roster.List
				} else if strings.HasPrefix(first, "ok") {
					list = []*network.ServerIdentity{}
				}
			case "p":
				if lastHC == nil {
					break
				}
				func() {
					defer func() {
						if r := recover(); r != nil {
							obs = "panic"
						}
					}()
					si, err := lastHC.GetServerIdentity()
					if err != nil {
						obs = "err"
						return
					}
					list = []*network.ServerIdentity{si}
				}()
			}
			if list != nil {
				obs = c18accDump(list, names)
				outs = append(outs, "acc:ok")
				// the oracle's own look-up: the entry with exactly that name, else the server's own keys
				for n, si := range list {
					for _, nme := range names {
						var entry *network.ServiceIdentity
						for i := range si.ServiceIdentities {
							if si.ServiceIdentities[i].Name == nme && entry == nil {
								entry = &si.ServiceIdentities[i]
							}
						}
						wantPub, wantPriv := si.Public, si.GetPrivate()
						if entry != nil {
							wantPub, wantPriv = entry.Public, entry.GetPrivate()
						}
						gotPriv := si.ServicePrivate(nme)
						switch {
						case !si.ServicePublic(nme).Equal(wantPub):
							cs.Fail("service-key-accessor", fmt.Sprintf("server %d: ServicePublic(%q) = %x, the entry of exactly that name (else the server itself) has %x", n, nme, c18mb(si.ServicePublic(nme)), c18mb(wantPub)))
						case (gotPriv == nil) != (wantPriv == nil) || (gotPriv != nil && !gotPriv.Equal(wantPriv)):
							cs.Fail("service-key-accessor", fmt.Sprintf("server %d: ServicePrivate(%q) is not the private key of the entry of exactly that name (else the server's own)", n, nme))
						case si.HasServicePublic(nme) != (entry != nil) || si.HasServiceKeyPair(nme) != (entry != nil && entry.GetPrivate() != nil):
							cs.Fail("service-key-accessor", fmt.Sprintf("server %d: HasServicePublic(%q) = %v, HasServiceKeyPair = %v; an entry of exactly that name exists: %v", n, nme, si.HasServicePublic(nme), si.HasServiceKeyPair(nme), entry != nil))
						}
					}
				}
			}
		case len(tk) == 4 && tk[1] == "writeread":
			su, _ := c20unhex(tk[2])
			n, _ := strconv.Atoi(tk[3])
			suite, err := suites.Find(su)
			if err != nil || !haveText {
				break
			}
			file := newFile(".group.toml")
			c18ensure(file, text)
			first, g, _ := c18readGroup(file)
			os.Remove(file)
			if g == nil || g.Roster == nil {
				obs = first
				outs = append(outs, "writeread:"+c18class(first))
				break
			}
			file2 := newFile(".group.toml")
			c18prefill(file2, c18histories[int(atomic.LoadInt64(&c18fileSeq))%len(c18histories)], text) // whatever the path held before
			func() {
				defer func() {
					if r := recover(); r != nil {
						obs = "panic"
					}
				}()
				if err := g.Save(suite, file2); err != nil {
					obs = "save-err"
					return
				}
				// a write fault after the file was created: a device without room. Save must say so - a Save that
				// returns nil has written what was saved (checked below on file2)
				if c18devFull() {
					if err := g.Save(suite, "/dev/full"); err == nil {
						cs.Fail("save-error-dropped", "Group.Save to /dev/full (every write fails with ENOSPC) returned nil: a failed or partial write of a group definition is reported as success")
					}
				}
				second, g2, note := c18readGroup(file2)
				if strings.HasPrefix(second, "io-error") {
					// work directory swept by a concurrent run of this check: save and read once more
					os.MkdirAll(filepath.Dir(file2), 0700)
					if err := g.Save(suite, file2); err == nil {
						second, g2, note = c18readGroup(file2)
					}
				}
				obs = second
				if note != "" {
					cs.Fail(c18noteSig(note), note)
				}
				for i := 1; i < n; i++ {
					if d, _, _ := c18readGroup(file2); d != second {
						cs.Fail("parses-disagree", "re-reading the written group gives different identities")
						break
					}
				}
				// oracle: same identities (an empty description becomes the placeholder), same roster id
				if g2 != nil && g2.Roster != nil && c18sameSuites(text, suite.String()) {
					if !g2.Roster.ID.Equal(g.Roster.ID) {
						cs.Fail("write-read-roster-id", fmt.Sprintf("roster id %s before, %s after write and read", g.Roster.ID, g2.Roster.ID))
					} else if strings.Replace(first, "desc=-,", "desc="+c18hex("Description of your server")+",", -1) != second {
						cs.Fail("write-read-differs", fmt.Sprintf("identities differ after write and read:\n%s\n%s", first, second))
					}
				} else if c18sameSuites(text, suite.String()) {
					cs.Fail("write-read-differs", "a group that was read cannot be read again after writing it: "+second)
				}
			}()
			os.Remove(file2)
			outs = append(outs, "writeread:"+c18class(obs))
		case len(tk) == 13 && tk[1] == "private":
			n, _ := strconv.Atoi(tk[11])
			if !validated["p"+text] {
				want, ok := c18privateOp(text, n, tk[12] == "1")
				if !ok || want != op || n < 1 {
					obs = "bad-text"
					break
				}
				validated["p"+text] = true
			}
			file := newFile(".private.toml")
			c18ensure(file, text)
			c18accessorNote.Store("")
			first, hc := c18readPrivate(file)
			if a, _ := c18accessorNote.Load().(string); strings.HasPrefix(a, "url-derivation") {
				cs.Fail("url-derivation", a)
			} else if a != "" {
				cs.Fail("service-key-accessor", a)
			}
			registryOracle("p", first)
			for i := 1; i < n; i++ {
				c18ensure(file, text)
				if d, _ := c18readPrivate(file); d != first {
					cs.Fail("parses-disagree", fmt.Sprintf("parse %d of the same private configuration differs:\n%s\n%s", i+1, first, d))
					break
				}
			}
			if tk[12] == "1" {
				c18ensure(file, text)
				if d := c18child(c, file); d != first {
					cs.Fail("process-disagree", fmt.Sprintf("a second process (same services, registered in the opposite order) reads the same private configuration differently:\n%s\n%s", first, d))
				}
			}
			os.Remove(file)
			if hc != nil && first != "panic" {
				file2 := newFile(".private.toml")
				os.MkdirAll(filepath.Dir(file2), 0700)
				if c18devFull() {
					if err := hc.Save("/dev/full"); err == nil {
						cs.Fail("save-error-dropped", "CothorityConfig.Save to /dev/full (every write fails with ENOSPC) returned nil")
					}
				}
				if err := hc.Save(file2); err != nil {
					cs.Fail("write-read-differs", "saving the private configuration failed: "+err.Error())
				} else if d, _ := c18readPrivate(file2); d != first {
					cs.Fail("write-read-differs", fmt.Sprintf("private configuration differs after write and read:\n%s\n%s", first, d))
				}
				os.Remove(file2)
			}
			obs = first
			lastHC, lastPrivate = hc, first
			outs = append(outs, "private:"+c18class(first))
		case len(tk) == 2 && tk[1] == "parsecoth":
			// app.ParseCothority on the text of the last `private` op: LoadCothority + suites.Find + GetServerIdentity,
			// then a real server (listener on 127.0.0.1:0, database below the work directory) is built for that
			// identity. The identity the server runs with must be the one GetServerIdentity gave.
			if lastHC == nil || !haveText {
				break
			}
			if !strings.Contains(text, "127.0.0.1:0\"") || (lastHC.WebSocketTLSCertificate != "" && lastHC.WebSocketTLSCertificateKey != "") {
				obs = "bad-text" // the listener must be able to bind; certificates are not generated
				break
			}
			// a service registered with a suite needs its key pair in the configuration: the server exits otherwise
			// (log.Fatal in newServiceManager) - predicted here, never run
			if si0, err := lastHC.GetServerIdentity(); err == nil {
				missing := ""
				for _, nme := range onet.ServiceFactory.RegisteredServiceNames() {
					if onet.ServiceFactory.Suite(nme) != nil && !si0.HasServiceKeyPair(nme) {
						missing = nme
					}
				}
				if missing != "" {
					obs = "fatal"
					outs = append(outs, "parsecoth:fatal")
					break
				}
			}
			file := newFile(".private.toml")
			c18ensure(file, text)
			dbdir := filepath.Join(dir, fmt.Sprintf("c18db-%d", os.Getpid()))
			os.MkdirAll(dbdir, 0700)
			os.Setenv("CONODE_SERVICE_PATH", dbdir)
			func() {
				defer func() {
					if r := recover(); r != nil {
						obs = "panic"
						c.Count("parsecoth panic: " + strings.SplitN(fmt.Sprint(r), "\n", 2)[0])
					}
				}()
				hc2, srv, err := app.ParseCothority(file)
				if err != nil {
					obs = "err"
					if srv != nil {
						srv.Close()
					}
					return
				}
				d, _ := c18dump([]*network.ServerIdentity{srv.ServerIdentity})
				obs = d
				si2, err2 := hc2.GetServerIdentity()
				srv.Close()
				switch {
				case d != lastPrivate:
					cs.Fail("parsecothority-differs", fmt.Sprintf("the server ParseCothority builds runs with another identity than LoadCothority + GetServerIdentity give for the same file:\n%s\n%s", lastPrivate, d))
				case err2 != nil:
					cs.Fail("parsecothority-differs", "the configuration ParseCothority returns cannot be converted again: "+err2.Error())
				default:
					if d2, _ := c18dump([]*network.ServerIdentity{si2}); d2 != d {
						cs.Fail("parsecothority-differs", fmt.Sprintf("the configuration ParseCothority returns converts to another identity than the server's:\n%s\n%s", d, d2))
					}
				}
			}()
			os.Remove(file)
			os.RemoveAll(dbdir)
			outs = append(outs, "parsecoth:"+c18class(obs))
		case len(tk) == 4 && tk[1] == "resave":
			// file-system history: the path already holds something (history), the configuration that
			// was loaded is saved there, the file is read n times. The file after Save is the saved
			// configuration, whatever was there before.
			n, _ := strconv.Atoi(tk[3])
			known := false
			for _, hh := range c18histories {
				known = known || hh == tk[2]
			}
			if lastHC == nil || !known || n < 1 {
				break
			}
			file2 := newFile(".private.toml")
			c18prefill(file2, tk[2], text)
			if err := lastHC.Save(file2); err != nil {
				obs = "save-err"
				cs.Fail("save-over-existing", "saving the private configuration failed: "+err.Error())
				os.Remove(file2)
				break
			}
			// oracle: what Save writes after the configuration was loaded and looked at is what was loaded -
			// every field and every service table, whether or not its service is registered in this process
			if content, err := ioutil.ReadFile(file2); err == nil {
				orig, saved := &app.CothorityConfig{}, &app.CothorityConfig{}
				_, e1 := toml.Decode(text, orig)
				_, e2 := toml.Decode(string(content), saved)
				if orig.Suite == "" {
					orig.Suite = "Ed25519"
				}
				if e1 == nil && (e2 != nil || !reflect.DeepEqual(orig, saved)) {
					cs.Fail("save-loses-content", fmt.Sprintf("the configuration saved after a read is not the configuration that was loaded (%v):\nloaded %+v\nsaved  %+v", e2, *orig, *saved))
				}
			}
			second, _ := c18readPrivate(file2)
			if strings.HasPrefix(second, "io-error") || second == "load-err" {
				if _, err := os.Stat(file2); err != nil { // work directory swept by a concurrent run
					c18prefill(file2, tk[2], text)
					lastHC.Save(file2)
					second, _ = c18readPrivate(file2)
				}
			}
			for i := 1; i < n; i++ {
				if d, _ := c18readPrivate(file2); d != second {
					cs.Fail("parses-disagree", fmt.Sprintf("read %d of the saved private configuration differs from read 1:\n%s\n%s", i+1, second, d))
					break
				}
			}
			if second != lastPrivate {
				content, _ := ioutil.ReadFile(file2)
				tail := string(content)
				if len(tail) > 300 {
					tail = "…" + tail[len(tail)-300:]
				}
				cs.Fail("save-over-existing", fmt.Sprintf("a configuration saved to a path that held %q content reads back differently:\nloaded %s\nreread %s\nend of the file: %q", tk[2], lastPrivate, second, tail))
			}
			if lastSaved != "" {
				os.Remove(lastSaved)
			}
			lastSaved = file2 // kept for `reload`
			obs = second
			outs = append(outs, "resave-"+tk[2]+":"+c18class(second))
		case len(tk) == 5 && (tk[1] == "readtext" || tk[1] == "readprivtext"):
			// the model reads the text itself: nothing but the text, the number of reads and the verdicts on
			// the key texts is passed
			n, _ := strconv.Atoi(tk[2])
			priv := tk[1] == "readprivtext"
			var bad string
			var ok bool
			if priv {
				bad, ok = c18badPrivate(text)
			} else {
				bad, ok = c18badGroup(text)
			}
			if !haveText || n < 1 || (tk[3] != "0" && tk[3] != "1") {
				break
			}
			if !ok || bad != tk[4] {
				obs = "bad-text"
				break
			}
			suffix := ".group.toml"
			if priv {
				suffix = ".private.toml"
			}
			file := newFile(suffix)
			read := func() string {
				c18ensure(file, text)
				if priv {
					d, _ := c18readPrivate(file)
					return d
				}
				d, _, note := c18readGroup(file)
				if note != "" {
					cs.Fail(c18noteSig(note), note)
				}
				return d
			}
			first := read()
			if priv {
				registryOracle("p", first)
			} else {
				registryOracle("g", first)
			}
			for i := 1; i < n; i++ {
				if d := read(); d != first {
					cs.Fail("parses-disagree", fmt.Sprintf("parse %d of the same file differs from parse 1:\n%s\n%s", i+1, first, d))
					break
				}
			}
			if tk[3] == "1" {
				c18ensure(file, text)
				if d := c18child(c, file); d != first {
					cs.Fail("process-disagree", fmt.Sprintf("a second process (same services, registered in the opposite order) reads the same file differently:\n%s\n%s", first, d))
				}
			}
			os.Remove(file)
			obs = first
			outs = append(outs, tk[1]+":"+c18class(first))
		case len(tk) == 4 && tk[1] == "writetext":
			// read the group, write it with Group.Toml(suite) / GroupToml.String, read what was written:
			// the emitted text is compared byte for byte with the model's
			su, _ := c20unhex(tk[2])
			suite, err := suites.Find(su)
			bad, ok := c18badGroup(text)
			if err != nil || suite.String() != su || !haveText {
				break
			}
			if !ok || bad != tk[3] {
				obs = "bad-text"
				break
			}
			file := newFile(".group.toml")
			c18ensure(file, text)
			first, g, _ := c18readGroup(file)
			os.Remove(file)
			if g == nil || g.Roster == nil {
				obs = first
				outs = append(outs, "writetext:"+c18class(first))
				break
			}
			func() {
				defer func() {
					if r := recover(); r != nil {
						obs = "panic"
					}
				}()
				gt, err := g.Toml(suite)
				if err != nil {
					obs = "save-err"
					return
				}
				written := gt.String()
				file2 := newFile(".group.toml")
				c18ensure(file2, written)
				second, g2, note := c18readGroup(file2)
				if strings.HasPrefix(second, "io-error") {
					c18ensure(file2, written)
					second, g2, note = c18readGroup(file2)
				}
				os.Remove(file2)
				obs = "text=" + c18hex(written) + " " + second
				if note != "" {
					cs.Fail(c18noteSig(note), note)
				}
				// oracle: same identities (an empty description becomes the placeholder), same roster id -
				// for service names the writer can quote (no backslash: `Key.maybeQuoted` escapes only `"`)
				if !c18sameSuites(text, suite.String()) || c18anyServiceNameHas(g, "\\") {
					return
				}
				if g2 == nil || g2.Roster == nil {
					cs.Fail("write-read-differs", "a group that was read cannot be read again after writing it: "+second+"\n"+written)
				} else if !g2.Roster.ID.Equal(g.Roster.ID) {
					cs.Fail("write-read-roster-id", fmt.Sprintf("roster id %s before, %s after write and read\n%s", g.Roster.ID, g2.Roster.ID, written))
				} else if strings.Replace(first, "desc=-,", "desc="+c18hex("Description of your server")+",", -1) != second {
					cs.Fail("write-read-differs", fmt.Sprintf("identities differ after write and read:\n%s\n%s\n%s", first, second, written))
				}
			}()
			outs = append(outs, "writetext:"+c18class(obs[strings.Index(obs, " ")+1:]))
		case len(tk) == 3 && tk[1] == "savetext":
			// LoadCothority, then CothorityConfig.Save: the bytes written and what they read as
			bad, ok := c18badPrivate(text)
			if !haveText {
				break
			}
			if !ok || bad != tk[2] {
				obs = "bad-text"
				break
			}
			file := newFile(".private.toml")
			c18ensure(file, text)
			hc, err := app.LoadCothority(file)
			before, _ := c18readPrivate(file)
			os.Remove(file)
			if err != nil {
				obs = "err"
				break
			}
			file2 := newFile(".private.toml")
			os.MkdirAll(filepath.Dir(file2), 0700)
			if err := hc.Save(file2); err != nil {
				os.MkdirAll(filepath.Dir(file2), 0700)
				err = hc.Save(file2)
				if err != nil {
					obs = "save-err"
					cs.Fail("write-read-differs", "saving the private configuration failed: "+err.Error())
					break
				}
			}
			written, _ := ioutil.ReadFile(file2)
			second, _ := c18readPrivate(file2)
			if second == "load-err" {
				if _, err := os.Stat(file2); err != nil { // work directory swept by a concurrent run
					ioutil.WriteFile(file2, written, 0600)
					second, _ = c18readPrivate(file2)
				}
			}
			os.Remove(file2)
			obs = "text=" + c18hex(string(written)) + " " + second
			if second != before {
				cs.Fail("write-read-differs", fmt.Sprintf("private configuration differs after write and read:\n%s\n%s\n%s", before, second, written))
			}
			outs = append(outs, "savetext:"+c18class(second))
		case len(tk) == 3 && tk[1] == "pubtext":
			// what a server publishes about itself: the private configuration is loaded, NewServerToml /
			// NewGroupToml / String make the group definition (and the single-server snippet) from it; the
			// group definition must read as the public half of the identity the private one gives
			bad, ok := c18badPrivate(text)
			if !haveText {
				break
			}
			if !ok || bad != tk[2] {
				obs = "bad-text"
				break
			}
			file := newFile(".private.toml")
			c18ensure(file, text)
			hc, err := app.LoadCothority(file)
			os.Remove(file)
			if err != nil {
				obs = "load-err"
				break
			}
			func() {
				defer func() {
					if r := recover(); r != nil {
						obs = "panic"
					}
				}()
				si, err := hc.GetServerIdentity()
				if err != nil {
					obs = "err"
					return
				}
				suite, err := suites.Find(hc.Suite)
				if err != nil {
					obs = "err"
					return
				}
				before := fmt.Sprint(hc.Services)
				written := app.NewGroupToml(app.NewServerToml(suite, si.Public, hc.Address, hc.Description, hc.Services)).String()
				single := app.NewServerToml(suite, si.Public, hc.Address, hc.Description, hc.Services).String()
				if fmt.Sprint(hc.Services) != before {
					cs.Fail("save-loses-content", "NewServerToml changed the service entries of the loaded configuration")
				}
				file2 := newFile(".group.toml")
				c18ensure(file2, written)
				second, g2, note := c18readGroup(file2)
				if strings.HasPrefix(second, "io-error") {
					c18ensure(file2, written)
					second, g2, note = c18readGroup(file2)
				}
				os.Remove(file2)
				obs = "text=" + c18hex(written) + " single=" + c18hex(single) + " " + second
				if note != "" {
					cs.Fail(c18noteSig(note), note)
				}
				// oracle: the published identity is the public half of the private one
				if g2 == nil || g2.Roster == nil || len(g2.Roster.List) != 1 {
					cs.Fail("public-vs-private", "the group definition made from a private configuration does not read as one server: "+second+"\n"+written)
					return
				}
				pub := g2.Roster.List[0]
				wantDesc := hc.Description
				if wantDesc == "" {
					wantDesc = "Description of your server"
				}
				same := pub.Public.Equal(si.Public) && pub.Address == si.Address && pub.Description == wantDesc
				// every service key pair of the private identity is published; a published key the private
				// identity lacks is one whose private half in the file is no scalar (the group file has no
				// private halves, so its reader has nothing to stumble over)
				j := 0
				for _, a := range pub.ServiceIdentities {
					if j < len(si.ServiceIdentities) && a.Name == si.ServiceIdentities[j].Name {
						b := si.ServiceIdentities[j]
						same = same && a.Suite == b.Suite && a.Public.Equal(b.Public)
						j++
						continue
					}
					sc, ok := hc.Services[a.Name]
					ssuite := onet.ServiceFactory.Suite(a.Name)
					if !ok || ssuite == nil {
						same = false
						continue
					}
					if _, err := encoding.StringHexToScalar(ssuite, sc.Private); err == nil && sc.Private != "" {
						same = false
					}
				}
				same = same && j == len(si.ServiceIdentities)
				if !same {
					d1, _ := c18dump([]*network.ServerIdentity{si})
					cs.Fail("public-vs-private", fmt.Sprintf("the group definition made from a private configuration reads as another identity:\nprivate %s\npublic  %s\n%s", d1, second, written))
				}
			}()
			outs = append(outs, "pubtext:"+c18class(obs[strings.LastIndex(obs, " ")+1:]))
		case len(tk) == 3 && tk[1] == "rostertoml":
			// the roster of the group goes through Roster.Toml / WriteTomlConfig / ReadTomlConfig / RosterToml.Roster
			bad, ok := c18badGroup(text)
			if !haveText {
				break
			}
			if !ok || bad != tk[2] {
				obs = "bad-text"
				break
			}
			file := newFile(".group.toml")
			c18ensure(file, text)
			first, g, _ := c18readGroup(file)
			os.Remove(file)
			if g == nil || g.Roster == nil {
				obs = first
				break
			}
			func() {
				defer func() {
					if r := recover(); r != nil {
						obs = "panic"
					}
				}()
				gt := &app.GroupToml{}
				toml.Decode(text, gt)
				label := "Ed25519"
				if len(gt.Servers) > 0 && gt.Servers[0].Suite != "" {
					label = gt.Servers[0].Suite
				}
				suite, err := suites.Find(label)
				if err != nil {
					return
				}
				file2 := newFile(".roster.toml")
				os.MkdirAll(filepath.Dir(file2), 0700)
				onet.WriteTomlConfig(g.Roster.Toml(suite), filepath.Base(file2), filepath.Dir(file2))
				rt := &onet.RosterToml{}
				if err := onet.ReadTomlConfig(rt, filepath.Base(file2), filepath.Dir(file2)); err != nil {
					os.MkdirAll(filepath.Dir(file2), 0700) // swept by a concurrent run: once more
					onet.WriteTomlConfig(g.Roster.Toml(suite), filepath.Base(file2), filepath.Dir(file2))
					err = onet.ReadTomlConfig(rt, filepath.Base(file2), filepath.Dir(file2))
					if err != nil {
						obs = "io-error"
						return
					}
				}
				os.Remove(file2)
				ro2 := rt.Roster(suite)
				d, _ := c18dump(ro2.List)
				obs = d
				if !ro2.ID.Equal(g.Roster.ID) {
					cs.Fail("roster-toml-differs", fmt.Sprintf("the roster id changed on the way through its TOML form: %s / %s", g.Roster.ID, ro2.ID))
				}
				if len(ro2.List) != len(g.Roster.List) {
					cs.Fail("roster-toml-differs", "number of servers changed on the way through the roster's TOML form")
					return
				}
				for i, si := range ro2.List {
					if si.Public == nil || !si.Public.Equal(g.Roster.List[i].Public) || si.Address != g.Roster.List[i].Address {
						cs.Fail("roster-toml-differs", fmt.Sprintf("server %d: key or address changed on the way through the roster's TOML form", i))
					}
				}
			}()
			outs = append(outs, "rostertoml:"+c18class(obs))
		case len(tk) == 3 && tk[1] == "reload":
			// the file written by the last resave, read again - possibly by a process (here: a registry)
			// that knows services the saving one did not
			n, _ := strconv.Atoi(tk[2])
			if lastSaved == "" || lastHC == nil || n < 1 {
				break
			}
			if _, err := os.Stat(lastSaved); err != nil { // work directory swept by a concurrent run
				os.MkdirAll(filepath.Dir(lastSaved), 0700)
				lastHC.Save(lastSaved)
			}
			first, _ := c18readPrivate(lastSaved)
			for i := 1; i < n; i++ {
				if d, _ := c18readPrivate(lastSaved); d != first {
					cs.Fail("parses-disagree", fmt.Sprintf("read %d of the saved private configuration differs from read 1:\n%s\n%s", i+1, first, d))
					break
				}
			}
			obs = first
			outs = append(outs, "reload:"+c18class(first))
		}
		cs.Impl = append(cs.Impl, obs)
	}
	cs.Outcome = strings.Join(outs, ",")
}

func c18anyServiceNameHas(g *app.Group, sub string) bool {
	for _, si := range g.Roster.List {
		for _, sid := range si.ServiceIdentities {
			if strings.Contains(sid.Name, sub) {
				return true
			}
		}
	}
	return false
}

// c18filePubs: the servers' public keys in the order of the file (lower-case hex of the bytes read)
func c18filePubs(text string) ([]string, bool) {
	gt := &app.GroupToml{}
	if _, err := toml.Decode(text, gt); err != nil {
		return nil, false
	}
	var l []string
	for _, s := range gt.Servers {
		n := s.Suite
		if n == "" {
			n = "Ed25519"
		}
		su, err := suites.Find(n)
		if err != nil || len(s.Public) < 2*su.Point().MarshalSize() {
			return nil, false
		}
		l = append(l, strings.ToLower(s.Public[:2*su.Point().MarshalSize()]))
	}
	return l, true
}

// c18dumpPubs: the public keys of the identities of a dump, in list order
func c18dumpPubs(d string) []string {
	var l []string
	if !strings.HasPrefix(d, "ok ") {
		return nil
	}
	body := strings.TrimPrefix(d, "ok ")
	if i := strings.LastIndex(body, " pre="); i >= 0 {
		body = body[:i]
	}
	for _, p := range strings.Split(body, ";") {
		if strings.HasPrefix(p, "pub=") {
			l = append(l, strings.SplitN(strings.TrimPrefix(p, "pub="), ",", 2)[0])
		}
	}
	return l
}

// c18prefill writes what the path held before the code under test saves to it
func c18prefill(file, history, text string) {
	os.MkdirAll(filepath.Dir(file), 0700)
	switch history {
	case "fresh":
		os.Remove(file)
	case "shorter":
		ioutil.WriteFile(file, []byte("x = 1\n"), 0600)
	case "garbage":
		ioutil.WriteFile(file, []byte(text+"\n"+strings.Repeat(strings.Repeat("x", 60)+"\n", 160)), 0600)
	case "keys":
		ioutil.WriteFile(file, []byte(text+"\n"+strings.Repeat("description = \"left over\"\npublic = \"00\"\n", 200)), 0600)
	case "inplace":
		ioutil.WriteFile(file, []byte(text), 0600)
	}
}

var c18histories = []string{"fresh", "shorter", "garbage", "keys", "inplace"}

// c18sameSuites: every server of the group file uses the given suite (premise of the write/read claim)
func c18sameSuites(text, suite string) bool {
	gt := &app.GroupToml{}
	if _, err := toml.Decode(text, gt); err != nil {
		return false
	}
	for _, s := range gt.Servers {
		n := s.Suite
		if n == "" {
			n = "Ed25519"
		}
		f, err := suites.Find(n)
		if err != nil || f.String() != suite {
			return false
		}
	}
	return true
}

func c18class(d string) string {
	if !strings.HasPrefix(d, "ok ") {
		return d
	}
	servers := strings.Count(d, "pub=")
	svcs := 0
	for _, p := range strings.Split(d, "svcs=")[1:] {
		f := strings.FieldsFunc(p, func(r rune) bool { return r == ';' || r == ' ' })
		if len(f) > 0 && f[0] != "-" {
			svcs += strings.Count(f[0], "/") + 1
		}
	}
	return fmt.Sprintf("ok/%dsrv/%dsvc", servers, svcs)
}

// ---------------------------------------------------------------- generator

type c18rngStream struct{ r *rand.Rand }

func (s c18rngStream) XORKeyStream(dst, src []byte) {
	for i := range src {
		dst[i] = src[i] ^ byte(s.r.Intn(256))
	}
}

type c18key struct{ pub, priv string }

type c18genT struct {
	c    *h.Ctx
	r    *rand.Rand
	keys map[string][]c18key
	// big groups: number of servers (0 = 0..4) and clean entries only
	forceN int
}

func (g *c18genT) pick(l ...string) string { return l[g.r.Intn(len(l))] }

func (g *c18genT) key(suite string) c18key {
	if g.keys == nil {
		g.keys = map[string][]c18key{}
	}
	if len(g.keys[suite]) < 10 {
		s := suites.MustFind(suite)
		var priv kyber.Scalar = s.Scalar().Pick(c18rngStream{g.r})
		pub := s.Point().Mul(priv, nil)
		k := c18key{hex.EncodeToString(c18mb(pub)), hex.EncodeToString(c18mb(priv))}
		g.keys[suite] = append(g.keys[suite], k)
		return k
	}
	return g.keys[suite][g.r.Intn(len(g.keys[suite]))]
}

// mangle returns a key text that is sometimes malformed in one of the ways the hex reader can see
// (scalars: only ways that leave a canonical scalar or an unreadable text; kyber reduces
// out-of-range scalars, which the model does not describe)
func (g *c18genT) mangle(s string, p int, scalar bool) (string, string) {
	if g.r.Intn(p) != 0 || len(s) < 4 {
		return s, ""
	}
	k := g.r.Intn(8)
	if scalar && (k == 5 || k == 6) {
		k = 0
	}
	switch k {
	case 0:
		return s[:len(s)-1-g.r.Intn(3)], "short"
	case 1:
		i := g.r.Intn(len(s))
		return s[:i] + "g" + s[i+1:], "nonhex"
	case 2:
		return s + g.pick("00", "zz", " ", "\n", "abcdef"), "trailing"
	case 3:
		return strings.ToUpper(s), "upper"
	case 4:
		return "", "empty"
	case 5:
		b := []byte(s)
		i := g.r.Intn(len(b))
		b[i] = "0123456789abcdef"[g.r.Intn(16)]
		return string(b), "flip"
	case 6:
		return strings.Repeat("ab", len(s)/2), "junkpoint"
	default:
		return " " + s, "leading-space"
	}
}

func c18quote(s string) string {
	var sb strings.Builder
	sb.WriteByte('"')
	for _, r := range s {
		switch {
		case r == '"' || r == '\\':
			sb.WriteByte('\\')
			sb.WriteRune(r)
		case r < 0x20 || r == 0x7f:
			fmt.Fprintf(&sb, "\\u%04X", r)
		default:
			sb.WriteRune(r)
		}
	}
	sb.WriteByte('"')
	return sb.String()
}

func (g *c18genT) address() string {
	if g.r.Intn(10) == 0 {
		return g.pick("", "tcp://", "127.0.0.1:7000", "udp://1.2.3.4:1", "tcp://h:65536", "tls://a b:1", "tcp://h", "tcp://[::1]:0")
	}
	return g.pick("tcp", "tls", "local") + "://" + g.pick("127.0.0.1", "10.0.0.5", "localhost", "conode.example.org", "[::1]", "[2001:db8::68]", "") +
		":" + g.pick("7000", "7770", "0", "65535", "65534", "2000", "+80", "-0", strconv.Itoa(g.r.Intn(65536)))
}

func (g *c18genT) description() string {
	return g.pick("", "", "x", "Conode 1", "Description of your server", "with \"quotes\" and \\ backslash", "ünïcödé 日本", "tab\there", "  spaces  ", "#not a comment", "= [x]")
}

func (g *c18genT) url() string {
	return g.pick("", "", "", "https://conode.example.org:7771", "http://h:80", "http://127.0.0.1", "not a url", "https://[::1]:1")
}

// services: up to 4 entries (thorough: up to 6); returns the lines of the Services tables
func (g *c18genT) services(prefix string, private bool, maxN int) ([]string, string) {
	n := g.r.Intn(maxN + 1)
	if g.r.Intn(3) == 0 {
		n = 0
	}
	perm := g.r.Perm(len(c18services))
	var lines []string
	tag := ""
	for _, i := range perm[:n] {
		e := c18services[i]
		name, suite := "c18"+e[0], e[1]
		label := suite
		keySuite := suite
		if suite == "" {
			keySuite, label = "Ed25519", "Ed25519"
		}
		switch g.r.Intn(60) {
		case 0, 1:
			name = "ghost" + strconv.Itoa(g.r.Intn(3)) // not registered
			tag += "+ghost"
		case 2:
			label = g.pick("ed25519", "P256", "Ed25519", "bn256.adapter", "", "Wrong") // may panic
			tag += "+label"
		}
		k := g.key(keySuite)
		pub, t := g.mangle(k.pub, 12, false)
		if t != "" {
			tag += "+pub-" + t
		}
		lines = append(lines, fmt.Sprintf("%s[%s.Services.%s]", "  ", prefix, name))
		entry := []string{"    Public = " + c18quote(pub)}
		if g.r.Intn(60) != 0 {
			entry = append(entry, "    Suite = "+c18quote(label))
		} else {
			tag += "+nosuite" // an entry without suite name panics (it is compared with the registered one)
		}
		if private {
			priv, t2 := g.mangle(k.priv, 12, true)
			if t2 != "" {
				tag += "+priv-" + t2
			}
			if g.r.Intn(10) != 0 {
				entry = append(entry, "    Private = "+c18quote(priv))
			}
		}
		g.r.Shuffle(len(entry), func(a, b int) { entry[a], entry[b] = entry[b], entry[a] })
		lines = append(lines, entry...)
	}
	return lines, fmt.Sprintf("%dsvc%s", n, tag)
}

func (g *c18genT) suiteLabel(s string) string {
	switch g.r.Intn(12) {
	case 0:
		return strings.ToLower(s)
	case 1:
		return strings.ToUpper(s)
	}
	return s
}

func (g *c18genT) groupText(maxSvc int, sameSuite string) (string, string) {
	var sb strings.Builder
	n := 1 + g.r.Intn(4)
	if g.r.Intn(40) == 0 {
		n = 0
	}
	if g.forceN > 0 {
		n = g.forceN
	}
	var tags []string
	fileSuite := "Ed25519"
	if g.r.Intn(3) == 0 {
		fileSuite = c18suiteNames[g.r.Intn(len(c18suiteNames))]
	}
	mixed := g.r.Intn(8) == 0 && g.forceN == 0 // servers of different suites: NewRoster cannot add their keys
	for i := 0; i < n; i++ {
		suite := fileSuite
		if mixed && g.r.Intn(2) == 0 {
			suite = c18suiteNames[g.r.Intn(len(c18suiteNames))]
		}
		if sameSuite != "" {
			suite = sameSuite
		}
		k := g.key(suite)
		pub, t := g.mangle(k.pub, 25, false)
		tag := suite
		if t != "" {
			tag += "+pub-" + t
		}
		sb.WriteString("[[servers]]\n")
		fields := []string{"  Address = " + c18quote(g.address()), "  Public = " + c18quote(pub)}
		switch {
		case suite == "Ed25519" && g.r.Intn(5) == 0:
			tag += "+nosuite"
		case g.r.Intn(40) == 0 && sameSuite == "":
			fields = append(fields, "  Suite = "+c18quote(g.pick("Foo", "Ed25518", " Ed25519")))
			tag += "+badsuite"
		default:
			fields = append(fields, "  Suite = "+c18quote(g.suiteLabel(suite)))
		}
		if d := g.description(); d != "" || g.r.Intn(2) == 0 {
			fields = append(fields, "  Description = "+c18quote(d))
		}
		if u := g.url(); u != "" || g.r.Intn(4) == 0 {
			fields = append(fields, "  URL = "+c18quote(u))
		}
		g.r.Shuffle(len(fields), func(a, b int) { fields[a], fields[b] = fields[b], fields[a] })
		sb.WriteString(strings.Join(fields, "\n") + "\n")
		lines, st := g.services("servers", false, maxSvc)
		if g.forceN > 0 {
			// big group: clean entries; the early servers hold the keys that are slow to decode
			lines, st = nil, "0svc"
			if i < 3 || g.r.Intn(6) == 0 {
				for _, nme := range []string{"c18svcBn", "c18svcG1", "c18svcQR", "c18svcEd"} {
					su := onet.ServiceFactory.Suite(nme).String()
					lines = append(lines, fmt.Sprintf("  [servers.Services.%s]", nme), "    Public = "+c18quote(g.key(su).pub), "    Suite = "+c18quote(su))
				}
				st = "4svc"
			}
		}
		if len(lines) > 0 {
			sb.WriteString(strings.Join(lines, "\n") + "\n")
		}
		tags = append(tags, tag+"/"+st)
	}
	sort.Strings(tags)
	return sb.String(), strings.Join(tags, "|")
}

func (g *c18genT) privateText(maxSvc int) (string, string) {
	suite := "Ed25519"
	if g.r.Intn(4) == 0 {
		suite = c18suiteNames[g.r.Intn(len(c18suiteNames))]
	}
	k := g.key(suite)
	pub, t1 := g.mangle(k.pub, 25, false)
	priv, t2 := g.mangle(k.priv, 25, true)
	tag := suite
	if t1 != "" {
		tag += "+pub-" + t1
	}
	if t2 != "" {
		tag += "+priv-" + t2
	}
	fields := []string{"Public = " + c18quote(pub), "Private = " + c18quote(priv), "Address = " + c18quote(g.address())}
	switch {
	case suite == "Ed25519" && g.r.Intn(5) == 0:
		tag += "+nosuite"
	case g.r.Intn(40) == 0:
		fields = append(fields, "Suite = "+c18quote("Foo"))
		tag += "+badsuite"
	default:
		fields = append(fields, "Suite = "+c18quote(g.suiteLabel(suite)))
	}
	if d := g.description(); d != "" || g.r.Intn(2) == 0 {
		fields = append(fields, "Description = "+c18quote(d))
	}
	if u := g.url(); u != "" || g.r.Intn(4) == 0 {
		fields = append(fields, "URL = "+c18quote(u))
	}
	if g.r.Intn(3) == 0 {
		fields = append(fields, "ListenAddress = "+c18quote(g.pick("", "0.0.0.0:7000", "127.0.0.1")))
	}
	// every subset of {certificate, key} (the URL above is present or absent independently)
	switch g.r.Intn(7) {
	case 0, 1:
		fields = append(fields, "WebSocketTLSCertificateKey = "+c18quote(g.pick("string://key", "file://k.pem", "k.pem")))
		fields = append(fields, "WebSocketTLSCertificate = "+c18quote(g.pick("string://cert", "file://c.pem", "c.pem")))
		tag += "+wstls"
	case 2:
		fields = append(fields, "WebSocketTLSCertificateKey = "+c18quote(g.pick("string://key", "file://k.pem", "k.pem")))
		tag += "+wskey"
	case 3:
		fields = append(fields, "WebSocketTLSCertificate = "+c18quote(g.pick("string://cert", "file://c.pem", "c.pem")))
		tag += "+wscert"
	}
	g.r.Shuffle(len(fields), func(a, b int) { fields[a], fields[b] = fields[b], fields[a] })
	text := "# private configuration\n" + strings.Join(fields, "\n") + "\n"
	svc, st := g.privateServices(maxSvc)
	return text + svc, tag + "/" + st
}

func (g *c18genT) privateServices(maxSvc int) (string, string) {
	lines, st := g.services("X", true, maxSvc)
	for i := range lines {
		lines[i] = strings.Replace(lines[i], "[X.Services.", "[Services.", 1)
	}
	if len(lines) == 0 {
		return "", st
	}
	return strings.Join(lines, "\n") + "\n", st
}

func c18generate(c *h.Ctx, yield func(*h.Case)) {
	c18setup()
	g := &c18genT{c: c, r: c.Rng}
	pre := c18preambleOps()
	n := 0
	textLevel := false // the next cases are text-level ones
	usesNext := false  // the next group case with a write suite gets a `uses` op for sure
	// names asked for through the accessors: registered services (with and without entry in the file), the same
	// in another letter case, a prefix, an extension, a name nobody has
	accNames := func() string {
		var l []string
		for i := 0; i < 2+g.r.Intn(4); i++ {
			nme := "c18" + c18services[g.r.Intn(len(c18services))][0]
			switch g.r.Intn(6) {
			case 0:
				nme = strings.ToUpper(nme)
			case 1:
				nme = strings.ToLower(nme)
			case 2:
				nme = nme[:len(nme)-1]
			case 3:
				nme += "x"
			}
			l = append(l, c18hex(nme))
		}
		l = append(l, c18hex("c18 nobody"))
		return strings.Join(l, ",")
	}
	emitGroup := func(class, text string, reads int, child bool, writeSuite string) {
		ops, ok := c18groupOps(text)
		if !ok {
			c.Count("generator: text rejected by the TOML library")
			return
		}
		cs := &h.Case{Class: class}
		cs.Ops = append(cs.Ops, pre...)
		if bad, ok := c18badGroup(text); ok && !usesNext && (textLevel || g.r.Intn(3) == 0) {
			// text level: the model reads the text itself (Model/C18Toml.lean)
			cs.Class = "text:" + class
			cs.Ops = append(cs.Ops, "c18 text "+c18hex(text), fmt.Sprintf("c18 readtext %d %s %s", reads, c18b(child), bad))
			if writeSuite != "" {
				cs.Ops = append(cs.Ops, fmt.Sprintf("c18 writetext %s %s", c18hex(writeSuite), bad))
				if g.r.Intn(3) == 0 {
					cs.Ops = append(cs.Ops, "c18 rostertoml "+bad)
				}
			}
			c.Count("kind=group-text")
			yield(cs)
			return
		}
		cs.Ops = append(cs.Ops, ops...)
		cs.Ops = append(cs.Ops, fmt.Sprintf("c18 readgroup %d %s", reads, c18b(child)))
		if g.r.Intn(6) == 0 || strings.HasPrefix(class, "corpus") {
			cs.Ops = append(cs.Ops, "c18 acc g "+accNames())
			c.Count("op=acc-group")
		}
		if writeSuite != "" {
			if usesNext || g.r.Intn(4) == 0 {
				// the consumer's side: rosters from parts of the list that was read, extended, rotated - then the
				// group is looked at again (before it is written out)
				cs.Ops = append(cs.Ops, fmt.Sprintf("c18 uses %d %s", 1+g.r.Intn(4), c18hex(writeSuite)))
				c.Count("op=uses")
				usesNext = false
			}
			cs.Ops = append(cs.Ops, fmt.Sprintf("c18 writeread %s %d", c18hex(writeSuite), 3))
		}
		c.Count("kind=group")
		c.Count(fmt.Sprintf("servers=%d", len(ops)-1))
		yield(cs)
	}
	resaveHistory := "" // histories of the resave ops appended to the next private case
	parseNext := false  // the next private case also goes through app.ParseCothority (a real server is built)
	emitPrivate := func(class, text string, reads int, child bool) {
		op, ok := c18privateOp(text, reads, child)
		if !ok {
			c.Count("generator: text rejected by the TOML library")
			return
		}
		cs := &h.Case{Class: class}
		cs.Ops = append(cs.Ops, pre...)
		if bad, ok := c18badPrivate(text); ok && !parseNext && (textLevel || (resaveHistory == "" && g.r.Intn(3) == 0)) {
			cs.Class = "text:" + class
			cs.Ops = append(cs.Ops, "c18 text "+c18hex(text), fmt.Sprintf("c18 readprivtext %d %s %s", reads, c18b(child), bad), "c18 savetext "+bad)
			if g.r.Intn(2) == 0 {
				cs.Ops = append(cs.Ops, "c18 pubtext "+bad)
			}
			c.Count("kind=private-text")
			yield(cs)
			return
		}
		cs.Ops = append(cs.Ops, "c18 text "+c18hex(text), op)
		if g.r.Intn(4) == 0 || strings.HasPrefix(class, "corpus") {
			cs.Ops = append(cs.Ops, "c18 acc p "+accNames())
			c.Count("op=acc-private")
		}
		if parseNext {
			cs.Ops = append(cs.Ops, "c18 parsecoth")
			c.Count("op=parsecoth")
			parseNext = false
		}
		if resaveHistory != "" {
			for _, hh := range strings.Split(resaveHistory, ",") {
				cs.Ops = append(cs.Ops, fmt.Sprintf("c18 resave %s %d", hh, 4))
				c.Count("resave=" + hh)
			}
		}
		c.Count("kind=private")
		yield(cs)
	}
	// ---- corpus: the design probe's file (three per-service keys on one server), 50 parses + a second process
	{
		k := g.key("Ed25519")
		txt := fmt.Sprintf("[[servers]]\n  Address = \"tcp://127.0.0.1:7000\"\n  Suite = \"Ed25519\"\n  Public = \"%s\"\n  Description = \"x\"\n", k.pub)
		for _, nme := range []string{"c18svcEd", "c18aaa", "c18Zeta", "c18SvcEd2"} {
			txt += fmt.Sprintf("  [servers.Services.%s]\n    Public = \"%s\"\n    Suite = \"Ed25519\"\n", nme, g.key("Ed25519").pub)
		}
		emitGroup("corpus-map-order", txt, 50, true, "Ed25519")
		kp := g.key("Ed25519")
		ptxt := fmt.Sprintf("Suite = \"Ed25519\"\nPublic = \"%s\"\nPrivate = \"%s\"\nAddress = \"tls://127.0.0.1:7770\"\nDescription = \"d\"\n", kp.pub, kp.priv)
		for _, nme := range []string{"c18svcEd", "c18aaa", "c18Zeta", "c18SvcEd2"} {
			ks := g.key("Ed25519")
			ptxt += fmt.Sprintf("[Services.%s]\n  Public = \"%s\"\n  Private = \"%s\"\n  Suite = \"Ed25519\"\n", nme, ks.pub, ks.priv)
		}
		resaveHistory = "garbage,inplace,keys,shorter,fresh"
		emitPrivate("corpus-map-order", ptxt, 50, true)
		// services whose names differ only in case: the order is the byte order of the names
		ctxt := fmt.Sprintf("[[servers]]\n  Address = \"tcp://127.0.0.1:7000\"\n  Suite = \"Ed25519\"\n  Public = \"%s\"\n  Description = \"x\"\n", k.pub)
		cptxt := fmt.Sprintf("Suite = \"Ed25519\"\nPublic = \"%s\"\nPrivate = \"%s\"\nAddress = \"tls://127.0.0.1:7770\"\nDescription = \"d\"\n", kp.pub, kp.priv)
		for _, nme := range []string{"c18zeta", "c18Zeta", "c18ZETA"} {
			ks := g.key("Ed25519")
			ctxt += fmt.Sprintf("  [servers.Services.%s]\n    Public = \"%s\"\n    Suite = \"Ed25519\"\n", nme, ks.pub)
			cptxt += fmt.Sprintf("[Services.%s]\n  Public = \"%s\"\n  Private = \"%s\"\n  Suite = \"Ed25519\"\n", nme, ks.pub, ks.priv)
		}
		emitGroup("corpus-case-only-names", ctxt, 50, true, "Ed25519")
		emitPrivate("corpus-case-only-names", cptxt, 50, true)
		resaveHistory = ""
		// the URL a server announces: every subset of {URL, WebSocket TLS certificate, WebSocket TLS key} (the key alone
		// decides whether https://host:port+1 is derived) x two kinds of address
		for sub := 0; sub < 8; sub++ {
			for _, addr := range []string{"tls://127.0.0.1:7770", "tcp://example.org:65534"} {
				t := fmt.Sprintf("Suite = \"Ed25519\"\nPublic = \"%s\"\nPrivate = \"%s\"\nAddress = \"%s\"\nDescription = \"d\"\n", kp.pub, kp.priv, addr)
				if sub&1 != 0 {
					t += "URL = \"http://example.org:80\"\n"
				}
				if sub&2 != 0 {
					t += "WebSocketTLSCertificate = \"string://cert\"\n"
				}
				if sub&4 != 0 {
					t += "WebSocketTLSCertificateKey = \"string://key\"\n"
				}
				emitPrivate("corpus-url-derivation", t, 4, false)
			}
		}
		// app.ParseCothority: the same file through the reader that also builds the server (listener on a free port)
		for i := 0; i < b7Pick(c, 40, 300) && !b7SearchOver(); i++ {
			k := g.key("Ed25519")
			pub, t1 := g.mangle(k.pub, 12, false)
			priv, t2 := g.mangle(k.priv, 12, true)
			fields := []string{"Public = " + c18quote(pub), "Private = " + c18quote(priv),
				"Address = " + c18quote(g.pick("tcp://127.0.0.1:0", "tls://127.0.0.1:0"))}
			switch g.r.Intn(8) {
			case 0: // no suite entry: Ed25519
			case 1:
				fields = append(fields, "Suite = \"ed25519\"")
			case 2:
				fields = append(fields, "Suite = \"Foo\"")
			default:
				fields = append(fields, "Suite = \"Ed25519\"")
			}
			if g.r.Intn(2) == 0 {
				fields = append(fields, "Description = "+c18quote(g.description()))
			}
			if g.r.Intn(3) == 0 {
				fields = append(fields, "URL = "+c18quote(g.pick("http://example.org:80", "https://a.b", "")))
			}
			if g.r.Intn(3) == 0 {
				fields = append(fields, "ListenAddress = "+c18quote(g.pick("", "127.0.0.1:0")))
			}
			switch g.r.Intn(4) { // never certificate and key together: no certificates are generated
			case 0:
				fields = append(fields, "WebSocketTLSCertificateKey = \"string://key\"")
			case 1:
				fields = append(fields, "WebSocketTLSCertificate = \"string://cert\"")
			}
			g.r.Shuffle(len(fields), func(a, b int) { fields[a], fields[b] = fields[b], fields[a] })
			// key pairs for the services registered with a suite, in a random order of the tables (one is left out now
			// and then: the server would refuse to start)
			var tabs []string
			skip := -1
			if g.r.Intn(8) == 0 {
				skip = g.r.Intn(len(c18services))
			}
			for j, e := range c18services {
				if e[1] == "" || j == skip {
					continue
				}
				ks := g.key(e[1])
				tabs = append(tabs, fmt.Sprintf("[Services.%s]\n  Public = \"%s\"\n  Private = \"%s\"\n  Suite = \"%s\"\n", c18quoteKey("c18"+e[0]), ks.pub, ks.priv, e[1]))
			}
			g.r.Shuffle(len(tabs), func(a, b int) { tabs[a], tabs[b] = tabs[b], tabs[a] })
			svc := strings.Join(tabs, "")
			parseNext = true
			cl := "parsecothority"
			if t1+t2 != "" {
				cl += ":malformed-key"
			}
			emitPrivate(cl, strings.Join(fields, "\n")+"\n"+svc, 2, false)
			parseNext = false
		}
		// a big group (the order of the identities is the order of the file, whatever the size)
		g.forceN = 12
		btxt, _ := g.groupText(0, "Ed25519")
		g.forceN = 0
		emitGroup("corpus-big-group", btxt, 30, true, "Ed25519")
		// a group of four, then rosters made from the first servers of its list and extended (seeded C18r5-B)
		g.forceN = 4
		utxt, _ := g.groupText(0, "Ed25519")
		g.forceN = 0
		usesNext = true
		emitGroup("corpus-roster-parts-extended", utxt, 8, false, "Ed25519")
	}
	// ---- keys that differ only in case (the decoder matches keys to fields without regard to case): a
	// table that holds `Public` and `public` is rejected (repaired in /repo 4aac1e6 - before, both went
	// into one field in map iteration order); a file that merely spells its keys in lower case is read
	textLevel = true
	{
		k1, k2, k3 := g.key("Ed25519"), g.key("Ed25519"), g.key("Ed25519")
		srv := func(pubKey, arr, extra string) string {
			return fmt.Sprintf("[[%s]]\n  Address = \"tcp://127.0.0.1:7000\"\n  Suite = \"Ed25519\"\n  %s = \"%s\"\n  Description = \"one\"\n%s", arr, pubKey, k1.pub, extra)
		}
		emitGroup("corpus-case-variant-keys", srv("Public", "servers", fmt.Sprintf("  public = \"%s\"\n  description = \"two\"\n", k2.pub)), 50, true, "")
		variants := []string{
			srv("Public", "servers", fmt.Sprintf("  PUBLIC = \"%s\"\n", k2.pub)),
			srv("Public", "servers", "  address = \"tcp://127.0.0.1:7002\"\n"),
			srv("Public", "servers", "  url = \"http://a\"\n  URL = \"http://b\"\n"),
			srv("Public", "servers", "  SUITE = \"P256\"\n"),
			srv("Public", "servers", "  unknownKey = \"x\"\n  UnknownKey = \"y\"\n"),
			srv("Public", "servers", "") + srv("Public", "Servers", ""),
			srv("Public", "Servers", "") + srv("Public", "Servers", ""), // consistently another spelling: read
			srv("public", "servers", ""),                                // lower-case key alone: read
			srv("Public", "servers", fmt.Sprintf("  [servers.Services.c18svcEd]\n    Public = \"%s\"\n    Suite = \"Ed25519\"\n  [servers.services.c18aaa]\n    Public = \"%s\"\n    Suite = \"Ed25519\"\n", k2.pub, k3.pub)),
			srv("Public", "servers", fmt.Sprintf("  [servers.Services.c18svcEd]\n    Public = \"%s\"\n    public = \"%s\"\n    Suite = \"Ed25519\"\n", k2.pub, k3.pub)),
			srv("Public", "servers", fmt.Sprintf("  [servers.Services.c18svcEd]\n    Public = \"%s\"\n    Suite = \"Ed25519\"\n  [Servers.Services.c18aaa]\n    Public = \"%s\"\n    Suite = \"Ed25519\"\n", k2.pub, k3.pub)),
			srv("Public", "servers", fmt.Sprintf("  [servers.Services.c18zeta]\n    Public = \"%s\"\n    Suite = \"Ed25519\"\n  [servers.Services.c18Zeta]\n    Public = \"%s\"\n    Suite = \"Ed25519\"\n", k2.pub, k3.pub)), // map keys: compared exactly, read
			srv("Public", "servers", fmt.Sprintf("  [servers.services.c18svcEd]\n    Public = \"%s\"\n    Suite = \"Ed25519\"\n", k2.pub)) +
				srv("Public", "servers", fmt.Sprintf("  [servers.Services.c18svcEd]\n    Public = \"%s\"\n    Suite = \"Ed25519\"\n", k3.pub)), // another spelling in another element: read
			srv("Public", "servers", "  Public = \""+k2.pub+"\"\n"), // the same key twice: a TOML error
		}
		// the array of tables itself spelled in two ways, with DIFFERENT servers under the two spellings (the two
		// arrays go into the one field in map order, so an accepted file reads as two different rosters)
		srvK := func(k c18key, arr string, n int) string {
			return fmt.Sprintf("[[%s]]\n  Address = \"tcp://10.0.0.%d:7770\"\n  Suite = \"Ed25519\"\n  Public = \"%s\"\n  Description = \"server %d under %s\"\n", arr, n, k.pub, n, arr)
		}
		emitGroup("corpus-array-spelled-twice", srvK(k1, "servers", 1)+srvK(k2, "servers", 2)+srvK(k3, "Servers", 3), 50, true, "")
		variants = append(variants,
			srvK(k1, "servers", 1)+srvK(k2, "Servers", 2),
			srvK(k1, "Servers", 1)+srvK(k2, "servers", 2)+srvK(k3, "servers", 3),
			srvK(k1, "servers", 1)+srvK(k2, "SERVERS", 2)+srvK(k3, "servers", 3),
			srvK(k1, "servers", 1)+srvK(k2, "servers", 2)+srvK(k3, "servers", 3)+srvK(k1, "sErvers", 4),
			srvK(k1, "servers", 1)+fmt.Sprintf("  [servers.Services.c18svcEd]\n    Public = \"%s\"\n    Suite = \"Ed25519\"\n", k2.pub)+srvK(k3, "Servers", 2),
			srvK(k1, "SERVERS", 1)+srvK(k2, "SERVERS", 2)+srvK(k3, "SERVERS", 3)) // consistently another spelling: read
		for _, v := range variants {
			emitGroup("case-variant-keys:group", v, 30, false, "")
		}
		kp := g.key("Ed25519")
		prv := func(extra string) string {
			return fmt.Sprintf("Suite = \"Ed25519\"\nPublic = \"%s\"\nPrivate = \"%s\"\nAddress = \"tls://127.0.0.1:7770\"\nDescription = \"d\"\n%s", kp.pub, kp.priv, extra)
		}
		emitPrivate("corpus-case-variant-keys", prv(fmt.Sprintf("private = \"%s\"\npublic = \"%s\"\n", k2.priv, k2.pub)), 50, true)
		for _, v := range []string{
			prv("address = \"tls://127.0.0.1:7772\"\n"),
			prv("suite = \"P256\"\n"),
			prv("websockettlscertificatekey = \"a\"\nWebSocketTLSCertificateKey = \"b\"\n"),
			prv(fmt.Sprintf("[Services.c18svcEd]\n  Public = \"%s\"\n  Private = \"%s\"\n  Suite = \"Ed25519\"\n[services.c18aaa]\n  Public = \"%s\"\n  Private = \"%s\"\n  Suite = \"Ed25519\"\n", k2.pub, k2.priv, k3.pub, k3.priv)),
			prv(fmt.Sprintf("[Services.c18svcEd]\n  Public = \"%s\"\n  Private = \"%s\"\n  private = \"%s\"\n  Suite = \"Ed25519\"\n", k2.pub, k2.priv, k3.priv)),
			prv(fmt.Sprintf("[services.c18svcEd]\n  public = \"%s\"\n  private = \"%s\"\n  suite = \"Ed25519\"\n", k2.pub, k2.priv)), // all lower case: read
			strings.ToLower(prv("")), // every key (and the hex) in lower case: read - but the suite name is looked up without regard to case
		} {
			emitPrivate("case-variant-keys:private", v, 30, false)
		}
	}
	// ---- strings the writer has to escape: descriptions, URLs and addresses with quotes, backslashes, new
	// lines, tabs, control characters, non-ASCII text - read, written with Group.Toml / Save, read again
	{
		pool := []string{"", "plain", "with \"quotes\"", "back\\slash", "trailing backslash\\", "\\\"", "new\nline", "cr\rlf\r\n", "tab\there", "\x01\x02\x1f control", "del\x7f",
			"ünïcödé 日本語", "emoji 🎉 done", "# not a comment", "key = \"value\"", "[[servers]]", "'single'", "\\u0041 is not an escape here", "\\n", " leading and trailing ",
			strings.Repeat("long ", 200), "\"", "\\", "\n", "a\\\\b\\", "percent %s %d"}
		for i := 0; i < b7Pick(c, 60, 300) && !b7SearchOver(); i++ {
			var sb strings.Builder
			su := "Ed25519"
			if g.r.Intn(5) == 0 {
				su = c18suiteNames[g.r.Intn(len(c18suiteNames))]
			}
			for j := 0; j < 1+g.r.Intn(3); j++ {
				fields := []string{"  Address = " + c18quote(g.pick("tcp://127.0.0.1:7000", "tls://h:1", pool[g.r.Intn(len(pool))])), "  Public = " + c18quote(g.key(su).pub),
					"  Suite = " + c18quote(su), "  Description = " + c18quote(pool[g.r.Intn(len(pool))])}
				if g.r.Intn(2) == 0 {
					fields = append(fields, "  URL = "+c18quote(pool[g.r.Intn(len(pool))]))
				}
				g.r.Shuffle(len(fields), func(a, b int) { fields[a], fields[b] = fields[b], fields[a] })
				sb.WriteString("[[servers]]\n" + strings.Join(fields, "\n") + "\n")
				if g.r.Intn(3) == 0 {
					sb.WriteString(fmt.Sprintf("  [servers.Services.c18svcEd]\n    Public = %s\n    Suite = \"Ed25519\"\n", c18quote(g.key("Ed25519").pub)))
				}
			}
			emitGroup("string-escapes:group", sb.String(), 3, i%10 == 0, su)
			kp := g.key("Ed25519")
			fields := []string{"Public = " + c18quote(kp.pub), "Private = " + c18quote(kp.priv), "Suite = \"Ed25519\"", "Address = " + c18quote(g.pick("tcp://127.0.0.1:7000", "tls://h:1", pool[g.r.Intn(len(pool))])),
				"Description = " + c18quote(pool[g.r.Intn(len(pool))]), "URL = " + c18quote(pool[g.r.Intn(len(pool))]), "ListenAddress = " + c18quote(pool[g.r.Intn(len(pool))])}
			if g.r.Intn(2) == 0 {
				fields = append(fields, "WebSocketTLSCertificate = "+c18quote(pool[g.r.Intn(len(pool))]), "WebSocketTLSCertificateKey = "+c18quote(pool[g.r.Intn(len(pool))]))
			}
			g.r.Shuffle(len(fields), func(a, b int) { fields[a], fields[b] = fields[b], fields[a] })
			emitPrivate("string-escapes:private", strings.Join(fields, "\n")+"\n", 3, i%10 == 0)
		}
	}
	// ---- service names the writer has to quote: registered for the case, used as `[servers.Services."…"]`
	// tables, read, written, read again. A name with a backslash does not survive (the writer escapes only
	// `"` in a quoted key) - model and code agree on what happens, the round-trip oracle leaves it out.
	{
		odd := []string{"c18n.dot", "c18n space", "c18n\"quote", "c18nünï", "c18n-dash_1", "c18n'apos", "c18n#hash", "c18n]br", "c18n=eq", "c18n日本", "c18n\\back", "c18n\\quirk", "c18n\ttab"}
		for i := 0; i < b7Pick(c, 12, 60) && !b7SearchOver(); i++ {
			perm := g.r.Perm(len(odd))
			names := []string{}
			for _, j := range perm[:1+g.r.Intn(4)] {
				names = append(names, fmt.Sprintf("%s%d", odd[j], i))
			}
			stub := c16constructor
			c18regMu.Lock()
			for j, nme := range names {
				onet.RegisterNewServiceWithSuite(nme, suites.MustFind([]string{"Ed25519", "P256"}[j%2]), stub)
			}
			cs := &h.Case{Class: "text:service-names"}
			cs.Ops = append(cs.Ops, pre...)
			var sb strings.Builder
			sb.WriteString(fmt.Sprintf("[[servers]]\n  Address = \"tcp://127.0.0.1:7000\"\n  Suite = \"Ed25519\"\n  Public = \"%s\"\n  Description = \"names\"\n", g.key("Ed25519").pub))
			for j, nme := range names {
				su := []string{"Ed25519", "P256"}[j%2]
				cs.Ops = append(cs.Ops, fmt.Sprintf("c18 regadd %s %s", c18hex(nme), c18hex(su)))
				sb.WriteString(fmt.Sprintf("  [servers.Services.%s]\n    Public = \"%s\"\n    Suite = \"%s\"\n", c18quote(nme), g.key(su).pub, su))
			}
			txt := sb.String()
			bad, ok := c18badGroup(txt)
			for _, nme := range names {
				onet.UnregisterService(nme)
			}
			c18regMu.Unlock()
			if !ok {
				continue
			}
			cs.Ops = append(cs.Ops, "c18 text "+c18hex(txt), "c18 readtext 3 0 "+bad, "c18 writetext "+c18hex("Ed25519")+" "+bad, "c18 rostertoml "+bad)
			for _, nme := range names {
				cs.Ops = append(cs.Ops, "c18 regdel "+c18hex(nme))
			}
			c.Count("kind=service-names")
			yield(cs)
		}
	}
	textLevel = false
	// ---- registry histories: services the text does not mention are registered / unregistered between
	// two reads of the same text (group and private); the text's own services were registered in one
	// batch with them, with suites that differ from their neighbours'
	churnSeq := 0
	churn := func(private bool) {
		churnSeq++
		const k = 12
		batchSuites := []string{"Ed25519", "P256", "", "bn256.G1"}
		var names, sus []string
		for i := 0; i < k; i++ {
			names = append(names, fmt.Sprintf("c18t%dx%d", churnSeq, i))
			sus = append(sus, batchSuites[(i+churnSeq)%len(batchSuites)])
		}
		reg := func(i int) string {
			if sus[i] == "" {
				return fmt.Sprintf("c18 regadd %s -", c18hex(names[i]))
			}
			return fmt.Sprintf("c18 regadd %s %s", c18hex(names[i]), c18hex(sus[i]))
		}
		// the services exist while the ops are generated (whether a key is a point of a service's suite is
		// asked of the registry), and are taken away again before the case is handed out
		stub := c16constructor
		c18regMu.Lock()
		for i := range names {
			if sus[i] == "" {
				onet.RegisterNewService(names[i], stub)
			} else {
				onet.RegisterNewServiceWithSuite(names[i], suites.MustFind(sus[i]), stub)
			}
		}
		windowOpen := true
		closeWindow := func() {
			if windowOpen {
				for _, nme := range names {
					onet.UnregisterService(nme)
				}
				c18regMu.Unlock()
				windowOpen = false
			}
		}
		defer closeWindow()
		extra := fmt.Sprintf("c18t%dxnew", churnSeq)
		victim := 2 + g.r.Intn(5) // unregistered in the middle of the batch: not the first, not the last
		var used []int
		for i := victim + 1; i < k; i++ {
			if sus[i] != "" {
				used = append(used, i)
			}
		}
		cs := &h.Case{Class: "registry-history:group"}
		if private {
			cs.Class = "registry-history:private"
		}
		cs.Ops = append(cs.Ops, pre...)
		for i := range names {
			cs.Ops = append(cs.Ops, reg(i))
		}
		var readOp string
		if !private {
			k0 := g.key("Ed25519")
			txt := fmt.Sprintf("[[servers]]\n  Address = \"tcp://127.0.0.1:7000\"\n  Suite = \"Ed25519\"\n  Public = \"%s\"\n  Description = \"churn\"\n", k0.pub)
			for _, i := range used {
				txt += fmt.Sprintf("  [servers.Services.%s]\n    Public = \"%s\"\n    Suite = \"%s\"\n", names[i], g.key(sus[i]).pub, sus[i])
			}
			txt += fmt.Sprintf("  [servers.Services.c18svcEd]\n    Public = \"%s\"\n    Suite = \"Ed25519\"\n", g.key("Ed25519").pub)
			ops, ok := c18groupOps(txt)
			if !ok {
				return
			}
			cs.Ops = append(cs.Ops, ops...)
			readOp = "c18 readgroup 2 0"
		} else {
			kp := g.key("Ed25519")
			txt := fmt.Sprintf("Suite = \"Ed25519\"\nPublic = \"%s\"\nPrivate = \"%s\"\nAddress = \"tls://127.0.0.1:7770\"\nDescription = \"churn\"\n", kp.pub, kp.priv)
			for _, i := range used {
				ks := g.key(sus[i])
				txt += fmt.Sprintf("[Services.%s]\n  Public = \"%s\"\n  Private = \"%s\"\n  Suite = \"%s\"\n", names[i], ks.pub, ks.priv, sus[i])
			}
			// … and a key pair for a service that is registered only later (by another process, as it were)
			kx := g.key("P256")
			txt += fmt.Sprintf("[Services.%s]\n  Public = \"%s\"\n  Private = \"%s\"\n  Suite = \"P256\"\n", extra, kx.pub, kx.priv)
			op, ok := c18privateOp(txt, 2, false)
			if !ok {
				return
			}
			cs.Ops = append(cs.Ops, "c18 text "+c18hex(txt))
			readOp = op
		}
		cs.Ops = append(cs.Ops, readOp)
		if private {
			// load, look at the identity, save unchanged - the service `extra` is unknown so far
			cs.Ops = append(cs.Ops, "c18 resave "+c18histories[churnSeq%len(c18histories)]+" 2", "c18 reload 2")
		}
		cs.Ops = append(cs.Ops,
			"c18 regdel "+c18hex(names[victim]), readOp,
			fmt.Sprintf("c18 regadd %s %s", c18hex(extra), c18hex("P256")), readOp,
			"c18 regdel "+c18hex(names[1]), "c18 regdel "+c18hex(names[0]), readOp,
			reg(victim), readOp)
		if private {
			// what was saved before `extra` was known is read now that it is
			cs.Ops = append(cs.Ops, "c18 reload 2", "c18 resave inplace 2", "c18 reload 2")
		}
		// leave the registry as it was
		for i := range names {
			cs.Ops = append(cs.Ops, "c18 regdel "+c18hex(names[i]))
		}
		cs.Ops = append(cs.Ops, "c18 regdel "+c18hex(extra), "c18 regdel "+c18hex(extra))
		c.Count("kind=registry-history")
		closeWindow() // before the case is handed out: yield blocks when the executor is 64 cases behind
		yield(cs)
	}
	for i := 0; i < b7Pick(c, 24, 120) && !b7SearchOver(); i++ {
		churn(i%2 == 1)
	}
	maxSvc := b7Pick(c, 4, 6)
	total := b7Pick(c, 9000, 60000)
	for i := 0; i < total && !b7SearchOver(); i++ {
		n++
		child := i%b7Pick(c, 10, 6) == 0
		reads := b7Pick(c, 8, 20)
		if i%50 == 0 {
			reads = 50
		}
		switch g.r.Intn(5) {
		case 0, 1:
			text, tag := g.groupText(maxSvc, "")
			ws := ""
			if g.r.Intn(2) == 0 {
				// write/read only with the suite all servers use (the claim's premise)
				for _, su := range c18suiteNames {
					if c18sameSuites(text, su) {
						ws = su
					}
				}
			}
			emitGroup("group:"+c18tagClass(tag), text, reads, child, ws)
		case 2:
			su := c18suiteNames[g.r.Intn(len(c18suiteNames))]
			if g.r.Intn(2) == 0 {
				su = "Ed25519"
			}
			text, tag := g.groupText(maxSvc, su)
			emitGroup("group-one-suite:"+c18tagClass(tag), text, reads, child, su)
		default:
			text, tag := g.privateText(maxSvc)
			resaveHistory = ""
			if g.r.Intn(2) == 0 {
				resaveHistory = c18histories[g.r.Intn(len(c18histories))]
			}
			emitPrivate("private:"+c18tagClass(tag), text, reads, child)
			resaveHistory = ""
		}
		if i%b7Pick(c, 60, 40) == 0 {
			// big groups: 8..24 servers of one suite, slow service keys on the first servers
			g.forceN = 8 + g.r.Intn(17)
			su := "Ed25519"
			if g.r.Intn(4) == 0 {
				su = c18suiteNames[g.r.Intn(len(c18suiteNames))]
			}
			text, _ := g.groupText(0, su)
			g.forceN = 0
			ws := ""
			if g.r.Intn(3) == 0 {
				ws = su
			}
			emitGroup("group-big:"+su, text, reads, i%b7Pick(c, 120, 80) == 0, ws)
		}
	}
}

// c18tagClass keeps the class label small: which malformations / specials occur, how many services at most
func c18tagClass(tag string) string {
	var feats []string
	for _, f := range []string{"ghost", "label", "pub-", "priv-", "nosuite", "badsuite", "wstls"} {
		if strings.Contains(tag, f) {
			feats = append(feats, strings.TrimSuffix(f, "-"))
		}
	}
	multi := "1suite"
	for _, s := range c18suiteNames[1:] {
		if strings.Contains(tag, s) {
			multi = "other-suites"
		}
	}
	return multi + "/" + strings.Join(feats, "+")
}

func init() {
	h.RegisterProp(h.Prop{Name: "c18", Gen: c18generate, Exec: c18exec, Workers: 8})
}
