package main

import (
	"fmt"
	"io"
	"sort"
	"strconv"
	"strings"
	"time"

	"github.com/google/uuid"
	onet "go.dedis.ch/onet/v3"
	"go.dedis.ch/onet/v3/network"
	"onetverif/harness/fix"
	"onetverif/harness/h"
)

// Differential operations for the functions that harness/cmd/go2lean re-translates (class
// "translated-functions"): one table — function → how arguments are generated → how the real function
// of /repo is called and its result printed → the oracle's own answer. The line `tf <cxx> <function>
// <arguments>` is evaluated by lean/OnetVerif/Model/TF.lean on the property's hand-written model.
// A property gets the rows of its name with `tfExtend("cxx")` (files c<xx>ztf.go), run before its own
// cases (h.ExtendProp). A changed translated function is then a concrete failing input
// (signature translated-function:<name>) and not only a broken equivalence theorem.

type tfRow struct {
	prop, fn string
	corpus   []string                           // argument strings that are always run
	gen      func(c *h.Ctx) string              // a random argument string
	call     func(args []string) (string, bool) // the real function; false: unparsable arguments
	want     func(args []string) string         // the oracle's answer
	n        [2]int                             // generated cases, quick / thorough
}

func tfJoin(l []string) string {
	if len(l) == 0 {
		return "-"
	}
	return strings.Join(l, ",")
}

func tfMin(a, b int) int {
	if a < b {
		return a
	}
	return b
}

func tfCatch(f func() string) (out string) {
	defer func() {
		if r := recover(); r != nil {
			out = "panic"
		}
	}()
	return f()
}

// ---- C02: ServerIdentity.Equal

func tfIdent(s string) (*network.ServerIdentity, int, bool) { // kind: 0 nil, 1 no key, 2 key
	switch {
	case s == "n":
		return nil, 0, true
	case s == "k-":
		return &network.ServerIdentity{Address: "tcp://127.0.0.1:2000"}, 1, true
	case strings.HasPrefix(s, "k"):
		k, err := strconv.Atoi(s[1:])
		if err != nil || k < 0 || strconv.Itoa(k) != s[1:] {
			return nil, 0, false
		}
		sc := fix.Suite.Scalar().SetInt64(int64(k) + 2)
		pub := fix.Suite.Point().Mul(sc, nil)
		// everything but the key differs between two identities of the same key
		si := network.NewServerIdentity(pub, network.Address(fmt.Sprintf("tcp://127.0.0.1:%d", 2000+len(s))))
		si.Description = s
		return si, 2, true
	}
	return nil, 0, false
}

func tfGenIdent(c *h.Ctx) string {
	switch c.Rng.Intn(6) {
	case 0:
		return "n"
	case 1:
		return "k-"
	}
	return "k" + strconv.Itoa(c.Rng.Intn(4))
}

// ---- C04: hasFlag

func tfMsgType(n int) network.MessageTypeID {
	var u uuid.UUID
	u[14], u[15] = byte(n>>8), byte(n)
	return network.MessageTypeID(u)
}

func tfFlags(s string) (map[int]uint32, bool) {
	m := map[int]uint32{}
	if s == "-" {
		return m, true
	}
	for _, e := range strings.Split(s, ",") {
		p := strings.Split(e, ":")
		if len(p) != 2 {
			return nil, false
		}
		t, err1 := strconv.Atoi(p[0])
		w, err2 := strconv.ParseUint(p[1], 10, 32)
		if err1 != nil || err2 != nil || t < 0 || t > 60000 {
			return nil, false
		}
		if _, dup := m[t]; dup {
			return nil, false
		}
		m[t] = uint32(w)
	}
	return m, true
}

// ---- C06 / C11: the tree store

func tfTreeID(n int) onet.TreeID {
	var u uuid.UUID
	u[0], u[15] = 0x74, byte(n)
	return onet.TreeID(u)
}

func tfStoreOps(s string) ([][2]int, bool) { // (kind r/u/s, id)
	var out [][2]int
	if s == "-" {
		return out, true
	}
	for _, e := range strings.Split(s, ",") {
		if len(e) < 2 || !strings.ContainsRune("rus", rune(e[0])) {
			return nil, false
		}
		id, err := strconv.Atoi(e[1:])
		if err != nil || id < 0 || id > 200 || strconv.Itoa(id) != e[1:] {
			return nil, false
		}
		out = append(out, [2]int{int(e[0]), id})
	}
	return out, true
}

func tfStoreCall(args []string) (string, bool) {
	ops, ok := tfStoreOps(args[0])
	if !ok {
		return "", false
	}
	return tfCatch(func() string {
		st := onet.VerifNewStore(time.Hour)
		defer st.Close()
		for _, o := range ops {
			switch o[0] {
			case 'r':
				st.Register(tfTreeID(o[1]))
			case 'u':
				st.Unregister(tfTreeID(o[1]))
			case 's':
				st.Set(&onet.Tree{ID: tfTreeID(o[1])})
			}
		}
		var b strings.Builder
		for id := 0; id < 6; id++ {
			reg, req, got := st.IsRegistered(tfTreeID(id)), st.IsRequested(tfTreeID(id)), st.Get(tfTreeID(id))
			switch {
			case !reg && !req && got == nil:
				b.WriteByte('a')
			case reg && req && got == nil:
				b.WriteByte('q')
			case reg && !req && got != nil && got.ID.Equal(tfTreeID(id)):
				b.WriteByte('p')
			default:
				b.WriteByte('?') // the three readers contradict each other
			}
		}
		return b.String()
	}), true
}

func tfStoreWant(args []string) string {
	ops, _ := tfStoreOps(args[0])
	slot := map[int]byte{}
	for _, o := range ops {
		switch o[0] {
		case 'r': // a key for the id, unless it has one
			if slot[o[1]] == 0 {
				slot[o[1]] = 'q'
			}
		case 'u': // a requested id is forgotten, a stored tree stays
			if slot[o[1]] == 'q' {
				delete(slot, o[1])
			}
		case 's':
			slot[o[1]] = 'p'
		}
	}
	var b strings.Builder
	for id := 0; id < 6; id++ {
		if slot[id] == 0 {
			b.WriteByte('a')
		} else {
			b.WriteByte(slot[id])
		}
	}
	return b.String()
}

func tfStoreGen(c *h.Ctx) string {
	var l []string
	for i := 0; i < 1+c.Rng.Intn(10); i++ {
		l = append(l, string("rus"[c.Rng.Intn(3)])+strconv.Itoa(c.Rng.Intn(4)))
	}
	return strings.Join(l, ",")
}

// ---- C06: Roster.Search

func tfSIID(n int) network.ServerIdentityID {
	var u uuid.UUID
	u[0], u[14], u[15] = 0x69, byte(n>>8), byte(n)
	return network.ServerIdentityID(u)
}

func tfNats(s string) ([]int, bool) {
	var out []int
	if s == "-" {
		return out, true
	}
	for _, e := range strings.Split(s, ",") {
		n, err := strconv.Atoi(e)
		if err != nil || n < 0 || n > 60000 || strconv.Itoa(n) != e {
			return nil, false
		}
		out = append(out, n)
	}
	return out, true
}

// ---- C09: handleError

type tfErr struct{ text string }

func (e tfErr) Error() string { return e.text }

type tfNetErr struct {
	text    string
	timeout bool
}

func (e tfNetErr) Error() string   { return e.text }
func (e tfNetErr) Timeout() bool   { return e.timeout }
func (e tfNetErr) Temporary() bool { return false }

// the error value with these observations: closed pipe cancel isEOF eofText netErr timeout
func tfErrorOf(bits string) (error, bool) {
	if len(bits) != 7 || strings.Trim(bits, "01") != "" {
		return nil, false
	}
	b := func(i int) bool { return bits[i] == '1' }
	if b(3) { // io.EOF is itself
		if bits != "0001100" {
			return nil, false
		}
		return io.EOF, true
	}
	if b(6) && !b(5) {
		return nil, false
	}
	text := "read tcp:"
	for i, w := range []string{" use of closed network connection", " broken pipe", " operation was canceled", "", " unexpected EOF"} {
		if i < 5 && i != 3 && b(i) {
			text += w
		}
	}
	if b(5) {
		return tfNetErr{text, b(6)}, true
	}
	return tfErr{text}, true
}

var tfRows = []tfRow{
	{prop: "c02", fn: "equal", n: [2]int{60, 400},
		corpus: []string{"k1 k1", "k1 k2", "k1 k-", "k- k1", "k- k-", "n k1", "k1 n", "n n", "n k-", "k- n"},
		gen:    func(c *h.Ctx) string { return tfGenIdent(c) + " " + tfGenIdent(c) },
		call: func(a []string) (string, bool) {
			x, _, ok1 := tfIdent(a[0])
			y, _, ok2 := tfIdent(a[1])
			if !ok1 || !ok2 {
				return "", false
			}
			return tfCatch(func() string { return strconv.FormatBool(x.Equal(y)) }), true
		},
		// the property: an identity is its key; without key (or without identity) it is nobody
		want: func(a []string) string {
			_, k1, _ := tfIdent(a[0])
			_, k2, _ := tfIdent(a[1])
			return strconv.FormatBool(k1 == 2 && k2 == 2 && a[0] == a[1])
		}},
	{prop: "c04", fn: "hasflag", n: [2]int{80, 600},
		corpus: []string{"- 1 1", "1:1 1 1", "1:0 1 1", "1:1 2 1", "1:2 1 1", "1:3 1 2", "1:1,2:0 2 1", "1:4294967295 1 1", "1:6 1 1"},
		gen: func(c *h.Ctx) string {
			var l []string
			for _, t := range c.Rng.Perm(5)[:c.Rng.Intn(4)] {
				l = append(l, fmt.Sprintf("%d:%d", t, c.Rng.Intn(8)))
			}
			return fmt.Sprintf("%s %d %d", tfJoin(l), c.Rng.Intn(5), 1<<uint(c.Rng.Intn(3)))
		},
		call: func(a []string) (string, bool) {
			tbl, ok := tfFlags(a[0])
			mt, err1 := strconv.Atoi(a[1])
			f, err2 := strconv.ParseUint(a[2], 10, 32)
			if !ok || err1 != nil || err2 != nil || mt < 0 || mt > 60000 {
				return "", false
			}
			m := map[network.MessageTypeID]uint32{}
			for t, w := range tbl {
				m[tfMsgType(t)] = w
			}
			return tfCatch(func() string { return strconv.FormatBool(onet.VerifC04HasFlag(m, tfMsgType(mt), uint32(f))) }), true
		},
		// the property: a flag is set for a message type when its bit is in the word stored for the type
		want: func(a []string) string {
			tbl, _ := tfFlags(a[0])
			mt, _ := strconv.Atoi(a[1])
			f, _ := strconv.ParseUint(a[2], 10, 32)
			for bit := uint(0); bit < 32; bit++ {
				if uint32(f)>>bit&1 == 1 && tbl[mt]>>bit&1 == 1 {
					return "true"
				}
			}
			return "false"
		}},
	{prop: "c06", fn: "store", n: [2]int{80, 600},
		corpus: []string{"-", "r1", "r1,u1", "s1,u1", "s1,r1", "r1,s1,u1", "s2,u2,r2", "r0,r0,u0", "u3", "s1,s1,u1,u1"},
		gen:    tfStoreGen, call: tfStoreCall, want: tfStoreWant},
	{prop: "c11", fn: "store", n: [2]int{80, 600},
		corpus: []string{"-", "r1", "r1,u1", "s1,u1", "s1,r1", "r1,s1,u1", "s2,u2,r2", "r0,r0,u0", "u3", "s1,s1,u1,u1"},
		gen:    tfStoreGen, call: tfStoreCall, want: tfStoreWant},
	{prop: "c06", fn: "search", n: [2]int{80, 600},
		corpus: []string{"- 1", "1 1", "1,2,3 3", "1,2,3 4", "3,5,3 3", "7,7,7 7", "1,2,1,2 2"},
		gen: func(c *h.Ctx) string {
			var l []string
			for i := 0; i < c.Rng.Intn(7); i++ {
				l = append(l, strconv.Itoa(c.Rng.Intn(4)))
			}
			return tfJoin(l) + " " + strconv.Itoa(c.Rng.Intn(5))
		},
		call: func(a []string) (string, bool) {
			ids, ok := tfNats(a[0])
			sid, err := strconv.Atoi(a[1])
			if !ok || err != nil || sid < 0 || sid > 60000 {
				return "", false
			}
			ro := &onet.Roster{}
			for _, id := range ids {
				ro.List = append(ro.List, &network.ServerIdentity{ID: tfSIID(id)})
			}
			return tfCatch(func() string {
				i, e := ro.Search(tfSIID(sid))
				if (i < 0) != (e == nil) || (e != nil && (i >= len(ro.List) || ro.List[i] != e)) {
					return fmt.Sprintf("inconsistent:%d", i)
				}
				return strconv.Itoa(i)
			}), true
		},
		// the property: the first entry with that id
		want: func(a []string) string {
			ids, _ := tfNats(a[0])
			sid, _ := strconv.Atoi(a[1])
			for i, id := range ids {
				if id == sid {
					return strconv.Itoa(i)
				}
			}
			return "-1"
		}},
	{prop: "c06", fn: "rosterget", n: [2]int{60, 400},
		corpus: []string{"- 0", "- -1", "- 1", "4 0", "4 1", "4,5,6 2", "4,5,6 3", "4,5,6 4", "4,5,6 -1"},
		gen: func(c *h.Ctx) string {
			var l []string
			n := c.Rng.Intn(5)
			for i := 0; i < n; i++ {
				l = append(l, strconv.Itoa(10+i))
			}
			return tfJoin(l) + " " + strconv.Itoa(c.Rng.Intn(n+4)-2)
		},
		call: func(a []string) (string, bool) {
			ids, ok := tfNats(a[0])
			idx, err := strconv.Atoi(a[1])
			if !ok || err != nil || strconv.Itoa(idx) != a[1] {
				return "", false
			}
			ro := &onet.Roster{}
			for _, id := range ids {
				ro.List = append(ro.List, &network.ServerIdentity{ID: tfSIID(id)})
			}
			return tfCatch(func() string {
				e := ro.Get(idx)
				if e == nil {
					return "nil"
				}
				for i, x := range ro.List {
					if x == e {
						return strconv.Itoa(i)
					}
				}
				return "foreign"
			}), true
		},
		// the property (the function's own promise): the entry at the index, nil on an index error
		want: func(a []string) string {
			ids, _ := tfNats(a[0])
			idx, _ := strconv.Atoi(a[1])
			if idx < 0 || idx >= len(ids) {
				return "nil"
			}
			return strconv.Itoa(idx)
		}},
	{prop: "c09", fn: "handleerror", n: [2]int{0, 0},
		corpus: func() []string {
			var l []string
			for v := 0; v < 128; v++ {
				bits := fmt.Sprintf("%07b", v)
				if _, ok := tfErrorOf(bits); ok {
					l = append(l, bits)
				}
			}
			return l
		}(),
		gen: func(c *h.Ctx) string { return "0000000" },
		call: func(a []string) (string, bool) {
			e, ok := tfErrorOf(a[0])
			if !ok {
				return "", false
			}
			return tfCatch(func() string {
				switch network.VerifC09HandleError(e) {
				case network.ErrClosed:
					return "closed"
				case network.ErrCanceled:
					return "canceled"
				case network.ErrEOF:
					return "eof"
				case network.ErrTimeout:
					return "timeout"
				case network.ErrUnknown:
					return "unknown"
				}
				return "other"
			}), true
		},
		// the property (C09): a closed or broken connection is "closed" whatever else the text says; then a
		// cancelled operation; then the end of the stream; a time-out is only what the network layer calls one
		want: func(a []string) string {
			b := func(i int) bool { return a[0][i] == '1' }
			switch {
			case b(0) || b(1):
				return "closed"
			case b(2):
				return "canceled"
			case b(3) || b(4):
				return "eof"
			case b(5) && b(6):
				return "timeout"
			}
			return "unknown"
		}},
}

// tfExtend gives property prop its rows of the table
func tfExtend(prop string) {
	var rows []tfRow
	for _, r := range tfRows {
		if r.prop == prop {
			rows = append(rows, r)
		}
	}
	sort.SliceStable(rows, func(i, j int) bool { return rows[i].fn < rows[j].fn })
	const class = "translated-functions"
	h.ExtendProp(prop, class, h.Prop{
		Gen: func(c *h.Ctx, yield func(*h.Case)) {
			for _, r := range rows {
				var argl []string
				argl = append(argl, r.corpus...)
				for i := 0; i < c.Pick(r.n[0], r.n[1]); i++ {
					argl = append(argl, r.gen(c))
				}
				// a handful of argument tuples per case
				for i := 0; i < len(argl); i += 8 {
					cs := &h.Case{Class: class + ":" + r.fn}
					for _, a := range argl[i:tfMin(i+8, len(argl))] {
						cs.Ops = append(cs.Ops, "tf "+r.prop+" "+r.fn+" "+a)
					}
					c.Count("class=" + cs.Class)
					yield(cs)
				}
			}
		},
		Exec: func(c *h.Ctx, cs *h.Case) {
			outcomes := map[string]bool{}
			for _, op := range cs.Ops {
				tk := strings.Fields(op)
				var row *tfRow
				if len(tk) >= 3 && tk[0] == "tf" && tk[1] == prop {
					for i := range rows {
						if rows[i].fn == tk[2] {
							row = &rows[i]
						}
					}
				}
				if row == nil || len(tk)-3 != len(strings.Fields(row.corpus[0])) {
					cs.Impl = append(cs.Impl, "bad-op")
					continue
				}
				got, ok := row.call(tk[3:])
				if !ok {
					cs.Impl = append(cs.Impl, "bad-op")
					continue
				}
				cs.Impl = append(cs.Impl, got)
				outcomes[got] = true
				if want := row.want(tk[3:]); got != want {
					cs.Fail("translated-function:"+row.fn, fmt.Sprintf("%s(%s) = %s, the property says %s", row.fn, strings.Join(tk[3:], ", "), got, want))
				}
			}
			var ks []string
			for k := range outcomes {
				if len(k) > 12 {
					k = "value"
				}
				ks = append(ks, k)
			}
			sort.Strings(ks)
			if len(ks) > 3 {
				ks = []string{"several"}
			}
			cs.Outcome = strings.Join(ks, "|")
		},
	})
}
