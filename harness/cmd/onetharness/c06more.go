package main

import (
	"strconv"

	"go.dedis.ch/onet/v3"
	"go.dedis.ch/onet/v3/network"
	"onetverif/harness/h"
)

// C06, further ops: trees without roster, Tree.Equal, bytes that are no tree
// description / no binary form, a binary form whose roster was exchanged.

// C06tbm has the wire layout of onet's (unexported) tbmStruct: with the type
// id of the real one in front, its encoding is a binary form of a tree.
type C06tbm struct {
	T  []byte
	Ro *onet.Roster
}

var _ = network.RegisterMessage(&C06tbm{})

func c06keyless(ro *onet.Roster) bool {
	if ro == nil {
		return false
	}
	for _, si := range ro.List {
		if si.Public == nil {
			return true
		}
	}
	return false
}

// c06junk: bytes that are not what the caller expects
func c06junk(kind string, forBinary bool) ([]byte, bool) {
	switch kind {
	case "empty":
		return []byte{}, true
	case "unknown":
		b := make([]byte, 40)
		for i := range b {
			b[i] = 0xAB
		}
		return b, true
	case "othertype":
		var m interface{} = &onet.RequestTree{Version: 1}
		if forBinary {
			m = &onet.TreeMarshal{} // a message, but not the binary form
		}
		b, err := network.Marshal(m)
		return b, err == nil
	}
	return nil, false
}

// c06untouched: a binary form that was rejected must leave nothing behind in the receiver ("rejected with
// an error instead of being stored" — a caller that keeps the value after the error would hold a tree
// made of an unvalidated roster or root)
func c06untouched(cs *h.Case, t *onet.Tree, op string) {
	if t.Roster != nil || t.Root != nil || !t.ID.IsNil() {
		cs.Fail("rejected-binary-form-partly-stored", "BinaryUnmarshaler returned an error but left a roster / root / id of the rejected form in the receiver — "+op)
	}
}

func (cc *c06case) moreOps(cs *h.Case, tk []string, op string, optRoster func(string) (*onet.Roster, bool)) string {
	atoi := func(s string) (int, bool) {
		v, err := strconv.ParseUint(s, 10, 31)
		return int(v), err == nil
	}
	suite := network.Suite(nil)
	if cc.su != nil {
		suite = cc.su.s
	}
	switch {
	case tk[1] == "strip" && len(tk) == 4:
		l, ok1 := atoi(tk[2])
		ol, ok2 := atoi(tk[3])
		old, ok3 := cc.trees[ol]
		if !ok1 || !ok2 || !ok3 {
			return "bad-op"
		}
		t := &onet.Tree{ID: old.ID, Root: old.Root}
		cc.trees[l] = t
		return cc.showTree(t)
	case tk[1] == "equal" && len(tk) == 4:
		a, ok1 := atoi(tk[2])
		b, ok2 := atoi(tk[3])
		ta, ok3 := cc.trees[a]
		tb, ok4 := cc.trees[b]
		if !ok1 || !ok2 || !ok3 || !ok4 || ta.Roster == nil || tb.Roster == nil {
			return "bad-op"
		}
		eq := ta.Equal(tb)
		// what Equal is documented to compare is what a description carries
		want := ta.ID.Equal(tb.ID) && ta.Roster.ID.Equal(tb.Roster.ID) && cc.showTM(ta.MakeTreeMarshal()) == cc.showTM(tb.MakeTreeMarshal())
		if eq != want || tb.Equal(ta) != eq || !ta.Equal(ta) {
			cs.Fail("tree-equal-wrong", "Tree.Equal says "+strconv.FormatBool(eq)+" for two trees whose descriptions are "+map[bool]string{true: "the same", false: "different"}[want]+" (or is not symmetric / reflexive) — "+op)
		}
		return strconv.FormatBool(eq)
	case tk[1] == "frommarshal" && len(tk) == 4:
		buf, ok1 := c06junk(tk[2], false)
		ro, ok2 := optRoster(tk[3])
		if !ok1 || !ok2 || suite == nil {
			return "bad-op"
		}
		t, err := onet.NewTreeFromMarshal(suite, buf, ro)
		if err != nil {
			return c06errClass(err)
		}
		cs.Fail("junk-accepted", "NewTreeFromMarshal built a tree from bytes that are no tree description — "+op)
		return cc.showTree(t)
	case tk[1] == "binaryun" && len(tk) == 4 && tk[2] == "junk":
		buf, ok := c06junk(tk[3], true)
		if !ok || suite == nil {
			return "bad-op"
		}
		t := &onet.Tree{}
		if err := t.BinaryUnmarshaler(suite, buf); err != nil {
			c06untouched(cs, t, op)
			return c06errClass(err)
		}
		cs.Fail("junk-accepted", "BinaryUnmarshaler accepted bytes that are no binary form of a tree — "+op)
		return cc.showTree(t)
	case tk[1] == "binaryun" && len(tk) == 5 && tk[2] == "splice":
		l, ok1 := atoi(tk[3])
		t, ok2 := cc.trees[l]
		ro, ok3 := optRoster(tk[4])
		if !ok1 || !ok2 || !ok3 || c06keyless(ro) || suite == nil {
			return "bad-op"
		}
		// the type id of the real binary form, from a tree that has one
		var typeID []byte
		for _, any := range cc.trees {
			if any.Roster != nil && !c06keyless(any.Roster) {
				if b, err := any.BinaryMarshaler(); err == nil && len(b) >= 16 {
					typeID = b[:16]
					break
				}
			}
		}
		bt, err := t.Marshal()
		if typeID == nil || err != nil {
			return "err:codec"
		}
		buf, err := network.Marshal(&C06tbm{T: bt, Ro: ro})
		if err != nil || len(buf) < 16 {
			return "err:codec"
		}
		copy(buf[:16], typeID)
		t2 := &onet.Tree{}
		err = t2.BinaryUnmarshaler(suite, buf)
		// what the property demands, decided from description and roster alone
		bad := ro == nil || t.Roster == nil || !ro.ID.Equal(t.Roster.ID)
		if !bad {
			for _, n := range t.List() {
				// looked up by the identifier of the key (own loop: not the code's search)
				found := false
				for _, e := range ro.List {
					if e != nil && n.ServerIdentity != nil && e.GetID().Equal(n.ServerIdentity.GetID()) {
						found = true
						break
					}
				}
				if !found {
					bad = true
				}
			}
		}
		if err != nil {
			if !bad {
				cs.Fail("wellformed-rejected", "a binary form whose roster fits the description was rejected: "+err.Error()+" — "+op)
			}
			c06untouched(cs, t2, op)
			// the same form into a value that already holds a tree: the value must be what it was
			if any := cc.trees[l]; any != nil && any.Roster != nil && !c06keyless(any.Roster) {
				t3 := &onet.Tree{ID: any.ID, Roster: any.Roster, Root: any.Root}
				if err3 := t3.BinaryUnmarshaler(suite, buf); err3 == nil || t3.ID != any.ID || t3.Roster != any.Roster || t3.Root != any.Root {
					cs.Fail("rejected-binary-form-partly-stored", "BinaryUnmarshaler of a rejected form into a Tree value that holds a tree changed that value (or did not fail) — "+op)
				} else if b3, e3 := t3.BinaryMarshaler(); e3 != nil {
					cs.Fail("rejected-binary-form-partly-stored", "after a rejected BinaryUnmarshaler the value no longer marshals — "+op)
				} else {
					t4 := &onet.Tree{}
					if e4 := t4.BinaryUnmarshaler(suite, b3); e4 != nil || c06sameTree(any, t4) != "" {
						cs.Fail("rejected-binary-form-partly-stored", "after a rejected BinaryUnmarshaler the value no longer round-trips to itself — "+op)
					}
				}
			}
			return c06errClass(err)
		}
		if bad {
			cs.Fail("mismatch-accepted", "a binary form whose roster does not fit the description was turned into a tree — "+op)
		}
		return cc.showTree(t2)
	}
	return "bad-op"
}
