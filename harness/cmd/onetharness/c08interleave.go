package main

// C08, round 7: two handshakes with one listener that overlap.
//
//   c08 interleave suite=<ed|g1|g2> tlsv=<12|13> proof=<own|other|swap>
//       Connection 1 sends its ClientHello and receives its nonce n1; before it answers, connection 2 sends its
//       ClientHello and receives n2; then connection 1 presents its certificate and finishes (identity, one
//       message), then connection 2. Both are operated by a and name a's key.
//       proof=own: each proof is over the connection's own nonce; other: connection 1 proves over n2 (the nonce of
//       the other, concurrent handshake), connection 2 over n2; swap: 1 over n2, 2 over n1.
//       Observation: c1=<ok|fail>:<label of the key a message was dispatched under|-> c2=…
//
// The listener makes a verifier per ClientHello; crypto/tls reads the per-client configuration again when
// the client's certificate arrives, so a configuration shared by the connections of a listener lets the
// verifier of a later hello judge an earlier connection (seeded change C08r7-A).

import (
	"crypto/tls"
	"fmt"
	"net"
	"sync/atomic"
	"time"

	"go.dedis.ch/kyber/v3"
	"go.dedis.ch/kyber/v3/suites"
	"go.dedis.ch/kyber/v3/util/key"
	"go.dedis.ch/onet/v3/network"
	"onetverif/harness/h"
)

// c08afterHandshake: the client's handshake is over; wait for a late refusal (TLS 1.3), declare a's identity,
// send one message and report the key it was dispatched under.
func c08afterHandshake(conn *tls.Conn, w *c08world) (string, string, string) {
	tok := fmt.Sprintf("i%d", atomic.AddInt64(&c08tokens, 1))
	ch := make(chan kyber.Point, 4)
	c08waiters.Store(tok, ch)
	defer c08waiters.Delete(tok)
	conn.SetReadDeadline(time.Now().Add(300 * time.Millisecond))
	var one [1]byte
	_, rerr := conn.Read(one[:])
	if ne, ok := rerr.(net.Error); !(ok && ne.Timeout()) {
		return "fail", "-", c08class(fmt.Sprint(rerr))
	}
	conn.SetReadDeadline(time.Time{})
	me := network.NewServerIdentity(w.keys["a"].Public, network.NewTLSAddress("127.0.0.1:7"))
	if err := c08writeMsg(conn, me); err != nil {
		return "ok", "-", "write identity: " + err.Error()
	}
	if err := c08writeMsg(conn, &C08Msg{Tok: tok}); err != nil {
		return "ok", "-", "write message: " + err.Error()
	}
	select {
	case p := <-ch:
		return "ok", w.label(p), ""
	case <-time.After(5 * time.Second):
		// a refusal that arrived later than the 300 ms above: a connection on which the honest node dispatches
		// nothing was not established
		return "fail", "-", "(nothing dispatched)"
	}
}

func c08interleave(tk []string, cs *h.Case) (string, string) {
	m, ok := c08kv(tk, "suite", "tlsv", "proof")
	if !ok || !c08in(m["suite"], "ed", "g1", "g2") || !c08in(m["tlsv"], "12", "13") || !c08in(m["proof"], "own", "other", "swap") {
		return "bad-op", ""
	}
	// a listener of its own: the cases of other workers must not send their hellos in between
	c08node0(m["suite"])
	st := suites.MustFind(c08suiteName[m["suite"]])
	hn, err0 := c08startNode(st, key.NewKeyPair(st))
	if err0 != nil {
		cs.Fail("harness", "cannot start a listener: "+err0.Error())
		return "harness-error", ""
	}
	defer hn.r.Stop()
	w := c08newWorld(m["suite"], hn.kp)
	d := c08desc{role: "accept", suite: m["suite"], tlsv: m["tlsv"], op: "a", them: "-", ncerts: 1, der: "ok", signedby: "self", time: "ok",
		uris: "new:a", cn: "new:a", sig: "a/cur/new:a", nonce: "ok", id: "a", via: "key", live: "none", decoy: "none"}
	n2c := make(chan []byte, 1)
	go2 := make(chan struct{})
	type res struct{ hs, disp, note string }
	r2c := make(chan res, 1)
	var n1, n2 []byte
	// connection 2: started from inside connection 1's certificate callback
	dial2 := func() {
		cfg := &tls.Config{InsecureSkipVerify: true, ServerName: string(c08peerNonce("ok")),
			GetClientCertificate: func(req *tls.CertificateRequestInfo) (*tls.Certificate, error) {
				if len(req.AcceptableCAs) == 0 {
					n2c <- nil
					return nil, fmt.Errorf("honest listener sent no nonce")
				}
				n2c <- req.AcceptableCAs[0]
				<-go2 // connection 1 finishes first
				over := req.AcceptableCAs[0]
				if m["proof"] == "swap" {
					over = n1
				}
				return w.cert(d, over, nil, nil)
			}}
		c08versions(cfg, m["tlsv"])
		conn, err := tls.DialWithDialer(&net.Dialer{Timeout: 3 * time.Second}, "tcp", hn.addr, cfg)
		if err != nil {
			select {
			case n2c <- nil:
			default:
			}
			r2c <- res{"fail", "-", c08class(err.Error())}
			return
		}
		defer conn.Close()
		hs, disp, note := c08afterHandshake(conn, w)
		r2c <- res{hs, disp, note}
	}
	cfg1 := &tls.Config{InsecureSkipVerify: true, ServerName: string(c08peerNonce("ok")),
		GetClientCertificate: func(req *tls.CertificateRequestInfo) (*tls.Certificate, error) {
			if len(req.AcceptableCAs) == 0 {
				return nil, fmt.Errorf("honest listener sent no nonce")
			}
			n1 = req.AcceptableCAs[0]
			go dial2()
			select {
			case n2 = <-n2c:
			case <-time.After(4 * time.Second):
			}
			if n2 == nil {
				return nil, fmt.Errorf("connection 2 did not get its nonce")
			}
			over := n1
			if m["proof"] != "own" {
				over = n2
			}
			return w.cert(d, over, nil, nil)
		}}
	c08versions(cfg1, m["tlsv"])
	r1 := res{"fail", "-", ""}
	conn1, err := tls.DialWithDialer(&net.Dialer{Timeout: 6 * time.Second}, "tcp", hn.addr, cfg1)
	if err != nil {
		r1.note = c08class(err.Error())
	} else {
		r1.hs, r1.disp, r1.note = c08afterHandshake(conn1, w)
		conn1.Close()
	}
	close(go2)
	var r2 res
	if n1 == nil || n2 == nil {
		cs.Fail("harness", "the two handshakes did not overlap: "+r1.note)
		r2 = res{"fail", "-", "not started"}
	} else {
		select {
		case r2 = <-r2c:
		case <-time.After(8 * time.Second):
			r2 = res{"fail", "-", "hang"}
		}
	}
	tag := fmt.Sprintf("%s:tls%s", m["suite"], m["tlsv"])
	fresh1, fresh2 := m["proof"] == "own", m["proof"] != "swap"
	for i, x := range []struct {
		r     res
		fresh bool
	}{{r1, fresh1}, {r2, fresh2}} {
		switch {
		case x.r.hs == "ok" && !x.fresh:
			cs.Fail("unproven-key-accepted:interleave:"+tag, fmt.Sprintf("connection %d was established on a proof over the nonce of the other, overlapping handshake (proof=%s); dispatched under %s", i+1, m["proof"], x.r.disp))
		case x.r.hs != "ok" && x.fresh:
			cs.Fail("honest-certificate-refused:interleave:"+tag, fmt.Sprintf("connection %d proved its key over its own nonce and was refused because another handshake overlapped (%s)", i+1, x.r.note))
		case x.r.hs == "ok" && x.r.disp != "a" && x.r.disp != "-":
			cs.Fail("dispatched-under-unproven-key:interleave:"+tag, fmt.Sprintf("connection %d: dispatched under %s", i+1, x.r.disp))
		}
	}
	return fmt.Sprintf("c1=%s:%s c2=%s:%s", r1.hs, r1.disp, r2.hs, r2.disp), r1.note + " " + r2.note
}

// c08interleaveGen: the cases with a proof over the other handshake's nonce come early in the run (proofs = "other"),
// the honest and the crossed ones later.
func c08interleaveGen(c *h.Ctx, yield func(*h.Case), proofs ...string) {
	for _, suite := range []string{"ed", "g1", "g2"} {
		for _, tlsv := range []string{"12", "13"} {
			if c.Pick(1, 0) == 1 && suite != "ed" && tlsv == "12" {
				continue
			}
			for _, proof := range proofs {
				for i := 0; i < c.Pick(1, 8); i++ {
					c.Count("class=interleave")
					yield(&h.Case{Class: "interleave:" + proof + ":tls" + tlsv, Ops: []string{fmt.Sprintf("c08 interleave suite=%s tlsv=%s proof=%s", suite, tlsv, proof)}})
				}
			}
		}
	}
	if proofs[0] != "other" {
		return
	}
	for _, l := range []string{"c08 interleave suite=ed tlsv=13 proof=none", "c08 interleave suite=ed tlsv=13", "c08 interleave suite=p256 tlsv=13 proof=own"} {
		c.Count("class=malformed")
		yield(&h.Case{Class: "malformed", Ops: []string{l}, Trivial: true})
	}
}
