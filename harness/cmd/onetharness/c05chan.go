package main

import (
	"fmt"
	"strconv"
	"strings"
	"sync"
	"time"

	"github.com/google/uuid"
	"go.dedis.ch/onet/v3"
	"go.dedis.ch/onet/v3/network"
	"onetverif/harness/fix"
	"onetverif/harness/h"
)

// C05, class "chan": an instance that receives one of its message types
// through a channel of bounded length (fixture VerifC05ChanProto: M4 through a
// channel of `cap` places, M3 through a gated handler, MSync as barrier).
//
// The property's quantifier: receivers are handlers or channels that have free
// capacity; a full channel is documented to reject the message ("channel too
// small … please use RegisterChannelLength()"). So: a message that finds room
// arrives in the channel, in acceptance order; a message that finds the
// channel full is gone — it is never delivered later, and nothing accepted
// after it can be overtaken by it. The harness is the only reader of the
// channel, the only feeder and the one who lets the handler return, so at every
// op it knows what the channel must hold.
//
// Ops: `c05 chstart <cap>`; `c05 chsend <m>` / `c05 chacc <m>` (a channel / a
// handler message is handed over through Overlay.Process), `c05 chexit` (the
// running handler returns), `c05 chclose` (Done), `c05 chwait <ms>` (time
// passes: nothing may show up) — observation: what the instance is doing and
// how many messages sit in the channel once the reader has nothing more to do
// (barrier message behind everything when no handler is blocked); `c05 chread`
// (take one message from the channel if there is one), `c05 chdrain` (take all).
// `c05 chagg <m>`: a message of the aggregated channel type (M2, from the
// parent: dispatched at once as a slice of one) — the send into that channel
// has no capacity test: when the channel of slices is full the reader waits
// for room, like inside a slow handler (further messages for the instance are
// taken and queue up, other instances are not concerned); `c05 chaggread`: the
// protocol reads one slice.
// `c05 chhold <m>` (idle, open instance): a channel message is handed over and
// the reader is held between the pop and dispatchChannel's tests (the harness
// holds the lock of the tree store, Overlay.VerifC05HoldTrees: the reader waits
// in createValueAndVerify -> Tree()); meanwhile only chread / chdrain / chclose
// happen; `c05 chrel` lets the reader go on: the tests (room? closing?) must be
// made on the channel and the flag as they are then.

type c05chanRun struct {
	mu   sync.Mutex
	cond *sync.Cond
	rec  *fix.Rec
	gate chan struct{}
	// handler side
	hAccepted []int
	entered   int
	exited    int
	running   int
	// what the harness expects by the documented behaviour
	queuedBehind []c05chanMsg // accepted while a handler runs, not yet dispatched
	expect       []int        // content of the channel, oldest first
	rejected     map[int]bool // found the channel full
	known        map[int]bool // channel messages handed over so far
	late         map[int]bool // popped before the close, dispatched after it: must not be sent
	closed       bool
	// the aggregated channel
	expect2   []int // its content, oldest first
	sendWait  bool  // the reader waits for room in it
	sendWaitM int
}

type c05chanMsg struct {
	ch  bool
	m   int
	agg bool
}

func c05chan(c *h.Ctx, cs *h.Case) {
	fixMu.Lock() // fix.Prepare is global
	defer fixMu.Unlock()
	tk0 := strings.Fields(cs.Ops[0])
	capacity := 0
	if len(tk0) == 3 {
		capacity, _ = strconv.Atoi(tk0[2])
	}
	if capacity < 1 || capacity > 1000 {
		for range cs.Ops {
			cs.Impl = append(cs.Impl, "bad-op")
		}
		cs.Outcome = "chan bad-op"
		return
	}
	f := c04get()
	ct := f.tree(false, 3)
	round := uuid.New()
	fix.SetChanCap(round, capacity)
	defer fix.ForgetChanCap(round)
	tok := fix.ChanTokenFor(ct.t, ct.target, round)
	tokID := tok.ID().String()
	r := &c05chanRun{gate: make(chan struct{}, 1000), rejected: map[int]bool{}, known: map[int]bool{}, late: map[int]bool{}}
	held, heldM := false, 0
	var heldRelease func()
	var doneCh chan struct{}
	r.cond = sync.NewCond(&r.mu)
	fix.Prepare = func(rec *fix.Rec) {
		if rec.Tni.Token().ID().String() != tokID {
			return
		}
		r.mu.Lock()
		r.rec = rec
		r.mu.Unlock()
		rec.OnEnter = func(d fix.Delivery) {
			r.mu.Lock()
			v := d.Items[0].V
			if r.entered > r.exited {
				cs.Fail("handlers-overlap", fmt.Sprintf("handler for %d entered while the handler for %d is still running", v, r.running))
			}
			if r.entered >= len(r.hAccepted) || r.hAccepted[r.entered] != v {
				cs.Fail("not-acceptance-order", fmt.Sprintf("handler #%d runs message %d, acceptance order of the handler messages is %v", r.entered, v, r.hAccepted))
			}
			r.entered++
			r.running = v
			r.cond.Broadcast()
			r.mu.Unlock()
			<-r.gate
		}
		rec.OnExit = func(d fix.Delivery) {
			r.mu.Lock()
			r.exited++
			r.cond.Broadcast()
			r.mu.Unlock()
		}
	}
	defer func() {
		if held && heldRelease != nil {
			heldRelease()
		}
		if doneCh != nil {
			select {
			case <-doneCh:
			case <-time.After(10 * time.Second):
			}
		}
		fix.Prepare = nil
		for j := 0; j < 1000; j++ {
			select {
			case r.gate <- struct{}{}:
			default:
			}
		}
		r.mu.Lock()
		rec, closed := r.rec, r.closed
		r.mu.Unlock()
		if rec != nil {
			// a reader that waits for room in the channel of slices is let go
			for j := 0; j < 40; j++ {
				select {
				case <-rec.Ch2:
					continue
				default:
				}
				time.Sleep(500 * time.Microsecond)
			}
		}
		if rec != nil && !closed {
			done := make(chan struct{})
			go func() { rec.Tni.Done(); close(done) }()
			select {
			case <-done:
			case <-time.After(5 * time.Second):
			}
		}
	}()
	waitFor := func(d time.Duration, pred func() bool) bool {
		deadline := time.Now().Add(d)
		stop := make(chan struct{})
		go func() {
			select {
			case <-stop:
			case <-time.After(d):
				r.mu.Lock()
				r.cond.Broadcast()
				r.mu.Unlock()
			}
		}()
		defer close(stop)
		r.mu.Lock()
		defer r.mu.Unlock()
		for !pred() {
			if time.Now().After(deadline) {
				return false
			}
			r.cond.Wait()
		}
		return true
	}
	from := ct.target.Parent
	fromTok := fix.ChanTokenFor(ct.t, from, round)
	inject := func(msg interface{}) bool {
		env, err := fix.Envelope(from.ServerIdentity, fromTok, tok, msg)
		if err != nil {
			panic(err)
		}
		done := make(chan struct{})
		go func() {
			f.cl.Overlay(ct.srv).Process(env)
			close(done)
		}()
		select {
		case <-done:
			return true
		case <-time.After(10 * time.Second):
			return false
		}
	}
	nSync := 0
	// barrier: a handler message behind everything accepted so far; handlers and channel sends happen in
	// acceptance order on one goroutine, so once it ran everything before it has been dispatched
	barrier := func() bool {
		r.mu.Lock()
		rec, closed, busy := r.rec, r.closed, r.entered > r.exited || r.sendWait
		r.mu.Unlock()
		if rec == nil || closed || busy {
			return true
		}
		nSync++
		want := nSync
		if !inject(&fix.MSync{V: want}) {
			return false
		}
		for {
			select {
			case v := <-rec.SyncCh:
				if v == want {
					return true
				}
			case <-time.After(6 * time.Second):
				return false
			}
		}
	}
	chanLen := func() int {
		r.mu.Lock()
		rec := r.rec
		r.mu.Unlock()
		if rec == nil {
			return 0
		}
		return len(rec.Ch4)
	}
	state := func() string {
		r.mu.Lock()
		pc := "idle"
		if r.entered > r.exited {
			pc = fmt.Sprintf("in:%d", r.running)
		} else if r.sendWait {
			pc = fmt.Sprintf("in:%d", r.sendWaitM)
		}
		r.mu.Unlock()
		if held {
			pc = fmt.Sprintf("held:%d", heldM)
		}
		return fmt.Sprintf("%s len=%d", pc, chanLen())
	}
	// the documented fate of a channel message dispatched now
	dispatchChan := func(m int) {
		if r.closed {
			return
		}
		if len(r.expect) < capacity {
			r.expect = append(r.expect, m)
		} else {
			r.rejected[m] = true
		}
	}
	// the reader goes through what was queued behind a handler, up to the next handler message
	advance := func() string {
		for len(r.queuedBehind) > 0 {
			x := r.queuedBehind[0]
			r.queuedBehind = r.queuedBehind[1:]
			if x.agg {
				if len(r.expect2) < capacity {
					r.expect2 = append(r.expect2, x.m)
					continue
				}
				r.mu.Lock()
				r.sendWait, r.sendWaitM = true, x.m
				r.mu.Unlock()
				return "sendwait"
			}
			if !x.ch {
				return "handler" // its handler runs now
			}
			dispatchChan(x.m)
		}
		return ""
	}
	// the reader is inside the send into the full channel of slices once it has taken everything up to that
	// message from the queue (the accessor needs the queue lock: if that is not free, go on — the next
	// hand-over shows it)
	lockStuck := false
	waitQueued := func(n int) {
		if lockStuck {
			return
		}
		r.mu.Lock()
		rec := r.rec
		r.mu.Unlock()
		if rec == nil {
			return
		}
		for dl := time.Now().Add(4 * time.Second); time.Now().Before(dl); time.Sleep(300 * time.Microsecond) {
			got := make(chan int, 1)
			go func() { q, _ := rec.Tni.VerifC05QueueState(); got <- q }()
			select {
			case q := <-got:
				if q <= n {
					return
				}
			case <-time.After(2 * time.Second):
				lockStuck = true
				return
			}
		}
	}
	// what the protocol reads from its channel, checked against the documented behaviour
	nRead := 0
	took := func(v int) {
		nRead++
		switch {
		case r.late[v]:
			cs.Fail("message-sent-after-close", fmt.Sprintf("message %d was popped by the reader before the instance was closed and dispatched after it; it is sent into the protocol's channel all the same (read #%d)", v, nRead))
		case r.rejected[v]:
			cs.Fail("rejected-message-delivered", fmt.Sprintf("message %d found the channel full (channel of %d) and was rejected with 'channel too small'; it is delivered all the same later on (read #%d)", v, capacity, nRead))
		case !r.known[v]:
			cs.Fail("chan-unknown-message", fmt.Sprintf("read #%d from the channel is %d, which was never handed over", nRead, v))
		case len(r.expect) == 0 || r.expect[0] != v:
			cs.Fail("chan-not-acceptance-order", fmt.Sprintf("read #%d from the channel is %d; in acceptance order the channel holds %v", nRead, v, r.expect))
		}
		if len(r.expect) > 0 && r.expect[0] == v {
			r.expect = r.expect[1:]
		}
	}
	// more in the channel than what found room: the reads that follow (at the latest the ones at the end of
	// the case) tell which message it is
	extra := ""
	checkLen := func(op string) {
		if n := chanLen(); n != len(r.expect) {
			if n < len(r.expect) {
				cs.Fail("chan-message-lost", fmt.Sprintf("after %q the channel holds %d messages; messages %v found room and must be in it", op, n, r.expect))
			} else if extra == "" {
				extra = fmt.Sprintf("after %q the channel holds %d messages, more than the %v that found room", op, n, r.expect)
			}
		}
	}
	stuck := func(what string) {
		cs.Impl = append(cs.Impl, "stuck")
		cs.Fail("lost-wakeup", what)
	}
	nReject, nWaits := 0, 0
	for _, op := range cs.Ops {
		tk := strings.Fields(op)
		if cs.Oracle == "fail" && len(cs.Impl) > 0 && (cs.Impl[len(cs.Impl)-1] == "stuck" || cs.Impl[len(cs.Impl)-1] == "hang") {
			break
		}
		if len(tk) < 2 {
			cs.Impl = append(cs.Impl, "bad-op")
			continue
		}
		if held && ((len(tk) == 3 && (tk[1] == "chsend" || tk[1] == "chacc" || tk[1] == "chwait" || tk[1] == "chhold" || tk[1] == "chagg")) || (len(tk) == 2 && tk[1] == "chexit")) {
			cs.Impl = append(cs.Impl, "held")
			continue
		}
		switch {
		case tk[1] == "chstart" && len(tk) == 3:
			cs.Impl = append(cs.Impl, "ok")
		case tk[1] == "chagg" && len(tk) == 3:
			m, err := strconv.Atoi(tk[2])
			if err != nil || m < 0 || strings.HasPrefix(tk[2], "+") {
				cs.Impl = append(cs.Impl, "bad-op")
				continue
			}
			r.mu.Lock()
			busy := r.entered > r.exited || r.sendWait
			r.mu.Unlock()
			c.Count("op=chagg")
			if !inject(&fix.M2{V: m}) {
				cs.Impl = append(cs.Impl, "hang")
				cs.Fail("handover-blocked", fmt.Sprintf("handing message %d over did not return within 10 s (%s)", m, state()))
				continue
			}
			switch {
			case r.closed:
			case busy:
				r.queuedBehind = append(r.queuedBehind, c05chanMsg{m: m, agg: true})
			case len(r.expect2) < capacity:
				r.expect2 = append(r.expect2, m)
			default:
				r.mu.Lock()
				r.sendWait, r.sendWaitM = true, m
				r.mu.Unlock()
				c.Count("chan: the reader waits for room in the channel of slices")
				waitQueued(0)
			}
			if !barrier() {
				stuck(fmt.Sprintf("a barrier message behind message %d is never handled although no handler is running and the channel of slices has room", m))
				continue
			}
			checkLen(op)
			cs.Impl = append(cs.Impl, state())
		case tk[1] == "chaggread" && len(tk) == 2:
			r.mu.Lock()
			rec := r.rec
			r.mu.Unlock()
			got := "empty"
			if rec != nil {
				select {
				case vs := <-rec.Ch2:
					v := -1
					if len(vs) == 1 {
						v = vs[0].V
					}
					got = fmt.Sprintf("got:%d", v)
					if len(r.expect2) == 0 || r.expect2[0] != v {
						cs.Fail("chan-not-acceptance-order", fmt.Sprintf("the protocol reads %d from its channel of slices; in acceptance order the channel holds %v", v, r.expect2))
					}
					if len(r.expect2) > 0 {
						r.expect2 = r.expect2[1:]
					}
					r.mu.Lock()
					waiting := r.sendWait
					r.mu.Unlock()
					if waiting {
						// room: the waiting send goes through, the reader goes on with what queued up behind it
						r.expect2 = append(r.expect2, r.sendWaitM)
						r.mu.Lock()
						r.sendWait = false
						wantEnter := r.entered
						r.mu.Unlock()
						stop := ""
						before := len(r.rejected)
						if r.closed {
							r.queuedBehind = nil
						} else {
							stop = advance()
						}
						nReject += len(r.rejected) - before
						if stop == "handler" {
							if !waitFor(4*time.Second, func() bool { return r.entered >= wantEnter+1 }) {
								stuck("after the channel of slices got room the next queued handler message is never handled")
								continue
							}
						} else if stop == "sendwait" {
							waitQueued(len(r.queuedBehind))
						} else if !barrier() {
							stuck("after the channel of slices got room a barrier message behind everything is never handled")
							continue
						}
					}
				default:
					if len(r.expect2) > 0 {
						cs.Fail("chan-message-lost", fmt.Sprintf("the channel of slices is empty; messages %v found room and must be in it", r.expect2))
					}
				}
			}
			cs.Impl = append(cs.Impl, got)
		case tk[1] == "chhold" && len(tk) == 3:
			m, err := strconv.Atoi(tk[2])
			if err != nil || m < 0 || strings.HasPrefix(tk[2], "+") {
				cs.Impl = append(cs.Impl, "bad-op")
				continue
			}
			r.mu.Lock()
			busy, closed, rec := r.entered > r.exited || r.sendWait, r.closed, r.rec
			r.mu.Unlock()
			if closed || busy {
				cs.Impl = append(cs.Impl, "not-idle")
				continue
			}
			if rec == nil {
				// the instance is made by the first message: a barrier message
				nSync++
				want := nSync
				okB := inject(&fix.MSync{V: want})
				if okB {
					okB = waitFor(6*time.Second, func() bool { return r.rec != nil })
				}
				r.mu.Lock()
				rec = r.rec
				r.mu.Unlock()
				for okB {
					select {
					case v := <-rec.SyncCh:
						if v == want {
							break
						}
						continue
					case <-time.After(6 * time.Second):
						okB = false
					}
					break
				}
				if !okB {
					stuck("the first message of the run (a barrier message) is never handled")
					continue
				}
			}
			r.known[m] = true
			heldRelease = f.cl.Overlay(ct.srv).VerifC05HoldTrees()
			held, heldM = true, m
			rec.Tni.ProcessProtocolMsg(&onet.ProtocolMsg{From: fromTok, To: tok, ServerIdentity: from.ServerIdentity,
				Msg: &fix.M4{V: m}, MsgType: network.MessageType(&fix.M4{}), Size: 1})
			popped := false
			for dl := time.Now().Add(6 * time.Second); time.Now().Before(dl); time.Sleep(200 * time.Microsecond) {
				if q, _ := rec.Tni.VerifC05QueueState(); q == 0 {
					popped = true
					break
				}
			}
			if !popped {
				heldRelease()
				held = false
				stuck(fmt.Sprintf("the instance is idle with channel message %d queued and its reader never takes it", m))
				continue
			}
			c.Count("op=chhold")
			cs.Impl = append(cs.Impl, state())
		case tk[1] == "chrel" && len(tk) == 2:
			if !held {
				cs.Impl = append(cs.Impl, "not-held")
				continue
			}
			// the documented fate of the message, decided now
			if r.closed {
				r.late[heldM] = true
				c.Count("chan: popped before the close, dispatched after it")
			} else {
				before := len(r.rejected)
				dispatchChan(heldM)
				nReject += len(r.rejected) - before
			}
			heldRelease()
			held = false
			if doneCh != nil {
				select {
				case <-doneCh:
				case <-time.After(10 * time.Second):
					stuck("Done() does not return after the tree store was released")
					continue
				}
				doneCh = nil
			}
			if r.closed {
				// no barrier can pass a closed instance: the reader needs a few instructions to its test of the
				// closing flag; the pause can only let a broken tree be missed
				time.Sleep(100 * time.Millisecond)
			} else if !barrier() {
				stuck(fmt.Sprintf("a barrier message behind message %d is never handled although no handler is running", heldM))
				continue
			}
			checkLen(op)
			cs.Impl = append(cs.Impl, state())
		case (tk[1] == "chsend" || tk[1] == "chacc") && len(tk) == 3:
			m, err := strconv.Atoi(tk[2])
			if err != nil {
				cs.Impl = append(cs.Impl, "bad-op")
				continue
			}
			isCh := tk[1] == "chsend"
			r.mu.Lock()
			busy := r.entered > r.exited || r.sendWait
			wantEnter := r.entered + 1
			if !r.closed {
				if isCh {
					r.known[m] = true
				} else {
					r.hAccepted = append(r.hAccepted, m)
				}
			}
			r.mu.Unlock()
			var msg interface{} = &fix.M3{V: m}
			if isCh {
				msg = &fix.M4{V: m}
			}
			if !inject(msg) {
				cs.Impl = append(cs.Impl, "hang")
				cs.Fail("handover-blocked", fmt.Sprintf("handing message %d over did not return within 10 s (%s)", m, state()))
				continue
			}
			switch {
			case r.closed:
			case busy:
				r.queuedBehind = append(r.queuedBehind, c05chanMsg{ch: isCh, m: m})
			case isCh:
				before := len(r.rejected)
				dispatchChan(m)
				nReject += len(r.rejected) - before
			default:
				if !waitFor(4*time.Second, func() bool { return r.entered >= wantEnter }) {
					stuck(fmt.Sprintf("the instance is idle with handler message %d queued and never starts its handler", m))
					continue
				}
			}
			if !barrier() {
				if isCh && !busy && r.rejected[m] {
					cs.Impl = append(cs.Impl, "stuck")
					cs.Fail("full-channel-blocks-reader", fmt.Sprintf("message %d found the channel full (channel of %d); a message handed over after it is never handled although no handler is running: the reader waits for room in the channel", m, capacity))
					continue
				}
				stuck(fmt.Sprintf("a barrier message behind message %d is never handled although no handler is running", m))
				continue
			}
			checkLen(op)
			cs.Impl = append(cs.Impl, state())
		case tk[1] == "chexit" && len(tk) == 2:
			r.mu.Lock()
			busy := r.entered > r.exited
			wantExit := r.exited + 1
			wantEnter := r.entered
			r.mu.Unlock()
			if !busy {
				cs.Impl = append(cs.Impl, "no-handler")
				continue
			}
			before := len(r.rejected)
			stop := ""
			if !r.closed {
				stop = advance()
			} else {
				r.queuedBehind = nil
			}
			nReject += len(r.rejected) - before
			if stop == "handler" {
				wantEnter++
			}
			r.gate <- struct{}{}
			if !waitFor(4*time.Second, func() bool { return r.exited >= wantExit && r.entered >= wantEnter }) {
				stuck("after the handler returned the next queued handler message is never handled")
				continue
			}
			if stop == "sendwait" {
				waitQueued(len(r.queuedBehind))
			}
			if !barrier() {
				stuck("a barrier message behind everything is never handled although no handler is running")
				continue
			}
			checkLen(op)
			cs.Impl = append(cs.Impl, state())
		case tk[1] == "chclose" && len(tk) == 2:
			r.mu.Lock()
			rec := r.rec
			r.mu.Unlock()
			if rec == nil {
				cs.Impl = append(cs.Impl, "no-instance")
				continue
			}
			if held {
				// Done() closes the dispatch first and then needs the tree store: it finishes after chrel
				if doneCh == nil && !r.closed {
					doneCh = make(chan struct{})
					dc := doneCh
					go func() { rec.Tni.Done(); close(dc) }()
				}
				isClosing := false
				for dl := time.Now().Add(6 * time.Second); time.Now().Before(dl); time.Sleep(200 * time.Microsecond) {
					if _, cl := rec.Tni.VerifC05QueueState(); cl {
						isClosing = true
						break
					}
				}
				if !isClosing {
					stuck("Done() does not close the dispatch of the instance")
					continue
				}
				r.mu.Lock()
				r.closed = true
				r.mu.Unlock()
				checkLen(op)
				cs.Impl = append(cs.Impl, state())
				continue
			}
			if !barrier() {
				stuck("a barrier message is never handled although no handler is running")
				continue
			}
			rec.Tni.Done()
			r.mu.Lock()
			r.closed = true
			r.mu.Unlock()
			checkLen(op)
			cs.Impl = append(cs.Impl, state())
		case tk[1] == "chwait" && len(tk) == 3:
			ms, err := strconv.Atoi(tk[2])
			if err != nil || ms < 0 || ms > 5000 {
				cs.Impl = append(cs.Impl, "bad-op")
				continue
			}
			nWaits++
			time.Sleep(time.Duration(ms) * time.Millisecond)
			if !barrier() {
				stuck("a barrier message is never handled although no handler is running")
				continue
			}
			checkLen(op)
			cs.Impl = append(cs.Impl, state())
		case tk[1] == "chread" && len(tk) == 2:
			r.mu.Lock()
			rec := r.rec
			r.mu.Unlock()
			got := "empty"
			if rec != nil {
				select {
				case v := <-rec.Ch4:
					took(v.V)
					got = fmt.Sprintf("got:%d", v.V)
				default:
					if len(r.expect) > 0 {
						cs.Fail("chan-message-lost", fmt.Sprintf("the channel is empty; messages %v found room and must be in it", r.expect))
					}
				}
			}
			cs.Impl = append(cs.Impl, got)
		case tk[1] == "chdrain" && len(tk) == 2:
			r.mu.Lock()
			rec := r.rec
			r.mu.Unlock()
			var rest []int
			for rec != nil {
				select {
				case v := <-rec.Ch4:
					took(v.V)
					rest = append(rest, v.V)
					continue
				default:
				}
				break
			}
			if len(r.expect) > 0 {
				cs.Fail("chan-message-lost", fmt.Sprintf("the channel is empty; messages %v found room and must be in it", r.expect))
			}
			s := "-"
			if len(rest) > 0 {
				s = h.Ints(rest)
			}
			cs.Impl = append(cs.Impl, "rest:"+s)
		default:
			cs.Impl = append(cs.Impl, "bad-op")
		}
	}
	for len(cs.Impl) < len(cs.Ops) {
		cs.Impl = append(cs.Impl, "skipped")
	}
	// whatever is still in the channel is looked at as well (not an observation)
	r.mu.Lock()
	rec := r.rec
	r.mu.Unlock()
	for rec != nil {
		select {
		case v := <-rec.Ch4:
			took(v.V)
			continue
		default:
		}
		break
	}
	if extra != "" {
		cs.Fail("chan-extra-message", extra)
	}
	rj := "none"
	if nReject == 1 {
		rj = "one"
	} else if nReject > 1 {
		rj = "many"
	}
	r.mu.Lock()
	cs.Outcome = fmt.Sprintf("chan cap=%d rejected=%s reads=%d blocked-at-end=%v closed=%v", capacity, rj, nRead, r.entered > r.exited, r.closed)
	r.mu.Unlock()
}

// c05chanGen: corpus (the schedules of the seeded change C05r5-A) and random op sequences over
// channels of 1..4 places, with and without a gated handler in between, closing included.
func c05chanGen(c *h.Ctx, yield func(*h.Case)) {
	r := c.Rng
	// channel of one place: 0 fills it, 1 finds it full, the protocol reads 0; time passes: 1 is gone
	yield(&h.Case{Class: "chan-corpus", Ops: []string{"c05 chstart 1", "c05 chsend 0", "c05 chsend 1", "c05 chread",
		"c05 chwait 450", "c05 chread", "c05 chdrain"}})
	// … and 2 finds room: the protocol reads 0 and 2, nothing else ever
	yield(&h.Case{Class: "chan-corpus", Ops: []string{"c05 chstart 1", "c05 chsend 0", "c05 chsend 1", "c05 chread",
		"c05 chsend 2", "c05 chread", "c05 chwait 450", "c05 chread", "c05 chsend 3", "c05 chdrain"}})
	// behind a blocked handler: 1..4 wait in the queue, the handler returns, 1 and 2 find room, 3 and 4 do not
	yield(&h.Case{Class: "chan-corpus", Ops: []string{"c05 chstart 2", "c05 chacc 10", "c05 chsend 1", "c05 chsend 2",
		"c05 chsend 3", "c05 chacc 11", "c05 chsend 4", "c05 chexit", "c05 chread", "c05 chexit", "c05 chread", "c05 chread",
		"c05 chread", "c05 chwait 300", "c05 chdrain"}})
	// closing: what sits in the channel stays readable, nothing new arrives
	yield(&h.Case{Class: "chan-corpus", Ops: []string{"c05 chstart 2", "c05 chsend 1", "c05 chacc 10", "c05 chsend 2",
		"c05 chclose", "c05 chsend 3", "c05 chexit", "c05 chread", "c05 chdrain"}})
	// the reader held between the pop and the tests: closed meanwhile -> message 1 is not sent (fate `late`)
	yield(&h.Case{Class: "chan-corpus", Ops: []string{"c05 chstart 1", "c05 chsend 0", "c05 chread", "c05 chhold 1", "c05 chclose",
		"c05 chrel", "c05 chread", "c05 chdrain"}})
	// … popped while the channel was full, the protocol reads, then the tests: room, message 1 is sent
	yield(&h.Case{Class: "chan-corpus", Ops: []string{"c05 chstart 1", "c05 chsend 0", "c05 chhold 1", "c05 chsend 7", "c05 chread",
		"c05 chrel", "c05 chread", "c05 chdrain"}})
	// … held as the very first message of the run, the channel stays full: rejected at the tests
	yield(&h.Case{Class: "chan-corpus", Ops: []string{"c05 chstart 2", "c05 chhold 1", "c05 chrel", "c05 chsend 2", "c05 chhold 3",
		"c05 chrel", "c05 chwait 280", "c05 chdrain", "c05 chrel"}})
	// the channel of slices (aggregated type) is full: the reader waits for room inside the send; messages for the
	// instance are still taken (3 and 104 queue up behind it), a read of the channel lets everything go on
	yield(&h.Case{Class: "chan-corpus", Ops: []string{"c05 chstart 1", "c05 chagg 501", "c05 chagg 502", "c05 chsend 3", "c05 chacc 104",
		"c05 chexit", "c05 chaggread", "c05 chexit", "c05 chaggread", "c05 chread", "c05 chaggread", "c05 chdrain"}})
	yield(&h.Case{Class: "chan-corpus", Ops: []string{"c05 chstart 2", "c05 chagg 501", "c05 chagg 502", "c05 chagg 503", "c05 chagg 504",
		"c05 chaggread", "c05 chaggread", "c05 chaggread", "c05 chaggread", "c05 chaggread", "c05 chdrain"}})
	for n := 0; n < c.Pick(10, 250); n++ {
		capacity := 1 + r.Intn(3)
		ops := []string{fmt.Sprintf("c05 chstart %d", capacity)}
		m := 0
		for j := 0; j < 6+r.Intn(18); j++ {
			m++
			switch x := r.Intn(20); {
			case x < 9:
				ops = append(ops, fmt.Sprintf("c05 chagg %d", 500+m))
			case x < 15:
				ops = append(ops, "c05 chaggread")
			case x < 17:
				ops = append(ops, fmt.Sprintf("c05 chsend %d", m))
			case x < 18:
				ops = append(ops, "c05 chread")
			case x < 19:
				ops = append(ops, fmt.Sprintf("c05 chacc %d", 100+m))
			default:
				ops = append(ops, "c05 chexit")
			}
		}
		ops = append(ops, "c05 chexit", "c05 chaggread", "c05 chexit", "c05 chaggread", "c05 chaggread", "c05 chaggread", "c05 chdrain")
		c.Count("class=chan-agg")
		yield(&h.Case{Class: "chan-agg", Ops: ops})
	}
	waits := 0
	for n := 0; n < c.Pick(28, 600); n++ {
		capacity := 1 + r.Intn(4)
		if r.Intn(8) == 0 {
			capacity = 5 + r.Intn(40)
		}
		ops := []string{fmt.Sprintf("c05 chstart %d", capacity)}
		m := 0
		// the generator's own book-keeping, only to steer towards full channels and to place the waits
		inChan, busy, queued, rejected, closed := 0, false, 0, 0, false
		withHandlers := r.Intn(3) == 0
		for j := 0; j < 6+r.Intn(24); j++ {
			if !busy && !closed && r.Intn(6) == 0 {
				// the reader held between the pop and dispatchChannel's tests; reads and a close fall there
				m++
				ops = append(ops, fmt.Sprintf("c05 chhold %d", m))
				for k := r.Intn(3); k > 0; k-- {
					if r.Intn(3) == 0 {
						ops = append(ops, "c05 chclose")
						closed = true
					} else {
						ops = append(ops, "c05 chread")
						if inChan > 0 {
							inChan--
						}
					}
				}
				ops = append(ops, "c05 chrel")
				if closed {
					c.Count("chan: close between pop and tests")
				} else if inChan < capacity {
					inChan++
				} else {
					rejected++
				}
				continue
			}
			switch x := r.Intn(20); {
			case x < 9:
				m++
				ops = append(ops, fmt.Sprintf("c05 chsend %d", m))
				if closed {
				} else if busy {
					queued++
				} else if inChan < capacity {
					inChan++
				} else {
					rejected++
				}
			case x < 14:
				ops = append(ops, "c05 chread")
				if inChan > 0 {
					inChan--
				}
			case x < 16 && withHandlers:
				m++
				ops = append(ops, fmt.Sprintf("c05 chacc %d", 100+m))
				if !closed {
					busy = true
				}
			case x < 18 && withHandlers:
				ops = append(ops, "c05 chexit")
				if busy {
					// approximately: the queued ones are dispatched
					for ; queued > 0; queued-- {
						if inChan < capacity {
							inChan++
						} else {
							rejected++
						}
					}
					busy = false
				}
			case x == 18 && m > 0 && r.Intn(6) == 0:
				ops = append(ops, "c05 chclose")
				closed = true
			case x == 19 && rejected > 0 && inChan < capacity && !busy && waits < c.Pick(10, 200):
				// a rejected message and room in the channel: time passes, it must not come back
				waits++
				ops = append(ops, "c05 chwait 280")
				c.Count("op=chwait")
			}
		}
		if busy {
			ops = append(ops, "c05 chexit", "c05 chexit")
		}
		if rejected > 0 && waits < c.Pick(14, 300) && !closed {
			waits++
			ops = append(ops, "c05 chread", "c05 chwait 280")
			c.Count("op=chwait")
		}
		ops = append(ops, "c05 chdrain")
		c.Count("class=chan")
		if rejected > 0 {
			c.Count("chan: with a rejected message")
		}
		yield(&h.Case{Class: "chan", Ops: ops})
	}
}
