package main

import (
	"bytes"
	"encoding/base64"
	"encoding/hex"
	"encoding/json"
	"fmt"
	"io/ioutil"
	"net"
	"net/http"
	"regexp"
	"runtime"
	"sort"
	"strconv"
	"strings"
	"sync"
	"sync/atomic"
	"time"

	"github.com/gorilla/websocket"
	"go.dedis.ch/onet/v3"
	"go.dedis.ch/onet/v3/log"
	"go.dedis.ch/onet/v3/network"
	"go.dedis.ch/protobuf"
	"onetverif/harness/fix"
	"onetverif/harness/h"
)

// C14: every client request gets the reply computed for exactly that request.
//
// A case is a list of requests, each issued by a thread (t<i>: executes its
// requests one after the other; all threads of a phase run concurrently)
// through a client object (websocket: onet.Client kept-alive k<j>, kept-alive
// with a short read time-out q<j>, or single-use o<j>; REST: http.Client with or without keep-alive), against the
// echo/transform service of c14svc.go on a real server (TCP LocalTest with its
// websocket/HTTP listener). `barrier` waits for all threads; `calls` reads
// the number of handler invocations.
//
//   c14 ws <thr> <client> <path> <hex protobuf buffer>   (client r<j>: raw connection, the
//        thread's consecutive messages for it are pipelined on one connection)
//   c14 rest <thr> <client> <METHOD> <json|text|none> <resource> <tail|-> <body>
//   c14 par <thr> <client> <n> <nonce> <overlap|plain>   one request to n servers at once
//        (SendProtobufParallelWithDecoder); overlap: a decoder that makes two replies overlap
//   c14 all <thr> <client> <n> <path> <hex>   the same request to n servers one after the other (Client.SendToAll)
//   c14 crowd <n> <hex>       n more clients connect to the C14Echo endpoint, each sends the request, reads its
//                             reply and stays connected (idle) to the end of the case
//   c14 allwho <thr> <client> <n> <nonce> <pattern>   Client.SendToAll of a C14Who request (answered with the
//                             answering server's address) to a roster given by the pattern: u = the next of the
//                             n servers, d = an unreachable node; observed: whose reply sits at which position
//   c14 reg <ws|rest:<METHOD>:<min>:<max>> <sig>   a registration attempt with the function <sig> of c14reg.go
//   c14 direct <path> <hex>   Service.ProcessClientRequest of the first server called directly (no websocket)
//   c14 cstate <client>       the paths for which the onet.Client holds a connection and a lock object
//                             (accessor VerifC14ClientState; only where no request of that client is under way)
//   c14 barrier
//   c14 procs <n>      GOMAXPROCS of the (sub-)process running the server and the clients
//   c14 calls
//
// websocket client names: k… kept-alive onet.Client, o… single-use, q… kept-alive with a short read
// time-out, r… raw pipelining connection, x… onet.Client for a service name that does not exist,
// u… single-use client addressing the server by host and port (identity without URL), p… kept-alive
// client that sends decodable requests through Client.SendProtobuf.
// par modes: overlap | plain | ordered (ParallelOptions: DontShuffle, StartNode 2, Parallel 1, node 2
// ignored: the node handed back must be one of the nodes that may be asked) | quit (QuitError) |
// down1, down2 (one / two unreachable nodes among those asked) | downall (only unreachable nodes: an error) |
// downquit (QuitError, the unreachable node is asked first: an error).
//
// body: `-` (no body) | `syntax` | `{}` | items separated by `;`:
//   F=<int> (A), F=<hex> (S, B; `-` is empty), F=null, F! (ill-typed value), X=<int> (unknown field);
//   a lower-case field name is matched case-insensitively by encoding/json.

type c14env struct {
	l    *onet.LocalTest
	srv  *onet.Server
	srvs []*onet.Server
	// the first server's identity without its URL: the client then derives host and port itself
	noURL *network.ServerIdentity
	base string
	ws   map[string]*onet.Client
	hc   map[string]*http.Client
	mu   sync.Mutex
	// connections of the op crowd: open and idle to the end of the case
	crowd []*websocket.Conn
}

func c14start(n int) *c14env {
	c14Register()
	log.SetDebugVisible(0)
	log.OutputToBuf()
	return c14startServers(n)
}

// doPar sends one request to several servers at once
// (Client.SendProtobufParallelWithDecoder): the reply handed back must be the
// one of the node handed back. In mode "overlap" the decoder's check of the
// first reply lasts until a second reply has been decoded (or 300 ms), and the
// second one's a little longer, which makes two replies overlap whenever the
// client lets them.
func (e *c14env) doPar(tk []string) string {
	n, err1 := strconv.Atoi(tk[4])
	nonce, err2 := strconv.ParseInt(tk[5], 10, 64)
	if err1 != nil || err2 != nil || n < 3 || n > len(e.srvs) || !c14parModes[tk[6]] {
		return "bad-op"
	}
	var opt *onet.ParallelOptions
	mayAsk := map[string]bool{}
	switch tk[6] {
	case "ordered":
		// the list starts at node 2, which is to be ignored; one node is asked at a time
		opt = &onet.ParallelOptions{DontShuffle: true, StartNode: 2, Parallel: 1, AskNodes: n - 2,
			IgnoreNodes: []*network.ServerIdentity{e.srvs[2].ServerIdentity}}
		for i := 0; i < n; i++ {
			if i != 2 {
				mayAsk[string(e.srvs[i].ServerIdentity.Address)] = true
			}
		}
	case "quit":
		opt = &onet.ParallelOptions{QuitError: true}
	case "quiterr":
		// the first node answers with an error, the others with their reply; two nodes are asked at
		// a time, in the given order, and the first error ends the call: error and accepted reply
		// come at about the same moment
		opt = &onet.ParallelOptions{QuitError: true, DontShuffle: true, Parallel: 2}
	}
	var nodes []*network.ServerIdentity
	for _, s := range e.srvs[:n] {
		nodes = append(nodes, s.ServerIdentity)
	}
	// nodes that cannot be reached (nothing listens on these ports): Send to them fails
	down := c14down
	switch tk[6] {
	case "down1":
		nodes = append(nodes, down(0))
	case "down2":
		nodes = append([]*network.ServerIdentity{down(0)}, append(nodes, down(1))...)
	case "downall":
		nodes = []*network.ServerIdentity{down(0), down(1), down(2)}
	case "downquit":
		// the unreachable node is asked first and alone; the first error ends the call
		nodes = append([]*network.ServerIdentity{down(0)}, nodes...)
		opt = &onet.ParallelOptions{QuitError: true, DontShuffle: true, Parallel: 1}
	}
	var mu sync.Mutex
	calls := 0
	second := make(chan struct{})
	secondDone := make(chan struct{})
	decoder := func(data []byte, ret interface{}) error {
		mu.Lock()
		calls++
		k := calls
		err := protobuf.Decode(data, ret)
		mu.Unlock()
		if err != nil || tk[6] != "overlap" {
			return err
		}
		switch k {
		case 1:
			select {
			case <-second:
			case <-time.After(300 * time.Millisecond):
			}
		case 2:
			close(second)
			time.Sleep(100 * time.Millisecond)
			close(secondDone)
		}
		return nil
	}
	ret := &C14WhoReply{}
	var node *network.ServerIdentity
	var err error
	if tk[6] == "quiterr" {
		// a client of its own: requests to the refusing node that are still under way when an earlier
		// call ended with a reply must not queue up in front of this one
		cl := onet.NewClient(fix.Suite, c14ServiceName)
		node, err = cl.SendProtobufParallelWithDecoder(nodes, &C14Who{Nonce: nonce, FailAddr: string(nodes[0].Address)}, ret, opt, decoder)
		mu.Lock()
		got := *ret
		mu.Unlock()
		switch {
		case err != nil:
			return "ok quit" // ended by the error
		case node == nil || node.Address == nodes[0].Address:
			return "mismatch the refusing node was handed back"
		case got.Nonce == nonce && got.Addr == string(node.Address):
			return "ok quit" // ended by a reply that came first: it is the reply of the node handed back
		}
		return fmt.Sprintf("mismatch node=%s reply-of=%s nonce=%d", node.Address, got.Addr, got.Nonce)
	}
	if tk[6] == "quit" {
		// the variant with the library's decoder
		node, err = e.wsClient(tk[3]).SendProtobufParallel(nodes, &C14Who{Nonce: nonce}, ret, opt)
	} else {
		node, err = e.wsClient(tk[3]).SendProtobufParallelWithDecoder(nodes, &C14Who{Nonce: nonce}, ret, opt, decoder)
	}
	if err != nil || node == nil {
		return "err"
	}
	if !c14isServer(e, node) {
		return fmt.Sprintf("mismatch node=%s cannot have answered", node.Address)
	}
	if len(mayAsk) > 0 && !mayAsk[string(node.Address)] {
		return fmt.Sprintf("mismatch node=%s is not among the nodes that may be asked", node.Address)
	}
	mu.Lock()
	got := *ret
	k := calls
	mu.Unlock()
	if k >= 2 && tk[6] == "overlap" {
		select {
		case <-secondDone:
		case <-time.After(time.Second):
		}
	}
	if got.Nonce == nonce && got.Addr == string(node.Address) {
		return "ok pair"
	}
	return fmt.Sprintf("mismatch node=%s reply-of=%s nonce=%d", node.Address, got.Addr, got.Nonce)
}

// doCState reads the client object's maps for the first server.
func (e *c14env) doCState(name string) string {
	si := e.srv.ServerIdentity
	if strings.HasPrefix(name, "u") {
		e.mu.Lock()
		if e.noURL != nil {
			si = e.noURL
		}
		e.mu.Unlock()
	}
	conns, locks := e.wsClient(name).VerifC14ClientState(si)
	show := func(l []string) string {
		if len(l) == 0 {
			return "-"
		}
		return strings.Join(l, ",")
	}
	return "conns=" + show(conns) + " locks=" + show(locks)
}

// doDirect calls ProcessClientRequest of the first server's service instance.
func (e *c14env) doDirect(tk []string) string {
	buf, ok := c14hex(tk[3])
	if !ok {
		return "bad-op"
	}
	rep, tun, err := e.srv.Service(c14ServiceName).ProcessClientRequest(nil, tk[2], buf)
	if err != nil {
		f := strings.Fields(c14wsErr(err))
		return "err " + f[len(f)-1]
	}
	if tun != nil {
		return "tunnel"
	}
	r, ok := c14decodeReply(rep)
	if !ok {
		return "undecodable-reply " + h.Hex(rep)
	}
	return "ok " + c14showReply(r)
}

// c14down is a node that cannot be reached (nothing listens on these ports): Send to it fails.
func c14down(i int) *network.ServerIdentity {
	si := network.NewServerIdentity(fix.Suite.Point().Pick(fix.Suite.XOF([]byte(fmt.Sprint("c14down", i)))),
		network.NewAddress(network.PlainTCP, fmt.Sprintf("127.0.0.1:%d", 1+2*i)))
	si.URL = fmt.Sprintf("http://127.0.0.1:%d", 1+2*i)
	return si
}

// doAllWho sends a C14Who request with Client.SendToAll to a roster described
// by the pattern: u = the next server of the case, l = the same with its identity
// given as a literal (no ID), d = an unreachable node.
// Every server answers with its own address, so the observation says for every
// roster position whose reply the list holds there: "own", "nil" (nothing),
// "of<j>" (the reply of roster entry j), "missing" (the list is shorter),
// "foreign"; then whether an error was returned.
func (e *c14env) doAllWho(tk []string) string {
	nonce, err := strconv.ParseInt(tk[5], 10, 64)
	if err != nil || tk[6] == "" {
		return "bad-op"
	}
	var sis []*network.ServerIdentity
	up, dn := 0, 0
	for _, ch := range tk[6] {
		switch {
		case ch == 'u' && up < len(e.srvs):
			sis = append(sis, e.srvs[up].ServerIdentity)
			up++
		case ch == 'l' && up < len(e.srvs):
			// the next server, its identity written as a literal (as read from a file or built by
			// hand): same key, address and URL, the deprecated ID field left empty
			o := e.srvs[up].ServerIdentity
			sis = append(sis, &network.ServerIdentity{Public: o.Public, Address: o.Address, Description: o.Description, URL: o.URL})
			up++
		case ch == 'd':
			sis = append(sis, c14down(dn))
			dn++
		default:
			return "bad-op"
		}
	}
	buf, err := protobuf.Encode(&C14Who{Nonce: nonce})
	if err != nil {
		return "bad-op"
	}
	reps, err := e.wsClient(tk[3]).SendToAll(onet.NewRoster(sis), "C14Who", buf)
	cells := make([]string, len(sis))
	for i := range sis {
		c := string(tk[6][i]) + ":"
		switch {
		case i >= len(reps):
			c += "missing"
		case reps[i] == nil:
			c += "nil"
		default:
			var rep C14WhoReply
			c += "foreign"
			if protobuf.Decode(reps[i], &rep) == nil && rep.Nonce == nonce {
				for j, si := range sis {
					if rep.Addr == string(si.Address) {
						c = string(tk[6][i]) + ":" + map[bool]string{true: "own", false: fmt.Sprintf("of%d", j)}[j == i]
					}
				}
			}
		}
		cells[i] = c
	}
	es := "noerr"
	if err != nil {
		es = "err"
	}
	return fmt.Sprintf("len=%d %s %s", len(reps), strings.Join(cells, " "), es)
}

// doCrowd lets n more clients connect to the C14Echo endpoint of the first server (raw connections, 32
// dialing at a time); each sends the request, reads its reply and stays connected, idle, to the end of
// the case. Observed: how many there are and the reply they all got.
func (e *c14env) doCrowd(tk []string) string {
	n, err := strconv.Atoi(tk[2])
	buf, ok := c14hex(tk[3])
	if err != nil || !ok || n < 1 || n > 4000 {
		return "bad-op"
	}
	url := strings.Replace(e.base, "http://", "ws://", 1) + "/" + c14ServiceName + "/C14Echo"
	var mu sync.Mutex
	var wg sync.WaitGroup
	first, bad := "", ""
	sem := make(chan struct{}, 32)
	for i := 0; i < n; i++ {
		mu.Lock()
		stop := bad != ""
		mu.Unlock()
		if stop {
			break // (a broken tree must not cost one time-out per connection)
		}
		sem <- struct{}{}
		wg.Add(1)
		go func(i int) {
			defer wg.Done()
			defer func() { <-sem }()
			fail := func(s string) {
				mu.Lock()
				if bad == "" {
					bad = fmt.Sprintf("connection %d: %s", i, s)
				}
				mu.Unlock()
			}
			d := &websocket.Dialer{HandshakeTimeout: 4 * time.Second}
			conn, _, err := d.Dial(url, nil)
			if err != nil {
				fail("dial")
				return
			}
			mu.Lock()
			e.crowd = append(e.crowd, conn)
			mu.Unlock()
			if conn.WriteMessage(websocket.BinaryMessage, buf) != nil {
				fail("write")
				return
			}
			conn.SetReadDeadline(time.Now().Add(8 * time.Second))
			_, rep, err := conn.ReadMessage()
			conn.SetReadDeadline(time.Time{})
			got := ""
			if err != nil {
				got = c14wsErr(err)
			} else if r, ok := c14decodeReply(rep); ok {
				got = "ok " + c14showReply(r)
			} else {
				got = "undecodable-reply " + h.Hex(rep)
			}
			mu.Lock()
			if first == "" {
				first = got
			} else if got != first && bad == "" {
				bad = fmt.Sprintf("connection %d: %s", i, strings.Replace(got, " ", "_", -1))
			}
			mu.Unlock()
		}(i)
	}
	wg.Wait()
	if bad != "" {
		return "fail " + bad
	}
	return fmt.Sprintf("n=%d %s", n, first)
}

// doAll sends one request to the first n servers one after the other
// (Client.SendToAll): every server owes the same reply.
func (e *c14env) doAll(tk []string) string {
	n, err := strconv.Atoi(tk[4])
	buf, ok := c14hex(tk[6])
	if err != nil || !ok || n < 1 || n > len(e.srvs) {
		return "bad-op"
	}
	var sis []*network.ServerIdentity
	for _, s := range e.srvs[:n] {
		sis = append(sis, s.ServerIdentity)
	}
	reps, err := e.wsClient(tk[3]).SendToAll(onet.NewRoster(sis), tk[5], buf)
	if err != nil {
		return c14wsErr(err)
	}
	first := ""
	for i, rep := range reps {
		r, ok := c14decodeReply(rep)
		if !ok {
			return "undecodable-reply " + h.Hex(rep)
		}
		if i == 0 {
			first = c14showReply(r)
		} else if c14showReply(r) != first {
			return fmt.Sprintf("differ server0=%s server%d=%s", first, i, c14showReply(r))
		}
	}
	return "ok " + first
}

var c14parModes = map[string]bool{"overlap": true, "plain": true, "ordered": true, "quit": true, "quiterr": true,
	"down1": true, "down2": true, "downall": true, "downquit": true}

func c14isServer(e *c14env, si *network.ServerIdentity) bool {
	for _, s := range e.srvs {
		if s.ServerIdentity.Address == si.Address {
			return true
		}
	}
	return false
}

// c14startServer starts one TCP server whose websocket/HTTP port answers.
func c14startServer() *c14env { return c14startServers(1) }

// c14startServers starts n TCP servers whose websocket/HTTP ports answer.
func c14startServers(n int) *c14env {
	for try := 0; try < 4; try++ {
		l := onet.NewTCPTest(fix.Suite)
		l.Check = onet.CheckNone
		srvs := l.GenServers(n)
		e := &c14env{l: l, srv: srvs[0], srvs: srvs, base: srvs[0].ServerIdentity.URL, ws: map[string]*onet.Client{}, hc: map[string]*http.Client{}}
		// the websocket port is the server's port + 1 and may have been taken meanwhile
		up := 0
		for _, srv := range srvs {
			for i := 0; i < 100; i++ {
				resp, err := (&http.Client{Timeout: time.Second}).Get(srv.ServerIdentity.URL + "/ok")
				if err == nil {
					b, _ := ioutil.ReadAll(resp.Body)
					resp.Body.Close()
					if string(b) == "ok\n" {
						up++
					}
					break
				}
				time.Sleep(20 * time.Millisecond)
			}
		}
		if up == n {
			return e
		}
	}
	return nil
}

func (e *c14env) wsClient(name string) *onet.Client {
	e.mu.Lock()
	defer e.mu.Unlock()
	c, ok := e.ws[name]
	if !ok {
		if strings.HasPrefix(name, "x") {
			c = onet.NewClient(fix.Suite, "VerifC14NoSuchService")
		} else if strings.HasPrefix(name, "k") || strings.HasPrefix(name, "p") {
			c = onet.NewClientKeep(fix.Suite, c14ServiceName)
		} else {
			c = onet.NewClient(fix.Suite, c14ServiceName)
		}
		c.ReadTimeout = 8 * time.Second
		if strings.HasPrefix(name, "q") {
			// a kept-alive client that stops waiting for a reply early
			c = onet.NewClientKeep(fix.Suite, c14ServiceName)
			c.ReadTimeout = c14QuickTimeout
		}
		e.ws[name] = c
	}
	return c
}

func (e *c14env) httpClient(name string) *http.Client {
	e.mu.Lock()
	defer e.mu.Unlock()
	c, ok := e.hc[name]
	if !ok {
		c = &http.Client{Timeout: 8 * time.Second,
			Transport:     &http.Transport{DisableKeepAlives: !strings.HasPrefix(name, "k")},
			CheckRedirect: func(*http.Request, []*http.Request) error { return http.ErrUseLastResponse }}
		e.hc[name] = c
	}
	return c
}

func c14hex(s string) ([]byte, bool) {
	if s == "-" {
		return nil, true
	}
	b, err := hex.DecodeString(s)
	return b, err == nil
}

func c14showReply(r *C14Reply) string {
	return fmt.Sprintf("A=%d,S=%s,B=%s,N=%d", r.A, h.Hex([]byte(r.S)), h.Hex(r.B), r.N)
}

// c14decodeReply reads the wire form of a C14Reply by hand (zigzag varints for
// A and N, length-delimited S and B). The library's own decoder is not used for
// observations: it mis-decodes zigzag varints of magnitude >= 2^62.
func c14decodeReply(buf []byte) (*C14Reply, bool) {
	r := &C14Reply{}
	uv := func() (uint64, bool) {
		var x uint64
		for i := 0; i < len(buf) && i < 10; i++ {
			b := buf[i]
			x |= uint64(b&0x7f) << (7 * uint(i))
			if b < 0x80 {
				buf = buf[i+1:]
				return x, true
			}
		}
		return 0, false
	}
	for len(buf) > 0 {
		key, ok := uv()
		if !ok {
			return nil, false
		}
		v, ok := uv()
		if !ok {
			return nil, false
		}
		switch key {
		case 1<<3 | 0:
			r.A = int64(v>>1) ^ -int64(v&1)
		case 4<<3 | 0:
			r.N = int64(v>>1) ^ -int64(v&1)
		case 2<<3 | 2, 3<<3 | 2:
			if v > uint64(len(buf)) {
				return nil, false
			}
			if key>>3 == 2 {
				r.S = string(buf[:v])
			} else {
				r.B = append([]byte{}, buf[:v]...)
			}
			buf = buf[v:]
		default:
			return nil, false
		}
	}
	return r, true
}

var c14closeRe = regexp.MustCompile(`websocket: close (\d+)`)

// c14wsErr canonicalises the error of onet.Client.Send.
func c14wsErr(err error) string {
	s := err.Error()
	code := "-"
	if m := c14closeRe.FindStringSubmatch(s); m != nil {
		code = m[1]
	}
	class := "other"
	switch {
	case strings.Contains(s, "hasn't been registered"):
		class = "unregistered"
	case strings.Contains(s, "decoding:"):
		class = "decode"
	case strings.Contains(s, "panic:"):
		class = "panic"
	case strings.Contains(s, "processing error:"):
		class = "handler"
	case strings.Contains(s, "encoding:"):
		class = "encode"
	case strings.Contains(s, "This service doesn't exist"):
		class = "noservice"
	case strings.Contains(s, "i/o timeout"):
		class = "timeout"
	case strings.Contains(s, "connection write"):
		class = "write"
	case strings.Contains(s, "dial:"):
		class = "dial"
	}
	return "close " + code + " " + class
}

func (e *c14env) doWS(tk []string) string {
	buf, ok := c14hex(tk[5])
	if !ok {
		return "bad-op"
	}
	si := e.srv.ServerIdentity
	if strings.HasPrefix(tk[3], "u") {
		e.mu.Lock()
		if e.noURL == nil {
			cp := *si
			cp.URL = ""
			e.noURL = &cp
		}
		si = e.noURL
		e.mu.Unlock()
	}
	if strings.HasPrefix(tk[3], "p") {
		// through SendProtobuf when the buffer is a message the typed API can carry
		var msg interface{}
		var m C14Echo
		// (not for integers of magnitude >= 2^62: the library's reply decoder, which SendProtobuf
		// uses, mis-decodes them — not onet's)
		if protobuf.Decode(buf, &m) == nil && m.A < 1<<62 && m.A > -(1<<62) {
			switch tk[4] {
			case "C14Echo":
				msg = &m
			case "C14Swap":
				msg = &C14Swap{A: m.A, S: m.S, B: m.B}
			case "C14Both":
				msg = &C14Both{A: m.A, S: m.S, B: m.B}
			}
		}
		if msg != nil {
			var r C14Reply
			if err := e.wsClient(tk[3]).SendProtobuf(si, msg, &r); err != nil {
				return c14wsErr(err)
			}
			return "ok " + c14showReply(&r)
		}
	}
	rep, err := e.wsClient(tk[3]).Send(si, tk[4], buf)
	if err != nil {
		return c14wsErr(err)
	}
	r, ok := c14decodeReply(rep)
	if !ok {
		return "undecodable-reply " + h.Hex(rep)
	}
	return "ok " + c14showReply(r)
}

// c14body renders the abstract body description as JSON text.
func c14body(desc string) ([]byte, bool) {
	switch desc {
	case "-":
		return nil, true
	case "syntax":
		return []byte(`{"A": 1,`), true
	case "{}":
		return []byte(`{}`), true
	}
	var parts []string
	for _, it := range strings.Split(desc, ";") {
		if strings.HasSuffix(it, "!") {
			f := strings.TrimSuffix(it, "!")
			switch strings.ToUpper(f) {
			case "A":
				parts = append(parts, fmt.Sprintf(`"%s":"x"`, f))
			case "S", "B":
				parts = append(parts, fmt.Sprintf(`"%s":7`, f))
			default:
				return nil, false
			}
			continue
		}
		kv := strings.SplitN(it, "=", 2)
		if len(kv) != 2 {
			return nil, false
		}
		if kv[1] == "null" {
			parts = append(parts, fmt.Sprintf(`"%s":null`, kv[0]))
			continue
		}
		switch strings.ToUpper(kv[0]) {
		case "A", "X":
			if _, err := strconv.ParseInt(kv[1], 10, 64); err != nil {
				return nil, false
			}
			parts = append(parts, fmt.Sprintf(`"%s":%s`, kv[0], kv[1]))
		case "S":
			b, ok := c14hex(kv[1])
			if !ok {
				return nil, false
			}
			js, _ := json.Marshal(string(b))
			parts = append(parts, fmt.Sprintf(`"%s":%s`, kv[0], js))
		case "B":
			b, ok := c14hex(kv[1])
			if !ok {
				return nil, false
			}
			parts = append(parts, fmt.Sprintf(`"%s":"%s"`, kv[0], base64.StdEncoding.EncodeToString(b)))
		default:
			return nil, false
		}
	}
	return []byte("{" + strings.Join(parts, ",") + "}"), true
}

func (e *c14env) doREST(tk []string) string {
	method, ctype, res, tail, desc := tk[4], tk[5], tk[6], tk[7], tk[8]
	body, ok := c14body(desc)
	if !ok {
		return "bad-op"
	}
	url := e.base + "/v3/" + c14ServiceName + "/" + res
	if tail != "-" {
		url += "/" + tail
	}
	var rd *bytes.Reader
	if body != nil {
		rd = bytes.NewReader(body)
	}
	var req *http.Request
	var err error
	if rd != nil {
		req, err = http.NewRequest(method, url, rd)
	} else {
		req, err = http.NewRequest(method, url, nil)
	}
	if err != nil {
		return "bad-op"
	}
	switch ctype {
	case "json":
		req.Header.Set("Content-Type", "application/json")
	case "text":
		req.Header.Set("Content-Type", "text/plain")
	case "none":
	default:
		return "bad-op"
	}
	resp, err := e.httpClient(tk[3]).Do(req)
	if err != nil {
		return "err:http"
	}
	defer resp.Body.Close()
	rb, _ := ioutil.ReadAll(resp.Body)
	if resp.StatusCode == 200 {
		var r *C14Reply
		if err := json.Unmarshal(rb, &r); err != nil {
			return "200 undecodable-reply"
		}
		if r == nil {
			return "200 null"
		}
		return "200 " + c14showReply(r)
	}
	var m struct{ Message string }
	class := "other"
	if json.Unmarshal(rb, &m) == nil {
		s := m.Message
		switch {
		case strings.HasPrefix(s, "unsupported method"):
			class = "method"
		case strings.HasPrefix(s, "content type"):
			class = "ctype"
		case strings.HasPrefix(s, "decoding error"):
			class = "decode"
		case strings.HasPrefix(s, "processing error panic"):
			class = "panic"
		case strings.HasPrefix(s, "processing error"):
			class = "handler"
		case strings.HasPrefix(s, "invalid path"):
			class = "path"
		case strings.HasPrefix(s, "not a number"):
			class = "nan"
		case strings.HasPrefix(s, "encoding/hex"):
			class = "hex"
		case strings.HasPrefix(s, "invalid GET"):
			class = "invalidget"
		}
	} else if strings.Contains(string(rb), "Bad Request") {
		class = "noroute"
	}
	return fmt.Sprintf("%d %s", resp.StatusCode, class)
}

// doRaw sends all messages of one raw websocket connection at once (pipelined)
// and then reads the answers: the server's read loop answers them in order and
// stops at the first error.
func (e *c14env) doRaw(cs *h.Case, js []c14job) {
	path := js[0].tk[4]
	url := strings.Replace(e.base, "http://", "ws://", 1) + "/" + c14ServiceName + "/" + path
	d := &websocket.Dialer{HandshakeTimeout: 10 * time.Second}
	conn, _, err := d.Dial(url, nil)
	if err != nil {
		for _, j := range js {
			cs.Impl[j.i] = "close - dial"
		}
		return
	}
	defer conn.Close()
	for _, j := range js {
		buf, ok := c14hex(j.tk[5])
		if !ok {
			cs.Impl[j.i] = "bad-op"
			return
		}
		// an error here means the server has already closed: the answers tell
		conn.WriteMessage(websocket.BinaryMessage, buf)
	}
	conn.SetReadDeadline(time.Now().Add(8 * time.Second))
	dead := false
	for _, j := range js {
		if dead {
			cs.Impl[j.i] = "noreply"
			continue
		}
		_, rep, err := conn.ReadMessage()
		if err != nil {
			// The server closes while unread messages are still queued, so
			// the close frame may be overtaken by a TCP reset: only "the
			// connection was closed at this message" is observed here.
			dead = true
			cs.Impl[j.i] = "close"
			if ne, ok := err.(net.Error); ok && ne.Timeout() {
				cs.Impl[j.i] = "timeout"
			}
			continue
		}
		r, ok := c14decodeReply(rep)
		if !ok {
			cs.Impl[j.i] = "undecodable-reply " + h.Hex(rep)
			continue
		}
		cs.Impl[j.i] = "ok " + c14showReply(r)
	}
}

type c14job struct {
	i  int
	tk []string
}

func c14exec(c *h.Ctx, cs *h.Case) {
	nsrv := 1
	for _, op := range cs.Ops {
		tk := strings.Fields(op)
		if len(tk) == 7 && (tk[1] == "par" || tk[1] == "all" || tk[1] == "allwho") {
			if n, err := strconv.Atoi(tk[4]); err == nil && n > nsrv && n <= 8 {
				nsrv = n
			}
		}
	}
	e := c14start(nsrv)
	if e == nil {
		cs.Impl = make([]string, len(cs.Ops))
		for i := range cs.Impl {
			cs.Impl[i] = "no-server"
		}
		cs.Outcome = "no-server"
		cs.Fail("harness-no-server", "could not start a server with a reachable websocket port")
		return
	}
	cs.Impl = make([]string, len(cs.Ops))
	threads := map[string][]c14job{}
	var order []string
	flush := func() {
		var wg sync.WaitGroup
		for _, t := range order {
			wg.Add(1)
			go func(js []c14job) {
				defer wg.Done()
				for k := 0; k < len(js); k++ {
					j := js[k]
					switch {
					case j.tk[1] == "ws" && strings.HasPrefix(j.tk[3], "r"):
						n := k
						for n+1 < len(js) && js[n+1].tk[1] == "ws" && js[n+1].tk[3] == j.tk[3] && js[n+1].tk[4] == j.tk[4] {
							n++
						}
						e.doRaw(cs, js[k:n+1])
						k = n
					case j.tk[1] == "ws":
						cs.Impl[j.i] = e.doWS(j.tk)
					case j.tk[1] == "par":
						cs.Impl[j.i] = e.doPar(j.tk)
					case j.tk[1] == "all":
						cs.Impl[j.i] = e.doAll(j.tk)
					case j.tk[1] == "allwho":
						cs.Impl[j.i] = e.doAllWho(j.tk)
					default:
						cs.Impl[j.i] = e.doREST(j.tk)
					}
				}
			}(threads[t])
		}
		wg.Wait()
		threads, order = map[string][]c14job{}, nil
	}
	for i, op := range cs.Ops {
		tk := strings.Fields(op)
		switch {
		case len(tk) == 6 && tk[0] == "c14" && tk[1] == "ws", len(tk) == 9 && tk[0] == "c14" && tk[1] == "rest",
			len(tk) == 7 && tk[0] == "c14" && (tk[1] == "par" || tk[1] == "all" || tk[1] == "allwho"):
			if _, ok := threads[tk[2]]; !ok {
				order = append(order, tk[2])
			}
			threads[tk[2]] = append(threads[tk[2]], c14job{i, tk})
		case len(tk) == 3 && tk[0] == "c14" && tk[1] == "cstate":
			flush()
			cs.Impl[i] = e.doCState(tk[2])
		case len(tk) == 4 && tk[0] == "c14" && tk[1] == "reg":
			flush()
			cs.Impl[i] = e.doReg(tk)
		case len(tk) == 4 && tk[0] == "c14" && tk[1] == "direct":
			flush()
			cs.Impl[i] = e.doDirect(tk)
		case len(tk) == 4 && tk[0] == "c14" && tk[1] == "crowd":
			flush()
			cs.Impl[i] = e.doCrowd(tk)
		case len(tk) == 9 && tk[0] == "c14" && tk[1] == "getlist":
			flush()
			cs.Impl[i] = e.doGetList(tk)
		case len(tk) == 4 && tk[0] == "c14" && tk[1] == "parnobody":
			flush()
			cs.Impl[i] = e.doParNobody(tk)
		case len(tk) == 2 && tk[0] == "c14" && tk[1] == "barrier":
			flush()
			cs.Impl[i] = "ok"
		case len(tk) == 3 && tk[0] == "c14" && tk[1] == "procs":
			flush()
			if n, err := strconv.Atoi(tk[2]); err == nil && n > 0 {
				runtime.GOMAXPROCS(n)
				cs.Impl[i] = "ok"
			} else {
				cs.Impl[i] = "bad-op"
			}
		case len(tk) == 2 && tk[0] == "c14" && tk[1] == "calls":
			flush()
			cs.Impl[i] = fmt.Sprint(atomic.LoadInt64(&c14Calls))
		default:
			flush()
			cs.Impl[i] = "bad-op"
		}
	}
	flush()
	for _, cl := range e.ws {
		cl.Close()
	}
	c14oracle(cs)
}

// ---------------------------------------------------------------------------
// the property's own oracle: what every request is owed, computed from that
// request alone with the reference function c14Transform (not from the model)

// c14owed returns ("reply", canonical reply) when the request must be answered
// with exactly that reply, ("error", "") when it must be answered with an
// error, ("any", "") when the property does not say (net/http routing).
// called tells whether the handler has to be invoked.
func c14owed(tk []string, kept *[]byte) (kind, want string, called bool) {
	reply := func(tag string, a int64, s string, b []byte) (string, string, bool) {
		if c14IsBad(s) {
			return "error", "", true
		}
		if tag == "Ack" {
			// acknowledged without a message: the reply the handler produced is the empty one
			return "reply", c14showReply(&C14Reply{}), true
		}
		if s == c14NilReply {
			// the handler produced no reply and no error: the property does not say how that is rendered
			return "any", "", true
		}
		if s == "slow" && tk[1] == "ws" && strings.HasPrefix(tk[3], "q") && (tag == "Echo" || tag == "Swap") {
			// the client gives up before the reply comes: an error for this request only
			return "error", "", true
		}
		r, _ := c14Transform(tag, a, s, b)
		return "reply", c14showReply(r), true
	}
	if tk[1] == "ws" && strings.HasPrefix(tk[3], "x") {
		// a service name that does not exist: no handler can be meant
		return "error", "", false
	}
	if tk[1] == "ws" {
		tag := map[string]string{"C14Echo": "Echo", "C14Swap": "Swap", "C14Key": "Key", "C14Keep": "Keep", "C14Both": "BothWs", "C14Ack": "Ack"}[tk[4]]
		if tag == "" {
			return "error", "", false
		}
		buf, _ := c14hex(tk[5])
		if tag == "Key" {
			var m C14Key
			if err := protobuf.DecodeWithConstructors(buf, &m, network.DefaultConstructors(fix.Suite)); err != nil {
				return "error", "", false
			}
			str := ""
			if m.P != nil {
				b, _ := m.P.MarshalBinary()
				str = string(b)
			}
			return reply(tag, m.A, str, nil)
		}
		var m C14Echo
		if err := protobuf.Decode(buf, &m); err != nil {
			return "error", "", false
		}
		if tag == "Keep" {
			// the handler answers with the bytes it retained from the previous request
			prev := *kept
			*kept = append([]byte{}, m.B...)
			return reply(tag, m.A, m.S, prev)
		}
		return reply(tag, m.A, m.S, m.B)
	}
	method, ctype, res, tail, desc := tk[4], tk[5], tk[6], tk[7], tk[8]
	type hd struct {
		method, tag string
		slash       bool
	}
	hs := map[string]hd{"C14Post": {"POST", "Post", false}, "C14Put": {"PUT", "Put", false},
		"C14Int": {"GET", "Int", true}, "C14Bytes": {"GET", "Bytes", true}, "C14Empty": {"GET", "Empty", false},
		"C14Both": {"POST", "BothRest", false}}
	hh, ok := hs[res]
	if !ok || hh.slash != (tail != "-") {
		return "any", "", false
	}
	if method != hh.method {
		return "error", "", false
	}
	switch res {
	case "C14Empty":
		return reply("Empty", 0, "", nil)
	case "C14Int":
		for _, ch := range tail {
			if ch < '0' || ch > '9' {
				return "error", "", false
			}
		}
		n, err := strconv.ParseInt(tail, 10, 64)
		if err != nil {
			return "error", "", false
		}
		return reply("Int", n, "", nil)
	case "C14Bytes":
		for _, ch := range tail {
			if !(ch >= '0' && ch <= '9' || ch >= 'a' && ch <= 'f') {
				return "error", "", false
			}
		}
		b, err := hex.DecodeString(tail)
		if err != nil {
			return "error", "", false
		}
		return reply("Bytes", 0, "", b)
	}
	if ctype != "json" || desc == "-" || desc == "syntax" {
		return "error", "", false
	}
	var a int64
	var sv string
	var bv []byte
	if desc != "{}" {
		bad := false
		for _, it := range strings.Split(desc, ";") {
			if strings.HasSuffix(it, "!") {
				bad = true
				continue
			}
			kv := strings.SplitN(it, "=", 2)
			if len(kv) != 2 || kv[1] == "null" {
				continue
			}
			switch strings.ToUpper(kv[0]) {
			case "A":
				a, _ = strconv.ParseInt(kv[1], 10, 64)
			case "S":
				x, _ := c14hex(kv[1])
				sv = string(x)
			case "B":
				bv, _ = c14hex(kv[1])
			}
		}
		if bad {
			return "error", "", false
		}
	}
	return reply(hh.tag, a, sv, bv)
}

func c14keeps(client string) bool {
	return strings.HasPrefix(client, "k") || strings.HasPrefix(client, "q") || strings.HasPrefix(client, "p")
}

func c14obsClass(tk []string, obs string) string {
	f := strings.Fields(obs)
	if len(f) == 0 {
		return tk[1] + ":none"
	}
	if tk[1] == "ws" {
		if f[0] == "ok" {
			return "ws:ok"
		}
		return "ws:" + strings.Join(f, "-")
	}
	if f[0] == "200" {
		return "rest:200"
	}
	return "rest:" + strings.Join(f, "-")
}

func c14oracle(cs *h.Case) {
	classes := map[string]bool{}
	wantCalls := int64(0)
	var calls int64 = -1
	var kept []byte // what the C14Keep handler holds (requests to that path come from one thread)
	for i, op := range cs.Ops {
		tk := strings.Fields(op)
		obs := cs.Impl[i]
		if len(tk) == 2 && tk[1] == "calls" {
			calls, _ = strconv.ParseInt(obs, 10, 64)
			if calls != wantCalls {
				cs.Fail("c14:handler-calls", fmt.Sprintf("%d handler invocations for %d requests that reach a handler", calls, wantCalls))
			}
			continue
		}
		if len(tk) == 7 && tk[1] == "par" {
			classes["par:"+strings.Fields(obs + " -")[0]] = true
			if tk[6] == "downall" || tk[6] == "downquit" {
				// no node can answer (resp. the first error ends the call): an error, nobody handed back
				if obs != "err" {
					cs.Fail("c14:error-not-reported:parallel", fmt.Sprintf("request %d %q must end with an error, got %q", i, op, obs))
				}
			} else if tk[6] == "quiterr" {
				if obs != "ok quit" {
					cs.Fail("c14:wrong-reply:parallel", fmt.Sprintf("request %d %q: %s", i, op, obs))
				}
			} else if obs != "ok pair" {
				cs.Fail("c14:wrong-reply:parallel", fmt.Sprintf("request %d %q: the reply handed back is not the reply of the node handed back: %s", i, op, obs))
			}
			continue
		}
		if len(tk) == 9 && tk[1] == "getlist" {
			// whom a parallel request asks: no node twice, only nodes of the roster, no ignored node, a
			// routine for them (checked by the op itself on the list GetList hands out)
			classes["getlist"] = true
			if strings.Contains(obs, " !") || strings.HasPrefix(obs, "panic") {
				cs.Fail("c14:wrong-nodes-asked:parallel", fmt.Sprintf("op %d %q: %s", i, op, obs))
			}
			continue
		}
		if len(tk) == 4 && tk[1] == "parnobody" {
			// nobody to ask: an error for the caller, not the end of its process
			classes["parnobody:"+strings.Fields(obs + " -")[0]] = true
			if obs != "err" {
				cs.Fail("c14:error-not-reported:parallel", fmt.Sprintf("op %d %q: a parallel request with nobody to ask must end with an error, got %q", i, op, obs))
			}
			continue
		}
		if len(tk) == 3 && tk[1] == "cstate" {
			classes["cstate"] = true
			// between requests a single-use client holds no connection; whatever happened before
			if !c14keeps(tk[2]) && !strings.HasPrefix(obs, "conns=- ") {
				cs.Fail("c14:client-state", fmt.Sprintf("op %d %q: a single-use client holds a connection between requests: %s", i, op, obs))
			}
			continue
		}
		if len(tk) == 4 && tk[1] == "direct" {
			wtk := []string{"c14", "ws", "td", "kdirect", tk[2], tk[3]}
			classes["direct:"+strings.Fields(obs + " -")[0]] = true
			kind, want, called := c14owed(wtk, &kept)
			if called {
				wantCalls++
			}
			switch kind {
			case "reply":
				if obs != "ok "+want {
					cs.Fail("c14:wrong-reply:direct", fmt.Sprintf("request %d %q was answered %q, the reply computed for exactly this request is %q", i, op, obs, want))
				}
			case "error":
				if !strings.HasPrefix(obs, "err ") {
					cs.Fail("c14:error-not-reported:direct", fmt.Sprintf("request %d %q must be answered with an error, got %q", i, op, obs))
				}
			}
			continue
		}
		if len(tk) == 4 && tk[1] == "crowd" {
			// n more clients, connected at the same time: each one is owed what one client is owed
			n, _ := strconv.Atoi(tk[2])
			classes["crowd:"+strings.Fields(obs + " -")[0]] = true
			kind, want, called := c14owed([]string{"c14", "ws", "tcrowd", "rcrowd", "C14Echo", tk[3]}, &kept)
			if called {
				wantCalls += int64(n)
			}
			if kind == "reply" && obs != fmt.Sprintf("n=%d ok %s", n, want) {
				cs.Fail("c14:wrong-reply:ws", fmt.Sprintf("request %d %q: %d clients connected at the same time, each owed %q: %s", i, op, n, want, obs))
			}
			continue
		}
		if len(tk) == 7 && tk[1] == "allwho" {
			// the reply list of SendToAll is indexed like the roster: position i holds the reply of
			// roster entry i (every server answers with its own address) or nothing if the Send to
			// it failed; an error is returned iff some Send failed
			f := strings.Fields(obs)
			classes["allwho:"+f[len(f)-1]] = true
			pat := tk[6]
			ok := len(f) == len(pat)+2 && f[0] == fmt.Sprintf("len=%d", len(pat))
			anyDown := strings.Contains(pat, "d")
			for k := 0; ok && k < len(pat); k++ {
				ok = f[1+k] == string(pat[k])+":"+map[bool]string{true: "own", false: "nil"}[pat[k] != 'd']
			}
			if !ok {
				cs.Fail("c14:wrong-reply:all", fmt.Sprintf("request %d %q: the replies of SendToAll are not those of the servers at their roster positions: %s", i, op, obs))
			} else if f[len(f)-1] != map[bool]string{true: "err", false: "noerr"}[anyDown] {
				cs.Fail("c14:error-not-reported:all", fmt.Sprintf("request %d %q: %s", i, op, obs))
			}
			continue
		}
		if len(tk) == 7 && tk[1] == "all" {
			// every one of the n servers owes what one server owes to this request
			n, _ := strconv.Atoi(tk[4])
			wtk := []string{"c14", "ws", tk[2], tk[3], tk[5], tk[6]}
			classes["all:"+strings.Fields(obs + " -")[0]] = true
			kind, want, called := c14owed(wtk, &kept)
			if called {
				wantCalls += int64(n)
			}
			switch kind {
			case "reply":
				if obs != "ok "+want {
					cs.Fail("c14:wrong-reply:all", fmt.Sprintf("request %d %q to %d servers was answered %q, every server owes %q", i, op, n, obs, want))
				}
			case "error":
				if !strings.HasPrefix(obs, "close ") {
					cs.Fail("c14:error-not-reported:all", fmt.Sprintf("request %d %q must be answered with an error, got %q", i, op, obs))
				}
			}
			continue
		}
		if len(tk) < 6 || (tk[1] != "ws" && tk[1] != "rest") {
			continue
		}
		classes[c14obsClass(tk, obs)] = true
		if obs == "noreply" {
			// a pipelined message behind the one that closed the connection: never read
			continue
		}
		kind, want, called := c14owed(tk, &kept)
		if called {
			wantCalls++
		}
		switch kind {
		case "reply":
			got := obs
			if tk[1] == "ws" {
				got = strings.TrimPrefix(obs, "ok ")
			} else {
				got = strings.TrimPrefix(obs, "200 ")
			}
			if got == obs || got != want {
				cs.Fail("c14:wrong-reply:"+tk[1], fmt.Sprintf("request %d %q was answered %q, the reply computed for exactly this request is %q", i, op, obs, want))
			}
		case "error":
			isErr := false
			if tk[1] == "ws" {
				isErr = strings.HasPrefix(obs, "close 1002 ") || obs == "close 1006 other" || obs == "close" || obs == "close - timeout" || obs == "close 4001 noservice"
			} else {
				isErr = len(obs) > 3 && obs[0] >= '4' && obs[0] <= '5' && !strings.HasPrefix(obs, "200")
			}
			if !isErr {
				cs.Fail("c14:error-not-reported:"+tk[1], fmt.Sprintf("request %d %q must be answered with an error, got %q", i, op, obs))
			}
		}
	}
	var ks []string
	for k := range classes {
		ks = append(ks, k)
	}
	sort.Strings(ks)
	cs.Outcome = strings.Join(ks, " ")
}

// ---------------------------------------------------------------------------
// generator

type c14gen struct {
	c   *h.Ctx
	val int64
	// narrow: no integers of magnitude >= 2^62 (the library's own reply decoder, which SendProtobuf
	// uses, mis-decodes them: not onet's)
	narrow bool
}

var c14words = []string{"", "a", "42", "hello", "x y", "fail", "panic", "nil", "panicerr", "panicint", "panicstruct", "panicf", "Fail", "zz9", "onet"}

func (g *c14gen) str() string {
	r := g.c.Rng
	switch r.Intn(10) {
	case 0:
		return ""
	case 1, 2, 3:
		return c14words[r.Intn(len(c14words))]
	case 4:
		return strings.Repeat("w", 100+r.Intn(200))
	}
	const al = "abcdefghijklmnopqrstuvwxyz0123456789 _-"
	n := 1 + r.Intn(8)
	b := make([]byte, n)
	for i := range b {
		b[i] = al[r.Intn(len(al))]
	}
	return string(b)
}

// okstr is a string no handler refuses.
func (g *c14gen) okstr() string {
	for {
		s := g.str()
		if !c14IsBad(s) {
			return s
		}
	}
}

func (g *c14gen) bytes() []byte {
	r := g.c.Rng
	n := r.Intn(7)
	if r.Intn(4) == 0 {
		n = 0
	}
	b := make([]byte, n)
	r.Read(b)
	return b
}

func (g *c14gen) int(wide bool) int64 {
	r := g.c.Rng
	switch r.Intn(8) {
	case 0:
		return 0
	case 1:
		return -1 - int64(r.Intn(1000))
	case 2:
		if wide && !g.narrow {
			return []int64{1<<63 - 1, -1 << 63, 1 << 62, -(1 << 62)}[r.Intn(4)]
		}
		return []int64{1<<53 - 1, -(1<<53 - 1)}[r.Intn(2)]
	}
	g.val++
	return g.val*7 + int64(r.Intn(7))
}

// protobuf wire-format pieces
func c14varint(v uint64) []byte {
	var b []byte
	for v >= 0x80 {
		b = append(b, byte(v)|0x80)
		v >>= 7
	}
	return append(b, byte(v))
}
func c14zz(v int64) uint64 { return uint64(v<<1) ^ uint64(v>>63) }
func c14fA(v int64) []byte { return append([]byte{0x08}, c14varint(c14zz(v))...) }
func c14fLen(num int, p []byte) []byte {
	return append(append(c14varint(uint64(num<<3|2)), c14varint(uint64(len(p)))...), p...)
}

// wsBuf yields a request buffer and its kind.
func (g *c14gen) wsBuf(kindHint int) (string, string) {
	r := g.c.Rng
	valid := func(s string) []byte {
		buf, err := protobuf.Encode(&C14Echo{A: g.int(true), S: s, B: g.bytes()})
		if err != nil {
			panic(err)
		}
		return buf
	}
	k := kindHint
	if k < 0 {
		k = r.Intn(20)
	}
	switch {
	case k < 9:
		return h.Hex(valid(g.okstr())), "valid"
	case k < 11: // partial: some fields left out
		var b []byte
		if r.Intn(2) == 0 {
			b = append(b, c14fA(g.int(true))...)
		}
		if r.Intn(2) == 0 {
			b = append(b, c14fLen(2, []byte(g.okstr()))...)
		}
		if r.Intn(2) == 0 {
			b = append(b, c14fLen(3, g.bytes())...)
		}
		return h.Hex(b), "partial"
	case k < 13:
		if r.Intn(6) == 0 {
			return h.Hex(valid(c14NilReply)), "nil-reply"
		}
		return h.Hex(valid(c14Bad[r.Intn(len(c14Bad))])), "failing"
	case k < 15: // truncated valid encoding
		b := valid(g.okstr())
		return h.Hex(b[:r.Intn(len(b)+1)]), "truncated"
	case k < 16: // wrong wire type for a known field
		var b []byte
		switch r.Intn(5) {
		case 0:
			b = append([]byte{0x0a}, append(c14varint(2), 'h', 'i')...) // A length-delimited
		case 1:
			b = append([]byte{0x10}, c14varint(uint64(r.Intn(300)))...) // S varint
		case 2:
			b = []byte{0x09, 1, 2, 3, 4, 5, 6, 7, 0x80} // A fixed64
		case 3:
			b = []byte{0x0d, 0xff, 0xff, 0xff, 0xff} // A fixed32
		case 4:
			b = []byte{0x1d, 1, 2, 3, 4} // B fixed32
		}
		if r.Intn(2) == 0 {
			b = append(b, c14fLen(3, g.bytes())...)
		}
		return h.Hex(b), "wiretype"
	case k < 17: // unknown / out of order / repeated fields
		var b []byte
		switch r.Intn(5) {
		case 0: // unknown field 4 (varint) then nothing else
			b = append(c14fA(g.int(true)), append(c14varint(4<<3), c14varint(uint64(r.Intn(1000)))...)...)
		case 1: // out of order: S then A (A is skipped by the decoder)
			b = append(c14fLen(2, []byte(g.okstr())), c14fA(g.int(true))...)
		case 2: // repeated field: last one wins
			b = append(c14fLen(2, []byte(g.okstr())), c14fLen(2, []byte(g.okstr()))...)
		case 3: // unknown field with unsupported wire type
			b = append(c14fA(g.int(true)), byte(5<<3|3))
		case 4: // unknown high field, bad length
			b = append(c14fLen(3, g.bytes()), append(c14varint(9<<3|2), 0x7f, 1)...)
		}
		return h.Hex(b), "fields"
	case k < 19: // garbage
		n := 1 + r.Intn(12)
		b := make([]byte, n)
		r.Read(b)
		return h.Hex(b), "garbage"
	default: // over-long varints
		b := bytes.Repeat([]byte{0xff}, 9+r.Intn(3))
		if r.Intn(2) == 0 {
			b = append([]byte{0x08}, append(b, byte(r.Intn(3)))...)
		}
		return h.Hex(b), "varint"
	}
}

func (g *c14gen) wsPath() string {
	r := g.c.Rng
	switch r.Intn(14) {
	case 0:
		return "Nope"
	case 1:
		return "C14" + strings.Repeat("x", 50+r.Intn(20)) // unregistered, reason near the frame limit
	case 2, 3, 4:
		return "C14Swap"
	case 5:
		if r.Intn(2) == 0 {
			return "C14Ack" // acknowledged without a message
		}
		return "C14Both" // registered for both APIs, with different functions
	case 6:
		return []string{"C14Post", "C14Put", "C14Empty"}[r.Intn(3)] // registered for REST only: no websocket path
	}
	return "C14Echo"
}

// restReq yields the last five tokens of a rest op and its kind.
func (g *c14gen) restReq(res string) (string, string) {
	r := g.c.Rng
	if res == "" {
		res = []string{"C14Post", "C14Post", "C14Post", "C14Put", "C14Put", "C14Int", "C14Bytes", "C14Empty", "Nope", "C14Both", "C14Echo"}[r.Intn(11)]
	}
	item := func(f string) string {
		if r.Intn(6) == 0 {
			f = strings.ToLower(f)
		}
		switch strings.ToUpper(f) {
		case "A":
			return fmt.Sprintf("%s=%d", f, g.int(false))
		case "S":
			return f + "=" + h.Hex([]byte(g.okstr()))
		}
		return f + "=" + h.Hex(g.bytes())
	}
	body := func() (string, string) {
		switch k := r.Intn(20); {
		case k < 7: // all fields
			fs := []string{"A", "S", "B"}
			r.Shuffle(3, func(i, j int) { fs[i], fs[j] = fs[j], fs[i] })
			return item(fs[0]) + ";" + item(fs[1]) + ";" + item(fs[2]), "full"
		case k < 12: // some fields
			var it []string
			for _, f := range []string{"A", "S", "B"} {
				if r.Intn(2) == 0 {
					it = append(it, item(f))
				}
			}
			if len(it) == 0 {
				return "{}", "empty-object"
			}
			return strings.Join(it, ";"), "partial"
		case k < 13:
			return "{}", "empty-object"
		case k < 14:
			if r.Intn(6) == 0 {
				return "S=" + h.Hex([]byte(c14NilReply)) + ";" + item("A"), "nil-reply"
			}
			return "S=" + h.Hex([]byte(c14Bad[r.Intn(len(c14Bad))])) + ";" + item("A"), "failing"
		case k < 15:
			f := []string{"A", "S", "B"}[r.Intn(3)]
			return item("A") + ";" + f + "=null;" + item("B"), "null"
		case k < 16:
			return item("S") + ";X=" + fmt.Sprint(r.Intn(100)) + ";" + item("S"), "unknown+repeated"
		case k < 18:
			f := []string{"A", "S", "B"}[r.Intn(3)]
			return item("S") + ";" + f + "!;" + item("A"), "ill-typed"
		case k < 19:
			return "syntax", "syntax"
		}
		return "-", "no-body"
	}
	method := map[string]string{"C14Post": "POST", "C14Put": "PUT", "C14Int": "GET", "C14Bytes": "GET", "C14Empty": "GET", "Nope": "GET",
		"C14Both": "POST", "C14Echo": "POST"}[res] // C14Echo: registered for the websocket API only, no REST resource
	kind := "ok-method"
	if r.Intn(10) == 0 {
		method = []string{"GET", "POST", "PUT", "DELETE"}[r.Intn(4)]
		kind = "any-method"
	}
	ctype := "json"
	if r.Intn(12) == 0 {
		ctype = []string{"text", "none"}[r.Intn(2)]
		kind += "+ctype"
	}
	tail := "-"
	b, bk := "-", "no-body"
	switch res {
	case "C14Int":
		switch k := r.Intn(10); {
		case k < 6:
			tail = fmt.Sprint(r.Intn(100000))
		case k < 7:
			tail = "0" + fmt.Sprint(r.Intn(100))
		case k < 8:
			tail = []string{"9223372036854775807", "9223372036854775808", "99999999999999999999999"}[r.Intn(3)]
		case k < 9:
			tail = []string{"x1", "1x", "-5", "1.5", "0x10"}[r.Intn(5)]
		}
		bk = "tail=" + map[bool]string{true: "none", false: "some"}[tail == "-"]
		if method != "GET" {
			b, _ = body()
		}
	case "C14Bytes":
		switch k := r.Intn(10); {
		case k < 6:
			tail = hex.EncodeToString(append(g.bytes(), byte(r.Intn(256))))
		case k < 7:
			tail = "abc"
		case k < 8:
			tail = []string{"AB", "0g", "zz"}[r.Intn(3)]
		case k < 9:
			tail = strings.Repeat("ab", 40)
		}
		bk = "tail=" + map[bool]string{true: "none", false: "some"}[tail == "-"]
		if method != "GET" {
			b, _ = body()
		}
	case "C14Empty", "Nope", "C14Echo":
		if r.Intn(8) == 0 {
			tail = "5"
		}
		if method != "GET" {
			b, _ = body()
		}
	default:
		if r.Intn(15) == 0 {
			tail = "extra"
		}
		b, bk = body()
	}
	return fmt.Sprintf("%s %s %s %s %s", method, ctype, res, tail, b), res + ":" + kind + ":" + bk
}

func (g *c14gen) finish(cs *h.Case) {
	cs.Ops = append(cs.Ops, "c14 barrier")
	// canaries: the server still answers, with the right replies, afterwards
	buf, _ := protobuf.Encode(&C14Echo{A: 77, S: "canary", B: []byte{7}})
	cs.Ops = append(cs.Ops, "c14 ws tc ocanary C14Echo "+h.Hex(buf))
	cs.Ops = append(cs.Ops, "c14 rest tc ocanary POST json C14Post - {}")
	cs.Ops = append(cs.Ops, "c14 calls")
}

func c14genCases(c *h.Ctx, yield func(*h.Case)) {
	g := &c14gen{c: c}
	r := c.Rng
	// cstate appends, behind a barrier, the reading of the named clients' connection and lock maps;
	// only for clients whose final state does not depend on the interleaving (used by one thread, or
	// single-use)
	cstate := func(cs *h.Case, clients ...string) {
		cs.Ops = append(cs.Ops, "c14 barrier")
		for _, cl := range clients {
			cs.Ops = append(cs.Ops, "c14 cstate "+cl)
		}
	}
	emit := func(cs *h.Case) {
		g.finish(cs)
		c.Count("class=" + cs.Class)
		c.Count(fmt.Sprintf("ops<=%d", (len(cs.Ops)/20+1)*20))
		yield(cs)
	}
	wsop := func(cs *h.Case, thr, cl, path string, hint int) {
		buf, kind := g.wsBuf(hint)
		c.Count("ws:" + kind)
		c.Count("client:" + cl[:1])
		cs.Ops = append(cs.Ops, fmt.Sprintf("c14 ws %s %s %s %s", thr, cl, path, buf))
	}
	restop := func(cs *h.Case, thr, cl, res string) {
		q, kind := g.restReq(res)
		c.Count("rest:" + kind)
		cs.Ops = append(cs.Ops, fmt.Sprintf("c14 rest %s %s %s", thr, cl, q))
	}
	hx := func(s string) string { return h.Hex([]byte(s)) }

	// corpus: the witnesses of the defects found while building this check
	{
		cs := &h.Case{Class: "corpus:rest-omitted-field"}
		for _, b := range []string{"{}", "A=5;S=" + hx("42") + ";B=0102", "{}", "A=6", "S=" + hx("only"), "B=09", "{}"} {
			cs.Ops = append(cs.Ops, "c14 rest t1 k1 POST json C14Post - "+b)
		}
		for _, b := range []string{"A=5;S=" + hx("42"), "{}"} {
			cs.Ops = append(cs.Ops, "c14 rest t1 o1 PUT json C14Put - "+b)
		}
		cs.Ops = append(cs.Ops, "c14 rest t1 k1 GET none C14Int 41 -", "c14 rest t1 k1 GET none C14Int 1x -", "c14 rest t1 k1 GET none C14Bytes 0a0b -", "c14 rest t1 k1 GET none C14Bytes 0a0 -")
		emit(cs)
	}
	{
		cs := &h.Case{Class: "corpus:keep-after-error"}
		enc := func(a int64, s string) string {
			b, _ := protobuf.Encode(&C14Echo{A: a, S: s})
			return h.Hex(b)
		}
		for _, s := range []string{"one", "fail", "two", "panic", "three", "nil", "four"} {
			cs.Ops = append(cs.Ops, "c14 ws t1 k1 C14Echo "+enc(int64(len(s)), s))
		}
		cs.Ops = append(cs.Ops, "c14 ws t1 k1 C14Echo ff", "c14 ws t1 k1 C14Echo "+enc(9, "five"), "c14 ws t1 k1 C14Echo 0a")
		cstate(cs, "k1") // right after a failed request: the connection is forgotten, the lock object stays
		cs.Ops = append(cs.Ops, "c14 ws t1 k1 C14Echo "+enc(10, "six"))
		cstate(cs, "k1")
		emit(cs)
	}
	{
		// two threads hammer one REST handler with different values (shared-object race)
		cs := &h.Case{Class: "corpus:rest-concurrent-same-handler"}
		for i := 0; i < 40; i++ {
			cs.Ops = append(cs.Ops, fmt.Sprintf("c14 rest t1 k1 POST json C14Post - A=%d;S=%s", 1000+i, hx(fmt.Sprintf("one%d", i))))
			cs.Ops = append(cs.Ops, "c14 rest t2 k2 POST json C14Post - {}")
			cs.Ops = append(cs.Ops, fmt.Sprintf("c14 rest t3 k3 GET none C14Int %d -", 500+i))
			cs.Ops = append(cs.Ops, fmt.Sprintf("c14 rest t4 k4 GET none C14Int %d -", 900+i))
		}
		emit(cs)
	}

	{
		// a kept client after a reply that came too late (seed C14r2-B)
		cs := &h.Case{Class: "corpus:reply-too-late"}
		enc := func(a int64, s string) string {
			b, _ := protobuf.Encode(&C14Echo{A: a, S: s})
			return h.Hex(b)
		}
		cs.Ops = append(cs.Ops, "c14 ws t1 q1 C14Echo "+enc(1, "before"), "c14 ws t1 q1 C14Echo "+enc(2, "slow"),
			"c14 ws t1 q1 C14Echo "+enc(3, "after"), "c14 ws t1 q1 C14Echo "+enc(4, "again"))
		cstate(cs, "q1")
		emit(cs)
	}

	{
		// a handler panicking with every kind of value, on websocket and REST (seed C14r3-B)
		cs := &h.Case{Class: "corpus:panic-values"}
		enc := func(a int64, s string) string {
			b, _ := protobuf.Encode(&C14Echo{A: a, S: s})
			return h.Hex(b)
		}
		for i, s := range c14Bad {
			cs.Ops = append(cs.Ops, "c14 ws t1 k1 C14Echo "+enc(int64(i), "before"), "c14 ws t1 k1 C14Echo "+enc(int64(i), s),
				"c14 rest t1 k1 POST json C14Post - S="+hx(s), "c14 rest t1 k1 PUT json C14Put - A=1;S="+hx(s))
		}
		emit(cs)
	}
	{
		// one request to several servers at once, two replies overlapping (seed C14r3-A)
		cs := &h.Case{Class: "corpus:parallel-send"}
		cs.Ops = append(cs.Ops, "c14 par t1 o1 3 7 overlap", "c14 par t1 k1 5 8 overlap", "c14 par t1 o1 4 9 plain",
			"c14 par t1 o1 4 10 ordered", "c14 par t1 k1 3 11 quit", "c14 par t1 o1 3 12 down1", "c14 par t1 k1 4 13 down2",
			"c14 par t1 o1 3 14 downall", "c14 par t1 o1 3 15 downquit", "c14 par t1 k1 3 16 plain",
			// QuitError with a refusing node next to answering ones (the double close of `done`, fixed in round 5)
			"c14 par t1 o1 3 17 quiterr", "c14 par t1 o1 4 18 quiterr", "c14 par t1 o1 3 19 quiterr", "c14 par t1 o1 3 20 quiterr",
			"c14 par t1 o1 3 21 quiterr", "c14 par t1 o1 3 22 quiterr", "c14 par t1 o1 3 23 quiterr", "c14 par t1 o1 3 24 quiterr")
		emit(cs)
	}
	{
		// the other ways into the client: a service name that does not exist, a server addressed by host
		// and port, the typed API (SendProtobuf), one request to several servers in turn (SendToAll)
		cs := &h.Case{Class: "corpus:client-kinds"}
		enc := func(a int64, s string) string {
			b, _ := protobuf.Encode(&C14Echo{A: a, S: s, B: []byte{5}})
			return h.Hex(b)
		}
		cs.Ops = append(cs.Ops, "c14 ws t1 x1 C14Echo "+enc(1, "one"), "c14 ws t1 u1 C14Echo "+enc(2, "two"),
			"c14 ws t1 p1 C14Echo "+enc(3, "three"), "c14 ws t1 p1 C14Swap "+enc(4, "fail"), "c14 ws t1 p1 C14Both "+enc(5, "five"),
			"c14 ws t1 p1 C14Echo ff", "c14 ws t1 u1 C14Swap "+enc(6, "panic"), "c14 ws t1 u1 C14Echo "+enc(7, "seven"),
			"c14 all t1 k1 3 C14Echo "+enc(8, "eight"), "c14 all t1 o1 2 C14Swap "+enc(9, "fail"), "c14 all t1 k1 3 C14Both "+enc(10, "ten"),
			"c14 all t1 k1 2 Nope "+enc(11, "x"), "c14 all t1 k1 3 C14Echo 0a")
		cstate(cs, "x1", "u1", "p1", "k1", "o1")
		emit(cs)
	}
	for _, n := range []int{300, 1100} {
		// many clients connected at the same time, idle between their requests (seed C14r6-B: a bound
		// of 128 on the connections of one service): every one is served, and so are the kept and
		// single-use clients that come afterwards and the canaries of the case's end
		cs := &h.Case{Class: "corpus:many-connections"}
		enc := func(a int64, s string) string {
			b, _ := protobuf.Encode(&C14Echo{A: a, S: s, B: []byte{6}})
			return h.Hex(b)
		}
		cs.Ops = append(cs.Ops, "c14 ws t1 k1 C14Echo "+enc(1, "before"), fmt.Sprintf("c14 crowd %d %s", n, enc(int64(n), "crowd")),
			"c14 ws t1 k1 C14Echo "+enc(2, "kept"), "c14 ws t2 o1 C14Swap "+enc(3, "single"), "c14 ws t2 k2 C14Both "+enc(4, "another"),
			"c14 rest t2 k1 POST json C14Post - {}", fmt.Sprintf("c14 crowd 40 %s", enc(5, "more")), "c14 ws t1 o2 C14Echo "+enc(6, "after"))
		cstate(cs, "k1", "o1")
		emit(cs)
	}
	{
		// QuitError with a refusing node next to answering ones, many times over (the error and the
		// accepted reply must come at the same moment for the double close of `done`)
		cs := &h.Case{Class: "corpus:parallel-quit-error"}
		for i := 0; i < 80; i++ {
			cs.Ops = append(cs.Ops, fmt.Sprintf("c14 par t%d o%d %d %d quiterr", i%2, i%2, 3+i%3, 300+i))
		}
		emit(cs)
	}
	{
		// SendToAll with servers that fail in the middle / at the start / at the end of the roster
		// (seed C14r5-B): every reply at its server's position, nothing where the Send failed
		cs := &h.Case{Class: "corpus:send-to-all-positions"}
		cs.Ops = append(cs.Ops, "c14 allwho t1 k1 3 41 udu", "c14 allwho t1 o1 3 42 duu", "c14 allwho t1 k1 3 43 uud",
			"c14 allwho t1 o1 3 44 uuu", "c14 allwho t1 k1 3 45 uddu", "c14 allwho t1 o1 2 46 dd",
			// identities without ID (seed C14r5-A): a kept client must still talk to the server it was given
			"c14 allwho t1 k1 3 47 lll", "c14 allwho t1 k2 3 48 uldl", "c14 allwho t1 o1 3 49 ll")
		cstate(cs, "k1", "k2", "o1")
		emit(cs)
	}

	{
		// one message type registered for both APIs with different functions (seed C14r4-B): each
		// API answers with its own function; a type registered for one API only is unknown to the other
		cs := &h.Case{Class: "corpus:both-apis"}
		enc := func(a int64, s string) string {
			b, _ := protobuf.Encode(&C14Both{A: a, S: s, B: []byte{1, 2}})
			return h.Hex(b)
		}
		cs.Ops = append(cs.Ops, "c14 ws t1 k1 C14Both "+enc(1, "one"), "c14 rest t1 k1 POST json C14Both - A=2;S="+hx("two")+";B=0304",
			"c14 ws t1 o1 C14Both "+enc(3, "three"), "c14 ws t1 k1 C14Both "+enc(4, "four"), "c14 rest t1 o1 POST json C14Both - {}",
			"c14 ws t1 k2 C14Post "+enc(5, "five"), "c14 rest t1 k1 POST json C14Echo - A=6", "c14 ws t1 k1 C14Both "+enc(7, "fail"),
			"c14 rest t1 k1 POST json C14Both - S="+hx("panic"), "c14 ws t1 k1 C14Both "+enc(8, "eight"))
		cstate(cs, "k1", "o1", "k2")
		emit(cs)
	}

	{
		// a handler that returns neither a reply nor an error; ProcessClientRequest called directly
		cs := &h.Case{Class: "corpus:nil-reply-and-direct"}
		enc := func(a int64, s string) string {
			b, _ := protobuf.Encode(&C14Echo{A: a, S: s, B: []byte{9}})
			return h.Hex(b)
		}
		cs.Ops = append(cs.Ops, "c14 ws t1 k1 C14Echo "+enc(1, c14NilReply), "c14 ws t1 k1 C14Echo "+enc(2, "after"),
			"c14 rest t1 k1 POST json C14Post - S="+hx(c14NilReply), "c14 rest t1 k1 POST json C14Post - S="+hx("after"),
			"c14 barrier", "c14 direct C14Echo "+enc(3, "three"), "c14 direct C14Nope "+enc(4, "four"), "c14 direct C14Post "+enc(4, "four"),
			"c14 direct C14Swap ff", "c14 direct C14Both "+enc(5, "fail"), "c14 direct C14Echo "+enc(6, "panicint"),
			"c14 direct C14Swap "+enc(7, c14NilReply), "c14 direct C14Keep "+enc(8, "eight"), "c14 direct C14Keep "+enc(9, "nine"))
		emit(cs)
	}

	{
		// a handler with an interface return type that acknowledges without a message (nil, nil): the
		// reply is empty — not the request's own bytes (seed C14r7-B) — whatever the request carried
		cs := &h.Case{Class: "corpus:ack-without-message"}
		enc := func(a int64, s string) string {
			b, _ := protobuf.Encode(&C14Echo{A: a, S: s, B: []byte{7, 8, 9}})
			return h.Hex(b)
		}
		cs.Ops = append(cs.Ops, "c14 ws t1 k1 C14Ack "+enc(5, "five"), "c14 ws t1 k1 C14Echo "+enc(6, "six"), "c14 ws t1 o1 C14Ack "+enc(-7, "seven"),
			"c14 ws t1 k1 C14Ack "+enc(8, "fail"), "c14 ws t1 k1 C14Ack "+enc(9, c14NilReply), "c14 ws t1 r1 C14Ack "+enc(10, "ten"),
			"c14 ws t1 r1 C14Ack "+enc(11, "panic"), "c14 barrier", "c14 direct C14Ack "+enc(12, "twelve"), "c14 direct C14Ack "+enc(13, "panicint"))
		emit(cs)
	}
	{
		// what a registration accepts: every function of the table on the websocket API, and the REST
		// checks in their order
		cs := &h.Case{Class: "corpus:registration"}
		for _, sg := range c14sigNames {
			cs.Ops = append(cs.Ops, "c14 reg ws "+sg)
		}
		for _, sg := range c14sigNames {
			cs.Ops = append(cs.Ops, "c14 reg rest:GET:3:3 "+sg)
		}
		cs.Ops = append(cs.Ops, "c14 reg rest:POST:3:4 ok", "c14 reg rest:PUT:3:3 okiface", "c14 reg rest:DELETE:3:3 ok", "c14 reg rest:POST:4:3 ok",
			"c14 reg rest:POST:2:3 ok", "c14 reg rest:PATCH:5:2 notfunc", "c14 reg rest:POST:2:2 ret1", "c14 reg rest:POST:3:3 ret1",
			"c14 reg rest:PUT:3:3 argval", "c14 reg rest:POST:3:3 get-two")
		emit(cs)
	}

	{
		// SendProtobufParallel with nobody to ask (no node, every node ignored): an error, not errs[0]
		// of an empty list (fixed in /repo 2f7be2f); and GetList at its corners
		cs := &h.Case{Class: "corpus:parallel-nobody-to-ask"}
		cs.Ops = append(cs.Ops, "c14 parnobody ignoreall 3", "c14 parnobody empty 0", "c14 parnobody nilroster 0", "c14 parnobody ignoreall 1",
			"c14 getlist 0 0 0 0 0 0 nil", "c14 getlist 0 1 1 1 1 0 opt", "c14 getlist 1 0 0 0 1 0 opt", "c14 getlist 1 0 0 0 1 1 opt",
			"c14 getlist 6 2 3 2 1 16 opt", "c14 getlist 6 0 0 0 1 0 opt", "c14 getlist 6 -1 -1 -1 1 0 opt", "c14 getlist 6 9 9 9 1 63 opt",
			"c14 getlist 6 3 6 6 1 0 opt", "c14 getlist 6 3 5 5 1 33 opt", "c14 getlist 7 0 0 0 0 0 nil", "c14 getlist 7 1 2 3 0 8 opt",
			"c14 getlist 24 0 0 23 1 8388608 opt", "c14 getlist 5 0 0 0 0 31 opt")
		emit(cs)
	}

	n := c.Pick(140, 2500)
	for it := 0; it < n && !c.TooManyFails(); it++ {
		if it%4 == 1 {
			// whom a parallel request asks: rosters of 0-24 nodes, options of every size and sign, ignored
			// nodes, fixed and shuffled order
			cs := &h.Case{Class: "getlist"}
			for i, m := 0, 8+r.Intn(16); i < m; i++ {
				nn := r.Intn(25)
				if r.Intn(3) == 0 {
					nn = r.Intn(5)
				}
				num := func() int {
					switch r.Intn(5) {
					case 0:
						return 0
					case 1:
						return -1 - r.Intn(3)
					case 2:
						return nn + r.Intn(3) - 1
					}
					return r.Intn(nn + 2)
				}
				mask := 0
				switch r.Intn(4) {
				case 0:
					mask = r.Intn(1 << uint(nn))
				case 1:
					mask = 1<<uint(nn) - 1 - r.Intn(2) // all of them, or all but the first
				case 2:
					mask = 1 << uint(r.Intn(nn+1)) >> 1
				}
				if mask < 0 {
					mask = 0
				}
				o := "opt"
				if r.Intn(8) == 0 {
					o = "nil"
				}
				c.Count(fmt.Sprintf("getlist:n<=%d", (nn/8+1)*8))
				cs.Ops = append(cs.Ops, fmt.Sprintf("c14 getlist %d %d %d %d %d %d %s", nn, num(), num(), num(), r.Intn(2), mask, o))
			}
			if r.Intn(3) == 0 {
				cs.Ops = append(cs.Ops, fmt.Sprintf("c14 parnobody ignoreall %d", 1+r.Intn(5)))
			}
			emit(cs)
		}
		if it%2 == 0 {
			// both APIs of one message type at once, from several threads
			cs := &h.Case{Class: "both-apis"}
			nthr := 2 + r.Intn(4)
			for i := 0; i < nthr*(3+r.Intn(5)); i++ {
				t := r.Intn(nthr)
				thr := fmt.Sprintf("t%d", t)
				if r.Intn(2) == 0 {
					hint := 0
					if r.Intn(5) == 0 {
						hint = -1
					}
					wsop(cs, thr, []string{"k0", fmt.Sprintf("k9%d", t), fmt.Sprintf("o%d", t)}[r.Intn(3)], "C14Both", hint)
				} else {
					restop(cs, thr, fmt.Sprintf("%s%d", []string{"k", "o"}[t%2], t), "C14Both")
				}
			}
			emit(cs)
		}

		// sequences on one kept websocket connection
		cs := &h.Case{Class: "seq-ws"}
		cl := []string{"k1", "o1"}[r.Intn(2)]
		for i, m := 0, 4+r.Intn(14); i < m; i++ {
			wsop(cs, "t1", cl, g.wsPath(), -1)
			if r.Intn(6) == 0 {
				cstate(cs, cl)
			}
		}
		cstate(cs, cl)
		emit(cs)

		// sequences of REST requests to one handler over one kept connection, later ones omit fields
		cs = &h.Case{Class: "seq-rest"}
		res := []string{"C14Post", "C14Put", ""}[r.Intn(3)]
		cl = []string{"k1", "o1"}[r.Intn(2)]
		for i, m := 0, 4+r.Intn(14); i < m; i++ {
			restop(cs, "t1", cl, res)
		}
		emit(cs)

		// pipelined raw connections: answers in order, nothing behind the first error
		cs = &h.Case{Class: "pipelined"}
		for t := 0; t < 1+r.Intn(3); t++ {
			path := g.wsPath()
			bad := r.Intn(3) == 0
			for i, m := 0, 2+r.Intn(8); i < m; i++ {
				hint := 0
				if bad {
					hint = -1
				}
				wsop(cs, fmt.Sprintf("t%d", t), fmt.Sprintf("r%d", t), path, hint)
			}
		}
		emit(cs)

		// concurrent clients of all kinds
		cs = &h.Case{Class: "concurrent"}
		nthr := 2 + r.Intn(7)
		for i := 0; i < nthr*(3+r.Intn(8)); i++ {
			t := r.Intn(nthr)
			thr := fmt.Sprintf("t%d", t)
			// clients are shared between threads (k0,k1) or private
			cl := []string{"k0", "k1", fmt.Sprintf("k9%d", t), fmt.Sprintf("o%d", t)}[r.Intn(4)]
			if r.Intn(2) == 0 {
				wsop(cs, thr, cl, g.wsPath(), -1)
			} else {
				restop(cs, thr, cl, "")
			}
		}
		emit(cs)

		// many threads share one kept client and one path: the client lock pairs replies with requests
		cs = &h.Case{Class: "shared-client"}
		nthr = 3 + r.Intn(6)
		for i := 0; i < nthr*(3+r.Intn(5)); i++ {
			hint := 0
			if r.Intn(6) == 0 {
				hint = -1
			}
			wsop(cs, fmt.Sprintf("t%d", r.Intn(nthr)), "k0", "C14Echo", hint)
		}
		emit(cs)

		// several threads on the same REST handler, each with its own values
		cs = &h.Case{Class: "rest-same-handler"}
		res = []string{"C14Post", "C14Put", "C14Int", "C14Bytes"}[r.Intn(4)]
		nthr = 2 + r.Intn(6)
		for i := 0; i < nthr*(4+r.Intn(8)); i++ {
			t := r.Intn(nthr)
			restop(cs, fmt.Sprintf("t%d", t), fmt.Sprintf("%s%d", []string{"k", "o"}[t%2], t), res)
		}
		emit(cs)

		// requests with an optional field of interface type: present, then absent (the decoder
		// does not reset such a field, so the object it decodes into must be fresh); different
		// clients and connections; with one P and with all of them
		cs = &h.Case{Class: "interface-field"}
		if r.Intn(3) != 0 {
			cs.Ops = append(cs.Ops, "c14 procs 1")
		}
		for i, m := 0, 4+r.Intn(10); i < m; i++ {
			req := &C14Key{A: g.int(true)}
			kind := "no-key"
			if i%2 == 0 || r.Intn(4) == 0 {
				req.P = fix.Suite.Point().Pick(fix.Suite.XOF([]byte(fmt.Sprint("c14", g.int(false)))))
				kind = "key"
			}
			buf, err := protobuf.Encode(req)
			if err != nil {
				panic(err)
			}
			c.Count("ws:interface-field:" + kind)
			cl := []string{"oalice", "obob", "kcarol", "kdave"}[r.Intn(4)]
			c.Count("client:" + cl[:1])
			cs.Ops = append(cs.Ops, fmt.Sprintf("c14 ws t1 %s C14Key %s", cl, h.Hex(buf)))
		}
		cstate(cs, "oalice", "kcarol")
		emit(cs)

		// a handler that retains a []byte field of its argument: later requests on the same kept
		// connection must not change what it holds
		cs = &h.Case{Class: "retained-bytes"}
		cl = []string{"k1", "k1", "o1"}[r.Intn(3)]
		for i, m := 0, 4+r.Intn(10); i < m; i++ {
			b := make([]byte, 3+r.Intn(6))
			r.Read(b)
			buf, err := protobuf.Encode(&C14Keep{A: g.int(true), S: g.okstr(), B: b})
			if err != nil {
				panic(err)
			}
			c.Count("ws:retained-bytes")
			c.Count("client:" + cl[:1])
			cs.Ops = append(cs.Ops, fmt.Sprintf("c14 ws t1 %s C14Keep %s", cl, h.Hex(buf)))
		}
		cstate(cs, cl)
		emit(cs)

		if it%8 == 0 {
			// one request sent to several servers at once: the reply handed back is the one of
			// the node handed back, also when replies overlap; several threads, shared clients
			cs = &h.Case{Class: "parallel-send"}
			nthr = 1 + r.Intn(3)
			for i := 0; i < nthr*(1+r.Intn(3)); i++ {
				cl := []string{"o0", "k0", fmt.Sprintf("o%d", 1+r.Intn(3))}[r.Intn(3)]
				mode := []string{"overlap", "overlap", "plain", "ordered", "quit", "down1", "down2", "downall", "downquit", "quiterr", "quiterr", "quiterr"}[r.Intn(12)]
				c.Count("par:" + mode)
				nn := 3 + r.Intn(3)
				cs.Ops = append(cs.Ops, fmt.Sprintf("c14 par t%d %s %d %d %s", r.Intn(nthr), cl, nn, 100+g.int(false)%1000000, mode))
			}
			emit(cs)
		}

		if it%4 == 0 {
			// every way into the client, several threads
			cs = &h.Case{Class: "client-kinds"}
			g.narrow = true
			nthr = 1 + r.Intn(4)
			for i := 0; i < nthr*(3+r.Intn(5)); i++ {
				t := r.Intn(nthr)
				thr := fmt.Sprintf("t%d", t)
				cl := []string{"p0", "p0", fmt.Sprintf("p%d", 1+t), "u0", fmt.Sprintf("u%d", 1+t), "x0"}[r.Intn(6)]
				path := []string{"C14Echo", "C14Echo", "C14Swap", "C14Both", g.wsPath()}[r.Intn(5)]
				hint := 0
				if r.Intn(4) == 0 {
					hint = -1
				}
				wsop(cs, thr, cl, path, hint)
			}
			g.narrow = false
			emit(cs)
		}
		if it%10 == 3 {
			cs = &h.Case{Class: "registration"}
			for i, m := 0, 3+r.Intn(8); i < m; i++ {
				api := "ws"
				if r.Intn(3) != 0 {
					api = fmt.Sprintf("rest:%s:%d:%d", []string{"GET", "GET", "POST", "PUT", "DELETE", "get"}[r.Intn(6)], 2+r.Intn(3), 2+r.Intn(4))
				}
				c.Count("reg:" + strings.Split(api, ":")[0])
				cs.Ops = append(cs.Ops, "c14 reg "+api+" "+c14sigNames[r.Intn(len(c14sigNames))])
			}
			// the requests of the case's end (canaries) show that the attempts left the service alone
			emit(cs)
		}
		if it%10 == 5 {
			// ProcessClientRequest without a websocket in between
			cs = &h.Case{Class: "direct"}
			for i, m := 0, 3+r.Intn(8); i < m; i++ {
				buf, kind := g.wsBuf(-1)
				c.Count("direct:" + kind)
				cs.Ops = append(cs.Ops, fmt.Sprintf("c14 direct %s %s", g.wsPath(), buf))
			}
			emit(cs)
		}
		if it%40 == 5 {
			// many connections open at the same time, then ordinary traffic
			cs = &h.Case{Class: "many-connections"}
			nn := []int{130, 150, 200, 257, 400, 520}[r.Intn(6)]
			c.Count(fmt.Sprintf("crowd<=%d", (nn/200+1)*200))
			buf, _ := g.wsBuf(0)
			cs.Ops = append(cs.Ops, fmt.Sprintf("c14 crowd %d %s", nn, buf))
			for i, m := 0, 2+r.Intn(4); i < m; i++ {
				b2, _ := g.wsBuf(0)
				cs.Ops = append(cs.Ops, fmt.Sprintf("c14 ws t%d %s %s %s", r.Intn(2), []string{"k0", "o0", "k1", "o1"}[r.Intn(4)], []string{"C14Echo", "C14Swap"}[r.Intn(2)], b2))
			}
			emit(cs)
		}
		if it%10 == 0 {
			// one request to several servers in turn
			cs = &h.Case{Class: "send-to-all"}
			for i, m := 0, 1+r.Intn(4); i < m; i++ {
				hint := 0
				if r.Intn(3) == 0 {
					hint = -1
				}
				buf, kind := g.wsBuf(hint)
				c.Count("all:" + kind)
				cs.Ops = append(cs.Ops, fmt.Sprintf("c14 all t%d %s %d %s %s", r.Intn(2), []string{"k0", "o0", "k1"}[r.Intn(3)], 2+r.Intn(3),
					[]string{"C14Echo", "C14Swap", "C14Both", g.wsPath()}[r.Intn(4)], buf))
				// … and a roster with unreachable nodes at random places: replies by position
				nn := 2 + r.Intn(3)
				pat, ups := "", 0
				for len(pat) < nn+2 && (ups < nn || r.Intn(2) == 0) {
					if ups < nn && r.Intn(3) != 0 {
						pat += []string{"u", "l"}[r.Intn(2)]
						ups++
					} else {
						pat += "d"
					}
				}
				c.Count(fmt.Sprintf("allwho:downs=%d", strings.Count(pat, "d")))
				cs.Ops = append(cs.Ops, fmt.Sprintf("c14 allwho t%d %s %d %d %s", r.Intn(2), []string{"k0", "o0", "k1"}[r.Intn(3)], nn,
					100+g.int(false)%1000000, pat))
			}
			emit(cs)
		}

		if it%12 == 0 {
			// a reply that takes longer than the client waits: an error for that request, the
			// next requests of the same kept client are served
			cs = &h.Case{Class: "reply-too-late"}
			enc := func(s string) string {
				buf, _ := protobuf.Encode(&C14Echo{A: g.int(true), S: s, B: g.bytes()})
				return h.Hex(buf)
			}
			path := []string{"C14Echo", "C14Swap"}[r.Intn(2)]
			for i, m := 0, 1+r.Intn(3); i < m; i++ {
				cs.Ops = append(cs.Ops, "c14 ws t1 q1 "+path+" "+enc(g.okstr()))
			}
			cs.Ops = append(cs.Ops, "c14 ws t1 q1 "+path+" "+enc("slow"))
			c.Count("ws:slow")
			for i, m := 0, 2+r.Intn(3); i < m; i++ {
				cs.Ops = append(cs.Ops, "c14 ws t1 q1 "+path+" "+enc(g.okstr()))
			}
			cstate(cs, "q1")
			emit(cs)
		}

		// many threads share one single-use client and one path: every Send closes the
		// connection, the next one dials again; the per-destination lock must survive that
		cs = &h.Case{Class: "shared-single-use-client"}
		nthr = 3 + r.Intn(6)
		for i := 0; i < nthr*(4+r.Intn(6)); i++ {
			hint := 0
			if r.Intn(8) == 0 {
				hint = -1
			}
			wsop(cs, fmt.Sprintf("t%d", r.Intn(nthr)), "o0", "C14Echo", hint)
		}
		cstate(cs, "o0") // whatever the interleaving: no connection left, one lock object
		emit(cs)

		if it%3 == 0 {
			// mostly malformed
			cs = &h.Case{Class: "malformed"}
			for i, m := 0, 6+r.Intn(10); i < m; i++ {
				if r.Intn(2) == 0 {
					wsop(cs, "t1", []string{"k1", "o1"}[r.Intn(2)], g.wsPath(), 13+r.Intn(7))
				} else {
					restop(cs, "t2", "k1", "")
				}
			}
			emit(cs)
		}
	}
}

func init() {
	h.RegisterProp(h.Prop{Name: "c14", Gen: c14genCases, Exec: c14exec, Isolate: true, Workers: 6, Timeout: 150 * time.Second})
}
