package main

import (
	"fmt"
	"strconv"
	"strings"
	"sync"
	"time"

	"go.dedis.ch/onet/v3"
	"go.dedis.ch/onet/v3/network"
	"onetverif/harness/fix"
)

// C02 over real connections: a member (or an outsider) of the cluster sends a
// crafted protocol message through its own router to the receiving server, so
// that the peer identity is what the receiver's Router.handleConn stamps on
// the envelope and what Overlay.Process copies — not something the harness
// sets. A marker message sent behind it on the same connection tells when the
// receiver's router has dispatched it.

type c02Marker struct{ N int }

var (
	c02markerType = network.RegisterMessage(&c02Marker{})
	c02markMu     sync.Mutex
	c02markCh     = map[int]chan int{} // receiving server -> markers seen
	c02markN      int
)

func c02markerChan(f *c04fixture, srv int) chan int {
	c02markMu.Lock()
	defer c02markMu.Unlock()
	if ch, ok := c02markCh[srv]; ok {
		return ch
	}
	ch := make(chan int, 1000)
	c02markCh[srv] = ch
	f.cl.Servers[srv].RegisterProcessorFunc(c02markerType, func(env *network.Envelope) error {
		if m, ok := env.Msg.(*c02Marker); ok {
			ch <- m.N
		}
		return nil
	})
	return ch
}

// c02sendReal makes server `from` send pm to server `to` through the routers and waits until the
// receiving router has dispatched it (the marker behind it on the same connection was processed).
func c02sendReal(f *c04fixture, from, to int, pm *onet.ProtocolMsg, pre ...network.Message) error {
	ch := c02markerChan(f, to)
	c02markMu.Lock()
	c02markN++
	n := c02markN
	c02markMu.Unlock()
	msgs := append(append([]network.Message{}, pre...), pm, &c02Marker{n})
	if _, err := f.cl.Servers[from].Send(f.cl.SI(to), msgs...); err != nil {
		return err
	}
	dl := time.After(10 * time.Second)
	for {
		select {
		case got := <-ch:
			if got == n {
				return nil
			}
		case <-dl:
			return fmt.Errorf("marker %d not seen", n)
		}
	}
}

// c02storeTree builds (once) the tree a `store` op describes — first node the root, the others its children —
// and stores it on the servers that host the receiving nodes of the harness trees (0 and 1).
func c02storeTree(f *c04fixture, nodes string) error {
	key := "store:" + nodes
	if _, ok := f.trees[key]; ok {
		return nil
	}
	var member, parent []int
	for i, p := range strings.Split(nodes, ",") {
		ab := strings.Split(p, ":")
		if len(ab) != 2 {
			return fmt.Errorf("bad node %q", p)
		}
		srv, err := strconv.Atoi(ab[1])
		if err != nil || srv >= len(f.cl.Roster.List) {
			return fmt.Errorf("bad server in %q", p)
		}
		member = append(member, srv)
		if i == 0 {
			parent = append(parent, -1)
		} else {
			parent = append(parent, 0)
		}
	}
	t, ns := fix.BuildTree(f.cl.Roster, parent, member)
	f.cl.Overlay(0).RegisterTree(t)
	f.cl.Overlay(1).RegisterTree(t)
	f.trees[key] = c04tree{t, ns[0], member[0]}
	return nil
}

// c02repeated builds (once) the shape of tree(root, k) in which the last child is hosted by the server of
// node `dup` (the first child, or — dup 0 on an inner receiver — the receiver's parent): two nodes of the
// tree have the same node id (ids derive from the server's key).
func c02repeated(f *c04fixture, root bool, k int, dup int) c04tree {
	key := fmt.Sprint("rep", root, k, dup)
	if t, ok := f.trees[key]; ok {
		return t
	}
	parent := []int{-1}
	member := []int{0}
	first := 1
	if !root {
		parent = append(parent, 0)
		member = append(member, 1)
		first = 2
	}
	for i := 0; i < k-1; i++ {
		parent = append(parent, first-1)
		member = append(member, first+i)
	}
	parent = append(parent, first-1)
	member = append(member, dup)
	t, nodes := fix.BuildTree(f.roster(k+2), parent, member)
	ct := c04tree{t, nodes[first-1], first - 1}
	f.cl.Overlay(ct.srv).RegisterTree(ct.t)
	f.trees[key] = ct
	return ct
}
