package main

import (
	"fmt"
	"net"
	"os"
	"sort"
	"strconv"
	"strings"
	"sync"
	"sync/atomic"
	"time"

	"github.com/google/uuid"
	"go.dedis.ch/kyber/v3/util/key"
	"go.dedis.ch/onet/v3"
	"go.dedis.ch/onet/v3/log"
	"go.dedis.ch/onet/v3/network"
	"onetverif/harness/fix"
	"onetverif/harness/h"
)

// C09: peer failures. One case = one small real cluster in its own sub-process: two onet servers
// (the survivor S and a second survivor S2, peer number 0, used for canary traffic) and victims
// 1..n, which are bare routers with a fixed identity and address that are stopped and started
// again. Operations (see lean/OnetVerif/Model/C09.lean, Drv.step):
//
//   open <tcp|local> <peers up>   fresh cluster on that transport; the listed victims listen
//   handler <h>                   S registers connection-error handler number h
//   send <entry> <dests> <n>      the send entry point towards these peers (n messages per
//                                 Router.Send; n > 1 only for entry "router"); entries: router, raw
//                                 (Context.SendRaw), sendto, parent, children, parallel, multicast,
//                                 broadcast
//   par <entry> <deads> <healthy> one send per dead peer (all at once, through that entry point) and,
//                                 100 ms later, a router send to a healthy peer S has no connection with
//   down <p>                      the victim stops; waits until S's receive loops reported it
//   freeze <p>                    class silent-tcp: the victim goes silent without closing anything (its
//                                 address stops answering, S's connection stays open); the connection
//                                 time-out is scaled down to 1.5 s for these cases (hook VerifSetReadTimeout)
//   pause                         S's receive loops stop reporting failures (Router.Pause)
//   kill <p>                      the victim stops, nobody waits for S to notice
//   up <p>                        the victim listens again (same identity, same address)
//   conns <p>                     number of connections with p in S's connection table
//
// not modelled (classes "cut" and "orphan", compared with nothing, oracle only):
//   orphan <x> <k>                S handles the first message of a run over a tree it does not know, sent
//                                 by peer x which is dead by now, while k canary messages of another run
//                                 (S2 -> S) arrive
//   cut <p> <k>                   the next connection towards victim p is cut after k bytes
//   settle

// C09Msg is the payload of router-level and raw sends.
type C09Msg struct{ V int64 }

var c09MsgType network.MessageTypeID

type c09Service struct {
	*onet.ServiceProcessor
	ctx *onet.Context
}

func (s *c09Service) NewProtocol(tn *onet.TreeNodeInstance, conf *onet.GenericConfig) (onet.ProtocolInstance, error) {
	return nil, nil
}

var c09RegisterOnce sync.Once

func c09Register() {
	c09RegisterOnce.Do(func() {
		c09MsgType = network.RegisterMessage(&C09Msg{})
		_, err := onet.RegisterNewService("VerifC09", func(c *onet.Context) (onet.Service, error) {
			return &c09Service{ServiceProcessor: onet.NewServiceProcessor(c), ctx: c}, nil
		})
		if err != nil {
			log.Fatal(err)
		}
	})
}

type c09victim struct {
	n      int
	kp     *key.Pair
	sid    *network.ServerIdentity // what S uses to reach it (the proxy's address on TCP)
	own    *network.ServerIdentity // what the victim's router listens on
	r      *network.Router
	up     bool
	got    int64 // messages that reached a live incarnation
	proxy  *c09proxy
	silent *c09silent
	frozen bool
	// does S hold a registered connection with this incarnation (harness bookkeeping for waits)
	connected bool
}

// c09proxy sits between S and a TCP victim; it can cut the next connection after k bytes.
type c09proxy struct {
	ln     net.Listener
	target string
	cut    int64 // < 0: pass everything
	fired  int32 // the armed cut has happened
}

func (p *c09proxy) serve() {
	for {
		c, err := p.ln.Accept()
		if err != nil {
			return
		}
		go func(c net.Conn) {
			s, err := net.DialTimeout("tcp", p.target, time.Second)
			if err != nil {
				c.Close()
				return
			}
			budget := atomic.SwapInt64(&p.cut, -1)
			done := make(chan bool, 2)
			go func() {
				buf := make([]byte, 4096)
				for {
					n, err := c.Read(buf)
					if n > 0 {
						if budget >= 0 && int64(n) >= budget {
							s.Write(buf[:budget])
							atomic.StoreInt32(&p.fired, 1)
							break
						}
						if budget >= 0 {
							budget -= int64(n)
						}
						if _, werr := s.Write(buf[:n]); werr != nil {
							break
						}
					}
					if err != nil {
						break
					}
				}
				done <- true
			}()
			go func() {
				buf := make([]byte, 4096)
				for {
					n, err := s.Read(buf)
					if n > 0 {
						if _, werr := c.Write(buf[:n]); werr != nil {
							break
						}
					}
					if err != nil {
						break
					}
				}
				done <- true
			}()
			<-done
			c.Close()
			s.Close()
		}(c)
	}
}

// c09silent is the network between S and a TCP victim in class "silent": it forwards until it is
// frozen; then nothing listens at the victim's address any more, the victim's side of every
// connection is closed, and S's side stays open and silent — a peer that lost power or was cut off.
type c09silent struct {
	addr, target string
	mu           sync.Mutex
	ln           net.Listener
	frozen       bool
	held         []net.Conn
}

func (p *c09silent) listen() error {
	var err error
	for i := 0; i < 100; i++ {
		var ln net.Listener
		if ln, err = net.Listen("tcp", p.addr); err == nil {
			p.mu.Lock()
			p.ln, p.frozen = ln, false
			p.mu.Unlock()
			go p.serve(ln)
			return nil
		}
		time.Sleep(20 * time.Millisecond)
	}
	return err
}

func (p *c09silent) serve(ln net.Listener) {
	for {
		c, err := ln.Accept()
		if err != nil {
			return
		}
		s, err := net.DialTimeout("tcp", p.target, time.Second)
		if err != nil {
			c.Close()
			continue
		}
		p.mu.Lock()
		p.held = append(p.held, c, s)
		p.mu.Unlock()
		go func() { // S -> victim; when frozen, swallow
			buf := make([]byte, 4096)
			for {
				n, err := c.Read(buf)
				if n > 0 {
					s.Write(buf[:n])
				}
				if err != nil {
					break
				}
			}
			c.Close()
			s.Close()
		}()
		go func() { // victim -> S
			buf := make([]byte, 4096)
			for {
				n, err := s.Read(buf)
				if n > 0 {
					c.Write(buf[:n])
				}
				if err != nil {
					break
				}
			}
			p.mu.Lock()
			fr := p.frozen
			p.mu.Unlock()
			if !fr {
				c.Close()
			}
			s.Close()
		}()
	}
}

func (p *c09silent) freeze() {
	p.mu.Lock()
	p.frozen = true
	if p.ln != nil {
		p.ln.Close()
	}
	held := p.held
	p.mu.Unlock()
	for i := 1; i < len(held); i += 2 {
		held[i].Close() // the victim's side
	}
}

func (p *c09silent) closeAll() {
	p.mu.Lock()
	if p.ln != nil {
		p.ln.Close()
	}
	held := p.held
	p.held = nil
	p.mu.Unlock()
	for _, c := range held {
		c.Close()
	}
}

type c09world struct {
	vmu         sync.Mutex // guards victims
	silentClass bool
	oldTimeout  time.Duration
	paused      bool
	useProxy    bool
	cutArmed    bool
	// protocol instances created for sends (on S and, through tree propagation, on S2); they are
	// marked done before the cluster is closed
	tnis     []*onet.TreeNodeInstance
	s2toks   []*onet.Token
	cs       *h.Case
	c        *h.Ctx
	tcp      bool
	lt       *onet.LocalTest
	s, s2    *onet.Server
	svc      *c09Service
	victims  map[int]*c09victim
	handlers []int
	mu       sync.Mutex
	calls    []string
	seq      int64
	tags     map[string]bool
	s2conn   bool
}

func (w *c09world) tag(s string) { w.tags[s] = true }

func (w *c09world) victim(n int) *c09victim {
	w.vmu.Lock()
	defer w.vmu.Unlock()
	if v, ok := w.victims[n]; ok {
		return v
	}
	v := &c09victim{n: n, kp: key.NewKeyPair(fix.Suite)}
	w.victims[n] = v
	return v
}

// start brings the victim's router up on its fixed address.
func (w *c09world) start(v *c09victim) error {
	var r *network.Router
	if w.tcp {
		if v.own == nil {
			v.own = network.NewServerIdentity(v.kp.Public, network.NewTCPAddress("127.0.0.1:"+strconv.Itoa(c09port(v.n))))
			v.sid = v.own
		}
		own := network.NewServerIdentity(v.kp.Public, v.own.Address)
		var hst *network.TCPHost
		var err error
		for i := 0; i < 100; i++ {
			if hst, err = network.NewTCPHost(own, fix.Suite); err == nil {
				break
			}
			time.Sleep(20 * time.Millisecond)
		}
		if err != nil {
			return err
		}
		r = network.NewRouter(own, hst)
		if w.silentClass && v.silent == nil {
			v.silent = &c09silent{addr: "127.0.0.1:" + strconv.Itoa(c09port(v.n)+8), target: "127.0.0.1:" + own.Address.Port()}
			if err := v.silent.listen(); err != nil {
				return err
			}
			v.sid = network.NewServerIdentity(v.kp.Public, network.NewTCPAddress(v.silent.addr))
		}
		if w.useProxy && v.proxy == nil {
			ln, err := net.Listen("tcp", "127.0.0.1:0")
			if err != nil {
				return err
			}
			v.proxy = &c09proxy{ln: ln, target: "127.0.0.1:" + own.Address.Port(), cut: -1}
			go v.proxy.serve()
			v.sid = network.NewServerIdentity(v.kp.Public, network.NewTCPAddress(ln.Addr().String()))
		}
	} else {
		if v.own == nil {
			v.own = network.NewServerIdentity(v.kp.Public, network.NewLocalAddress("127.0.0.1:"+strconv.Itoa(31000+v.n)))
			v.sid = v.own
		}
		var err error
		if r, err = network.NewLocalRouterWithManager(w.lt.VerifLocalManager(), v.own, fix.Suite); err != nil {
			return err
		}
	}
	r.UnauthOk, r.Quiet = true, true
	count := func(*network.Envelope) error { atomic.AddInt64(&v.got, 1); return nil }
	r.RegisterProcessorFunc(c09MsgType, count)
	r.RegisterProcessorFunc(onet.ProtocolMsgID, count)
	r.RegisterProcessorFunc(onet.ConfigMsgID, func(*network.Envelope) error { return nil })
	go r.Start()
	for i := 0; i < 3000 && !r.Listening(); i++ {
		time.Sleep(time.Millisecond)
	}
	v.r, v.up, v.connected = r, true, false
	return nil
}

func (w *c09world) stop(v *c09victim) {
	if !v.up {
		return
	}
	v.up = false
	done := make(chan bool)
	go func() { v.r.Stop(); close(done) }()
	select {
	case <-done:
	case <-time.After(3 * time.Second):
		w.cs.Fail("harness", "a victim router did not stop within 3 s")
	}
}

func (w *c09world) open(tr string, ups []int) string {
	c09Register()
	fix.Prepare = func(r *fix.Rec) {
		r.OnEnter = func(d fix.Delivery) {
			if d.Ty == 3 {
				atomic.AddInt64(&c09canary, 1)
			}
		}
	}
	w.tcp = tr == "tcp"
	if w.tcp {
		w.lt = onet.NewTCPTest(fix.Suite)
	} else {
		w.lt = onet.NewLocalTest(fix.Suite)
	}
	w.lt.Check = onet.CheckNone
	srv := w.lt.GenServers(2)
	w.s, w.s2 = srv[0], srv[1]
	w.svc, _ = w.s.Service("VerifC09").(*c09Service)
	if w.svc == nil {
		w.cs.Fail("harness", "the harness service is missing on the survivor")
		return "harness-error"
	}
	for _, n := range ups {
		if n == 0 {
			continue
		}
		if err := w.start(w.victim(n)); err != nil {
			w.cs.Fail("harness", err.Error())
			return "harness-error"
		}
	}
	return "ok"
}

func (w *c09world) close() {
	if w.paused {
		w.s.Unpause()
	}
	for _, t := range w.tnis {
		t.Done()
	}
	for _, tok := range w.s2toks {
		if rec := fix.RecOf(tok); rec != nil {
			rec.Tni.Done()
		}
	}
	for _, v := range w.victims {
		w.stop(v)
		if v.proxy != nil {
			v.proxy.ln.Close()
		}
		if v.silent != nil {
			v.silent.closeAll()
		}
	}
	if w.oldTimeout != 0 {
		network.VerifSetReadTimeout(w.oldTimeout)
	}
	if w.lt != nil {
		w.lt.CloseAll()
	}
}

// identity of peer n as S addresses it; a victim that never ran gets an address nothing listens on
func (w *c09world) sid(n int) *network.ServerIdentity {
	if n == 0 {
		return w.s2.ServerIdentity
	}
	v := w.victim(n)
	if v.sid == nil {
		if w.tcp {
			v.own = network.NewServerIdentity(v.kp.Public, network.NewTCPAddress("127.0.0.1:"+strconv.Itoa(c09port(v.n))))
			v.sid = v.own
		} else {
			v.own = network.NewServerIdentity(v.kp.Public, network.NewLocalAddress("127.0.0.1:"+strconv.Itoa(31000+v.n)))
			v.sid = v.own
		}
	}
	return v.sid
}

func (w *c09world) isUp(n int) bool {
	if n == 0 {
		return true
	}
	return w.victim(n).up && !w.victim(n).frozen
}

// tni builds a tree around S for one entry point and returns S's tree node instance together with
// the tree nodes of the destinations, in the order of dests. For "parent" the destination is the
// root and S hangs below it; for every other entry S is the root of a real protocol instance and
// the destinations are its children.
func (w *c09world) tni(entry string, dests []int) (*onet.TreeNodeInstance, []*onet.TreeNode, error) {
	ids := []*network.ServerIdentity{w.s.ServerIdentity}
	for _, d := range dests {
		ids = append(ids, w.sid(d))
	}
	ro := onet.NewRoster(ids)
	ov := w.lt.Overlays[w.s.ServerIdentity.ID]
	if entry == "parent" {
		if len(dests) == 0 {
			t, nodes := fix.BuildTree(ro, []int{-1}, []int{0})
			w.lt.Trees[t.ID] = t
			ov.RegisterTree(t)
			tni, err := w.lt.NewTreeNodeInstance(nodes[0], fix.ProtoName)
			return tni, nil, err
		}
		t, nodes := fix.BuildTree(ro, []int{-1, 0}, []int{1, 0})
		w.lt.Trees[t.ID] = t
		ov.RegisterTree(t)
		tni, err := w.lt.NewTreeNodeInstance(nodes[1], fix.ProtoName)
		return tni, nodes[:1], err
	}
	parent, member := []int{-1}, []int{0}
	for i := range dests {
		parent = append(parent, 0)
		member = append(member, i+1)
	}
	t, nodes := fix.BuildTree(ro, parent, member)
	pi, err := ov.CreateProtocol(fix.ProtoName, t, onet.NilServiceID)
	if err != nil {
		return nil, nil, err
	}
	tk, ok := pi.(interface{ Token() *onet.Token })
	if !ok {
		return nil, nil, fmt.Errorf("the recording protocol instance has no token")
	}
	rec := fix.RecOf(tk.Token())
	if rec == nil {
		return nil, nil, fmt.Errorf("no recorder for the root instance")
	}
	w.tnis = append(w.tnis, rec.Tni)
	for i, d := range dests {
		if d == 0 {
			w.s2toks = append(w.s2toks, tk.Token().ChangeTreeNodeID(nodes[i+1].ID))
		}
	}
	return rec.Tni, nodes[1:], nil
}

func (w *c09world) send(entry string, dests []int, n int) string {
	if n < 1 || (n > 1 && entry != "router") {
		return "bad-op"
	}
	before := map[int]int64{}
	for _, d := range dests {
		if d != 0 {
			before[d] = atomic.LoadInt64(&w.victim(d).got)
		}
	}
	s2before := w.canaryCount()
	atomic.AddInt64(&w.seq, 1)
	msg := func() interface{} { return &C09Msg{V: w.seq} }
	errs := 0
	t0 := time.Now()
	switch entry {
	case "router":
		if len(dests) != 1 {
			return "bad-op"
		}
		var ms []network.Message
		for i := 0; i < n; i++ {
			ms = append(ms, msg())
		}
		if dests[0] == 0 {
			return "bad-op"
		}
		if _, err := w.s.Send(w.sid(dests[0]), ms...); err != nil {
			errs = 1
		}
	case "raw":
		if len(dests) != 1 || dests[0] == 0 {
			return "bad-op"
		}
		if err := w.svc.ctx.SendRaw(w.sid(dests[0]), msg()); err != nil {
			errs = 1
		}
	case "sendto", "parent", "children", "parallel", "multicast", "broadcast":
		if (entry == "sendto" && len(dests) != 1) || (entry == "parent" && len(dests) > 1) {
			return "bad-op"
		}
		tni, nodes, err := w.tni(entry, dests)
		if err != nil {
			w.cs.Fail("harness", err.Error())
			return "harness-error"
		}
		m := &fix.M3{V: int(w.seq)}
		switch entry {
		case "sendto":
			if tni.SendTo(nodes[0], m) != nil {
				errs = 1
			}
		case "parent":
			if tni.SendToParent(m) != nil {
				errs = 1
			}
		case "children":
			if tni.SendToChildren(m) != nil {
				errs = 1
			}
		case "parallel":
			errs = len(tni.SendToChildrenInParallel(m))
		case "multicast":
			errs = len(tni.Multicast(m, nodes...))
		case "broadcast":
			errs = len(tni.Broadcast(m))
		}
	default:
		return "bad-op"
	}
	lat := time.Since(t0)
	// what the property promises: every destination that listens gets the message(s), every
	// destination where nothing listens costs an error; sequential sends stop at the first error
	wantDel := map[int]int64{}
	wantErrs := 0
	for _, d := range dests {
		if w.isUp(d) {
			wantDel[d] = int64(n)
		} else {
			wantErrs++
			if entry == "children" {
				break
			}
		}
	}
	if entry == "children" && wantErrs > 1 {
		wantErrs = 1
	}
	waitFor := 3 * time.Second
	if w.cutArmed {
		waitFor = 200 * time.Millisecond
	}
	deadline := time.After(waitFor)
	reached := func() (int64, bool) {
		var tot int64
		all := true
		for _, d := range dests {
			var got int64
			if d == 0 {
				got = w.canaryCount() - s2before
			} else {
				got = atomic.LoadInt64(&w.victim(d).got) - before[d]
			}
			tot += got
			if got < wantDel[d] {
				all = false
			}
		}
		return tot, all
	}
wait:
	for {
		if _, all := reached(); all {
			break
		}
		select {
		case <-deadline:
			break wait
		case <-time.After(500 * time.Microsecond):
		}
	}
	time.Sleep(2 * time.Millisecond)
	tot, all := reached()
	for _, d := range dests {
		if d != 0 && w.isUp(d) && atomic.LoadInt64(&w.victim(d).got) > before[d] {
			w.victim(d).connected = true
		}
	}
	res := "ok"
	if errs > 0 {
		res = fmt.Sprintf("err:%d", errs)
	}
	if w.cutArmed {
		// a cut is armed on the connection this send uses: any answer is fine as long as it
		// comes in time; once the cut has happened the following sends are judged normally
		for _, v := range w.victims {
			if v.proxy != nil && atomic.LoadInt32(&v.proxy.fired) == 1 {
				w.cutArmed = false
			}
		}
		if lat > 12*time.Second {
			w.cs.Fail("send-too-slow", fmt.Sprintf("entry %s towards %v over a cut connection returned after %v", entry, dests, lat))
		}
		w.tag("send-over-cut:" + strings.SplitN(res, ":", 2)[0])
		return fmt.Sprintf("%s delivered=%d", res, tot)
	}
	if errs < wantErrs {
		sig := "error-not-reported"
		if entry == "raw" {
			sig = "sendraw-error-dropped"
		}
		w.cs.Fail(sig, fmt.Sprintf("entry %s towards %v (nothing listens at %d of them): %d errors reported", entry, dests, wantErrs, errs))
	} else if errs > wantErrs {
		w.cs.Fail("spurious-error", fmt.Sprintf("entry %s towards %v: %d errors, %d destinations are down", entry, dests, errs, wantErrs))
	}
	if !all {
		w.cs.Fail("not-delivered", fmt.Sprintf("entry %s towards %v: a listening destination did not get its message(s) within 3 s (total delivered %d)", entry, dests, tot))
	}
	bound := 12 * time.Second
	if lat > bound {
		w.cs.Fail("send-too-slow", fmt.Sprintf("entry %s towards %v returned after %v", entry, dests, lat))
	}
	if wantErrs > 0 {
		// measured and reported (it ends up in the outcome key of the case), never compared
		w.tag("dead-peer-send-latency" + c09latency(lat))
	}
	w.tag(fmt.Sprintf("send:%s:%s:down=%d", entry, strings.SplitN(res, ":", 2)[0], c03bucketN(wantErrs)))
	return fmt.Sprintf("%s delivered=%d", res, tot)
}

// c09port gives victim n of this process a fixed TCP port outside the ephemeral range, so that a
// stopped victim's address stays silent (nobody else binds it) and a restart can bind it again.
func c09port(n int) int {
	return 10000 + (os.Getpid()%1200)*16 + n
}

// sendOne performs one single-destination entry point towards peer d and tells whether it
// reported an error.
func (w *c09world) sendOne(entry string, d int) (bool, error) {
	switch entry {
	case "router":
		_, err := w.s.Send(w.sid(d), &C09Msg{V: atomic.AddInt64(&w.seq, 1)})
		return err != nil, nil
	case "raw":
		return w.svc.ctx.SendRaw(w.sid(d), &C09Msg{V: atomic.AddInt64(&w.seq, 1)}) != nil, nil
	case "sendto":
		tni, nodes, err := w.tni("sendto", []int{d})
		if err != nil {
			return false, err
		}
		return tni.SendTo(nodes[0], &fix.M3{V: 1}) != nil, nil
	}
	return false, fmt.Errorf("no such single-destination entry %q", entry)
}

// par: sends towards dead peers are in progress (each keeps dialling for a while) when a send
// to a healthy peer, with which S has no connection yet, is made. The failures must not hold the
// healthy send back: it has to be through before the first of the doomed sends gives up.
func (w *c09world) par(entry string, deads []int, healthy int) string {
	if healthy <= 0 || len(deads) == 0 {
		return "bad-op"
	}
	hv := w.victim(healthy)
	before := atomic.LoadInt64(&hv.got)
	var finished, errs int32
	var wg sync.WaitGroup
	// trees and instances are prepared first: the overlay's bookkeeping is not what is measured
	type job struct{ run func() bool }
	var jobs []job
	for _, d := range deads {
		d := d
		if entry == "sendto" {
			tni, nodes, err := w.tni("sendto", []int{d})
			if err != nil {
				w.cs.Fail("harness", err.Error())
				return "harness-error"
			}
			jobs = append(jobs, job{func() bool { return tni.SendTo(nodes[0], &fix.M3{V: 1}) != nil }})
		} else {
			// identities are resolved here: the victim table is not for concurrent use
			si := w.sid(d)
			if entry == "router" {
				jobs = append(jobs, job{func() bool {
					_, err := w.s.Send(si, &C09Msg{V: atomic.AddInt64(&w.seq, 1)})
					return err != nil
				}})
			} else {
				jobs = append(jobs, job{func() bool {
					return w.svc.ctx.SendRaw(si, &C09Msg{V: atomic.AddInt64(&w.seq, 1)}) != nil
				}})
			}
		}
	}
	t0 := time.Now()
	for _, j := range jobs {
		j := j
		wg.Add(1)
		go func() {
			defer wg.Done()
			if j.run() {
				atomic.AddInt32(&errs, 1)
			}
			atomic.AddInt32(&finished, 1)
		}()
	}
	hsi := w.sid(healthy)
	nDead := 0
	for _, d := range deads {
		if !w.isUp(d) {
			nDead++
		}
	}
	time.Sleep(100 * time.Millisecond)
	_, herr := w.s.Send(hsi, &C09Msg{V: atomic.AddInt64(&w.seq, 1)})
	hlat := time.Since(t0) - 100*time.Millisecond
	doneBefore := atomic.LoadInt32(&finished)
	deadline := time.After(3 * time.Second)
	delivered := int64(0)
	for delivered < 1 {
		delivered = atomic.LoadInt64(&hv.got) - before
		select {
		case <-deadline:
			delivered = atomic.LoadInt64(&hv.got) - before
			goto out
		case <-time.After(500 * time.Microsecond):
		}
	}
out:
	wg.Wait()
	total := time.Since(t0)
	hres := "ok"
	if herr != nil {
		hres = "err:1"
	}
	if w.isUp(healthy) && delivered > 0 {
		hv.connected = true
	}
	if int(errs) < nDead {
		w.cs.Fail("error-not-reported", fmt.Sprintf("%d concurrent %s sends towards dead peers %v: %d errors reported", len(deads), entry, deads, errs))
	}
	if herr != nil || delivered < 1 {
		w.cs.Fail("not-delivered", fmt.Sprintf("the send to healthy peer %d made while sends to dead peers %v were in progress: error %v, delivered %d", healthy, deads, herr, delivered))
	} else if !w.tcp && doneBefore > 0 && total > 300*time.Millisecond {
		// on the in-memory transport a doomed connect keeps trying for about half a second; the
		// healthy send started 100 ms after them and needs no more than a dial
		w.cs.Fail("healthy-send-held-back", fmt.Sprintf("the send to healthy peer %d returned after %v, when %d of the %d sends to dead peers %v had already given up (they take %v): it waited for them", healthy, hlat, doneBefore, len(deads), deads, total))
	}
	w.tag(fmt.Sprintf("par:%s:dead=%d:held=%v", entry, c03bucketN(nDead), doneBefore > 0))
	w.tag("par-healthy-latency" + c09latency(hlat))
	return fmt.Sprintf("err:%d|%s delivered=%d", errs, hres, delivered)
}

// orphan: see the operation list. Not compared with the model.
func (w *c09world) orphan(x, k int) string {
	ov := w.lt.Overlays[w.s.ServerIdentity.ID]
	ov2 := w.lt.Overlays[w.s2.ServerIdentity.ID]
	// the canary run: S2 is the root, S its child; both know the tree; one message warms it up
	ro := onet.NewRoster([]*network.ServerIdentity{w.s2.ServerIdentity, w.s.ServerIdentity})
	t, nodes := fix.BuildTree(ro, []int{-1, 0}, []int{0, 1})
	ov.RegisterTree(t)
	pi, err := ov2.CreateProtocol(fix.ProtoName, t, onet.NilServiceID)
	if err != nil {
		w.cs.Fail("harness", err.Error())
		return "harness-error"
	}
	rootTok := pi.(interface{ Token() *onet.Token }).Token()
	root := fix.RecOf(rootTok)
	if root == nil {
		w.cs.Fail("harness", "no recorder for the canary root")
		return "harness-error"
	}
	w.tnis = append(w.tnis, root.Tni)
	childTok := rootTok.ChangeTreeNodeID(nodes[1].ID)
	w.s2toks = append(w.s2toks, childTok)
	c0 := atomic.LoadInt64(&c09canary)
	if err := root.Tni.SendTo(nodes[1], &fix.M3{V: 0}); err != nil {
		w.cs.Fail("harness", "canary warm-up: "+err.Error())
		return "harness-error"
	}
	for i := 0; i < 3000 && atomic.LoadInt64(&c09canary) == c0; i++ {
		time.Sleep(time.Millisecond)
	}
	if atomic.LoadInt64(&c09canary) == c0 {
		w.cs.Fail("not-delivered", "the canary warm-up message was not handled within 3 s")
		return "no-canary"
	}
	// the orphan: first message of a run over a tree only x knows; x is dead and S has no
	// connection with it, so S's tree request has to dial
	xo := onet.NewRoster([]*network.ServerIdentity{w.sid(x), w.s.ServerIdentity})
	xt, xn := fix.BuildTree(xo, []int{-1, 0}, []int{0, 1})
	round := uuid.New()
	env, err := fix.Envelope(w.sid(x), fix.TokenFor(xt, xn[0], round), fix.TokenFor(xt, xn[1], round), &fix.M3{V: 7})
	if err != nil {
		w.cs.Fail("harness", err.Error())
		return "harness-error"
	}
	c1 := atomic.LoadInt64(&c09canary)
	t0 := time.Now()
	var procDone int64
	go func() {
		ov.Process(env)
		atomic.StoreInt64(&procDone, int64(time.Since(t0)))
	}()
	time.Sleep(100 * time.Millisecond)
	for i := 0; i < k; i++ {
		root.Tni.SendTo(nodes[1], &fix.M3{V: i + 1})
	}
	var canaryDone time.Duration
	for i := 0; i < 5000; i++ {
		if atomic.LoadInt64(&c09canary)-c1 >= int64(k) {
			canaryDone = time.Since(t0)
			break
		}
		time.Sleep(time.Millisecond)
	}
	for i := 0; i < 10000 && atomic.LoadInt64(&procDone) == 0; i++ {
		time.Sleep(time.Millisecond)
	}
	pd := time.Duration(atomic.LoadInt64(&procDone))
	got := atomic.LoadInt64(&c09canary) - c1
	switch {
	case pd == 0:
		w.cs.Fail("hang", "handling the orphan message of dead peer did not return within 10 s")
	case got < int64(k):
		w.cs.Fail("not-delivered", fmt.Sprintf("%d of %d canary messages handled within 5 s", got, k))
	case pd > 300*time.Millisecond && canaryDone >= pd:
		w.cs.Fail("canary-held-back", fmt.Sprintf("S spent %v trying to reach dead peer %d for a tree; the %d canary messages of another run, sent 100 ms after that began, were only handled after %v", pd, x, k, canaryDone))
	}
	w.tag(fmt.Sprintf("orphan:held=%v", pd > 300*time.Millisecond && canaryDone >= pd))
	w.tag("orphan-canary-latency" + c09latency(canaryDone-100*time.Millisecond))
	return fmt.Sprintf("handled canaries=%d", got)
}

func c09latency(d time.Duration) string {
	switch {
	case d < 50*time.Millisecond:
		return "<50ms"
	case d < 200*time.Millisecond:
		return "<200ms"
	case d < time.Second:
		return "<1s"
	case d < 3*time.Second:
		return "<3s"
	}
	return ">=3s"
}

// canaryCount is the number of protocol messages the second survivor's overlay handed to the
// recording protocol so far.
func (w *c09world) canaryCount() int64 { return atomic.LoadInt64(&c09canary) }

var c09canary int64

func (w *c09world) down(p int, silent bool) string {
	v := w.victim(p)
	w.mu.Lock()
	w.calls = nil
	w.mu.Unlock()
	had := v.connected && v.up && !v.frozen
	patience := 3 * time.Second
	if silent {
		// nothing is closed: only the read time-out of S's connection can reveal the loss
		v.silent.freeze()
		v.frozen = true
		patience = 8 * time.Second
	} else {
		w.stop(v)
	}
	want := 0
	if had {
		want = len(w.handlers)
	}
	deadline := time.After(patience)
wait:
	for {
		w.mu.Lock()
		n := len(w.calls)
		w.mu.Unlock()
		if n >= want {
			break
		}
		select {
		case <-deadline:
			break wait
		case <-time.After(500 * time.Microsecond):
		}
	}
	// the deferred clean-up of the receive loop (close, remove from the table) follows the handlers
	for i := 0; had && silent && len(w.handlers) == 0 && i < 8000 && w.s.VerifConnCount(v.sid.GetID()) > 0; i++ {
		time.Sleep(time.Millisecond)
	}
	for i := 0; had && i < 3000 && w.s.VerifConnCount(v.sid.GetID()) > 0 && len(w.handlers) > 0; i++ {
		time.Sleep(time.Millisecond)
	}
	for i := 0; had && len(w.handlers) == 0 && i < 300 && w.s.VerifConnCount(v.sid.GetID()) > 0; i++ {
		time.Sleep(time.Millisecond)
	}
	time.Sleep(20 * time.Millisecond)
	w.mu.Lock()
	calls := append([]string{}, w.calls...)
	w.mu.Unlock()
	v.connected = false
	if had {
		// the property's own oracle: every handler is told, with the lost peer's identity
		for _, hd := range w.handlers {
			found := false
			for _, c := range calls {
				if c == fmt.Sprintf("%d>%d", hd, p) {
					found = true
				}
			}
			if !found {
				how := "stopped"
				if silent {
					how = "went silent without closing its connections"
				}
				w.cs.Fail("handler-not-told", fmt.Sprintf("peer %d %s; error handler %d was not called for it within %v; calls: %v", p, how, hd, patience, calls))
			}
		}
	}
	for _, c := range calls {
		if !strings.HasSuffix(c, ">"+strconv.Itoa(p)) {
			w.cs.Fail("handler-wrong-peer", fmt.Sprintf("peer %d stopped, handler calls: %v", p, calls))
		}
	}
	if silent {
		w.tag(fmt.Sprintf("freeze:calls=%d", c03bucketN(len(calls))))
	} else {
		w.tag(fmt.Sprintf("down:calls=%d", c03bucketN(len(calls))))
	}
	if len(calls) == 0 {
		return "-"
	}
	return strings.Join(calls, ",")
}

func c09exec(c *h.Ctx, cs *h.Case) {
	log.SetDebugVisible(0)
	log.OutputToBuf()
	w := &c09world{cs: cs, c: c, victims: map[int]*c09victim{}, tags: map[string]bool{}}
	defer w.close()
	cs.NoModel = strings.HasPrefix(cs.Class, "cut") || strings.HasPrefix(cs.Class, "orphan")
	for _, op := range cs.Ops {
		tk := strings.Fields(op)
		obs := "bad-op"
		switch {
		case len(tk) == 4 && tk[1] == "open" && (tk[2] == "tcp" || tk[2] == "local") && w.s == nil:
			if ups, ok := c03ints(tk[3]); ok {
				w.useProxy = strings.HasPrefix(cs.Class, "cut")
				w.silentClass = strings.HasPrefix(cs.Class, "silent") && tk[2] == "tcp"
				if w.silentClass {
					w.oldTimeout = network.VerifSetReadTimeout(1500 * time.Millisecond)
				}
				obs = w.open(tk[2], ups)
			}
		case w.s == nil:
		case len(tk) == 3 && tk[1] == "handler":
			if hd, err := strconv.Atoi(tk[2]); err == nil {
				w.handlers = append(w.handlers, hd)
				w.s.AddErrorHandler(func(si *network.ServerIdentity) {
					who := "?"
					w.vmu.Lock()
					for n, v := range w.victims {
						if si != nil && si.Public != nil && v.kp.Public.Equal(si.Public) {
							who = strconv.Itoa(n)
						}
					}
					w.vmu.Unlock()
					if si != nil && w.s2.ServerIdentity.Public.Equal(si.Public) {
						who = "0"
					}
					w.mu.Lock()
					w.calls = append(w.calls, fmt.Sprintf("%d>%s", hd, who))
					w.mu.Unlock()
				})
				obs = "ok"
			}
		case len(tk) == 5 && tk[1] == "send":
			dests, ok := c03ints(tk[3])
			n, err := strconv.Atoi(tk[4])
			if ok && err == nil {
				obs = w.send(tk[2], dests, n)
			}
		case len(tk) == 5 && tk[1] == "par":
			deads, ok := c03ints(tk[3])
			hp, err := strconv.Atoi(tk[4])
			if ok && err == nil && (tk[2] == "router" || tk[2] == "raw" || tk[2] == "sendto") {
				obs = w.par(tk[2], deads, hp)
			}
		case len(tk) == 4 && tk[1] == "orphan":
			x, err1 := strconv.Atoi(tk[2])
			k, err2 := strconv.Atoi(tk[3])
			if err1 == nil && err2 == nil && x > 0 && k > 0 {
				obs = w.orphan(x, k)
			}
		case len(tk) == 3 && tk[1] == "down":
			if p, err := strconv.Atoi(tk[2]); err == nil && p > 0 {
				obs = w.down(p, false)
			}
		case len(tk) == 3 && tk[1] == "freeze" && w.silentClass:
			if p, err := strconv.Atoi(tk[2]); err == nil && p > 0 && w.victim(p).silent != nil && !w.victim(p).frozen {
				obs = w.down(p, true)
			}
		case len(tk) == 2 && tk[1] == "pause":
			w.s.Pause()
			w.paused = true
			obs = "ok"
			w.tag("pause")
		case len(tk) == 3 && tk[1] == "kill":
			if p, err := strconv.Atoi(tk[2]); err == nil && p > 0 {
				w.stop(w.victim(p))
				obs = "-"
				w.tag("kill")
			}
		case len(tk) == 3 && tk[1] == "up":
			if p, err := strconv.Atoi(tk[2]); err == nil && p > 0 {
				v := w.victim(p)
				if v.frozen {
					v.silent.closeAll()
					if err := v.silent.listen(); err != nil {
						cs.Fail("harness", err.Error())
						obs = "harness-error"
					} else {
						v.frozen, v.connected = false, false
						obs = "ok"
					}
				} else if v.up {
					obs = "ok"
				} else if err := w.start(v); err != nil {
					cs.Fail("harness", err.Error())
					obs = "harness-error"
				} else {
					obs = "ok"
				}
				w.tag("up")
			}
		case len(tk) == 3 && tk[1] == "conns":
			if p, err := strconv.Atoi(tk[2]); err == nil && p >= 0 {
				n := w.s.VerifConnCount(w.sid(p).GetID())
				obs = strconv.Itoa(n)
				// the property's own oracle: no entry for a peer that is gone and was reported
				if p > 0 && !w.victim(p).up && n != 0 && !w.paused {
					cs.Fail("stale-connection-kept", fmt.Sprintf("peer %d is down and its loss was reported, the table still holds %d connection(s) with it", p, n))
				}
				w.tag("conns:" + strconv.Itoa(c03bucketN(n)))
			}
		case len(tk) == 4 && tk[1] == "cut" && w.tcp:
			p, err1 := strconv.Atoi(tk[2])
			k, err2 := strconv.Atoi(tk[3])
			if err1 == nil && err2 == nil && w.victim(p).proxy != nil {
				atomic.StoreInt32(&w.victim(p).proxy.fired, 0)
				atomic.StoreInt64(&w.victim(p).proxy.cut, int64(k))
				w.cutArmed = true
				obs = "ok"
				w.tag("cut")
			}
		case len(tk) == 2 && tk[1] == "settle":
			time.Sleep(150 * time.Millisecond)
			obs = "ok"
		}
		cs.Impl = append(cs.Impl, obs)
	}
	var tl []string
	for t := range w.tags {
		tl = append(tl, t)
	}
	sort.Strings(tl)
	tr := "local"
	if w.tcp {
		tr = "tcp"
	}
	cs.Outcome = tr + " " + strings.Join(tl, " ")
}

func c09gen(c *h.Ctx, yield func(*h.Case)) {
	r := c.Rng
	emit := func(class string, ops ...string) {
		c.Count("class=" + class)
		for _, o := range ops {
			f := strings.Fields(o)
			c.Count("op=" + f[1])
			if f[1] == "send" {
				c.Count("entry=" + f[2])
			}
		}
		yield(&h.Case{Class: class, Ops: ops})
	}
	entriesSingle := []string{"router", "raw", "sendto", "parent"}
	entriesMulti := []string{"children", "parallel", "multicast", "broadcast"}
	for _, tr := range []string{"tcp", "local"} {
		// corpus: the SendRaw witness (fixed in /repo) and every entry point towards a peer
		// that never listened
		emit("corpus-sendraw", "c09 open "+tr+" 0", "c09 send router 1 1", "c09 send raw 1 1")
		emit("corpus-root-has-no-parent", "c09 open "+tr+" 0,1", "c09 send parent - 1", "c09 send children - 1",
			"c09 send parent 1 1", "c09 send broadcast 1,0 1")
		ops := []string{"c09 open " + tr + " 0,2"}
		for _, e := range entriesSingle {
			ops = append(ops, "c09 send "+e+" 1 1")
		}
		for _, e := range entriesMulti {
			ops = append(ops, "c09 send "+e+" 1,2 1", "c09 send "+e+" 2,1 1")
		}
		emit("corpus-every-entry-dead-peer", ops...)
		emit("corpus-fail-detect-recover",
			"c09 open "+tr+" 0,1,2", "c09 handler 10", "c09 handler 11",
			"c09 send router 1 2", "c09 send sendto 2 1", "c09 send sendto 0 1",
			"c09 conns 1", "c09 down 1", "c09 conns 1", "c09 send router 1 1", "c09 send children 2,1,0 1", "c09 send sendto 0 1",
			"c09 up 1", "c09 send raw 1 1", "c09 send router 1 3", "c09 conns 1", "c09 conns 2", "c09 conns 0",
			"c09 down 1", "c09 down 2", "c09 send broadcast 0,1,2 1", "c09 up 2", "c09 send parallel 1,2,0 1")
	}
	// random fault sequences
	n := c.Pick(300, 2500)
	for i := 0; i < n; i++ {
		tr := "local"
		if r.Intn(2) == 0 {
			tr = "tcp"
		}
		nv := 2 + r.Intn(3)
		up := map[int]bool{}
		ups := []int{0}
		for v := 1; v <= nv; v++ {
			if r.Intn(4) > 0 {
				up[v] = true
				ups = append(ups, v)
			}
		}
		ops := []string{fmt.Sprintf("c09 open %s %s", tr, h.Ints(ups))}
		for j := r.Intn(3); j > 0; j-- {
			ops = append(ops, fmt.Sprintf("c09 handler %d", 10+len(ops)))
		}
		// dead-peer sends are slow on the in-memory transport (25 attempts, 20 ms apart): keep the
		// number of them per case small
		dead := 0
		for j := 0; j < 5+r.Intn(10); j++ {
			switch x := r.Intn(10); {
			case x < 6:
				var e string
				var dests []int
				if r.Intn(2) == 0 {
					e = entriesSingle[r.Intn(len(entriesSingle))]
					dests = []int{1 + r.Intn(nv)}
					if e == "sendto" && r.Intn(4) == 0 {
						dests = []int{0}
					}
				} else {
					e = entriesMulti[r.Intn(len(entriesMulti))]
					for _, v := range r.Perm(nv + 1) {
						if r.Intn(2) == 0 {
							dests = append(dests, v)
						}
					}
					if len(dests) == 0 {
						dests = []int{1}
					}
				}
				nd := 0
				for _, d := range dests {
					if d != 0 && !up[d] {
						nd++
					}
				}
				if dead+nd > 4 {
					continue
				}
				dead += nd
				k := 1
				if e == "router" {
					k = 1 + r.Intn(3)
				}
				ops = append(ops, fmt.Sprintf("c09 send %s %s %d", e, h.Ints(dests), k))
			case x < 8:
				v := 1 + r.Intn(nv)
				if up[v] {
					ops = append(ops, fmt.Sprintf("c09 down %d", v))
					up[v] = false
					if r.Intn(2) == 0 {
						ops = append(ops, fmt.Sprintf("c09 conns %d", v))
					}
				}
			default:
				v := 1 + r.Intn(nv)
				if !up[v] {
					ops = append(ops, fmt.Sprintf("c09 up %d", v))
					up[v] = true
				}
			}
		}
		emit("faults-"+tr, ops...)
	}
	// failures in progress must not hold healthy traffic back: concurrent sends towards dead peers
	// (whose entries are gone from the table, so they dial) and a first contact with a healthy peer
	for i := 0; i < c.Pick(16, 160); i++ {
		tr := "local"
		if r.Intn(4) == 0 {
			tr = "tcp" // results only; the doomed dials are too short on loopback to order anything
		}
		nd := 1 + r.Intn(3)
		ups := []int{0, nd + 1}
		var deads []int
		for d := 1; d <= nd; d++ {
			deads = append(deads, d)
		}
		ops := []string{fmt.Sprintf("c09 open %s %s", tr, h.Ints(ups))}
		if r.Intn(2) == 0 {
			// the dead ones were alive and used once: their entries were reported and removed
			ops[0] = fmt.Sprintf("c09 open %s %s", tr, h.Ints(append([]int{0}, append(append([]int{}, deads...), nd+1)...)))
			ops = append(ops, "c09 handler 10")
			for _, d := range deads {
				ops = append(ops, fmt.Sprintf("c09 send router %d 1", d))
			}
			for _, d := range deads {
				ops = append(ops, fmt.Sprintf("c09 down %d", d))
			}
		}
		e := []string{"router", "raw", "sendto"}[r.Intn(3)]
		ops = append(ops, fmt.Sprintf("c09 par %s %s %d", e, h.Ints(deads), nd+1), fmt.Sprintf("c09 conns %d", nd+1),
			fmt.Sprintf("c09 send router %d 1", nd+1))
		emit("concurrent-"+tr, ops...)
	}
	// the same at the overlay: a tree request towards a dead peer must not stall the handling of
	// other runs' messages
	for i := 0; i < c.Pick(8, 80); i++ {
		emit("orphan-local", "c09 open local 0", fmt.Sprintf("c09 orphan %d %d", 1+r.Intn(3), 1+r.Intn(4)), "c09 send sendto 0 1")
	}
	// a peer that goes silent without closing (power loss, partition): only the read time-out of
	// the survivor's connection reveals it; then handlers, clean table, errors, recovery
	for i := 0; i < c.Pick(8, 60); i++ {
		ops := []string{"c09 open tcp 0,1,2", "c09 handler 10"}
		if r.Intn(2) == 0 {
			ops = append(ops, "c09 handler 11")
		}
		e := []string{"router", "raw", "sendto", "parent"}[r.Intn(4)]
		ops = append(ops, "c09 send "+e+" 1 1", "c09 freeze 1", "c09 conns 1",
			"c09 send "+[]string{"router", "raw", "sendto", "children"}[r.Intn(4)]+" 1 1")
		if r.Intn(2) == 0 {
			ops = append(ops, "c09 up 1", "c09 send router 1 "+strconv.Itoa(1+r.Intn(2)), "c09 conns 1")
		}
		emit("silent-tcp", ops...)
	}
	// stale entries on the in-memory transport (a write on them fails deterministically): the
	// survivor's receive loops are paused, a victim it is connected to dies and comes back, the
	// next sends must reconnect — once per message — and deliver
	for i := 0; i < c.Pick(12, 150); i++ {
		nm := 1 + r.Intn(3)
		ops := []string{"c09 open local 0,1,2", "c09 handler 10",
			fmt.Sprintf("c09 send router 1 %d", 1+r.Intn(2)), "c09 send sendto 2 1", "c09 pause", "c09 kill 1"}
		if r.Intn(2) == 0 {
			ops = append(ops, "c09 send raw 1 1", "c09 conns 1")
		}
		ops = append(ops, "c09 up 1", fmt.Sprintf("c09 send router 1 %d", nm), "c09 conns 1")
		e := []string{"raw", "sendto", "children", "broadcast"}[r.Intn(4)]
		d := "1"
		if e == "children" || e == "broadcast" {
			d = "2,1"
		}
		ops = append(ops, fmt.Sprintf("c09 send %s %s 1", e, d), "c09 conns 1", "c09 conns 2")
		emit("stale-local", ops...)
	}
	// crash points inside the identity exchange and inside a transfer: the connection towards
	// the victim is cut after k bytes; afterwards the victim is reachable again
	for i := 0; i < c.Pick(60, 600); i++ {
		k := r.Intn(260)
		e := []string{"router", "raw", "sendto"}[r.Intn(3)]
		emit("cut-tcp",
			"c09 open tcp 0,1", "c09 handler 10",
			fmt.Sprintf("c09 cut 1 %d", k),
			"c09 send "+e+" 1 1",
			"c09 settle",
			"c09 send router 1 1",
			"c09 send sendto 0 1")
	}
}

func init() {
	h.RegisterProp(h.Prop{Name: "c09", Gen: c09gen, Exec: c09exec, Isolate: true, Workers: 6, Timeout: 25 * time.Second})
}
