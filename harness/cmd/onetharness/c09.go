package main

import (
	"fmt"
	"net"
	"os"
	"runtime"
	"sort"
	"strconv"
	"strings"
	"sync"
	"sync/atomic"
	"syscall"
	"time"

	"github.com/google/uuid"
	"go.dedis.ch/kyber/v3/util/key"
	"go.dedis.ch/onet/v3"
	"go.dedis.ch/onet/v3/log"
	"go.dedis.ch/onet/v3/network"
	"onetverif/harness/fix"
	"onetverif/harness/h"
)

// C09: peer failures. One case = one small real cluster in its own sub-process: two onet servers
// (the survivor S and a second survivor S2, peer number 0, used for canary traffic) and victims
// 1..n, which are bare routers with a fixed identity and address that are stopped and started
// again. Operations (see lean/OnetVerif/Model/C09.lean, Drv.step):
//
//   open <tcp|tls|local> <peers up>  fresh cluster on that transport; the listed victims listen
//   handler <h>                   S registers connection-error handler number h
//   rhandler <h> <q>              S registers error handler number h that uses the router it is registered
//                                 with: when called it asks Closed() and sends one message to peer q
//   send <entry> <dests> <n>      the send entry point towards these peers (n messages per
//                                 Router.Send; n != 1 only for entry "router"); entries: router, raw
//                                 (Context.SendRaw), sendto, parent, children, parallel, multicast,
//                                 broadcast
//   selfsend <n>                  Router.Send of n messages to the own identity
//   par <entry> <deads> <healthy> one send per dead peer (all at once, through that entry point) and,
//                                 100 ms later, a router send to a healthy peer S has no connection with
//   down <p>                      the victim stops; waits until S's receive loops reported it
//   freeze <p>                    class silent-tcp: the victim goes silent without closing anything (its
//                                 address stops answering, S's connection stays open); the connection
//                                 time-out is scaled down to 1.5 s for these cases (hook VerifSetReadTimeout)
//   hang <p>                      class frozen-tls: the victim's process stops answering while its address
//                                 keeps accepting connections (nobody answers the TLS handshake)
//   pause                         S's receive loops stop reporting failures (Router.Pause)
//   kill <p>                      the victim stops, nobody waits for S to notice
//   up <p>                        the victim listens again (same identity, same address)
//   conns <p>                     number of connections with p in S's connection table
//   tni <k> <parent|-> <children|->  a tree-node instance of S that lives until the end of the case
//   tcfg <k> / tdone <k>          SetConfig / Done on it
//   tsend <k> <entry> <dests|->   an entry point on it (sendto -: nil destination)
//
// not modelled (classes "cut" and "orphan", compared with nothing, oracle only):
//   orphan <x> <k>                S handles the first message of a run over a tree it does not know, sent
//                                 by peer x which is dead by now, while k canary messages of another run
//                                 (S2 -> S) arrive
//   cut <p> <k>                   the next connection towards victim p is cut after k bytes
//   settle
//
// Waiting: nothing the verdict depends on is a fixed sleep. Every wait polls for the awaited event
// and gives up after a patience that only matters on a broken tree (10 s and more), so a loaded
// machine makes a case slower, not different. The two oracles that compare completion orders
// (healthy-send-held-back, canary-held-back) repeat the experiment and fail only if it comes out
// the same way three times. Calls into the code under test run under a guard: when one does not
// come back the case fails with a signature of its own and nothing more is asked of that process.

// C09Msg is the payload of router-level and raw sends.
type C09Msg struct{ V int64 }

var c09MsgType network.MessageTypeID

const (
	c09waitDeliver  = 10 * time.Second
	c09waitHandlers = 10 * time.Second
	c09waitSilent   = 15 * time.Second
	c09waitTable    = 10 * time.Second
)

type c09Service struct {
	*onet.ServiceProcessor
	ctx *onet.Context
}

func (s *c09Service) NewProtocol(tn *onet.TreeNodeInstance, conf *onet.GenericConfig) (onet.ProtocolInstance, error) {
	return nil, nil
}

var c09RegisterOnce sync.Once

func c09Register() {
	c09RegisterOnce.Do(func() {
		c09MsgType = network.RegisterMessage(&C09Msg{})
		_, err := onet.RegisterNewService("VerifC09", func(c *onet.Context) (onet.Service, error) {
			c09svcHandlers(c.RegisterProcessorFunc)
			return &c09Service{ServiceProcessor: onet.NewServiceProcessor(c), ctx: c}, nil
		})
		if err != nil {
			log.Fatal(err)
		}
	})
}

func c09ints(s string) ([]int, bool) {
	if s == "-" {
		return nil, true
	}
	var out []int
	for _, p := range strings.Split(s, ",") {
		v, err := strconv.Atoi(p)
		if err != nil || v < 0 {
			return nil, false
		}
		out = append(out, v)
	}
	return out, true
}

func c09bucketN(n int) int {
	if n > 2 {
		return 3
	}
	return n
}

type c09victim struct {
	n      int
	kp     *key.Pair
	sid    *network.ServerIdentity // what S uses to reach it (the proxy's address on TCP)
	own    *network.ServerIdentity // what the victim's router listens on
	r      *network.Router
	up     bool
	got    int64 // messages that reached a live incarnation
	proxy  *c09proxy
	silent *c09silent
	frozen bool
	// class frozen-tls: what sits at the victim's address while its process does not answer
	holder *c09holder
	// does S hold a registered connection with this incarnation (harness bookkeeping for waits)
	connected bool
	// index into S's handler-call log at which this incarnation began
	callMark int
	// a victim that is a full onet server (class treereq-tcp)
	isServer bool
	srv      *onet.Server
}

type c09world struct {
	vmu sync.Mutex // guards victims
	// the code under test did not come back from a call: nothing more is asked of it
	dead bool
	// TLS flavour of the TCP transport (servers built here, no LocalTest)
	tls    bool
	dialTO time.Duration
	// handlers that use the router: number -> identity of the peer they notify
	rh     map[int]*network.ServerIdentity
	rhPeer map[int]int
	rhIn   int64 // calls of such handlers begun
	rhOut  int64 // ... and returned
	// tree-node instances that live across operations
	ptni        map[int]*c09ptni
	trees       map[int]*c09tree
	selfGot     int64
	silentClass bool
	oldTimeout  time.Duration
	paused      bool
	useProxy    bool
	cutArmed    bool
	// protocol instances created for sends (on S and, through tree propagation, on S2); they are
	// marked done before the cluster is closed
	tnis     []*onet.TreeNodeInstance
	s2toks   []*onet.Token
	cs       *h.Case
	c        *h.Ctx
	tcp      bool
	lt       *onet.LocalTest
	s, s2    *onet.Server
	svc      *c09Service
	victims  map[int]*c09victim
	handlers []int
	mu       sync.Mutex
	calls    []string // every handler call so far, in order
	seq      int64
	tags     map[string]bool
	s2conn   bool
	// raw peers (c09recv.go): their open connections in order of establishment, next serial number
	raws    map[int][]*c09raw
	rawNext map[int]int
	// connections to the survivor's address that say nothing (c09inbound.go)
	stalled []net.Conn
}

func (w *c09world) tag(s string) { w.tags[s] = true }

// guarded runs f, which calls into the code under test. If f does not come back within d the case
// fails with that signature and the process under test is left alone from then on.
func (w *c09world) guarded(d time.Duration, sig, what string, f func()) bool {
	done := make(chan struct{})
	go func() {
		defer close(done)
		f()
	}()
	select {
	case <-done:
		return true
	case <-time.After(d):
		w.cs.Fail(sig, fmt.Sprintf("%s did not return within %v", what, d))
		w.dead = true
		return false
	}
}

// connCount reads S's connection table (-1: the table's lock could not be had).
func (w *c09world) connCount(id network.ServerIdentityID) int {
	n := -1
	if w.dead {
		return n
	}
	w.guarded(c09waitTable, "router-blocked", "reading the survivor's connection table (it takes the router's lock)", func() {
		n = w.s.VerifConnCount(id)
	})
	return n
}

// waitNoConn polls until S's table holds no connection with that peer.
func (w *c09world) waitNoConn(id network.ServerIdentityID, patience time.Duration) {
	end := time.Now().Add(patience)
	for !w.dead && time.Now().Before(end) {
		if w.connCount(id) <= 0 {
			return
		}
		time.Sleep(time.Millisecond)
	}
}

// perConnect is what the configuration allows one connect to take when every attempt fails:
// MaxRetryConnect attempts of at most the dial time-out with WaitRetry in between on TCP and TLS;
// MaxRetryConnect^2 pauses on the in-memory transport (attempts take no time there).
func (w *c09world) perConnect() time.Duration {
	m := time.Duration(network.MaxRetryConnect)
	if !w.tcp {
		return m * m * network.WaitRetry
	}
	return m*w.dialTO + (m-1)*network.WaitRetry
}

// allowed is the patience with one entry-point call: nDests router sends of at most nMsgs messages,
// each of which may connect 1+nMsgs times; twice that and five seconds for a loaded machine.
func (w *c09world) allowed(nDests, nMsgs int) time.Duration {
	if nDests < 1 {
		nDests = 1
	}
	return time.Duration(float64(2*time.Duration(nDests*(1+nMsgs))*w.perConnect()+5*time.Second) * c09loadFactor())
}

var (
	c09loadOnce sync.Once
	c09loadF    = 1.0
)

// c09loadFactor stretches the wall-clock patience of the "returns within the configured time-outs" oracle by how
// oversubscribed the machine is when the case starts (1 + load average / processors): under a load of 30 on 16
// processors a send with one dead destination that nominally takes 0.5 s was seen to need more than the 11 s the
// fixed formula allowed (notes/FALSE_ALARMS.md). A send that hangs is still reported, only later.
func c09loadFactor() float64 {
	c09loadOnce.Do(func() {
		b, err := os.ReadFile("/proc/loadavg")
		if err != nil {
			return
		}
		f := strings.Fields(string(b))
		if len(f) == 0 {
			return
		}
		if l, err := strconv.ParseFloat(f[0], 64); err == nil && l > 0 {
			c09loadF = 1 + l/float64(runtime.NumCPU())
		}
	})
	return c09loadF
}

func (w *c09world) victim(n int) *c09victim {
	w.vmu.Lock()
	defer w.vmu.Unlock()
	if v, ok := w.victims[n]; ok {
		return v
	}
	v := &c09victim{n: n, kp: key.NewKeyPair(fix.Suite)}
	w.victims[n] = v
	return v
}

func (w *c09world) addr(port int) network.Address {
	a := "127.0.0.1:" + strconv.Itoa(port)
	if w.tls {
		return network.NewTLSAddress(a)
	}
	return network.NewTCPAddress(a)
}

func (w *c09world) identity(v *c09victim, a network.Address) *network.ServerIdentity {
	si := network.NewServerIdentity(v.kp.Public, a)
	si.SetPrivate(v.kp.Private)
	return si
}

// start brings the victim's router up on its fixed address.
func (w *c09world) start(v *c09victim) error {
	if v.isServer {
		return w.startServer(v)
	}
	var r *network.Router
	if w.tcp {
		if v.own == nil {
			v.own = w.identity(v, w.addr(c09port(v.n)))
			v.sid = v.own
		}
		own := w.identity(v, v.own.Address)
		var hst *network.TCPHost
		var err error
		for i := 0; i < 250; i++ {
			if hst, err = network.NewTCPHost(own, fix.Suite); err == nil {
				break
			}
			time.Sleep(20 * time.Millisecond)
		}
		if err != nil {
			return err
		}
		r = network.NewRouter(own, hst)
		if w.silentClass && v.silent == nil {
			v.silent = &c09silent{addr: "127.0.0.1:" + strconv.Itoa(c09port(v.n)+8), target: "127.0.0.1:" + own.Address.Port()}
			if err := v.silent.listen(); err != nil {
				return err
			}
			v.sid = network.NewServerIdentity(v.kp.Public, network.NewTCPAddress(v.silent.addr))
		}
		if w.useProxy && v.proxy == nil {
			ln, err := net.Listen("tcp", "127.0.0.1:0")
			if err != nil {
				return err
			}
			v.proxy = &c09proxy{ln: ln, target: "127.0.0.1:" + own.Address.Port(), cut: -1}
			go v.proxy.serve()
			v.sid = network.NewServerIdentity(v.kp.Public, network.NewTCPAddress(ln.Addr().String()))
		}
	} else {
		if v.own == nil {
			v.own = network.NewServerIdentity(v.kp.Public, network.NewLocalAddress("127.0.0.1:"+strconv.Itoa(31000+v.n)))
			v.sid = v.own
		}
		var err error
		if r, err = network.NewLocalRouterWithManager(w.lt.VerifLocalManager(), v.own, fix.Suite); err != nil {
			return err
		}
	}
	r.UnauthOk, r.Quiet = true, true
	count := func(*network.Envelope) error { atomic.AddInt64(&v.got, 1); return nil }
	r.RegisterProcessorFunc(c09MsgType, count)
	r.RegisterProcessorFunc(onet.ProtocolMsgID, count)
	// the configuration of a tree-node instance travels as a message of its own in front of the
	// first protocol message
	r.RegisterProcessorFunc(onet.ConfigMsgID, count)
	go r.Start()
	for i := 0; i < 10000 && !r.Listening(); i++ {
		time.Sleep(time.Millisecond)
	}
	w.mu.Lock()
	v.callMark = len(w.calls)
	w.mu.Unlock()
	v.r, v.up, v.connected = r, true, false
	return nil
}

func (w *c09world) stop(v *c09victim) {
	if !v.up {
		return
	}
	v.up = false
	done := make(chan bool)
	go func() {
		if v.isServer {
			v.srv.Close()
		} else {
			v.r.Stop()
		}
		close(done)
	}()
	select {
	case <-done:
	case <-time.After(15 * time.Second):
		w.cs.Fail("harness", "a victim router did not stop within 15 s")
	}
}

func (w *c09world) open(tr string, ups []int) string {
	c09Register()
	fix.Prepare = func(r *fix.Rec) {
		r.OnEnter = func(d fix.Delivery) {
			if d.Ty == 3 {
				atomic.AddInt64(&c09canary, 1)
			}
		}
	}
	w.tcp = tr == "tcp" || tr == "tls"
	w.tls = tr == "tls"
	switch {
	case w.tls:
		w.dialTO = 500 * time.Millisecond
		network.SetTCPDialTimeout(w.dialTO)
		if err := w.openTLS(); err != nil {
			w.cs.Fail("harness", err.Error())
			return "harness-error"
		}
	case w.tcp:
		// configured (SetTCPDialTimeout is the package's own knob; its default is 1 s): the bound the
		// sends are held to below is computed from this value
		w.dialTO = 500 * time.Millisecond
		network.SetTCPDialTimeout(w.dialTO)
		w.lt = onet.NewTCPTest(fix.Suite)
	default:
		w.lt = onet.NewLocalTest(fix.Suite)
	}
	if w.lt != nil {
		w.lt.Check = onet.CheckNone
		srv := w.lt.GenServers(2)
		w.s, w.s2 = srv[0], srv[1]
	}
	w.svc, _ = w.s.Service("VerifC09").(*c09Service)
	if w.svc == nil {
		w.cs.Fail("harness", "the harness service is missing on the survivor")
		return "harness-error"
	}
	w.s.RegisterProcessorFunc(c09MsgType, func(*network.Envelope) error { atomic.AddInt64(&w.selfGot, 1); return nil })
	for _, n := range ups {
		if n == 0 {
			continue
		}
		if err := w.start(w.victim(n)); err != nil {
			w.cs.Fail("harness", err.Error())
			return "harness-error"
		}
	}
	return "ok"
}

func (w *c09world) close() {
	// every case runs in a process of its own: after a failure the verdict is all that is wanted,
	// and what is left of the cluster may not be in a state to be closed
	if w.cs.Oracle == "fail" || w.dead {
		return
	}
	w.guarded(60*time.Second, "hang", "closing the cluster at the end of the case", func() {
		if w.paused {
			w.s.Unpause()
		}
		for _, t := range w.tnis {
			t.Done()
		}
		for _, tok := range w.s2toks {
			if rec := fix.RecOf(tok); rec != nil {
				rec.Tni.Done()
			}
		}
		w.closeRaws()
		if atomic.LoadInt64(&c09blockedIn) > 0 {
			w.svcRelease()
		}
		for _, cn := range w.stalled {
			cn.Close()
		}
		for _, v := range w.victims {
			w.stop(v)
			if v.proxy != nil {
				v.proxy.ln.Close()
			}
			if v.silent != nil {
				v.silent.closeAll()
			}
			if v.holder != nil {
				v.holder.close()
			}
		}
		if w.oldTimeout != 0 {
			network.VerifSetReadTimeout(w.oldTimeout)
		}
		// instances created by incoming messages: closing a cluster waits for instances that linger
		fix.DoneAll()
		if w.lt != nil {
			w.lt.CloseAll()
		} else {
			w.closeTLS()
		}
	})
}

// identity of peer n as S addresses it; a victim that never ran gets an address nothing listens on
func (w *c09world) sid(n int) *network.ServerIdentity {
	if n == 0 {
		return w.s2.ServerIdentity
	}
	v := w.victim(n)
	if v.sid == nil {
		if w.tcp {
			v.own = w.identity(v, w.addr(c09port(v.n)))
			v.sid = v.own
		} else {
			v.own = network.NewServerIdentity(v.kp.Public, network.NewLocalAddress("127.0.0.1:"+strconv.Itoa(31000+v.n)))
			v.sid = v.own
		}
	}
	return v.sid
}

func (w *c09world) isUp(n int) bool {
	if n == 0 {
		return true
	}
	return w.victim(n).up && !w.victim(n).frozen
}

// tni builds a tree around S for one entry point and returns S's tree node instance together with
// the tree nodes of the destinations, in the order of dests. For "parent" the destination is the
// root and S hangs below it; for every other entry S is the root of a real protocol instance and
// the destinations are its children.
func (w *c09world) tni(entry string, dests []int) (*onet.TreeNodeInstance, []*onet.TreeNode, error) {
	ids := []*network.ServerIdentity{w.s.ServerIdentity}
	for _, d := range dests {
		ids = append(ids, w.sid(d))
	}
	ro := onet.NewRoster(ids)
	if entry == "parent" {
		if len(dests) == 0 {
			t, nodes := fix.BuildTree(ro, []int{-1}, []int{0})
			return w.bareTni(t, nodes[0]), nil, nil
		}
		t, nodes := fix.BuildTree(ro, []int{-1, 0}, []int{1, 0})
		return w.bareTni(t, nodes[1]), nodes[:1], nil
	}
	parent, member := []int{-1}, []int{0}
	for i := range dests {
		parent = append(parent, 0)
		member = append(member, i+1)
	}
	t, nodes := fix.BuildTree(ro, parent, member)
	var pi onet.ProtocolInstance
	var err error
	if w.lt != nil {
		pi, err = w.lt.Overlays[w.s.ServerIdentity.ID].CreateProtocol(fix.ProtoName, t, onet.NilServiceID)
	} else {
		pi, err = w.svc.ctx.CreateProtocol(fix.ProtoName, t)
	}
	if err != nil {
		return nil, nil, err
	}
	tk, ok := pi.(interface{ Token() *onet.Token })
	if !ok {
		return nil, nil, fmt.Errorf("the recording protocol instance has no token")
	}
	rec := fix.RecOf(tk.Token())
	if rec == nil {
		return nil, nil, fmt.Errorf("no recorder for the root instance")
	}
	w.tnis = append(w.tnis, rec.Tni)
	for i, d := range dests {
		if d == 0 {
			w.s2toks = append(w.s2toks, tk.Token().ChangeTreeNodeID(nodes[i+1].ID))
		}
	}
	return rec.Tni, nodes[1:], nil
}

// bareTni is a tree-node instance of S for that node, listed in S's overlay (so that Done closes
// it), with no protocol instance bound: only its sends are used.
func (w *c09world) bareTni(t *onet.Tree, tn *onet.TreeNode) *onet.TreeNodeInstance {
	n := w.svc.ctx.NewTreeNodeInstance(t, tn, fix.ProtoName)
	w.tnis = append(w.tnis, n)
	return n
}

// gotAt is the number of messages that reached peer d so far (peer 0: protocol messages handled
// by the second survivor's recording protocol).
func (w *c09world) gotAt(d int) int64 {
	if d == 0 {
		return w.canaryCount()
	}
	return atomic.LoadInt64(&w.victim(d).got)
}

// awaitDeliveries polls until every destination has at least want[d] more messages than before.
func (w *c09world) awaitDeliveries(dests []int, before, want map[int]int64, patience time.Duration) (int64, bool) {
	reached := func() (int64, bool) {
		var tot int64
		all := true
		seen := map[int]bool{}
		for _, d := range dests {
			if seen[d] {
				continue
			}
			seen[d] = true
			got := w.gotAt(d) - before[d]
			tot += got
			if got < want[d] {
				all = false
			}
		}
		return tot, all
	}
	end := time.Now().Add(patience)
	for {
		if _, all := reached(); all || !time.Now().Before(end) {
			break
		}
		time.Sleep(500 * time.Microsecond)
	}
	// nothing more than what is wanted may arrive: give stragglers a moment to show up
	time.Sleep(2 * time.Millisecond)
	return reached()
}

func (w *c09world) send(entry string, dests []int, n int) string {
	if n < 0 || (n != 1 && entry != "router") {
		return "bad-op"
	}
	before := map[int]int64{}
	for _, d := range dests {
		before[d] = w.gotAt(d)
	}
	atomic.AddInt64(&w.seq, 1)
	msg := func() interface{} { return &C09Msg{V: w.seq} }
	errs := 0
	var call func()
	switch entry {
	case "router":
		if len(dests) != 1 || dests[0] == 0 {
			return "bad-op"
		}
		var ms []network.Message
		for i := 0; i < n; i++ {
			ms = append(ms, msg())
		}
		si := w.sid(dests[0])
		call = func() {
			if _, err := w.s.Send(si, ms...); err != nil {
				errs = 1
			}
		}
	case "raw":
		if len(dests) != 1 || dests[0] == 0 {
			return "bad-op"
		}
		si := w.sid(dests[0])
		call = func() {
			if err := w.svc.ctx.SendRaw(si, msg()); err != nil {
				errs = 1
			}
		}
	case "sendto", "parent", "children", "parallel", "multicast", "broadcast":
		if (entry == "sendto" && len(dests) != 1) || (entry == "parent" && len(dests) > 1) {
			return "bad-op"
		}
		tni, nodes, err := w.tni(entry, dests)
		if err != nil {
			w.cs.Fail("harness", err.Error())
			return "harness-error"
		}
		m := &fix.M3{V: int(w.seq)}
		call = func() { errs = c09entry(tni, entry, nodes, m) }
	default:
		return "bad-op"
	}
	t0 := time.Now()
	patience := w.allowed(len(dests), n)
	if !w.guarded(patience, "send-exceeds-configured-timeouts",
		fmt.Sprintf("entry %s towards %v (the configured time-outs allow %v per connect)", entry, dests, w.perConnect()), call) {
		return "blocked"
	}
	lat := time.Since(t0)
	// what the property promises: every destination that listens gets the message(s), every
	// destination where nothing listens costs an error; sequential sends stop at the first error
	wantDel := map[int]int64{}
	wantErrs := 0
	for _, d := range dests {
		if n == 0 {
			break
		}
		if w.isUp(d) {
			wantDel[d] += int64(n)
		} else {
			wantErrs++
			if entry == "children" {
				break
			}
		}
	}
	if n == 0 {
		wantErrs = 1 // "need to send at least one message"
	}
	waitFor := c09waitDeliver
	if w.cutArmed {
		waitFor = 200 * time.Millisecond
	}
	tot, all := w.awaitDeliveries(dests, before, wantDel, waitFor)
	for _, d := range dests {
		if d != 0 && w.isUp(d) && atomic.LoadInt64(&w.victim(d).got) > before[d] {
			w.victim(d).connected = true
		}
	}
	res := "ok"
	if errs > 0 {
		res = fmt.Sprintf("err:%d", errs)
	}
	if w.cutArmed {
		// a cut is armed on the connection this send uses: any answer is fine as long as it
		// comes in time; once the cut has happened the following sends are judged normally
		for _, v := range w.victims {
			if v.proxy != nil && atomic.LoadInt32(&v.proxy.fired) == 1 {
				w.cutArmed = false
			}
		}
		w.tag("send-over-cut:" + strings.SplitN(res, ":", 2)[0])
		return fmt.Sprintf("%s delivered=%d", res, tot)
	}
	w.judge(entry, fmt.Sprint(dests), errs, wantErrs, all, tot, lat)
	return fmt.Sprintf("%s delivered=%d", res, tot)
}

// judge is the property's own oracle for one entry-point call.
func (w *c09world) judge(entry, dests string, errs, wantErrs int, all bool, tot int64, lat time.Duration) {
	if errs < wantErrs {
		sig := "error-not-reported"
		if entry == "raw" {
			sig = "sendraw-error-dropped"
		}
		w.cs.Fail(sig, fmt.Sprintf("entry %s towards %s (%d of them must cost an error: nothing listens there, or the call is refused): %d errors reported", entry, dests, wantErrs, errs))
	} else if errs > wantErrs {
		w.cs.Fail("spurious-error", fmt.Sprintf("entry %s towards %s: %d errors, %d expected", entry, dests, errs, wantErrs))
	}
	if !all {
		w.cs.Fail("not-delivered", fmt.Sprintf("entry %s towards %s: a listening destination did not get its message(s) within %v (total delivered %d)", entry, dests, c09waitDeliver, tot))
	}
	res := "ok"
	if errs > 0 {
		res = "err"
	}
	if wantErrs > 0 {
		// measured and reported (it ends up in the outcome key of the case), never compared
		w.tag("dead-peer-send-latency" + c09latency(lat))
	}
	w.tag(fmt.Sprintf("send:%s:%s:down=%d", entry, res, c09bucketN(wantErrs)))
}

// c09entry calls one protocol-facing entry point and returns the number of errors it handed back.
func c09entry(tni *onet.TreeNodeInstance, entry string, nodes []*onet.TreeNode, m interface{}) int {
	switch entry {
	case "sendto":
		var to *onet.TreeNode
		if len(nodes) > 0 {
			to = nodes[0]
		}
		if tni.SendTo(to, m) != nil {
			return 1
		}
	case "parent":
		if tni.SendToParent(m) != nil {
			return 1
		}
	case "children":
		if tni.SendToChildren(m) != nil {
			return 1
		}
	case "parallel":
		return len(tni.SendToChildrenInParallel(m))
	case "multicast":
		return len(tni.Multicast(m, nodes...))
	case "broadcast":
		return len(tni.Broadcast(m))
	}
	return 0
}

// C09Unhandled is a registered message type nobody has a processor for.
type C09Unhandled struct{ V int64 }

var c09unhandledOnce sync.Once

// selfsend: Router.Send of n messages to the own identity; bad >= 0: message number bad is of a type the
// survivor's dispatcher has no processor for (the call must end there with an error, what came before stays dispatched).
func (w *c09world) selfsend(n, bad int) string {
	c09unhandledOnce.Do(func() { network.RegisterMessage(&C09Unhandled{}) })
	var ms []network.Message
	for i := 0; i < n; i++ {
		if i == bad {
			ms = append(ms, &C09Unhandled{V: 1})
			continue
		}
		ms = append(ms, &C09Msg{V: atomic.AddInt64(&w.seq, 1)})
	}
	before := atomic.LoadInt64(&w.selfGot)
	var err error
	if !w.guarded(w.allowed(1, n), "send-exceeds-configured-timeouts", "a send of the survivor to itself", func() {
		_, err = w.s.Send(w.s.ServerIdentity, ms...)
	}) {
		return "blocked"
	}
	got := atomic.LoadInt64(&w.selfGot) - before // dispatched in the caller's goroutine: nothing to wait for
	wantGot := int64(n)
	if bad >= 0 {
		wantGot = int64(bad)
	}
	if (n == 0 || bad >= 0) != (err != nil) {
		sig := "spurious-error"
		if err == nil {
			sig = "error-not-reported"
		}
		w.cs.Fail(sig, fmt.Sprintf("a send of %d message(s) of the survivor to itself (undispatchable message: %d) returned %v", n, bad, err))
	}
	if got != wantGot {
		w.cs.Fail("not-delivered", fmt.Sprintf("a send of %d message(s) of the survivor to itself (undispatchable message: %d) dispatched %d", n, bad, got))
	}
	w.tag("selfsend")
	if err != nil {
		return fmt.Sprintf("err:1 delivered=%d", got)
	}
	return fmt.Sprintf("ok delivered=%d", got)
}

// c09port gives victim n of this process a fixed TCP port outside the ephemeral range, so that a
// stopped victim's address stays silent (nobody else binds it) and a restart can bind it again.
func c09port(n int) int {
	return 10000 + c09portBlock()*16 + n
}

var (
	c09blockOnce sync.Once
	c09block     int
	c09blockFile *os.File // kept open: the lock lives as long as the process
)

// c09portBlock reserves a block of 16 port numbers for this process machine-wide (an exclusive lock on a file per
// block, released by the kernel when the process ends). Several C09 harnesses run at the same time on this machine
// (checks, seed verification); with the block derived from the process id alone two case processes whose ids agree
// modulo 1200 shared their victims' ports, and a peer that is down in one case was listening in the other: a send
// "towards a dead peer" then succeeded (false alarm error-not-reported, notes/FALSE_ALARMS.md).
func c09portBlock() int {
	c09blockOnce.Do(func() {
		start := os.Getpid() % 1200
		c09block = start
		dir := "/var/tmp/onetverif-c09-ports"
		if os.MkdirAll(dir, 0777) != nil {
			return
		}
		for i := 0; i < 1200; i++ {
			b := (start + i) % 1200
			f, err := os.OpenFile(fmt.Sprintf("%s/%d.lock", dir, b), os.O_CREATE|os.O_RDWR, 0666)
			if err != nil {
				return
			}
			if syscall.Flock(int(f.Fd()), syscall.LOCK_EX|syscall.LOCK_NB) == nil {
				c09block, c09blockFile = b, f
				return
			}
			f.Close()
		}
	})
	return c09block
}

// par: sends towards dead peers are in progress (each keeps dialling for a while) when a send
// to a healthy peer, with which S has no connection yet, is made. The failures must not hold the
// healthy send back: it has to be through before the first of the doomed sends gives up.
func (w *c09world) par(entry string, deads []int, healthy int) string {
	if healthy <= 0 || len(deads) == 0 {
		return "bad-op"
	}
	hv := w.victim(healthy)
	obs := ""
	for attempt := 1; ; attempt++ {
		o, held, msg := w.parOnce(entry, deads, healthy)
		if attempt == 1 {
			obs = o
		}
		if w.dead || w.cs.Oracle == "fail" || !held {
			break
		}
		if attempt == 3 {
			w.cs.Fail("healthy-send-held-back", msg+" (three times out of three)")
			break
		}
		// once more, with the healthy peer unknown to S again: it restarts, S notices and drops
		// the connection (neither is visible to the model: the table ends up as after one first
		// contact, handler calls are attributed to the operation that asks for them)
		w.tag("par-repeated")
		w.stop(hv)
		w.waitNoConn(hv.sid.GetID(), c09waitHandlers)
		if err := w.start(hv); err != nil {
			w.cs.Fail("harness", err.Error())
			break
		}
	}
	return obs
}

func (w *c09world) parOnce(entry string, deads []int, healthy int) (obs string, held bool, heldMsg string) {
	hv := w.victim(healthy)
	before := atomic.LoadInt64(&hv.got)
	var finished, errs int32
	var wg sync.WaitGroup
	// trees and instances are prepared first: the overlay's bookkeeping is not what is measured
	var jobs []func() bool
	for _, d := range deads {
		d := d
		if entry == "sendto" {
			tni, nodes, err := w.tni("sendto", []int{d})
			if err != nil {
				w.cs.Fail("harness", err.Error())
				return "harness-error", false, ""
			}
			jobs = append(jobs, func() bool { return tni.SendTo(nodes[0], &fix.M3{V: 1}) != nil })
		} else {
			// identities are resolved here: the victim table is not for concurrent use
			si := w.sid(d)
			if entry == "router" {
				jobs = append(jobs, func() bool {
					_, err := w.s.Send(si, &C09Msg{V: atomic.AddInt64(&w.seq, 1)})
					return err != nil
				})
			} else {
				jobs = append(jobs, func() bool {
					return w.svc.ctx.SendRaw(si, &C09Msg{V: atomic.AddInt64(&w.seq, 1)}) != nil
				})
			}
		}
	}
	hsi := w.sid(healthy)
	nDead := 0
	for _, d := range deads {
		if !w.isUp(d) {
			nDead++
		}
	}
	var herr error
	var hlat, total time.Duration
	var doneBefore int32
	if !w.guarded(w.allowed(len(deads)+1, 1), "send-exceeds-configured-timeouts",
		fmt.Sprintf("%d concurrent %s sends towards dead peers %v and a send to healthy peer %d", len(deads), entry, deads, healthy), func() {
			t0 := time.Now()
			for _, j := range jobs {
				j := j
				wg.Add(1)
				go func() {
					defer wg.Done()
					if j() {
						atomic.AddInt32(&errs, 1)
					}
					atomic.AddInt32(&finished, 1)
				}()
			}
			time.Sleep(100 * time.Millisecond)
			t1 := time.Now()
			_, herr = w.s.Send(hsi, &C09Msg{V: atomic.AddInt64(&w.seq, 1)})
			hlat = time.Since(t1)
			doneBefore = atomic.LoadInt32(&finished)
			wg.Wait()
			total = time.Since(t0)
		}) {
		return "blocked", false, ""
	}
	end := time.Now().Add(c09waitDeliver)
	delivered := atomic.LoadInt64(&hv.got) - before
	for delivered < 1 && herr == nil && time.Now().Before(end) {
		time.Sleep(500 * time.Microsecond)
		delivered = atomic.LoadInt64(&hv.got) - before
	}
	hres := "ok"
	if herr != nil {
		hres = "err:1"
	}
	if w.isUp(healthy) && delivered > 0 {
		hv.connected = true
	}
	if int(errs) < nDead {
		w.cs.Fail("error-not-reported", fmt.Sprintf("%d concurrent %s sends towards dead peers %v: %d errors reported", len(deads), entry, deads, errs))
	}
	if herr != nil || delivered < 1 {
		w.cs.Fail("not-delivered", fmt.Sprintf("the send to healthy peer %d made while sends to dead peers %v were in progress: error %v, delivered %d", healthy, deads, herr, delivered))
	} else if !w.tcp && doneBefore > 0 && total > 300*time.Millisecond {
		// on the in-memory transport a doomed connect keeps trying for about half a second; the
		// healthy send started 100 ms after them and needs no more than a dial
		held = true
		heldMsg = fmt.Sprintf("the send to healthy peer %d returned after %v, when %d of the %d sends to dead peers %v had already given up (they take %v): it waited for them", healthy, hlat, doneBefore, len(deads), deads, total)
	}
	w.tag(fmt.Sprintf("par:%s:dead=%d", entry, c09bucketN(nDead)))
	w.tag("par-healthy-latency" + c09latency(hlat))
	return fmt.Sprintf("err:%d|%s delivered=%d", errs, hres, delivered), held, heldMsg
}

// orphan: see the operation list. Not compared with the model.
func (w *c09world) orphan(x, k int) string {
	ov := w.lt.Overlays[w.s.ServerIdentity.ID]
	ov2 := w.lt.Overlays[w.s2.ServerIdentity.ID]
	// the canary run: S2 is the root, S its child; both know the tree; one message warms it up
	ro := onet.NewRoster([]*network.ServerIdentity{w.s2.ServerIdentity, w.s.ServerIdentity})
	t, nodes := fix.BuildTree(ro, []int{-1, 0}, []int{0, 1})
	ov.RegisterTree(t)
	pi, err := ov2.CreateProtocol(fix.ProtoName, t, onet.NilServiceID)
	if err != nil {
		w.cs.Fail("harness", err.Error())
		return "harness-error"
	}
	rootTok := pi.(interface{ Token() *onet.Token }).Token()
	root := fix.RecOf(rootTok)
	if root == nil {
		w.cs.Fail("harness", "no recorder for the canary root")
		return "harness-error"
	}
	w.tnis = append(w.tnis, root.Tni)
	childTok := rootTok.ChangeTreeNodeID(nodes[1].ID)
	w.s2toks = append(w.s2toks, childTok)
	c0 := atomic.LoadInt64(&c09canary)
	if err := root.Tni.SendTo(nodes[1], &fix.M3{V: 0}); err != nil {
		w.cs.Fail("harness", "canary warm-up: "+err.Error())
		return "harness-error"
	}
	for end := time.Now().Add(c09waitDeliver); atomic.LoadInt64(&c09canary) == c0 && time.Now().Before(end); {
		time.Sleep(time.Millisecond)
	}
	if atomic.LoadInt64(&c09canary) == c0 {
		w.cs.Fail("not-delivered", fmt.Sprintf("the canary warm-up message was not handled within %v", c09waitDeliver))
		return "no-canary"
	}
	var got int64
	for attempt := 1; attempt <= 3; attempt++ {
		// the orphan: first message of a run over a tree only x knows (a new tree every time: S asks
		// for a tree once); x is dead and S has no connection with it, so S's tree request has to dial
		xo := onet.NewRoster([]*network.ServerIdentity{w.sid(x), w.s.ServerIdentity})
		xt, xn := fix.BuildTree(xo, []int{-1, 0}, []int{0, 1})
		round := uuid.New()
		env, err := fix.Envelope(w.sid(x), fix.TokenFor(xt, xn[0], round), fix.TokenFor(xt, xn[1], round), &fix.M3{V: 7})
		if err != nil {
			w.cs.Fail("harness", err.Error())
			return "harness-error"
		}
		c1 := atomic.LoadInt64(&c09canary)
		t0 := time.Now()
		var procDone int64
		go func() {
			ov.Process(env)
			atomic.StoreInt64(&procDone, int64(time.Since(t0))+1)
		}()
		time.Sleep(100 * time.Millisecond)
		for i := 0; i < k; i++ {
			root.Tni.SendTo(nodes[1], &fix.M3{V: i + 1})
		}
		var canaryDone time.Duration
		for end := time.Now().Add(c09waitDeliver); time.Now().Before(end); {
			if atomic.LoadInt64(&c09canary)-c1 >= int64(k) {
				canaryDone = time.Since(t0)
				break
			}
			time.Sleep(time.Millisecond)
		}
		for end := time.Now().Add(w.allowed(1, 1)); atomic.LoadInt64(&procDone) == 0 && time.Now().Before(end); {
			time.Sleep(time.Millisecond)
		}
		pd := time.Duration(atomic.LoadInt64(&procDone))
		got = atomic.LoadInt64(&c09canary) - c1
		held := false
		switch {
		case pd == 0:
			w.cs.Fail("hang", fmt.Sprintf("handling the orphan message of dead peer did not return within %v", w.allowed(1, 1)))
			w.dead = true
		case got < int64(k):
			w.cs.Fail("not-delivered", fmt.Sprintf("%d of %d canary messages handled within %v", got, k, c09waitDeliver))
		case pd > 300*time.Millisecond && canaryDone >= pd:
			held = true
			if attempt == 3 {
				w.cs.Fail("canary-held-back", fmt.Sprintf("S spent %v trying to reach dead peer %d for a tree; the %d canary messages of another run, sent 100 ms after that began, were only handled after %v (three times out of three)", pd, x, k, canaryDone))
			}
		}
		if attempt == 1 {
			w.tag("orphan-canary-latency" + c09latency(canaryDone-100*time.Millisecond))
		}
		if !held || w.cs.Oracle == "fail" {
			break
		}
		w.tag("orphan-repeated")
	}
	w.tag("orphan")
	return fmt.Sprintf("handled canaries=%d", got)
}

func c09latency(d time.Duration) string {
	switch {
	case d < 50*time.Millisecond:
		return "<50ms"
	case d < 200*time.Millisecond:
		return "<200ms"
	case d < time.Second:
		return "<1s"
	case d < 3*time.Second:
		return "<3s"
	}
	return ">=3s"
}

// canaryCount is the number of protocol messages the second survivor's overlay handed to the
// recording protocol so far.
func (w *c09world) canaryCount() int64 { return atomic.LoadInt64(&c09canary) }

var c09canary int64

// callsSince returns the handler calls logged from index from on.
func (w *c09world) callsSince(from int) []string {
	w.mu.Lock()
	defer w.mu.Unlock()
	if from > len(w.calls) {
		from = len(w.calls)
	}
	return append([]string{}, w.calls[from:]...)
}

// down: how the victim is lost — "stop" (its router stops), "freeze" (silent link), "hang" (its
// process stops answering, its address keeps accepting).
func (w *c09world) down(p int, how string) string {
	v := w.victim(p)
	had := v.connected && v.up && !v.frozen
	mark := v.callMark
	w.mu.Lock()
	opStart := len(w.calls)
	w.mu.Unlock()
	patience := c09waitHandlers
	noticesBefore := int64(0)
	for _, q := range w.rhPeer {
		noticesBefore += w.gotAt(q)
	}
	rhOutBefore := atomic.LoadInt64(&w.rhOut)
	switch how {
	case "freeze":
		// nothing is closed: only the read time-out of S's connection can reveal the loss
		v.silent.freeze()
		v.frozen = true
		patience = c09waitSilent
	case "hang":
		// the process stops (its connections end) and its address goes on accepting
		w.stop(v)
		hd, err := c09hold("127.0.0.1:" + v.own.Address.Port())
		if err != nil {
			w.cs.Fail("harness", err.Error())
			return "harness-error"
		}
		v.holder = hd
	default:
		w.stop(v)
	}
	want := 0
	if had {
		want = len(w.handlers)
	}
	// calls about p since this incarnation began (S may have noticed before it was asked), calls
	// about anybody else made while this operation runs
	about := func() (mine, others []string) {
		for i, c := range w.callsSince(mark) {
			if strings.HasSuffix(c, ">"+strconv.Itoa(p)) {
				mine = append(mine, c)
			} else if mark+i >= opStart {
				others = append(others, c)
			}
		}
		return
	}
	for end := time.Now().Add(patience); time.Now().Before(end); {
		if mine, _ := about(); len(mine) >= want {
			break
		}
		time.Sleep(500 * time.Microsecond)
	}
	calls, others := about()
	nrh := 0
	for _, hd := range w.handlers {
		if _, ok := w.rh[hd]; ok {
			nrh++
		}
	}
	if had && nrh > 0 {
		// handlers that use the router: each has to come back from it
		back := w.allowed(1, 1) // they send to healthy peers: no more than one connect
		if back > 12*time.Second {
			back = 12 * time.Second
		}
		for end := time.Now().Add(back); time.Now().Before(end); {
			if atomic.LoadInt64(&w.rhOut)-rhOutBefore >= int64(nrh) {
				break
			}
			time.Sleep(500 * time.Microsecond)
		}
		if back := atomic.LoadInt64(&w.rhOut) - rhOutBefore; back < int64(nrh) && len(calls) >= want {
			w.cs.Fail("handler-blocked-in-router", fmt.Sprintf("peer %d was lost and S's error handlers were called (%v); %d of the %d handlers that use the router they are registered with (Closed(), Send to a healthy peer) have not come back from it", p, calls, int64(nrh)-back, nrh))
			w.dead = true
		}
	}
	// the deferred clean-up of the receive loop (close, remove from the table) follows the handlers
	if had && !w.dead && !w.paused {
		w.waitNoConn(v.sid.GetID(), patience)
	}
	if !w.dead {
		time.Sleep(5 * time.Millisecond)
	}
	calls, others = about()
	v.connected = false
	w.mu.Lock()
	v.callMark = len(w.calls)
	w.mu.Unlock()
	if had {
		// the property's own oracle: every handler is told, with the lost peer's identity
		for _, hd := range w.handlers {
			found := false
			for _, c := range calls {
				if c == fmt.Sprintf("%d>%d", hd, p) {
					found = true
				}
			}
			if !found {
				what := map[string]string{"stop": "stopped", "freeze": "went silent without closing its connections", "hang": "stopped answering"}[how]
				w.cs.Fail("handler-not-told", fmt.Sprintf("peer %d %s; error handler %d was not called for it within %v; calls: %v", p, what, hd, patience, calls))
			}
		}
	}
	if len(others) > 0 && !w.silentClass {
		w.cs.Fail("handler-wrong-peer", fmt.Sprintf("peer %d was lost, handler calls about other peers: %v", p, others))
	}
	w.tag(fmt.Sprintf("%s:calls=%d", how, c09bucketN(len(calls))))
	obs := "-"
	if len(calls) > 0 {
		obs = strings.Join(calls, ",")
	}
	if len(w.rh) > 0 {
		// the notices of the handlers that use the router
		wantN := int64(0)
		if had {
			wantN = int64(nrh)
		}
		var n int64
		for end := time.Now().Add(c09waitDeliver); !w.dead; {
			n = -noticesBefore
			for _, q := range w.rhPeer {
				n += w.gotAt(q)
			}
			if n >= wantN || !time.Now().Before(end) {
				break
			}
			time.Sleep(500 * time.Microsecond)
		}
		if n < wantN && !w.dead {
			w.cs.Fail("not-delivered", fmt.Sprintf("peer %d was lost; %d of the %d notices its error handlers sent to healthy peers arrived within %v", p, n, wantN, c09waitDeliver))
		}
		for _, q := range w.rhPeer {
			if q != 0 && w.isUp(q) && n > 0 {
				w.victim(q).connected = true
			}
		}
		w.tag("notices")
		obs += fmt.Sprintf(" notices=%d", n)
	}
	return obs
}

func (w *c09world) addHandler(hd int, notify int) {
	var nsi *network.ServerIdentity
	if notify >= 0 {
		nsi = w.sid(notify)
		w.rh[hd] = nsi
		w.rhPeer[hd] = notify
	}
	w.handlers = append(w.handlers, hd)
	w.s.AddErrorHandler(func(si *network.ServerIdentity) {
		who := "?"
		w.vmu.Lock()
		for n, v := range w.victims {
			if si != nil && si.Public != nil && v.kp.Public.Equal(si.Public) {
				who = strconv.Itoa(n)
			}
		}
		w.vmu.Unlock()
		if si != nil && w.s2.ServerIdentity.Public.Equal(si.Public) {
			who = "0"
		}
		w.mu.Lock()
		w.calls = append(w.calls, fmt.Sprintf("%d>%s", hd, who))
		w.mu.Unlock()
		if nsi != nil {
			// what a handler is there for: look at the router, tell somebody
			atomic.AddInt64(&w.rhIn, 1)
			if !w.s.Closed() {
				w.s.Send(nsi, &C09Msg{V: atomic.AddInt64(&w.seq, 1)})
			}
			atomic.AddInt64(&w.rhOut, 1)
		}
	})
}

func c09exec(c *h.Ctx, cs *h.Case) {
	log.SetDebugVisible(0)
	log.OutputToBuf()
	if c.Workdir != "" {
		os.Setenv("CONODE_SERVICE_PATH", c.Workdir)
	}
	w := &c09world{cs: cs, c: c, victims: map[int]*c09victim{}, tags: map[string]bool{},
		rh: map[int]*network.ServerIdentity{}, rhPeer: map[int]int{}, ptni: map[int]*c09ptni{}, trees: map[int]*c09tree{},
		raws: map[int][]*c09raw{}, rawNext: map[int]int{}}
	defer w.close()
	cs.NoModel = strings.HasPrefix(cs.Class, "cut") || strings.HasPrefix(cs.Class, "orphan")
	for _, op := range cs.Ops {
		if w.dead {
			cs.Impl = append(cs.Impl, "blocked")
			continue
		}
		tk := strings.Fields(op)
		obs := "bad-op"
		switch {
		case len(tk) == 3 && tk[1] == "herr":
			obs = c09herr(cs, tk[2])
			w.tag("herr")
		case len(tk) == 4 && tk[1] == "open" && (tk[2] == "tcp" || tk[2] == "local" || tk[2] == "tls") && w.s == nil:
			if ups, ok := c09ints(tk[3]); ok {
				w.useProxy = strings.HasPrefix(cs.Class, "cut")
				w.silentClass = strings.HasPrefix(cs.Class, "silent") && tk[2] == "tcp"
				if w.silentClass || (strings.HasPrefix(cs.Class, "recvloop-timeout") && tk[2] == "tcp") {
					w.oldTimeout = network.VerifSetReadTimeout(1500 * time.Millisecond)
				}
				obs = w.open(tk[2], ups)
			}
		case w.s == nil:
		case len(tk) == 3 && tk[1] == "handler":
			if hd, err := strconv.Atoi(tk[2]); err == nil {
				w.addHandler(hd, -1)
				obs = "ok"
			}
		case len(tk) == 4 && tk[1] == "rhandler":
			hd, err1 := strconv.Atoi(tk[2])
			q, err2 := strconv.Atoi(tk[3])
			if err1 == nil && err2 == nil && q > 0 {
				w.addHandler(hd, q)
				obs = "ok"
				w.tag("rhandler")
			}
		case len(tk) == 5 && tk[1] == "send":
			dests, ok := c09ints(tk[3])
			n, err := strconv.Atoi(tk[4])
			for _, d := range dests {
				// a raw peer reads nothing the survivor sends
				ok = ok && len(w.raws[d]) == 0
			}
			if ok && err == nil {
				obs = w.send(tk[2], dests, n)
			}
		case len(tk) == 4 && tk[1] == "svcblock":
			obs = w.svcSend(tk[2], tk[3], true)
		case len(tk) == 4 && tk[1] == "svcping":
			obs = w.svcSend(tk[2], tk[3], false)
		case len(tk) == 2 && tk[1] == "svcrelease":
			obs = w.svcRelease()
		case len(tk) == 3 && tk[1] == "stall":
			obs = w.stall(tk[2])
		case len(tk) == 4 && tk[1] == "inbound":
			obs = w.inbound(tk[2], tk[3])
		case len(tk) == 4 && tk[1] == "rawconn":
			obs = w.rawConn(tk[2], tk[3])
		case len(tk) == 5 && tk[1] == "rawev":
			obs = w.rawEv(tk[2], tk[3], tk[4])
		case len(tk) == 3 && tk[1] == "selfsend":
			if n, err := strconv.Atoi(tk[2]); err == nil && n >= 0 {
				obs = w.selfsend(n, -1)
			}
		case len(tk) == 4 && tk[1] == "selfsend":
			n, err1 := strconv.Atoi(tk[2])
			k, err2 := strconv.Atoi(tk[3])
			if err1 == nil && err2 == nil && k >= 0 && k < n && n <= 16 {
				obs = w.selfsend(n, k)
				w.tag("selfsend-undispatchable")
			}
		case len(tk) == 5 && tk[1] == "par":
			deads, ok := c09ints(tk[3])
			hp, err := strconv.Atoi(tk[4])
			if ok && err == nil && (tk[2] == "router" || tk[2] == "raw" || tk[2] == "sendto") {
				obs = w.par(tk[2], deads, hp)
			}
		case len(tk) == 4 && tk[1] == "orphan" && w.lt != nil:
			x, err1 := strconv.Atoi(tk[2])
			k, err2 := strconv.Atoi(tk[3])
			if err1 == nil && err2 == nil && x > 0 && k > 0 {
				obs = w.orphan(x, k)
			}
		case len(tk) == 3 && tk[1] == "down":
			if p, err := strconv.Atoi(tk[2]); err == nil && p > 0 {
				obs = w.down(p, "stop")
			}
		case len(tk) == 3 && tk[1] == "freeze" && w.silentClass:
			if p, err := strconv.Atoi(tk[2]); err == nil && p > 0 && w.victim(p).silent != nil && !w.victim(p).frozen {
				obs = w.down(p, "freeze")
			}
		case len(tk) == 3 && tk[1] == "hang" && w.tls:
			if p, err := strconv.Atoi(tk[2]); err == nil && p > 0 && w.victim(p).up {
				obs = w.down(p, "hang")
			}
		case len(tk) == 2 && tk[1] == "pause":
			w.s.Pause()
			w.paused = true
			obs = "ok"
			w.tag("pause")
		case len(tk) == 3 && tk[1] == "kill":
			if p, err := strconv.Atoi(tk[2]); err == nil && p > 0 {
				w.stop(w.victim(p))
				obs = "-"
				w.tag("kill")
			}
		case len(tk) == 3 && tk[1] == "up":
			if p, err := strconv.Atoi(tk[2]); err == nil && p > 0 {
				v := w.victim(p)
				if v.holder != nil {
					v.holder.close()
					v.holder = nil
				}
				if v.frozen {
					v.silent.closeAll()
					if err := v.silent.listen(); err != nil {
						cs.Fail("harness", err.Error())
						obs = "harness-error"
					} else {
						v.frozen, v.connected = false, false
						w.mu.Lock()
						v.callMark = len(w.calls)
						w.mu.Unlock()
						obs = "ok"
					}
				} else if v.up {
					obs = "ok"
				} else if err := w.start(v); err != nil {
					cs.Fail("harness", err.Error())
					obs = "harness-error"
				} else {
					obs = "ok"
				}
				w.tag("up")
			}
		case len(tk) == 3 && tk[1] == "conns":
			if p, err := strconv.Atoi(tk[2]); err == nil && p >= 0 {
				n := w.connCount(w.sid(p).GetID())
				obs = strconv.Itoa(n)
				// the property's own oracle: no entry for a peer that is gone and was reported
				if p > 0 && !w.victim(p).up && len(w.raws[p]) == 0 && n > 0 && !w.paused {
					cs.Fail("stale-connection-kept", fmt.Sprintf("peer %d is down and its loss was reported, the table still holds %d connection(s) with it", p, n))
				}
				w.tag("conns:" + strconv.Itoa(c09bucketN(n)))
			}
		case len(tk) == 3 && tk[1] == "speer":
			obs = w.speer(tk[2])
		case len(tk) == 4 && (tk[1] == "orphanmsg" || tk[1] == "treesend"):
			obs = w.treeMsg(tk[1], tk[2], tk[3])
		case len(tk) == 5 && tk[1] == "backlog":
			obs = w.backlog(tk[2], tk[3], tk[4])
		case len(tk) == 5 && tk[1] == "tni":
			obs = w.tniNew(tk[2], tk[3], tk[4])
		case len(tk) == 3 && tk[1] == "tcfg":
			obs = w.tniCfg(tk[2])
		case len(tk) == 3 && tk[1] == "tdone":
			obs = w.tniDone(tk[2])
		case len(tk) == 5 && tk[1] == "tsend":
			obs = w.tniSend(tk[2], tk[3], tk[4])
		case len(tk) == 4 && tk[1] == "cut" && w.tcp:
			p, err1 := strconv.Atoi(tk[2])
			k, err2 := strconv.Atoi(tk[3])
			if err1 == nil && err2 == nil && w.victim(p).proxy != nil {
				atomic.StoreInt32(&w.victim(p).proxy.fired, 0)
				atomic.StoreInt64(&w.victim(p).proxy.cut, int64(k))
				w.cutArmed = true
				obs = "ok"
				w.tag("cut")
			}
		case len(tk) == 2 && tk[1] == "settle":
			// a cut that has happened is noticed by S's receive loop: wait for that, not for a while
			for _, v := range w.victims {
				if v.proxy != nil && atomic.LoadInt32(&v.proxy.fired) == 1 {
					// every connection S has with the victim went through the proxy; one was cut
					live := int(atomic.LoadInt32(&v.proxy.accepted)) - 1
					for end := time.Now().Add(c09waitHandlers); !w.dead && time.Now().Before(end) && w.connCount(v.sid.GetID()) > live; {
						time.Sleep(time.Millisecond)
					}
				}
			}
			time.Sleep(20 * time.Millisecond)
			obs = "ok"
		}
		cs.Impl = append(cs.Impl, obs)
	}
	var tl []string
	for t := range w.tags {
		tl = append(tl, t)
	}
	sort.Strings(tl)
	tr := "local"
	if w.tls {
		tr = "tls"
	} else if w.tcp {
		tr = "tcp"
	}
	cs.Outcome = tr + " " + strings.Join(tl, " ")
}

func init() {
	h.RegisterProp(h.Prop{Name: "c09", Gen: c09gen, Exec: c09exec, Isolate: true, Workers: 8, Timeout: 120 * time.Second})
}
