package main

// C08, round 5: the message phase of an established TLS connection.
//
//   c08 phase role=<dial|accept> suite=<ed|g1|g2> tlsv=<12|13> seq=<item;item;…>
//       the peer operated by a makes a completely honest handshake for its own key (accepting role of
//       the honest node: and declares its own identity first), then sends the sequence: m = an ordinary
//       message, i:<k>/<f> = a ServerIdentity message with the public key of k and the deprecated ID
//       field of f, x = a frame of an unregistered type. The honest node has processors for both
//       message types. Observation: hs=<ok|fail> disp=<m:<key>|i:<key>,…> - for every message that
//       reached its processor, in order, the key of the identity attached to it.
//
// Oracle: every envelope dispatched on this connection carries the key the peer proved at set-up.

import (
	"crypto/tls"
	"encoding/binary"
	"fmt"
	"net"
	"strings"
	"sync"
	"sync/atomic"
	"time"

	"go.dedis.ch/kyber/v3"
	"go.dedis.ch/onet/v3/network"
	"onetverif/harness/h"
)

type c08disp struct {
	kind string // m | i | end
	p    kyber.Point
}

var c08phaseWaiters sync.Map // token -> chan c08disp

func c08phaseNotify(tok, kind string, env *network.Envelope) {
	if strings.HasSuffix(tok, "#end") {
		tok, kind = strings.TrimSuffix(tok, "#end"), "end"
	}
	if ch, ok := c08phaseWaiters.Load(tok); ok {
		var p kyber.Point
		if env.ServerIdentity != nil {
			p = env.ServerIdentity.Public
		}
		select {
		case ch.(chan c08disp) <- c08disp{kind, p}:
		default:
		}
	}
}

// c08phaseProcessors: on every honest node, a processor for ServerIdentity messages (none is
// registered by onet itself: an identity sent after set-up is a message like any other).
func c08phaseProcessors(r *network.Router) {
	r.RegisterProcessorFunc(network.ServerIdentityType, func(env *network.Envelope) error {
		if si, ok := env.Msg.(*network.ServerIdentity); ok {
			c08phaseNotify(si.Description, "i", env)
		}
		return nil
	})
}

type c08item struct {
	kind string // m | i | x
	k, f string
}

func c08phaseParse(tk []string) (role, suite, tlsv string, items []c08item, ok bool) {
	m, ok := c08kv(tk, "role", "suite", "tlsv", "seq")
	if !ok || !c08in(m["role"], "dial", "accept") || !c08in(m["suite"], "ed", "g1", "g2") || !c08in(m["tlsv"], "12", "13") {
		return "", "", "", nil, false
	}
	for _, it := range strings.Split(m["seq"], ";") {
		p := strings.Split(it, ":")
		switch {
		case len(p) == 1 && (p[0] == "m" || p[0] == "x"):
			items = append(items, c08item{kind: p[0]})
		case len(p) == 2 && p[0] == "i":
			kf := strings.Split(p[1], "/")
			if len(kf) != 2 || !c08isKey(kf[0]) || !c08isKey(kf[1]) {
				return "", "", "", nil, false
			}
			items = append(items, c08item{"i", kf[0], kf[1]})
		default:
			return "", "", "", nil, false
		}
	}
	if len(items) > 12 {
		return "", "", "", nil, false
	}
	return m["role"], m["suite"], m["tlsv"], items, true
}

// c08writeItems sends the sequence and the end marker over an established connection.
func c08writeItems(c net.Conn, w *c08world, items []c08item, tok string) error {
	for _, it := range items {
		switch it.kind {
		case "m":
			if err := c08writeMsg(c, &C08Msg{Tok: tok}); err != nil {
				return err
			}
		case "i":
			si := network.NewServerIdentity(w.keys[it.k].Public, network.NewTLSAddress("127.0.0.1:7"))
			si.ID = network.NewServerIdentity(w.keys[it.f].Public, "").GetID()
			si.Description = tok
			if err := c08writeMsg(c, si); err != nil {
				return err
			}
		default:
			b := append(c08rand(16), 1, 2, 3)
			c.SetWriteDeadline(time.Now().Add(3 * time.Second))
			if err := binary.Write(c, binary.BigEndian, uint32(len(b))); err != nil {
				return err
			}
			if _, err := c.Write(b); err != nil {
				return err
			}
		}
	}
	return c08writeMsg(c, &C08Msg{Tok: tok + "#end"})
}

func c08phase(tk []string, cs *h.Case) (string, string) {
	role, suite, tlsv, items, ok := c08phaseParse(tk)
	if !ok {
		return "bad-op", ""
	}
	hn := c08node0(suite)
	w := c08newWorld(suite, hn.kp)
	tok := fmt.Sprintf("p%d", atomic.AddInt64(&c08tokens, 1))
	ch := make(chan c08disp, 32)
	c08phaseWaiters.Store(tok, ch)
	defer c08phaseWaiters.Delete(tok)
	// the honest description of a peer operated by a, naming and proving its own key
	d := c08desc{role: role, suite: suite, tlsv: tlsv, op: "a", them: "-", ncerts: 1, der: "ok", signedby: "self", time: "ok",
		uris: "new:a", cn: "new:a", sig: "a/cur/new:a", nonce: "ok", id: "a", via: "key", live: "none", decoy: "none"}
	hs, note := "fail", ""
	if role == "accept" {
		cfg := &tls.Config{
			InsecureSkipVerify: true,
			ServerName:         string(c08peerNonce("ok")),
			GetClientCertificate: func(req *tls.CertificateRequestInfo) (*tls.Certificate, error) {
				if len(req.AcceptableCAs) == 0 {
					return nil, fmt.Errorf("honest listener sent no nonce")
				}
				return w.cert(d, req.AcceptableCAs[0], nil, nil)
			},
		}
		c08versions(cfg, tlsv)
		conn, err := tls.DialWithDialer(&net.Dialer{Timeout: 3 * time.Second}, "tcp", hn.addr, cfg)
		if err != nil {
			return "hs=fail disp=-", c08class(err.Error())
		}
		defer conn.Close()
		hs = "ok"
		me := network.NewServerIdentity(w.keys["a"].Public, network.NewTLSAddress("127.0.0.1:7"))
		if err := c08writeMsg(conn, me); err != nil {
			note = "write identity: " + err.Error()
		} else if err := c08writeItems(conn, w, items, tok); err != nil {
			note = "write: " + err.Error()
		}
	} else {
		d.them, d.id = "a", "-"
		srv, err := c08startServer(w, d, tok)
		if err != nil {
			cs.Fail("harness", err.Error())
			return "harness-error", ""
		}
		defer srv.close()
		srv.mu.Lock()
		srv.seq = items
		srv.mu.Unlock()
		them := network.NewServerIdentity(w.keys["a"].Public, network.NewTLSAddress(srv.addr()))
		if _, err := hn.r.Send(them, &C08Msg{Tok: "out-" + tok}); err != nil {
			return "hs=fail disp=-", c08class(err.Error())
		}
		hs = "ok"
	}
	var disp []string
	bad := ""
	deadline := time.After(5 * time.Second)
collect:
	for {
		select {
		case x := <-ch:
			if x.kind == "end" {
				break collect
			}
			l := w.label(x.p)
			disp = append(disp, x.kind+":"+l)
			if l != "a" && bad == "" {
				bad = x.kind + ":" + l
			}
		case <-deadline:
			note += " (no end marker within 5 s)"
			break collect
		}
	}
	obs := "hs=" + hs + " disp=-"
	if len(disp) > 0 {
		obs = "hs=" + hs + " disp=" + strings.Join(disp, ",")
	}
	if bad != "" {
		cs.Fail(fmt.Sprintf("dispatched-under-unproven-key:phase:%s:%s:tls%s", role, suite, tlsv),
			fmt.Sprintf("the peer proved key a at set-up; after the sequence %q a message was dispatched with the key of %s attached (%s)", strings.Join(tk, " "), strings.Split(bad, ":")[1], strings.Join(disp, ",")))
	}
	return obs, note
}

// c08pre: `c08 pre suite=<ed|g1|g2> addr=<tls|tcp|local> priv=<yes|no>` - NewTLSConn of a fresh node, with or
// without its private key, towards the honest node addressed as a TLS, plain TCP or in-memory address
// (tls.go:472-478: nothing is sent unless the address is a TLS address and the private key is there).
func c08pre(tk []string, cs *h.Case) (string, string) {
	m, ok := c08kv(tk, "suite", "addr", "priv")
	if !ok || !c08in(m["suite"], "ed", "g1", "g2") || !c08in(m["addr"], "tls", "tcp", "local") || !c08in(m["priv"], "yes", "no") {
		return "bad-op", ""
	}
	hn := c08node0(m["suite"])
	w := c08newWorld(m["suite"], hn.kp)
	us := network.NewServerIdentity(w.keys["v"].Public, network.NewTLSAddress("127.0.0.1:7"))
	if m["priv"] == "yes" {
		us.SetPrivate(w.keys["v"].Private)
	}
	addr := network.NewTLSAddress(hn.addr)
	switch m["addr"] {
	case "tcp":
		addr = network.NewTCPAddress(hn.addr)
	case "local":
		addr = network.NewLocalAddress(hn.addr)
	}
	them := network.NewServerIdentity(hn.kp.Public, addr)
	conn, err := network.NewTLSConn(us, them, hn.suite)
	if err == nil {
		conn.Close()
		if m["addr"] != "tls" || m["priv"] != "yes" {
			cs.Fail("link-without-means-to-prove:"+m["addr"]+":"+m["priv"], "NewTLSConn established a link although the address is no TLS address or the node has no private key")
		}
		return "pre=ok link=ok", ""
	}
	switch {
	case strings.Contains(err.Error(), "not a tls server"):
		return "pre=not-tls link=fail", ""
	case strings.Contains(err.Error(), "private key is not set"):
		return "pre=no-private link=fail", ""
	}
	return "pre=ok link=fail", c08class(err.Error())
}
