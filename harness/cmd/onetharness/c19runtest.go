package main

import (
	"bytes"
	"encoding/hex"
	"encoding/json"
	"errors"
	"flag"
	"fmt"
	"net"
	"strconv"
	"strings"
	"time"

	"go.dedis.ch/onet/v3/simul"
	"go.dedis.ch/onet/v3/simul/monitor"
	"go.dedis.ch/onet/v3/simul/platform"
)

// C19, the driver's side of a run: simul.RunTest (simul/build.go) makes the result sets, the monitor and its
// buckets, starts Listen, starts the platform, waits for it and hands the result sets to RunTests, which writes
// them.  The op
//
//	c19 runtest <gname> <hosts> <bf> <depth> <buckets|-> <parts>
//
// runs the real RunTest over a platform made here: Start connects one reporting connection per part to the
// monitor's port, writes the part's records (one JSON record per measure, what measure.go's encoder writes) in
// one piece and closes; Wait returns at once — the simulated processes have exited, what they measured is in the
// sockets.  <buckets>: groups separated by ';', each the hex-coded rules of one bucket separated by ','
// (RunConfig field "buckets": buckets separated by blanks, rules by '-').  <parts>: connections separated by ';',
// each '-' or records name/bits/host separated by ','.  Afterwards the result sets are known as <gname> and
// <gname>b<i> (free result sets: RunTest's monitor is gone).
//
// Oracle of its own (signature results-before-monitor-drained): at the moment RunTest returns, every result set
// holds exactly the measures recorded for it.  The later read-outs are compared as for every other class.

type c19platform struct {
	port  int
	parts [][]byte
	errs  chan error
}

func (p *c19platform) Configure(*platform.Config)       {}
func (p *c19platform) Build(string, ...string) error    { return nil }
func (p *c19platform) Cleanup() error                   { return nil }
func (p *c19platform) Deploy(*platform.RunConfig) error { return nil }
func (p *c19platform) Wait() error                      { return nil }
func (p *c19platform) Start(args ...string) error {
	// RunTest starts Listen in a routine of its own: the port may not be bound yet
	addr := net.JoinHostPort("127.0.0.1", strconv.Itoa(p.port))
	var conns []net.Conn
	for range p.parts {
		var c net.Conn
		var err error
		deadline := time.Now().Add(3 * time.Second)
		for {
			c, err = net.Dial("tcp", addr)
			if err == nil || time.Now().After(deadline) {
				break
			}
			time.Sleep(200 * time.Microsecond)
		}
		if err != nil {
			for _, o := range conns {
				o.Close()
			}
			return err
		}
		conns = append(conns, c)
	}
	// the property is about runs in which every process has connected before the first one exits (Listen returns as
	// soon as all connections accepted so far have gone: c19_listen_late_client_not_served): wait until Listen
	// serves them all
	m := monitor.VerifLastMonitor()
	for deadline := time.Now().Add(5 * time.Second); m.VerifConns() < len(conns) && time.Now().Before(deadline); {
		time.Sleep(50 * time.Microsecond)
	}
	if m.VerifConns() < len(conns) {
		// not this run's monitor behind the port (somebody else bound it first): try again on another port
		for _, o := range conns {
			o.Close()
		}
		return errors.New("c19: the monitor is not serving the connections (port taken)")
	}
	// every process writes what it measured and exits, one after the other: the monitor has read a connection to
	// its end (Listen has removed it) before the next process writes, so the arrival order — which the running mean
	// and deviation depend on in their last bits — is the order of the connections.  The last process is not waited
	// for: when Wait returns its measures are still in the socket.
	for i, c := range conns {
		if len(p.parts[i]) > 0 {
			if _, err := c.Write(p.parts[i]); err != nil {
				return err
			}
		}
		c.Close()
		if i < len(conns)-1 {
			left := len(conns) - 1 - i
			for deadline := time.Now().Add(5 * time.Second); m.VerifConns() > left && time.Now().Before(deadline); {
				time.Sleep(50 * time.Microsecond)
			}
		}
	}
	return nil
}

func c19freePort() int {
	ln, err := net.Listen("tcp", "127.0.0.1:0")
	if err != nil {
		return 0
	}
	defer ln.Close()
	return ln.Addr().(*net.TCPAddr).Port
}

type c19rec struct {
	name string
	x    float64
	host int
}

func c19parseParts(s string) ([][]c19rec, bool) {
	var out [][]c19rec
	for _, part := range strings.Split(s, ";") {
		var l []c19rec
		if part != "-" {
			for _, r := range strings.Split(part, ",") {
				f := strings.Split(r, "/")
				if len(f) != 3 || f[0] == "" {
					return nil, false
				}
				x, ok := c19parseBits(f[1])
				h, err := strconv.Atoi(f[2])
				if !ok || err != nil || !c19intRe.MatchString(f[2]) {
					return nil, false
				}
				l = append(l, c19rec{f[0], x, h})
			}
		}
		out = append(out, l)
	}
	return out, true
}

func c19posInt(s string) bool {
	n, err := strconv.Atoi(s)
	return err == nil && n > 0 && strconv.Itoa(n) == s
}

// c19runTest executes one runtest op; it returns the observation
func (e *c19env) runTest(tk []string, fail func(sig, msg string)) string {
	gname := tk[2]
	if e.mon != nil || !c19posInt(tk[3]) || !c19posInt(tk[4]) || !c19posInt(tk[5]) {
		return "bad-op"
	}
	parts, ok := c19parseParts(tk[7])
	if !ok {
		return "bad-op"
	}
	var groups [][]string
	if tk[6] != "-" {
		for _, g := range strings.Split(tk[6], ";") {
			var rules []string
			for _, hx := range strings.Split(g, ",") {
				b, err := hex.DecodeString(hx)
				if err != nil {
					return "bad-op"
				}
				rules = append(rules, string(b))
			}
			groups = append(groups, rules)
		}
	}
	bname := func(i int) string { return gname + "b" + strconv.Itoa(i) }
	if _, dup := e.stats[gname]; dup {
		return "bad-op"
	}
	for i := range groups {
		if _, dup := e.stats[bname(i)]; dup {
			return "bad-op"
		}
	}
	var parsed [][]c19rule
	for _, g := range groups {
		var pr []c19rule
		for _, r := range g {
			// a rule the configuration field cannot carry, or that does not parse: RunTest would drop the bucket
			// silently (InsertBucket has no result); not generated, refused by harness and model alike
			p, ok := c19oracleRule(r)
			if !ok || strings.ContainsAny(r, "- \t\"'") {
				return "err"
			}
			pr = append(pr, p)
		}
		parsed = append(parsed, pr)
	}
	rc := platform.NewRunConfig()
	rc.Put("hosts", tk[3])
	rc.Put("bf", tk[4])
	rc.Put("depth", tk[5])
	rc.Put("runwait", "6s")
	static := [][2]string{{"hosts", tk[3]}, {"bf", tk[4]}}
	if len(groups) > 0 {
		var bs []string
		for _, g := range groups {
			bs = append(bs, strings.Join(g, "-"))
		}
		rc.Put("buckets", strings.Join(bs, " "))
		static = append(static, [2]string{"buckets", strings.Join(bs, " ")})
	}
	static = append(static, [2]string{"depth", tk[5]}, [2]string{"runwait", "6s"})
	pf := &c19platform{}
	for _, l := range parts {
		var buf bytes.Buffer
		enc := json.NewEncoder(&buf)
		for _, r := range l {
			enc.Encode(c19wire{Name: r.name, Value: r.x, Host: r.host})
		}
		pf.parts = append(pf.parts, buf.Bytes())
	}
	var stats []*monitor.Stats
	var err error
	for try := 0; try < 4; try++ {
		pf.port = c19freePort()
		if flag.Set("mport", strconv.Itoa(pf.port)) != nil {
			return "bad-op"
		}
		stats, err = simul.RunTest(pf, rc)
		if err == nil || !(strings.Contains(err.Error(), "refused") || strings.Contains(err.Error(), "port taken")) {
			break
		}
	}
	if err != nil {
		fail("runtest-error", "simul.RunTest: "+err.Error())
		return "err"
	}
	if len(stats) != 1+len(groups) {
		fail("runtest-sets", fmt.Sprintf("RunTest returned %d result sets for %d buckets", len(stats), len(groups)))
		return "sets"
	}
	e.stats[gname], e.names[stats[0]], e.static[gname] = stats[0], gname, static
	for i := range groups {
		e.stats[bname(i)], e.names[stats[1+i]], e.static[bname(i)] = stats[1+i], bname(i), static
	}
	// what the property says is recorded: every record but the end markers, for the global set and for every
	// bucket one of whose rules holds the record's host
	for _, l := range parts {
		for _, r := range l {
			if strings.ToLower(r.name) == "end" {
				continue
			}
			e.record(gname, r.name, r.x)
			if r.host < 0 {
				continue
			}
			for i, rules := range parsed {
				for _, ru := range rules {
					if int64(r.host) >= ru.lo && int64(r.host) < ru.hi {
						e.record(bname(i), r.name, r.x)
						break
					}
				}
			}
		}
	}
	e.nRunTest++
	// the result sets at the moment RunTest hands them over
	for i, s := range stats {
		sn := gname
		if i > 0 {
			sn = bname(i - 1)
		}
		if got, want := s.VerifCount(), e.count(sn); got != want {
			fail("results-before-monitor-drained", fmt.Sprintf("RunTest returned result set %q holding %d of the %d measures recorded for it", sn, got, want))
			return "incomplete"
		}
	}
	return "ok"
}
