package main

import (
	"net"
	"sync"
	"sync/atomic"
	"time"
)

// Network stand-ins of the C09 harness: what sits between the survivor and a TCP/TLS victim, or in
// the victim's place.

// c09proxy sits between S and a TCP victim; it can cut the next connection after k bytes.
type c09proxy struct {
	ln     net.Listener
	target string
	cut    int64 // < 0: pass everything
	fired  int32 // the armed cut has happened
	// connections accepted so far
	accepted int32
}

func (p *c09proxy) serve() {
	for {
		c, err := p.ln.Accept()
		if err != nil {
			return
		}
		atomic.AddInt32(&p.accepted, 1)
		go func(c net.Conn) {
			s, err := net.DialTimeout("tcp", p.target, time.Second)
			if err != nil {
				c.Close()
				return
			}
			budget := atomic.SwapInt64(&p.cut, -1)
			done := make(chan bool, 2)
			go func() {
				buf := make([]byte, 4096)
				for {
					n, err := c.Read(buf)
					if n > 0 {
						if budget >= 0 && int64(n) >= budget {
							s.Write(buf[:budget])
							atomic.StoreInt32(&p.fired, 1)
							break
						}
						if budget >= 0 {
							budget -= int64(n)
						}
						if _, werr := s.Write(buf[:n]); werr != nil {
							break
						}
					}
					if err != nil {
						break
					}
				}
				done <- true
			}()
			go func() {
				buf := make([]byte, 4096)
				for {
					n, err := s.Read(buf)
					if n > 0 {
						if _, werr := c.Write(buf[:n]); werr != nil {
							break
						}
					}
					if err != nil {
						break
					}
				}
				done <- true
			}()
			<-done
			c.Close()
			s.Close()
		}(c)
	}
}

// c09silent is the network between S and a TCP victim in class "silent": it forwards until it is
// frozen; then nothing listens at the victim's address any more, the victim's side of every
// connection is closed, and S's side stays open and silent — a peer that lost power or was cut off.
type c09silent struct {
	addr, target string
	mu           sync.Mutex
	ln           net.Listener
	frozen       bool
	held         []net.Conn
}

func (p *c09silent) listen() error {
	var err error
	for i := 0; i < 100; i++ {
		var ln net.Listener
		if ln, err = net.Listen("tcp", p.addr); err == nil {
			p.mu.Lock()
			p.ln, p.frozen = ln, false
			p.mu.Unlock()
			go p.serve(ln)
			return nil
		}
		time.Sleep(20 * time.Millisecond)
	}
	return err
}

func (p *c09silent) serve(ln net.Listener) {
	for {
		c, err := ln.Accept()
		if err != nil {
			return
		}
		s, err := net.DialTimeout("tcp", p.target, time.Second)
		if err != nil {
			c.Close()
			continue
		}
		p.mu.Lock()
		p.held = append(p.held, c, s)
		p.mu.Unlock()
		go func() { // S -> victim; when frozen, swallow
			buf := make([]byte, 4096)
			for {
				n, err := c.Read(buf)
				if n > 0 {
					s.Write(buf[:n])
				}
				if err != nil {
					break
				}
			}
			c.Close()
			s.Close()
		}()
		go func() { // victim -> S
			buf := make([]byte, 4096)
			for {
				n, err := s.Read(buf)
				if n > 0 {
					c.Write(buf[:n])
				}
				if err != nil {
					break
				}
			}
			p.mu.Lock()
			fr := p.frozen
			p.mu.Unlock()
			if !fr {
				c.Close()
			}
			s.Close()
		}()
	}
}

func (p *c09silent) freeze() {
	p.mu.Lock()
	p.frozen = true
	if p.ln != nil {
		p.ln.Close()
	}
	held := p.held
	p.mu.Unlock()
	for i := 1; i < len(held); i += 2 {
		held[i].Close() // the victim's side
	}
}

func (p *c09silent) closeAll() {
	p.mu.Lock()
	if p.ln != nil {
		p.ln.Close()
	}
	held := p.held
	p.held = nil
	p.mu.Unlock()
	for _, c := range held {
		c.Close()
	}
}

// c09holder stands at a victim's address while the victim's process is frozen (stopped, dead-locked,
// behind a balancer that still accepts): the kernel accepts connections, nobody ever reads, writes
// or closes.
type c09holder struct {
	ln   net.Listener
	mu   sync.Mutex
	held []net.Conn
}

func c09hold(addr string) (*c09holder, error) {
	var ln net.Listener
	var err error
	for i := 0; i < 200; i++ {
		if ln, err = net.Listen("tcp", addr); err == nil {
			break
		}
		time.Sleep(20 * time.Millisecond)
	}
	if err != nil {
		return nil, err
	}
	hd := &c09holder{ln: ln}
	go func() {
		for {
			c, err := ln.Accept()
			if err != nil {
				return
			}
			hd.mu.Lock()
			hd.held = append(hd.held, c)
			hd.mu.Unlock()
		}
	}()
	return hd, nil
}

func (hd *c09holder) close() {
	hd.ln.Close()
	hd.mu.Lock()
	for _, c := range hd.held {
		c.Close()
	}
	hd.held = nil
	hd.mu.Unlock()
}
