package main

import (
	"fmt"
	"strconv"
	"strings"
	"sync"
	"time"

	"go.dedis.ch/onet/v3/network"
	"onetverif/harness/fix"
	"onetverif/harness/h"
)

// C10, op `srvclosedur` (round 7; seeded C10r7-B): a second Server.Close DURING the first. A processor of the
// server's router (blocking dispatcher: it runs in the receive routine) is inside a delivery and does not return;
// the first Close therefore waits in Router.Stop; a second Close is made meanwhile. Clause: when ANY Close call
// returns, the server is closed — so the second call must not return while the delivery runs, the client-side port
// is bound or the database is open (model: lean/OnetVerif/Model/C10Closers.lean, c10_any_close_return_means_closed).
// The only timed wait is the one second the second call is given to return too early.

type C10CdMsg struct{ I int64 }

var (
	c10cdOnce sync.Once
	c10cdType network.MessageTypeID
)

func c10closeDuring(cs *h.Case, cl *fix.Cluster) string {
	c10cdOnce.Do(func() { c10cdType = network.RegisterMessage(&C10CdMsg{}) })
	srv := cl.Servers[0]
	entered, release := make(chan bool, 1), make(chan bool)
	srv.RegisterProcessorFunc(c10cdType, func(*network.Envelope) error {
		entered <- true
		<-release
		return nil
	})
	if _, err := cl.Servers[1].Send(srv.ServerIdentity, &C10CdMsg{I: 1}); err != nil {
		cs.Fail("harness", "cannot send to the server: "+err.Error())
		return "harness-error"
	}
	select {
	case <-entered:
	case <-time.After(5 * time.Second):
		cs.Fail("harness", "the message was not delivered within 5 s")
		return "harness-error"
	}
	done1, done2 := make(chan bool), make(chan bool)
	go func() { srv.Close(); close(done1) }()
	for i := 0; i < 5000 && !srv.Router.Closed(); i++ {
		time.Sleep(time.Millisecond)
	}
	if !srv.Router.Closed() {
		close(release)
		cs.Fail("harness", "the first Close did not reach Router.Stop")
		return "harness-error"
	}
	go func() { srv.Close(); close(done2) }()
	early := false
	select {
	case <-done2:
		early = true
		// the property's own oracle, at the return of the SECOND call
		var held []string
		held = append(held, "a delivery (its processor has not returned, its receive routine runs)")
		if pp, err := strconv.Atoi(srv.ServerIdentity.Address.Port()); err == nil && c10ownListen(pp+1) {
			held = append(held, fmt.Sprintf("the client-side port %d", pp+1))
		}
		if _, open := srv.VerifC10DbState(); open {
			held = append(held, "its database (still open)")
		}
		cs.Fail("close-returned-before-closed", "a second Server.Close, made while the first was waiting in Router.Stop, returned while the server still held: "+strings.Join(held, "; "))
	case <-done1:
		early = true
		cs.Fail("close-returned-before-closed", "Server.Close returned while a delivery was in flight (its processor has not returned)")
	case <-time.After(time.Second):
	}
	close(release)
	for i, d := range []chan bool{done1, done2} {
		select {
		case <-d:
		case <-time.After(8 * time.Second):
			cs.Fail("hang:close", fmt.Sprintf("overlapping Server.Close call %d did not return within 8 s after the delivery was over", i+1))
			return "hang"
		}
	}
	return fmt.Sprintf("second-early=%v both=ret", early)
}
