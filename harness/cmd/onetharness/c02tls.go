package main

import (
	"fmt"
	"net"
	"strconv"
	"strings"
	"sync"
	"time"

	"go.dedis.ch/kyber/v3/util/key"
	"go.dedis.ch/onet/v3/network"
	"onetverif/harness/fix"
	"onetverif/harness/h"
)

// C02, the set-up of a connection on a TLS listener (Router.receiveServerIdentity): a peer that holds the key of
// member k completes the mutual handshake with that key and then announces, as the first message, the identity of
// member a. The identity the receiving router stamps on the envelopes of that connection — the one
// createValueAndVerify compares the claimed sender's server with — must be the key the handshake proved.

var (
	c02tlsOnce sync.Once
	c02tlsErr  error
	c02tlsKeys []*key.Pair
	c02tlsR    *network.Router
	c02tlsRid  *network.ServerIdentity
	c02tlsMu   sync.Mutex
	c02tlsSeen = map[int]chan *network.ServerIdentity{}
)

func c02tlsSetup() error {
	c02tlsOnce.Do(func() {
		for i := 0; i < 5; i++ {
			c02tlsKeys = append(c02tlsKeys, key.NewKeyPair(fix.Suite))
		}
		kp := key.NewKeyPair(fix.Suite)
		id := network.NewServerIdentity(kp.Public, network.NewTLSAddress("127.0.0.1:0"))
		id.SetPrivate(kp.Private)
		host, err := network.NewTCPHost(id, fix.Suite)
		if err != nil {
			c02tlsErr = err
			return
		}
		_, port, err := net.SplitHostPort(host.Address().NetworkAddress())
		if err != nil {
			c02tlsErr = err
			return
		}
		id.Address = network.NewTLSAddress("127.0.0.1:" + port)
		r := network.NewRouter(id, host)
		r.Quiet = true
		r.RegisterProcessorFunc(c02markerType, func(env *network.Envelope) error {
			if m, ok := env.Msg.(*c02Marker); ok {
				c02tlsMu.Lock()
				ch := c02tlsSeen[m.N]
				c02tlsMu.Unlock()
				if ch != nil {
					ch <- env.ServerIdentity
				}
			}
			return nil
		})
		go r.Start()
		for dl := time.Now().Add(5 * time.Second); !r.Listening() && time.Now().Before(dl); time.Sleep(time.Millisecond) {
		}
		c02tlsR, c02tlsRid = r, id
	})
	return c02tlsErr
}

func c02tlsIdent(i int, addr string) *network.ServerIdentity {
	kp := c02tlsKeys[i]
	id := network.NewServerIdentity(kp.Public, network.NewTLSAddress(addr))
	id.Description = "member " + strconv.Itoa(i)
	return id
}

func c02tlsExec(c *h.Ctx, cs *h.Case) {
	if err := c02tlsSetup(); err != nil {
		cs.Impl = append(cs.Impl, "setup-failed")
		cs.Fail("setup-failed", err.Error())
		return
	}
	stamped := 0
	for _, op := range cs.Ops {
		tk := strings.Fields(op)
		if len(tk) != 5 || tk[1] != "tls" {
			cs.Impl = append(cs.Impl, "bad-op")
			continue
		}
		k, err1 := strconv.Atoi(tk[2])
		aTok, addrOf := tk[3], -1
		if i := strings.Index(aTok, "a"); i > 0 {
			addrOf, _ = strconv.Atoi(aTok[i+1:])
			aTok = aTok[:i]
		}
		a, err2 := strconv.Atoi(aTok)
		n, err3 := strconv.Atoi(tk[4])
		if err1 != nil || err2 != nil || err3 != nil || k >= len(c02tlsKeys) || a >= len(c02tlsKeys) || addrOf >= len(c02tlsKeys) {
			cs.Impl = append(cs.Impl, "bad-op")
			continue
		}
		us := c02tlsIdent(k, fmt.Sprintf("127.0.0.1:%d", 7000+k))
		us.SetPrivate(c02tlsKeys[k].Private)
		conn, err := network.NewTLSConn(us, c02tlsRid, fix.Suite)
		if err != nil {
			cs.Impl = append(cs.Impl, "dial-failed")
			cs.Fail("dial-failed", err.Error())
			return
		}
		ai := a
		if addrOf >= 0 {
			ai = addrOf
		}
		announce := c02tlsIdent(a, fmt.Sprintf("127.0.0.1:%d", 7000+ai))
		ch := make(chan *network.ServerIdentity, 1)
		c02tlsMu.Lock()
		c02tlsSeen[n] = ch
		c02tlsMu.Unlock()
		closed := make(chan struct{})
		conn.Send(announce)
		conn.Send(&c02Marker{n})
		go func() {
			// the receiver never writes on this connection: Receive returns when it closes it
			conn.Receive()
			close(closed)
		}()
		obs := ""
		select {
		case si := <-ch:
			idx := -1
			for i, kp := range c02tlsKeys {
				if si != nil && si.Public != nil && si.Public.Equal(kp.Public) {
					idx = i
				}
			}
			obs = "stamped:" + strconv.Itoa(idx)
			stamped++
			if idx != k {
				cs.Fail("unauthenticated-identity-stamped", fmt.Sprintf("a peer that proved the key of member %d in the TLS handshake and announced the identity of member %d had its message stamped with the identity of member %d", k, a, idx))
			}
		case <-closed:
			obs = "refused"
			if a == k {
				cs.Fail("honest-connection-refused", fmt.Sprintf("member %d announcing its own identity was refused", k))
			}
		case <-time.After(10 * time.Second):
			obs = "hang"
			cs.Fail("hang", "neither the marker nor the end of the connection within 10 s after "+op)
		}
		conn.Close()
		c02tlsMu.Lock()
		delete(c02tlsSeen, n)
		c02tlsMu.Unlock()
		cs.Impl = append(cs.Impl, obs)
	}
	cs.Outcome = fmt.Sprintf("tls stamped=%d/%d", stamped, len(cs.Ops))
}

// c02tlsGen: every (proved key, announced identity) pair over four members, alone and in sequences
func c02tlsGen(c *h.Ctx, yield func(*h.Case)) {
	n := 0
	for k := 0; k < 4; k++ {
		for a := 0; a < 4; a++ {
			for _, form := range []string{"%d", "%da%d"} {
				n++
				an := fmt.Sprintf(form, a, k)
				if form == "%d" {
					an = strconv.Itoa(a)
				}
				c.Count("class=tls")
				yield(&h.Case{Class: "tls", Ops: []string{fmt.Sprintf("c02 tls %d %s %d", k, an, n)}})
			}
		}
	}
	for i := 0; i < c.Pick(10, 200); i++ {
		cs := &h.Case{Class: "tls sequence"}
		for j := 0; j < 2+c.Rng.Intn(5); j++ {
			n++
			k, a := c.Rng.Intn(4), c.Rng.Intn(4)
			if c.Rng.Intn(2) == 0 {
				a = k
			}
			cs.Ops = append(cs.Ops, fmt.Sprintf("c02 tls %d %d %d", k, a, n))
		}
		c.Count("class=tls sequence")
		yield(cs)
	}
}
