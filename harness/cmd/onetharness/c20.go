package main

import (
	"encoding/hex"
	"fmt"
	"math/big"
	"net"
	"net/url"
	"regexp"
	"strconv"
	"strings"
	"unicode"
	"unicode/utf8"

	"go.dedis.ch/onet/v3"
	"go.dedis.ch/onet/v3/network"
	"onetverif/harness/h"
)

// C20: address parsing is total and self-consistent. Every op carries its
// inputs as hex byte strings; the real accessors of network.Address, GlobalBind,
// getListenAddress and getWSHostPort (through verif-tagged wrappers) are
// called on them, the canonical result is compared with the Lean model, and the
// property's own oracle (an independent parse written here, against the
// documented definition) is evaluated on what the implementation returned.

func c20unhex(s string) (string, bool) {
	if s == "-" {
		return "", true
	}
	b, err := hex.DecodeString(s)
	if err != nil {
		return "", false
	}
	return string(b), true
}

func c20hex(s string) string { return h.Hex([]byte(s)) }

func c20b(b bool) string {
	if b {
		return "1"
	}
	return "0"
}

// c20docHostname is the documented definition of a well-formed host name
// (comment of validHostname), written without the regular expression.
func c20docHostname(hn string) bool {
	if hn == "" {
		return false
	}
	s := strings.ToLower(hn)
	s = strings.TrimSuffix(s, ".") // one trailing dot does not count
	if len(s) > 253 {
		return false
	}
	labels := strings.Split(s, ".")
	for _, l := range labels {
		if len(l) < 1 || len(l) > 63 {
			return false
		}
	}
	if len(labels) == 1 {
		return true // "also returns true if the string doesn't have any '.' in it"
	}
	for i, l := range labels {
		for j := 0; j < len(l); j++ {
			ch := l[j]
			letter := ch >= 'a' && ch <= 'z'
			digit := ch >= '0' && ch <= '9'
			if i == len(labels)-1 {
				if !letter {
					return false
				}
				continue
			}
			if !(letter || digit || ch == '-') {
				return false
			}
			if ch == '-' && (j == 0 || j == len(l)-1) {
				return false
			}
		}
	}
	return true
}

var c20portRe = regexp.MustCompile(`^[+-]?[0-9]+$`)

// c20indep is the independent parse of the property statement: known type,
// separator, host:port with host empty / IP / well-formed name and port in range.
func c20indep(s string) (ok bool, t, na, host, port, why string) {
	i := strings.Index(s, "://")
	if i < 0 {
		return false, "", "", "", "", "nosep"
	}
	t, na = s[:i], s[i+3:]
	if strings.Contains(na, "://") {
		return false, "", "", "", "", "manysep"
	}
	if t != "tcp" && t != "tls" && t != "local" {
		return false, "", "", "", "", "type"
	}
	hh, pp, err := net.SplitHostPort(na)
	if err != nil {
		return false, "", "", "", "", "hostport"
	}
	if !c20portRe.MatchString(pp) {
		return false, "", "", "", "", "port-syntax"
	}
	v, _ := new(big.Int).SetString(pp, 10)
	if v == nil || v.Sign() < 0 || v.Cmp(big.NewInt(65535)) > 0 {
		return false, "", "", "", "", "port-range"
	}
	kind := ""
	switch {
	case hh == "":
		kind = "emptyhost"
	case net.ParseIP(hh) != nil:
		if strings.Contains(hh, ":") {
			kind = "ipv6"
		} else {
			kind = "ipv4"
		}
	case c20docHostname(hh):
		if strings.Contains(strings.TrimSuffix(hh, "."), ".") {
			kind = "dnsname"
		} else {
			kind = "dotfree"
		}
	default:
		return false, "", "", "", "", "host"
	}
	return true, t, na, hh, pp, kind
}

// c20private: the documented private ranges ("192.168.**,10.***,127.***,172.16-31.**,169.254.**,^::1,^fd.{0,2}:")
// applied to a resolved network address (host:port, a host with a colon in brackets), written
// without the regular expression.
func c20private(nar string) bool {
	for _, p := range []string{"127.", "10.", "192.168.", "169.254", "[::1]"} {
		if strings.HasPrefix(nar, p) {
			return true
		}
	}
	if strings.HasPrefix(nar, "172.") {
		f := strings.SplitN(nar[4:], ".", 2)
		if len(f) == 2 && len(f[0]) == 2 && f[0][0] >= '1' && f[0][0] <= '3' && f[0][1] >= '0' && f[0][1] <= '9' {
			n, _ := strconv.Atoi(f[0])
			return n >= 16 && n <= 31
		}
		return false
	}
	if strings.HasPrefix(nar, "[fd") {
		rest := nar[3:]
		for k := 0; k <= 2; k++ {
			if strings.HasPrefix(rest, ":") {
				return true
			}
			if rest == "" || rest[0] == '\n' {
				return false
			}
			_, w := utf8.DecodeRuneInString(rest)
			rest = rest[w:]
		}
	}
	return false
}

func c20res(s string, err error) string {
	if err != nil {
		return "err"
	}
	return "ok " + c20hex(s)
}

type c20url struct {
	parsed, abs            bool
	scheme, port, hostname string
}

func c20parseURL(u string) c20url {
	p, err := url.Parse(u)
	if err != nil {
		return c20url{}
	}
	return c20url{true, p.IsAbs(), p.Scheme, p.Port(), p.Hostname()}
}

func c20exec(c *h.Ctx, cs *h.Case) {
	var outs []string
	for _, op := range cs.Ops {
		tk := strings.Fields(op)
		obs := "bad-op"
		if len(tk) >= 3 && tk[0] == "c20" {
			obs = c20op(cs, tk[1:], &outs)
		}
		cs.Impl = append(cs.Impl, obs)
	}
	cs.Outcome = strings.Join(outs, ",")
}

func c20op(cs *h.Case, tk []string, outs *[]string) string {
	arg := func(i int) (string, bool) {
		if i >= len(tk) {
			return "", false
		}
		return c20unhex(tk[i])
	}
	out := func(s string) { *outs = append(*outs, s) }
	switch {
	case tk[0] == "addr" && len(tk) == 2:
		s, ok := arg(1)
		if !ok {
			return "bad-op"
		}
		a := network.Address(s)
		v := a.Valid()
		ct, na, ho, po, ih := a.ConnType(), a.NetworkAddress(), a.Host(), a.Port(), a.IsHostname()
		re := network.NewAddress(ct, na)
		// the property's oracle
		iv, it, ina, iho, ipo, why := c20indep(s)
		switch {
		case a.String() != s:
			cs.Fail("string", fmt.Sprintf("Address(%q).String() = %q", s, a.String()))
		case v != iv:
			cs.Fail("valid-vs-independent-parse", fmt.Sprintf("Valid(%q) = %v, the independent parse says %v (%s)", s, v, iv, why))
		case v:
			if string(ct) != it || na != ina || ho != iho || po != ipo {
				cs.Fail("accessor-vs-parts", fmt.Sprintf("%q: accessors (%q,%q,%q,%q), parts (%q,%q,%q,%q)", s, ct, na, ho, po, it, ina, iho, ipo))
			} else if string(re) != s {
				cs.Fail("reassembly", fmt.Sprintf("NewAddress(ConnType, NetworkAddress) of %q gives %q", s, re))
			} else if hh, pp, err := net.SplitHostPort(na); err != nil || hh != ho || pp != po {
				cs.Fail("host-port-vs-split", fmt.Sprintf("%q: Host/Port (%q,%q), SplitHostPort(NetworkAddress) (%q,%q,%v)", s, ho, po, hh, pp, err))
			} else if ih != (why == "dnsname" || why == "dotfree") {
				cs.Fail("ishostname", fmt.Sprintf("%q: IsHostname = %v for a host of kind %s", s, ih, why))
			}
		default:
			if ct != network.InvalidConnType || na != "" || ho != "" || po != "" || ih {
				cs.Fail("invalid-nonempty-accessor", fmt.Sprintf("%q is invalid but accessors give (%q,%q,%q,%q,%v)", s, ct, na, ho, po, ih))
			}
		}
		if v {
			out("valid:" + string(ct) + ":" + why)
		} else {
			out("invalid:" + why)
		}
		return fmt.Sprintf("valid=%s type=%s na=%s host=%s port=%s ishost=%s re=%s", c20b(v), c20hex(string(ct)),
			c20hex(na), c20hex(ho), c20hex(po), c20b(ih), c20hex(string(re)))
	case tk[0] == "hostname" && len(tk) == 2:
		s, ok := arg(1)
		if !ok {
			return "bad-op"
		}
		v := network.VerifValidHostname(s)
		if d := c20docHostname(s); d != v {
			cs.Fail("hostname-vs-documented", fmt.Sprintf("validHostname(%q) = %v, the documented definition gives %v (length %d)", s, v, d, len(s)))
		}
		out("hostname:" + c20b(v))
		return c20b(v)
	case tk[0] == "ip" && len(tk) == 2:
		s, ok := arg(1)
		if !ok {
			return "bad-op"
		}
		v := net.ParseIP(s) != nil
		out("ip:" + c20b(v))
		return c20b(v)
	case tk[0] == "shp" && len(tk) == 2:
		s, ok := arg(1)
		if !ok {
			return "bad-op"
		}
		hh, pp, err := net.SplitHostPort(s)
		if err != nil {
			out("shp:err")
			return "err"
		}
		out("shp:ok")
		return "ok " + c20hex(hh) + " " + c20hex(pp)
	case tk[0] == "resolve" && len(tk) >= 3 && (tk[2] == "err" && len(tk) == 3 || tk[2] == "ok"):
		s, ok := arg(1)
		if !ok {
			return "bad-op"
		}
		var answer []string
		for i := 3; i < len(tk); i++ {
			x, ok := arg(i)
			if !ok {
				return "bad-op"
			}
			answer = append(answer, x)
		}
		fails := tk[2] == "err"
		a := network.Address(s)
		var asked []string
		lookup := func(host string) ([]string, error) {
			asked = append(asked, host)
			if fails {
				return nil, fmt.Errorf("no such host")
			}
			return answer, nil
		}
		// every call on its own: a panic (an empty answer without error) is the observation "panic"
		call := func(f func() string) (r string) {
			defer func() {
				if e := recover(); e != nil {
					r = "panic"
				}
			}()
			network.VerifWithLookupHost(lookup, func() { r = f() })
			return r
		}
		var res, nar string
		var pub bool
		obsRes := call(func() string { res = a.Resolve(); return c20hex(res) })
		n1 := len(asked)
		looked := "none"
		if n1 > 0 {
			looked = c20hex(asked[0])
		}
		obsNar := call(func() string { nar = a.NetworkAddressResolved(); return c20hex(nar) })
		n2 := len(asked)
		obsPub := call(func() string { pub = a.Public(); return c20b(pub) })
		n3 := len(asked)
		// the property's oracle (independent of the model)
		v := a.Valid()
		ho, po := a.Host(), a.Port()
		isIP := net.ParseIP(ho) != nil
		wantLookup := v && !isIP && c20docHostname(ho)
		kind := "invalid"
		switch {
		case obsRes == "panic" || obsNar == "panic" || obsPub == "panic":
			kind = "panic"
			if fails || len(answer) > 0 || !wantLookup {
				cs.Fail("panic", fmt.Sprintf("Resolve/NetworkAddressResolved/Public(%q) panics (lookup answer %q, error %v)", s, answer, fails))
			}
		case !v:
			if res != "" || nar != "" || pub || n3 != 0 {
				cs.Fail("resolve-invalid", fmt.Sprintf("%q is invalid but Resolve = %q, NetworkAddressResolved = %q, Public = %v, %d lookups", s, res, nar, pub, n3))
			}
		default:
			want := ""
			switch {
			case isIP:
				kind, want = "ip", ho
			case wantLookup && fails:
				kind = "lookup-err"
			case wantLookup:
				kind, want = "lookup", answer[0]
			default:
				kind = "nohost"
			}
			nLook := 0
			if wantLookup {
				nLook = 1
			}
			private := c20private(net.JoinHostPort(want, po))
			switch {
			case res != want || n1 != nLook || (nLook == 1 && asked[0] != ho):
				cs.Fail("resolve-vs-host", fmt.Sprintf("Resolve(%q) = %q after %d lookups %q; host %q (%s), lookup answer %q error %v", s, res, n1, asked, ho, kind, answer, fails))
			case nar != net.JoinHostPort(want, po) || n2 != 2*nLook:
				cs.Fail("resolved-address", fmt.Sprintf("NetworkAddressResolved(%q) = %q, resolved host %q port %q", s, nar, want, po))
			case pub != !private || n3 != 3*nLook:
				cs.Fail("public-vs-ranges", fmt.Sprintf("Public(%q) = %v, resolved address %q is private: %v", s, pub, net.JoinHostPort(want, po), private))
			}
			if private {
				kind += ":private"
			}
		}
		out("resolve:" + kind)
		return fmt.Sprintf("res=%s nar=%s public=%s looked=%s", obsRes, obsNar, obsPub, looked)
	case tk[0] == "lower" && len(tk) == 2:
		s, ok := arg(1)
		if !ok {
			return "bad-op"
		}
		l := strings.ToLower(s)
		var ascii []byte
		for i := 0; i < len(l); i++ {
			if l[i] < 128 {
				ascii = append(ascii, l[i])
			}
		}
		out("lower")
		return fmt.Sprintf("%d %s", len(l), h.Hex(ascii))
	case tk[0] == "gbind" && len(tk) == 2:
		s, ok := arg(1)
		if !ok {
			return "bad-op"
		}
		r, err := network.GlobalBind(s)
		if err == nil {
			hh, pp, e1 := net.SplitHostPort(r)
			_, ip, e2 := net.SplitHostPort(s)
			if e1 != nil || e2 != nil || hh != "" || pp != ip {
				cs.Fail("gbind-inconsistent", fmt.Sprintf("GlobalBind(%q) = %q", s, r))
			}
		}
		out("gbind:" + strings.Fields(c20res(r, err))[0])
		return c20res(r, err)
	case tk[0] == "listen" && len(tk) == 3:
		s, ok1 := arg(1)
		l, ok2 := arg(2)
		if !ok1 || !ok2 {
			return "bad-op"
		}
		a := network.Address(s)
		r, err := network.VerifGetListenAddress(a, l)
		kind := "err"
		if err == nil {
			hh, pp, e := net.SplitHostPort(r)
			switch {
			case e != nil || pp == "":
				cs.Fail("listen-unusable", fmt.Sprintf("getListenAddress(%q, %q) = %q, which is no host:port (%v)", s, l, r, e))
			case !a.Valid():
				cs.Fail("listen-from-invalid", fmt.Sprintf("getListenAddress(%q, %q) = %q although the address is invalid", s, l, r))
			case l == "":
				kind = "global"
				if hh != "" || pp != a.Port() {
					cs.Fail("listen-inconsistent", fmt.Sprintf("getListenAddress(%q, %q) = %q", s, l, r))
				}
			case !strings.Contains(l, ":"):
				// the bare listen host joined with the server's port ("[h]" is host h in brackets)
				kind = "host+port"
				if r != l+":"+a.Port() || pp != a.Port() || (hh != l && "["+hh+"]" != l) {
					cs.Fail("listen-inconsistent", fmt.Sprintf("getListenAddress(%q, %q) = %q", s, l, r))
				}
			default:
				kind = "own"
				if r != l || hh == "" {
					cs.Fail("listen-inconsistent", fmt.Sprintf("getListenAddress(%q, %q) = %q", s, l, r))
				}
			}
		}
		out("listen:" + kind)
		return c20res(r, err)
	case tk[0] == "ws" && (len(tk) == 4 && tk[3] == "nourl" || len(tk) == 10 && tk[3] == "url"):
		s, ok1 := arg(1)
		if !ok1 || (tk[2] != "0" && tk[2] != "1") {
			return "bad-op"
		}
		global := tk[2] == "1"
		a := network.Address(s)
		si := &network.ServerIdentity{Address: a}
		var up c20url
		if tk[3] == "url" {
			u, ok := arg(4)
			sc, ok3 := arg(7)
			po, ok4 := arg(8)
			hn, ok5 := arg(9)
			if !ok || !ok3 || !ok4 || !ok5 || u == "" {
				return "bad-op"
			}
			up = c20parseURL(u)
			if c20b(up.parsed) != tk[5] || c20b(up.abs) != tk[6] || up.scheme != sc || up.port != po || up.hostname != hn {
				return "bad-url-parts" // the op does not describe what url.Parse returns here
			}
			si.URL = u
		}
		r, err := onet.VerifGetWSHostPort(si, global)
		kind := "err"
		if err == nil {
			hh, pp, e := net.SplitHostPort(r)
			pn, e2 := strconv.Atoi(pp)
			wantHost := "0.0.0.0"
			switch {
			case e != nil || e2 != nil || pn < 0 || pn > 65535:
				cs.Fail("ws-unusable", fmt.Sprintf("getWSHostPort(%q, url %q) = %q, which is no host:port", s, si.URL, r))
			case si.URL == "":
				kind = "addr+1"
				if !global {
					wantHost = a.Host()
				}
				ap, e3 := strconv.ParseUint(a.Port(), 10, 64)
				if e3 != nil || uint64(pn) != ap+1 {
					cs.Fail("ws-port-wrap", fmt.Sprintf("getWSHostPort(%q) = %q: the port is not the address port + 1", s, r))
				} else if hh != wantHost {
					cs.Fail("ws-host", fmt.Sprintf("getWSHostPort(%q, global %v) = %q", s, global, r))
				}
			default:
				kind = "url"
				if !global {
					wantHost = up.hostname
				}
				want := map[string]int{"http": 80, "https": 443}[up.scheme]
				if up.port != "" {
					want, _ = strconv.Atoi(up.port)
				}
				if pn != want || hh != wantHost {
					cs.Fail("ws-url-inconsistent", fmt.Sprintf("getWSHostPort(url %q, global %v) = %q", si.URL, global, r))
				}
			}
		}
		out("ws:" + kind)
		return c20res(r, err)
	}
	return "bad-op"
}

// ------------------------------------------------------------------ generator

type c20gen struct {
	c *h.Ctx
}

func (g *c20gen) n(k int) int { return g.c.Rng.Intn(k) }
func (g *c20gen) pick(l ...string) string {
	return l[g.c.Rng.Intn(len(l))]
}
func (g *c20gen) chars(alpha string, n int) string {
	b := make([]byte, n)
	for i := range b {
		b[i] = alpha[g.n(len(alpha))]
	}
	return string(b)
}

const c20lab = "abcdefghijklmnopqrstuvwxyz0123456789"

func (g *c20gen) label(n int) string {
	if n <= 0 {
		return ""
	}
	s := []byte(g.chars(c20lab+"----", n))
	if g.n(10) != 0 {
		s[0] = c20lab[g.n(len(c20lab))]
		s[n-1] = c20lab[g.n(len(c20lab))]
	}
	if g.n(8) == 0 {
		s[g.n(n)] = "_ABZ *~"[g.n(7)]
	}
	return string(s)
}

func (g *c20gen) ipv4() string {
	var f []string
	n := 4
	switch g.n(12) {
	case 0:
		n = 3
	case 1:
		n = 5
	}
	for i := 0; i < n; i++ {
		switch g.n(14) {
		case 0:
			f = append(f, "0"+strconv.Itoa(g.n(256)))
		case 1:
			f = append(f, strconv.Itoa(256+g.n(800)))
		case 2:
			f = append(f, "")
		case 3:
			f = append(f, g.pick("0", "255", "00", "1a", "-1", "+1", " 1"))
		default:
			f = append(f, strconv.Itoa(g.n(256)))
		}
	}
	s := strings.Join(f, ".")
	if g.n(15) == 0 {
		s += "."
	}
	return s
}

func (g *c20gen) ipv6() string {
	ng := 8
	switch g.n(8) {
	case 0:
		ng = 7
	case 1:
		ng = 9
	case 2:
		ng = 1 + g.n(8)
	}
	var f []string
	for i := 0; i < ng; i++ {
		switch g.n(16) {
		case 0:
			f = append(f, g.chars("0123456789abcdef", 5))
		case 1:
			f = append(f, g.chars("0123456789ABCDEFg", 1+g.n(4)))
		case 2:
			f = append(f, "")
		default:
			f = append(f, g.chars("0123456789abcdef", 1+g.n(4)))
		}
	}
	// compress a run into ::
	if g.n(3) != 0 && ng >= 2 {
		i := g.n(ng)
		j := i + g.n(ng-i)
		mid := ""
		f = append(append(append([]string{}, f[:i]...), mid), f[j:]...)
		if i == 0 {
			f = append([]string{""}, f...)
		}
		if j == ng || len(f) == i+1 {
			f = append(f, "")
		}
	}
	s := strings.Join(f, ":")
	switch g.n(10) {
	case 0:
		// embedded IPv4 at the end
		k := strings.LastIndex(s, ":")
		if k >= 0 {
			s = s[:k+1] + g.ipv4()
		}
	case 1:
		s = "::ffff:" + g.ipv4()
	case 2:
		s += g.pick("%eth0", "%", "%1", ":")
	case 3:
		s = g.pick("::", "::1", "1::", "::1:2:3:4:5:6:7", "1:2:3:4:5:6:7::", "1:2:3:4:5:6:7:8", "::1:2:3:4:5:6:7:8",
			"1:2:3:4:5:6:1.2.3.4", "1:2:3:4:5:1.2.3.4", "::1.2.3.4", "1::1.2.3.4", "1:2:3:4:5:6:7:1.2.3.4", "1.2.3.4::", ":1", "1:", ":::")
	}
	return s
}

func (g *c20gen) hostname() string {
	nl := 1 + g.n(4)
	var ls []string
	for i := 0; i < nl; i++ {
		n := 1 + g.n(8)
		switch g.n(12) {
		case 0:
			n = 62 + g.n(3)
		case 1:
			n = 0
		}
		ls = append(ls, g.label(n))
	}
	if g.n(6) != 0 {
		ls[nl-1] = g.chars("abcdefghijklmnopqrstuvwxyz", len(ls[nl-1])+1)
		if g.n(12) == 0 {
			ls[nl-1] += g.pick("1", "-", "A")
		}
	}
	s := strings.Join(ls, ".")
	switch g.n(12) {
	case 0:
		s += "."
	case 1:
		s = strings.ToUpper(s)
	case 2:
		s += ".."
	case 3:
		s = "." + s
	}
	return s
}

// longname builds a name whose length (without the trailing dot) is exactly total.
func (g *c20gen) longname(total int, trailingDot bool) string {
	var ls []string
	left := total
	for left > 0 {
		n := 63
		if g.n(3) == 0 {
			n = 1 + g.n(63)
		}
		if n > left {
			n = left
		}
		if left-n == 1 { // would leave room for a dot only
			n--
			if n == 0 {
				n = 1
			}
		}
		ls = append(ls, g.chars("abcdefghijklmnopqrstuvwxyz", n))
		left -= n + 1
	}
	s := strings.Join(ls, ".")
	for len(s) < total {
		s += "a"
	}
	if len(s) > total {
		s = s[:total]
	}
	if trailingDot {
		s += "."
	}
	return s
}

func (g *c20gen) utf8host() string {
	var sb strings.Builder
	n := 1 + g.n(6)
	for i := 0; i < n; i++ {
		switch g.n(9) {
		case 0:
			sb.WriteString("K") // KELVIN SIGN, lower case 'k'
		case 1:
			sb.WriteString("İ") // lower case 'i'
		case 2:
			sb.WriteString(g.pick("Ⱥ", "ẞ", "Ω", "Å", "Ʂ", "é", "É", "Ω", "日", "\U0001F600", "\U00010400"))
		case 3:
			sb.WriteByte(byte(128 + g.n(128)))
		case 4:
			sb.WriteString(g.pick(".", ".", "-", "com", "."))
		default:
			sb.WriteString(g.chars("abcXYZ019", 1+g.n(3)))
		}
	}
	return sb.String()
}

func (g *c20gen) host() (string, string) {
	switch g.n(22) {
	case 0:
		return "", "empty"
	case 1, 2, 3:
		return g.ipv4(), "ipv4"
	case 4, 5:
		return g.ipv6(), "ipv6"
	case 6, 7, 8:
		return "[" + g.ipv6() + "]", "ipv6b"
	case 9, 10, 11, 12, 13:
		return g.hostname(), "name"
	case 14:
		return g.chars(c20lab+"-_", g.pick2(1, 62, 63, 64, 65)), "dotfree"
	case 15:
		return g.longname(g.pick2(252, 253, 254, 255), g.n(2) == 0), "longname"
	case 16:
		return g.pick("localhost", "[", "]", "a:b", "[a]x", "[a]", "[1.2.3.4]", "[localhost]", "[]", "[[::1]]", "[::1]]", "[://]", "[a://b]", "[:://:1]", "[1://2]", "a://b", "x_y", "a b", ".", "..", "a..b", "-a.b", "a-.b", "a.1", "1.a", "A.B", "%", "a%b", "1.2.3.4%x", "/", "a/b", ":"), "junk"
	case 17, 18:
		return g.utf8host(), "utf8"
	case 19:
		return "[" + g.hostname() + "]", "nameb"
	case 20:
		return g.pick("127.0.0.1", "10.0.0.1", "192.168.1.10", "0.0.0.0", "255.255.255.255", "1.2.3.4"), "ipv4"
	default:
		return g.pick("::1", "[::1]", "[::]", "[fe80::1]", "[2001:db8::68]", "[::ffff:1.2.3.4]", "[fe80::1%eth0]"), "ipv6b"
	}
}

func (g *c20gen) pick2(l ...int) int { return l[g.c.Rng.Intn(len(l))] }

func (g *c20gen) port() string {
	switch g.n(30) {
	case 0:
		return ""
	case 1:
		return g.pick("-1", "-0", "+0", "+80", "-80", "+65535", "+65536", "--1", "+-1", "+", "-")
	case 2:
		return strings.Repeat("0", 1+g.n(25)) + strconv.Itoa(g.n(70001))
	case 3:
		return g.pick("8a", " 80", "80 ", "0x50", "8_0", "80:80", ":", "１２", "80\n", "1e3")
	case 4:
		return g.pick("99999999999999999999", "9223372036854775807", "9223372036854775808", "-9223372036854775808", "-9223372036854775809", "18446744073709551616", "4294967296", "65536", "65537", "70000", "100000")
	case 5, 6, 7, 8:
		return strconv.Itoa(g.pick2(0, 1, 65533, 65534, 65535, 65536, 65535, 65534))
	default:
		return strconv.Itoa(g.n(70002) - 1)
	}
}

func (g *c20gen) address() (string, string) {
	if g.n(25) == 0 {
		// arbitrary bytes
		n := g.n(25)
		b := make([]byte, n)
		for i := range b {
			switch g.n(4) {
			case 0:
				b[i] = byte(g.n(256))
			case 1:
				b[i] = ":/.[]%-+tcpls"[g.n(13)]
			default:
				b[i] = byte(32 + g.n(95))
			}
		}
		return string(b), "bytes"
	}
	t := "tcp"
	switch g.n(12) {
	case 0, 1, 2:
		t = "tls"
	case 3, 4:
		t = "local"
	case 5:
		t = g.pick("udp", "", "TCP", "tcp:", "wrong", "Tls", "local ", " tcp", "tcp/", "http")
	}
	sp := "://"
	if g.n(20) == 0 {
		sp = g.pick(":/", "//", "://://", "", ":///", "::/", ":/:/")
	}
	ho, kind := g.host()
	if strings.HasPrefix(ho, "[") && len(ho) >= 2 && g.n(12) == 0 {
		// a second separator inside the brackets (SplitHostPort alone would accept the host)
		i := 1 + g.n(len(ho)-1)
		ho = ho[:i] + "://" + ho[i:]
		kind += "+sep"
	}
	s := t + sp + ho
	if g.n(15) != 0 {
		s += ":" + g.port()
	}
	switch g.n(40) {
	case 0:
		s += "://x"
	case 1:
		s = s + "/"
	}
	if g.n(12) == 0 && len(s) > 0 {
		// one byte mutated
		b := []byte(s)
		i := g.n(len(b))
		switch g.n(3) {
		case 0:
			b[i] = ":/.[]%-+ _"[g.n(10)]
			s = string(b)
		case 1:
			s = string(b[:i]) + string(b[i+1:])
		default:
			s = string(b[:i]) + string(":/.[]%-0a"[g.n(9)]) + string(b[i:])
		}
		kind += "~"
	}
	return s, kind
}

// goodAddress is a valid address with a port near the interesting values.
func (g *c20gen) goodAddress() string {
	ho := g.pick("", "127.0.0.1", "10.1.2.3", "localhost", "conode.example.org", "[::1]", "[2001:db8::68]", "a.b.", "h")
	var po string
	switch g.n(6) {
	case 0:
		po = strconv.Itoa(g.pick2(0, 1, 65533, 65534, 65535))
	case 1:
		po = g.pick("+80", "-0", "0080", "+65535", "65535", "65534")
	default:
		po = strconv.Itoa(g.n(65536))
	}
	return g.pick("tcp", "tls", "local") + "://" + ho + ":" + po
}

func (g *c20gen) listenAddr() string {
	switch g.n(12) {
	case 0, 1, 2:
		return ""
	case 3, 4:
		return g.pick("0.0.0.0", "127.0.0.1", "localhost", "10.0.0.7", "h", "example.org")
	case 5:
		return g.pick("[", "]", "a]", "[a", "[::1]", "::1", "[::]", "a b", "%", "[a]")
	case 6, 7:
		ho, _ := g.host()
		return ho + ":" + g.port()
	case 8:
		return g.pick(":2000", "h:", ":", "a:b", "a:b:c", "[::1]:2000", "[::1]:", "::1:2000", "0.0.0.0:7000", "h:80", "[h]:80", "[h:80", "h]:80")
	case 9:
		ho, _ := g.host()
		return ho
	default:
		return g.pick("127.0.0.1", "0.0.0.0") + ":" + strconv.Itoa(g.n(65536))
	}
}

func (g *c20gen) url() string {
	switch g.n(10) {
	case 0:
		return g.pick("://bad", "http//x", "host:80", "/path", "x", "http:", "http://", "http://h:port", "http://h:+80", "http://h:-1", "http://[::1", "ht tp://h", "http://h h", "%zz", "http://h:80:80", "http://h%41", "http://h%zz")
	case 1:
		return g.pick("ftp", "ws", "wss", "HTTP", "HTTPS", "Http", "") + "://h:" + strconv.Itoa(g.n(70000))
	}
	sc := g.pick("http", "https", "http", "https", "HTTP", "hTTps")
	ho := g.pick("h", "example.org", "127.0.0.1", "[::1]", "[2001:db8::68]", "EXAMPLE.org", "a.b.", "")
	s := sc + "://" + ho
	switch g.n(6) {
	case 0:
	case 1:
		s += ":" + g.pick("0", "65535", "65536", "99999", "080", "", "00000000000000000000000080", "18446744073709551616")
	default:
		s += ":" + strconv.Itoa(g.n(65536))
	}
	s += g.pick("", "/", "/path/x", "?q=1", "#f", "/a:b")
	return s
}

func c20wsOp(a string, global bool, u string) string {
	if u == "" {
		return fmt.Sprintf("c20 ws %s %s nourl", c20hex(a), c20b(global))
	}
	p := c20parseURL(u)
	return fmt.Sprintf("c20 ws %s %s url %s %s %s %s %s %s", c20hex(a), c20b(global), c20hex(u), c20b(p.parsed), c20b(p.abs),
		c20hex(p.scheme), c20hex(p.port), c20hex(p.hostname))
}

func c20generate(c *h.Ctx, yield func(*h.Case)) {
	g := &c20gen{c}
	one := func(class, op string) {
		c.Count("class=" + class)
		yield(&h.Case{Class: class, Ops: []string{op}})
	}
	addr := func(class, s string) {
		c.Count(fmt.Sprintf("addrlen<=%d", ((len(s)+15)/16)*16))
		one(class, "c20 addr "+c20hex(s))
	}
	// ---- corpus: witnesses of the defects found, the design probe's table, boundary cases
	one("corpus-ws-wrap", c20wsOp("tcp://10.0.0.1:65535", false, "")) // was "10.0.0.1:0"
	one("corpus-ws-wrap", c20wsOp("tls://[::1]:65535", true, ""))
	one("corpus-ws", c20wsOp("tcp://10.0.0.1:65534", false, ""))
	one("corpus-hostname-254", "c20 hostname "+c20hex(strings.Repeat("a", 63)+"."+strings.Repeat("b", 63)+"."+strings.Repeat("c", 63)+"."+strings.Repeat("d", 62)+"."))
	one("corpus-hostname-254", "c20 addr "+c20hex("tcp://"+strings.Repeat("a", 63)+"."+strings.Repeat("b", 63)+"."+strings.Repeat("c", 63)+"."+strings.Repeat("d", 62)+".:80"))
	one("corpus-listen-bracket", fmt.Sprintf("c20 listen %s %s", c20hex("tcp://1.2.3.4:80"), c20hex("[")))
	one("corpus-listen-bracket", fmt.Sprintf("c20 listen %s %s", c20hex("tcp://1.2.3.4:80"), c20hex("a]")))
	for _, t := range []string{"tcp", "tls", "local", "udp", "", "TCP", "tcp:", "wrong"} {
		for _, ho := range []string{"", "127.0.0.1", "1.2.3", "256.1.1.1", "01.2.3.4", "::1", "[::1]", "[::]", "[fe80::1%eth0]", "[1.2.3.4]",
			"localhost", "a.b", "a.b.", "a..b", "-a.b", "a-.b", "a.1", "A.B", "x_y", "K.com", "a.K", "a.İ", "[", "]", "a:b", "[a]x",
			"[://]", "[a://b]", "[:://:1]", "[::1://]", "a://b", "://",
			strings.Repeat("a", 63) + ".com", strings.Repeat("a", 64) + ".com", strings.Repeat("a", 63), strings.Repeat("a", 64),
			strings.Repeat("a.", 126) + "com", strings.Repeat("a.", 126) + "co", strings.Repeat("a.", 126) + "co.", strings.Repeat("a.", 126) + "com."} {
			if t != "tcp" && len(ho) > 20 {
				continue
			}
			for _, po := range []string{"", "0", "80", "65535", "65536", "-1", "+80", "-0", "080", "8a", "99999999999999999999"} {
				if t != "tcp" && t != "udp" && po != "80" {
					continue
				}
				addr("corpus-table", t+"://"+ho+":"+po)
			}
			addr("corpus-table", t+"://"+ho)
		}
	}
	// ---- ToLower table: every rune (thorough) or a sample (quick)
	{
		step := rune(c.Pick(97, 1))
		var sb strings.Builder
		k := 0
		for r := rune(0x80); r <= unicode.MaxRune; r += step {
			if !utf8.ValidRune(r) {
				continue
			}
			sb.WriteRune(r)
			k++
			if k == 96 {
				one("lower-table", "c20 lower "+c20hex(sb.String()))
				sb.Reset()
				k = 0
			}
		}
		for _, r := range []rune{0x130, 0x212a, 0x23a, 0x1e9e, 0xa7c5} {
			sb.WriteRune(r)
		}
		sb.WriteString("aZ\xff\xc3(\xe2\x84")
		one("lower-table", "c20 lower "+c20hex(sb.String()))
	}
	// ---- the grammar of near-valid addresses and arbitrary bytes
	for i := 0; i < c.Pick(150000, 700000); i++ {
		s, kind := g.address()
		addr("addr-"+kind, s)
	}
	// ---- host names, IP literals and host:port strings on their own
	for i := 0; i < c.Pick(30000, 120000); i++ {
		switch g.n(5) {
		case 0:
			one("hostname", "c20 hostname "+c20hex(g.hostname()))
		case 1:
			ho, kind := g.host()
			one("hostname-"+kind, "c20 hostname "+c20hex(ho))
		case 2:
			if g.n(2) == 0 {
				one("ip-v4", "c20 ip "+c20hex(g.ipv4()))
			} else {
				one("ip-v6", "c20 ip "+c20hex(g.ipv6()))
			}
		case 3:
			ho, kind := g.host()
			s := ho + ":" + g.port()
			if g.n(8) == 0 {
				s = ho
			}
			one("shp-"+kind, "c20 shp "+c20hex(s))
		default:
			ho, kind := g.host()
			one("gbind-"+kind, "c20 gbind "+c20hex(ho+":"+g.port()))
		}
	}
	// ---- listen addresses: server address x listen override
	for i := 0; i < c.Pick(20000, 80000); i++ {
		a := g.goodAddress()
		class := "listen-valid"
		if g.n(5) == 0 {
			a, _ = g.address()
			class = "listen-any"
		}
		one(class, fmt.Sprintf("c20 listen %s %s", c20hex(a), c20hex(g.listenAddr())))
	}
	// ---- resolution and public/private: address x answer of the DNS lookup
	resolveOp := func(a string, fails bool, answer []string) string {
		if fails {
			return "c20 resolve " + c20hex(a) + " err"
		}
		op := "c20 resolve " + c20hex(a) + " ok"
		for _, x := range answer {
			op += " " + c20hex(x)
		}
		return op
	}
	answers := []string{"10.1.2.3", "8.8.8.8", "127.0.0.1", "128.0.0.1", "172.16.0.9", "172.15.0.9", "172.31.255.1", "172.32.0.1",
		"172.2.0.1", "172.20.1", "192.168.0.1", "192.169.0.1", "169.254.0.1", "169.2541", "169.253.0.1", "1.10.0.1", "::1", "::2", "0:0:0:0:0:0:0:1",
		"fd00::1", "fd:1::", "fda:1::", "fdab:1::", "fdabc:1::", "FD00::1", "fe80::1", "fd\u00e9\u00e9:1", "fd\u00e9\u00e9\u00e9:1", "fd\n:1", "fd\xff:1",
		"", "[fd00::1]", "[::1]", "::1]x:", "localhost", "a:b"}
	for _, a := range []string{"tcp://localhost:80", "tls://a.b.:7770", "tcp://10.0.0.1:80", "tcp://11.0.0.1:80", "tcp://[::1]:80", "tcp://[::]:80",
		"tcp://[fd00::1]:80", "tcp://[FD00::1]:1", "tcp://[fe80::1]:1", "tcp://[fd:1::]:1", "tcp://[fdab:1::]:1", "tcp://:80", "tcp://172.16.0.1:1",
		"tcp://172.15.0.1:1", "tcp://172.31.0.1:1", "tcp://172.32.0.1:1", "tcp://169.254.1.1:1", "tcp://192.168.1.1:1", "tcp://192.169.1.1:1",
		"tcp://127.0.0.1:1", "tcp://128.0.0.1:1", "local://127.0.0.1:2000", "udp://a.b:80", "tcp://a.b:65536", "tcp://x_y:1", "tcp://A.B:1", "tcp://a..b:1", "a.b:80", ""} {
		one("corpus-resolve", resolveOp(a, true, nil))
		one("corpus-resolve", resolveOp(a, false, nil)) // an empty answer without error: the code indexes it
		for _, x := range answers {
			one("corpus-resolve", resolveOp(a, false, []string{x, "9.9.9.9"}))
		}
	}
	for i := 0; i < c.Pick(20000, 100000); i++ {
		a := g.goodAddress()
		class := "resolve-valid"
		if g.n(6) == 0 {
			a, _ = g.address()
			class = "resolve-any"
		}
		switch g.n(8) {
		case 0:
			one(class+"-err", resolveOp(a, true, nil))
		case 1:
			one(class+"-v4", resolveOp(a, false, []string{g.ipv4()}))
		case 2:
			one(class+"-v6", resolveOp(a, false, []string{g.ipv6(), g.ipv4()}))
		case 3:
			// near the private ranges
			x := g.pick("10.", "127.", "172.", "192.168.", "169.254", "192.16", "17", "1") + g.chars("0123456789.", g.n(8))
			one(class+"-near", resolveOp(a, false, []string{x}))
		case 4:
			x := g.pick("fd", "fd", "fc", "FD", "f", "::1", "[fd") + g.chars("0123456789abcdef:\n]\xc3\xa9", g.n(7))
			one(class+"-near6", resolveOp(a, false, []string{x}))
		default:
			one(class+"-table", resolveOp(a, false, []string{answers[g.n(len(answers))]}))
		}
	}
	// ---- websocket host:port: server address x global x explicit URL
	for i := 0; i < c.Pick(20000, 80000); i++ {
		a := g.goodAddress()
		class := "ws-valid"
		if g.n(6) == 0 {
			a, _ = g.address()
			class = "ws-any"
		}
		u := ""
		if g.n(3) == 0 {
			u = g.url()
			class += "-url"
		}
		one(class, c20wsOp(a, g.n(2) == 0, u))
	}
	// every port value, both flags (thorough: all 65536; quick: the upper end)
	lo := c.Pick(65000, 0)
	for p := lo; p <= 65540; p++ {
		one("ws-allports", c20wsOp("tcp://127.0.0.1:"+strconv.Itoa(p), p%2 == 0, ""))
	}
}

func init() {
	h.RegisterProp(h.Prop{Name: "c20", Gen: c20generate, Exec: c20exec, Workers: 4})
}
