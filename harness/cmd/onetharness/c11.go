package main

import (
	"fmt"
	"runtime"
	"sort"
	"strconv"
	"strings"
	"sync"
	"sync/atomic"
	"time"

	"github.com/google/uuid"
	"go.dedis.ch/onet/v3"
	"go.dedis.ch/onet/v3/network"
	"onetverif/harness/fix"
	"onetverif/harness/h"
	"onetverif/harness/sched"
)

// C11: finished instances stay finished; the tree outlives them for the grace
// period and is released afterwards. One receiver (server 1, hosting the root
// of the tree), instances identified by small numbers k; the grace period is
// scaled down and `wait` sleeps well beyond it.

const c11grace = 200 * time.Millisecond
const c11wait = 480 * time.Millisecond

func c11exec(c *h.Ctx, cs *h.Case) {
	if len(cs.Ops) > 0 && strings.HasPrefix(cs.Ops[0], "c11 store ") {
		c11storeExec(c, cs)
		return
	}
	fixMu.Lock()
	defer fixMu.Unlock()
	cl := fix.NewCluster(2, false)
	defer cl.Close()
	ov := cl.Overlay(1)
	ov.VerifSetTreeGrace(c11grace)
	tree, nodes := fix.BuildTree(cl.Roster, []int{-1, 0}, []int{1, 0})
	root, child := nodes[0], nodes[1]
	var replies int64
	cl.Servers[0].RegisterProcessorFunc(onet.ResponseTreeMsgID, func(*network.Envelope) error {
		atomic.AddInt64(&replies, 1)
		return nil
	})
	ctl := sched.New()
	for _, p := range []string{"tm.miss", "rt.parked", "rt.recheck-miss", "rt.unregistered", "rt.registered", "cpm.start", "cpm.done"} {
		ctl.Pass[p] = true
	}
	var mu sync.Mutex
	handed := 0
	tokens := map[int]*onet.Token{}
	everUsed := map[int]bool{}
	msgTok := map[int]int{}
	doneSeen := map[int]bool{}
	doneReturned := map[int]bool{}     // Done() of the instance has returned
	holding := map[int]chan struct{}{} // instance -> gate its handlers wait at (`hold`/`release`)
	atGate := map[int]int{}            // handlers of the instance blocked at the gate
	var late []string
	accN := map[string]int{} // token id -> messages handed to the instance
	entN := map[string]int{} // token id -> handler invocations begun
	fix.ResetRecs()
	// gate: token id -> thread key; the constructor of that instance parks at "ctor" until `ctorret`
	gate := map[string]string{}
	inCtor := map[int]string{} // instance -> key of the thread inside its constructor
	fix.Prepare = func(rec *fix.Rec) {
		mu.Lock()
		key, gated := gate[rec.Tni.Token().ID().String()]
		mu.Unlock()
		if gated {
			ctl.Reach(key, "ctor")
		}
		rec.OnAccept = func(msg *onet.ProtocolMsg) {
			if _, ok := msg.Msg.(*fix.M3); ok {
				mu.Lock()
				handed++
				accN[rec.Tni.Token().ID().String()]++
				mu.Unlock()
			}
		}
		rec.OnEnter = func(d fix.Delivery) {
			if d.Ty != 3 {
				return
			}
			id := rec.Tni.Token().ID()
			mu.Lock()
			entN[id.String()]++
			k := -1
			for kk, t := range tokens {
				if t.ID() == id {
					k = kk
				}
			}
			var gate chan struct{}
			if k >= 0 {
				if doneReturned[k] {
					late = append(late, fmt.Sprintf("the handler of instance %d was called with message %d after the instance's Done() had returned", k, d.Items[0].V))
				}
				gate = holding[k]
				if gate != nil {
					atGate[k]++
				}
			}
			mu.Unlock()
			if gate != nil {
				// `release` hands over one token and takes this handler off the at-the-gate count itself, under the
				// mutex, before it looks at the state again (the handler doing it after waking up left a window in
				// which `settle` and `done` still saw it at the gate: FALSE_ALARMS.md, round 7); only when the gate
				// is closed at the end of the case does the handler count itself out
				if _, handed := <-gate; !handed {
					mu.Lock()
					atGate[k]--
					mu.Unlock()
				}
			}
		}
	}
	// a message that was parked in the overlay comes back through the flush goroutine: it is a new thread
	// for the scheduler (key m<k>f), which ends when its flush goroutine reaches cpm.done
	parkedOnce := map[int]bool{}
	flushGid := map[int]int64{}
	flushEnded := map[int]bool{}
	var overlayParked []int
	keyFor := func(m int) string {
		mu.Lock()
		defer mu.Unlock()
		if parkedOnce[m] {
			return "m" + strconv.Itoa(m) + "f"
		}
		return "m" + strconv.Itoa(m)
	}
	onet.VerifSetHook(func(name string, key interface{}) {
		if pm, ok := key.(*onet.ProtocolMsg); ok {
			if m3, ok := pm.Msg.(*fix.M3); ok {
				mu.Lock()
				if parkedOnce[m3.V] {
					flushGid[m3.V] = c11gid()
				}
				mu.Unlock()
				ctl.Reach(keyFor(m3.V), name)
			}
			return
		}
		if name == "cpm.done" {
			g := c11gid()
			var ended []int
			mu.Lock()
			for m, fg := range flushGid {
				if fg == g && !flushEnded[m] {
					flushEnded[m] = true
					ended = append(ended, m)
				}
			}
			mu.Unlock()
			for _, m := range ended {
				ctl.Finished(keyFor(m))
			}
		}
	})
	// after an op that stores the tree: what was parked in the overlay has been flushed and stands at the
	// hook point after its lookup
	awaitFlushed := func() bool {
		if len(overlayParked) == 0 || !strings.HasPrefix(ov.VerifTreeState(tree.ID), "present") {
			return true
		}
		for dl := time.Now().Add(3 * time.Second); ov.VerifPendingCount(tree.ID) > 0; time.Sleep(200 * time.Microsecond) {
			if time.Now().After(dl) {
				cs.Impl = append(cs.Impl, "hang")
				cs.Fail("parked-message-stuck", fmt.Sprintf("messages %v are parked and the tree has been stored, but they stay parked (the peer's answer will be refused now)", overlayParked))
				return false
			}
		}
		for _, m := range overlayParked {
			if _, err := ctl.Await(keyFor(m)); err != nil {
				cs.Impl = append(cs.Impl, "hang")
				cs.Fail("parked-message-stuck", fmt.Sprintf("message %d was parked, the tree has been stored, but the message was not given to TransmitMsg again: %v", m, err))
				return false
			}
		}
		overlayParked = nil
		return true
	}
	defer func() {
		mu.Lock()
		for k, g := range holding {
			close(g)
			delete(holding, k)
		}
		mu.Unlock()
		ctl.ReleaseAll()
		onet.VerifSetHook(nil)
		fix.Prepare = nil
		fix.DoneAll()
	}()
	tokOf := func(k int) *onet.Token {
		if t, ok := tokens[k]; ok {
			return t
		}
		t := fix.TokenFor(tree, root, uuid.New())
		if k >= 1000 {
			// the tree's id with a node id that is not in the tree: TransmitMsg refuses the message
			t.TreeNodeID = onet.TreeNodeID(uuid.New())
		} else if k >= 500 {
			// a run of the protocol whose constructor returns an error
			t = fix.FailTokenFor(t)
		} else if k >= 300 {
			// a run of the recording protocol with a Shutdown() that returns an error
			t = fix.ShutErrTokenFor(t)
		} else if k >= 240 && k < 260 {
			// the protocol constructor returns (nil, nil)
			t = t.Clone()
			t.ProtoID = onet.ProtocolNameToID(fix.NilProtoName)
		} else if k >= 220 && k < 240 {
			// a service's NewProtocol returns an error
			t = t.Clone()
			t.ServiceID, t.ProtoID = c11SvcID, c11ErrProt
		} else if k >= 200 && k < 220 {
			// a service's NewProtocol panics
			t = t.Clone()
			t.ServiceID, t.ProtoID = c11SvcID, c11PanicProt
		}
		mu.Lock() // the handlers' OnEnter reads the map
		tokens[k] = t
		mu.Unlock()
		return t
	}
	failing := func(k int) bool { return (k >= 500 && k < 1000) || (k >= 200 && k < 260) }
	// a failed construction must leave nothing listed: nobody holds the node, it can never declare itself done
	checkFailed := func(k int) {
		if tok, ok := tokens[k]; ok && failing(k) && ov.VerifInstanceState(tok) == "live" {
			cs.Fail("failed-instance-stays-listed", fmt.Sprintf("the constructor of instance %d returned an error and its node is still listed (tree %s)", k, ov.VerifTreeState(tree.ID)))
		}
	}
	slow := false
	obs := func() string {
		var ks []int
		for k := range tokens {
			ks = append(ks, k)
		}
		sort.Ints(ks)
		var live, done, cons []int
		for _, k := range ks {
			switch ov.VerifInstanceState(tokens[k]) {
			case "live":
				live = append(live, k)
			case "done":
				done = append(done, k)
			}
			if _, running := inCtor[k]; running {
				continue // the constructor has not returned yet
			}
			for i := 0; i < fix.ConstructedCount(tokens[k]); i++ {
				cons = append(cons, k)
			}
		}
		mu.Lock()
		hn := handed
		mu.Unlock()
		ts := ov.VerifTreeState(tree.ID)
		// oracle, evaluated on every observation
		for _, k := range ks {
			if n := fix.ConstructedCount(tokens[k]); n > 1 {
				cs.Fail("constructed-twice", fmt.Sprintf("the protocol constructor ran %d times for instance %d", n, k))
			}
		}
		for _, k := range done {
			doneSeen[k] = true
		}
		mu.Lock()
		for _, l := range late {
			cs.Fail("handler-after-done", l)
		}
		late = nil
		mu.Unlock()
		for k := range doneSeen {
			if ov.VerifInstanceState(tokens[k]) != "done" {
				cs.Fail("finished-instance-listed-again", fmt.Sprintf("instance %d was done and is %s now", k, ov.VerifInstanceState(tokens[k])))
			}
		}
		if n := ov.VerifPendingCount(tree.ID); n > 0 && strings.HasPrefix(ts, "present") && len(overlayParked) > 0 {
			cs.Fail("parked-message-stuck", fmt.Sprintf("%d message(s) are parked although the tree is stored (the peer's answer will be refused now)", n))
		}
		if len(live) > 0 && ts != "present" {
			cs.Fail("tree-not-kept-while-used", fmt.Sprintf("instances %v are listed but the tree is %s", live, ts))
		}
		for _, k := range live {
			if rec := fix.RecOf(tokens[k]); rec != nil {
				func() {
					defer func() {
						if r := recover(); r != nil {
							cs.Fail("tree-not-kept-while-used", fmt.Sprintf("Tree() of the listed instance %d panics: %v", k, r))
						}
					}()
					rec.Tni.Tree()
				}()
			}
		}
		return fmt.Sprintf("tree=%s live=%s done=%s constructed=%s handed=%d", ts, h.Ints(live), h.Ints(done), h.Ints(cons), hn)
	}
	// reader goroutines of tree node instances in this process (every case runs in its own process)
	readers := func() int {
		buf := make([]byte, 1<<20)
		n := runtime.Stack(buf, true)
		return strings.Count(string(buf[:n]), "(*TreeNodeInstance).dispatchMsgReader(")
	}
	liveCount := func() int {
		n := 0
		for _, t := range tokens {
			if ov.VerifInstanceState(t) == "live" {
				n++
			}
		}
		return n
	}
	// settle: the reader of instance k has gone as far as it can — while the instance is listed: it stands in a
	// handler at the gate, or nothing is queued; once the instance has finished: its reader has ended (as many
	// readers as listed instances) or a handler was entered all the same. No sleeps: polls state, bounded.
	settle := func(k int) {
		tok, ok := tokens[k]
		if !ok {
			return
		}
		id := tok.ID().String()
		for dl := time.Now().Add(3 * time.Second); time.Now().Before(dl); time.Sleep(200 * time.Microsecond) {
			mu.Lock()
			at, more, nl := atGate[k] > 0, accN[id] > entN[id], len(late)
			held := holding[k] != nil
			mu.Unlock()
			if ov.VerifInstanceState(tok) == "live" {
				if !held || at || !more {
					return
				}
			} else if nl > 0 || at || readers() <= liveCount() {
				return
			}
		}
		c.Count("settle-timeout")
	}
	doOp := func(op string) bool {
		t0 := time.Now()
		defer func() {
			if tk := strings.Fields(op); len(tk) > 1 && tk[1] != "wait" && tk[1] != "churn" && time.Since(t0) > c11grace/3 {
				slow = true
			}
		}()
		tk := strings.Fields(op)
		switch {
		case len(tk) == 4 && tk[1] == "arrive":
			k, _ := strconv.Atoi(tk[2])
			m, _ := strconv.Atoi(tk[3])
			to := tokOf(k)
			msgTok[m] = k
			from := to.Clone()
			from.TreeNodeID = child.ID
			env, err := fix.Envelope(child.ServerIdentity, from, to, fix.Payload(3, m))
			if err != nil {
				panic(err)
			}
			key := "m" + strconv.Itoa(m)
			pend0 := ov.VerifPendingCount(tree.ID)
			go func() {
				ov.Process(env)
				ctl.Finished(key)
			}()
			loc, err := ctl.Await(key)
			if err != nil {
				cs.Impl = append(cs.Impl, "hang")
				cs.Fail("thread-stuck", err.Error())
				return false
			}
			pc := "fin"
			if loc == "tm.found" {
				pc = "found"
			} else if ov.VerifPendingCount(tree.ID) > pend0 {
				// the tree is not there: the message waits in the overlay, the tree has been requested
				pc = "parked"
				mu.Lock()
				parkedOnce[m] = true
				mu.Unlock()
				overlayParked = append(overlayParked, m)
			}
			cs.Impl = append(cs.Impl, "pc="+pc+" "+obs())
		case len(tk) == 4 && (tk[1] == "thread" || tk[1] == "threadc"):
			m, _ := strconv.Atoi(tk[3])
			k, _ := strconv.Atoi(tk[2])
			key := keyFor(m)
			// a thread inside a constructor holds transmitMux: nobody else enters the region
			if w := ctl.Where(key); w != "tm.found" || msgTok[m] != k || len(inCtor) > 0 {
				cs.Impl = append(cs.Impl, "disabled")
				return true
			}
			if tk[1] == "threadc" && k < 1000 && !failing(k) {
				creates := ov.VerifInstanceState(tokOf(k)) == "none"
				mu.Lock()
				gate[tokOf(k).ID().String()] = key
				mu.Unlock()
				loc, err := ctl.Step(key)
				mu.Lock()
				delete(gate, tokOf(k).ID().String())
				mu.Unlock()
				if err != nil {
					cs.Impl = append(cs.Impl, "hang")
					cs.Fail("thread-stuck", err.Error())
					return false
				}
				everUsed[k] = true
				if !awaitFlushed() {
					return false
				}
				pc := "fin"
				if loc == "ctor" {
					pc = "ctor"
					inCtor[k] = key
				} else if creates {
					cs.Fail("constructor-not-run", fmt.Sprintf("message %d for the unknown instance %d ended without running the protocol constructor", m, k))
				}
				cs.Impl = append(cs.Impl, "pc="+pc+" "+obs())
				return true
			}
			wasDone := ov.VerifInstanceState(tokOf(k)) == "done"
			mu.Lock()
			hb := handed
			mu.Unlock()
			cb := fix.ConstructedCount(tokOf(k))
			if _, err := ctl.Step(key); err != nil {
				cs.Impl = append(cs.Impl, "hang")
				cs.Fail("thread-stuck", err.Error())
				return false
			}
			everUsed[k] = true
			if !awaitFlushed() {
				return false
			}
			checkFailed(k)
			settle(k)
			o := obs()
			if wasDone {
				mu.Lock()
				ha := handed
				mu.Unlock()
				if ha != hb || fix.ConstructedCount(tokOf(k)) != cb {
					cs.Fail("late-message-not-dropped", fmt.Sprintf("message %d for the finished instance %d was handed over or created an instance", m, k))
				}
			}
			cs.Impl = append(cs.Impl, "pc=fin "+o)
		case len(tk) == 3 && tk[1] == "ctorret":
			k, _ := strconv.Atoi(tk[2])
			key, ok := inCtor[k]
			if !ok {
				cs.Impl = append(cs.Impl, "disabled")
				return true
			}
			delete(inCtor, k)
			if _, err := ctl.Step(key); err != nil {
				cs.Impl = append(cs.Impl, "hang")
				cs.Fail("thread-stuck", err.Error())
				return false
			}
			cs.Impl = append(cs.Impl, "pc=fin "+obs())
		case len(tk) == 3 && tk[1] == "done":
			k, _ := strconv.Atoi(tk[2])
			tok, ok := tokens[k]
			if _, running := inCtor[k]; running {
				// the instance cannot declare itself done before its constructor has returned
				cs.Impl = append(cs.Impl, "disabled")
				return true
			}
			if ok && ov.VerifInstanceState(tok) == "done" && fix.RecOf(tok) != nil {
				// Done() once more on a finished instance: nothing may change
				before := ov.VerifTreeState(tree.ID)
				fix.RecOf(tok).Tni.Done()
				if after := ov.VerifTreeState(tree.ID); after != before {
					cs.Fail("repeated-done-changed-tree", fmt.Sprintf("a second Done() of the finished instance %d changed the tree from %s to %s", k, before, after))
				}
				cs.Impl = append(cs.Impl, obs())
				return true
			}
			if ok && failing(k) && ov.VerifInstanceState(tok) == "done" {
				// the token of a failed construction is marked finished; there is no instance to call Done() on
				cs.Impl = append(cs.Impl, obs())
				return true
			}
			if !ok || ov.VerifInstanceState(tok) != "live" || fix.RecOf(tok) == nil {
				cs.Impl = append(cs.Impl, "disabled")
				return true
			}
			// strict only when the reader sits inside a held handler: then nothing else is in flight and
			// whatever is queued behind it must be dropped
			mu.Lock()
			strict := atGate[k] > 0
			mu.Unlock()
			fix.RecOf(tok).Tni.Done()
			mu.Lock()
			doneReturned[k] = strict
			mu.Unlock()
			if !strict {
				settle(k)
			}
			cs.Impl = append(cs.Impl, obs())
		case len(tk) == 4 && tk[1] == "donecb" && (tk[3] == "0" || tk[3] == "1"):
			// Done() of an instance that has an OnDoneCallback: `0` = the callback says "not yet" (nothing may
			// happen), `1` = it agrees (as `done`)
			k, _ := strconv.Atoi(tk[2])
			tok, ok := tokens[k]
			agree := tk[3] == "1"
			if ok && agree && ov.VerifInstanceState(tok) == "done" && fix.RecOf(tok) != nil {
				// the callback agrees, the instance is finished already: a repeated Done()
				tni := fix.RecOf(tok).Tni
				tni.OnDoneCallback(func() bool { return true })
				tni.Done()
				tni.OnDoneCallback(nil)
				cs.Impl = append(cs.Impl, obs())
				return true
			}
			if ok && agree && failing(k) && ov.VerifInstanceState(tok) == "done" {
				cs.Impl = append(cs.Impl, obs())
				return true
			}
			if _, running := inCtor[k]; running || !ok || ov.VerifInstanceState(tok) != "live" || fix.RecOf(tok) == nil {
				cs.Impl = append(cs.Impl, "disabled")
				return true
			}
			called := 0
			tni := fix.RecOf(tok).Tni
			tni.OnDoneCallback(func() bool { called++; return agree })
			mu.Lock()
			strict := atGate[k] > 0
			mu.Unlock()
			tni.Done()
			tni.OnDoneCallback(nil)
			if called != 1 {
				cs.Fail("done-callback-not-asked", fmt.Sprintf("Done() of instance %d asked its callback %d times", k, called))
			}
			if !agree && ov.VerifInstanceState(tok) != "live" {
				cs.Fail("done-despite-callback", fmt.Sprintf("instance %d is %s although its OnDoneCallback answered false", k, ov.VerifInstanceState(tok)))
			}
			if agree {
				mu.Lock()
				doneReturned[k] = strict
				mu.Unlock()
			}
			cs.Impl = append(cs.Impl, obs())
		case len(tk) == 3 && tk[1] == "hold":
			// from now on every handler of instance k blocks until `release k` lets one return
			k, _ := strconv.Atoi(tk[2])
			mu.Lock()
			if holding[k] == nil {
				holding[k] = make(chan struct{})
			}
			mu.Unlock()
			cs.Impl = append(cs.Impl, "ok")
		case len(tk) == 3 && tk[1] == "release":
			k, _ := strconv.Atoi(tk[2])
			mu.Lock()
			g := holding[k]
			mu.Unlock()
			if g != nil {
				settle(k) // a handler that is on its way to the gate gets there first
				mu.Lock()
				at := atGate[k] > 0
				mu.Unlock()
				if at {
					select {
					case g <- struct{}{}:
						mu.Lock()
						atGate[k]-- // the handler that took the token is no longer at the gate (see OnEnter)
						mu.Unlock()
						settle(k) // the reader goes on to the next queued message, if any — or ends
					case <-time.After(3 * time.Second):
					}
				}
			}
			obs() // evaluates the oracle
			cs.Impl = append(cs.Impl, "ok")
		case len(tk) == 2 && tk[1] == "treeresp":
			// the peer answers the tree request
			before := ov.VerifTreeState(tree.ID)
			ov.Process(&network.Envelope{ServerIdentity: cl.SI(0), MsgType: onet.ResponseTreeMsgID,
				Msg: &onet.ResponseTree{TreeMarshal: tree.MakeTreeMarshal(), Roster: tree.Roster}})
			if !awaitFlushed() {
				return false
			}
			if strings.HasPrefix(before, "requested") {
				cs.Impl = append(cs.Impl, "accepted "+obs())
			} else {
				cs.Impl = append(cs.Impl, "refused "+obs())
			}
		case len(tk) == 3 && tk[1] == "readtree":
			// the protocol of a built instance (listed, or finished already) reads its tree: a read — a scheduled
			// removal must stay scheduled (seeded C11r6-A made Tree() refresh); without the tree Tree() panics
			k, _ := strconv.Atoi(tk[2])
			tok, ok := tokens[k]
			_, running := inCtor[k]
			if !ok || running || failing(k) || k >= 1000 || fix.RecOf(tok) == nil || ov.VerifInstanceState(tok) == "none" {
				cs.Impl = append(cs.Impl, "disabled")
				return true
			}
			res := "tree "
			before := ov.VerifTreeState(tree.ID)
			func() {
				defer func() {
					if r := recover(); r != nil {
						res = "panic "
					}
				}()
				if fix.RecOf(tok).Tni.Tree() == nil {
					res = "panic "
				}
			}()
			// oracle, independent of the model: reading the tree is not using it — a removal that was scheduled is
			// still scheduled afterwards (or has been completed by its timer meanwhile)
			if after := ov.VerifTreeState(tree.ID); strings.HasSuffix(before, "+armed") && after == "present" {
				cs.Fail("tree-read-cancelled-removal", fmt.Sprintf("instance %d read its tree (Tree()) inside the grace period and the scheduled removal of the tree is gone: nothing will release the tree", k))
			}
			c.Count("op=readtree")
			cs.Impl = append(cs.Impl, res+obs())
		case len(tk) == 2 && tk[1] == "peerreq":
			// a slow peer asks for the tree; the reply goes to server 0, whose processor counts it
			before := atomic.LoadInt64(&replies)
			ov.Process(&network.Envelope{ServerIdentity: cl.SI(0), MsgType: onet.RequestTreeMsgID,
				Msg: &onet.RequestTree{TreeID: tree.ID, Version: 1}})
			answered := false
			for dl := time.Now().Add(40 * time.Millisecond); time.Now().Before(dl); time.Sleep(200 * time.Microsecond) {
				if atomic.LoadInt64(&replies) > before {
					answered = true
					break
				}
			}
			if answered {
				cs.Impl = append(cs.Impl, "answered "+obs())
			} else {
				cs.Impl = append(cs.Impl, "ignored "+obs())
			}
		case len(tk) == 2 && tk[1] == "wait":
			time.Sleep(c11wait)
			cs.Impl = append(cs.Impl, obs())
		case len(tk) == 3 && tk[1] == "churn":
			// a busy server: n further ordinary runs on the tree are started locally and finish at once, one after
			// the other; they are not listed in the observation (the model numbers them from 2000). Every run
			// registers the tree again and the last Done() schedules its removal when nothing else is listed, so the
			// outcome does not depend on how long the loop takes (no `slow` verdict for this op).
			n, err := strconv.Atoi(tk[2])
			if err != nil || n < 0 || n > 4000 {
				cs.Impl = append(cs.Impl, "bad-op")
				return true
			}
			for j := 0; j < n; j++ {
				pi, err := cl.L.CreateProtocol(fix.ProtoName, tree)
				if err != nil {
					cs.Impl = append(cs.Impl, "err")
					cs.Fail("local-start-failed", err.Error())
					return true
				}
				rec := fix.RecOf(pi.Token())
				if rec == nil {
					cs.Impl = append(cs.Impl, "err")
					cs.Fail("local-start-failed", "no record of the instance CreateProtocol returned")
					return true
				}
				rec.Tni.Done()
				if st := ov.VerifInstanceState(pi.Token()); st != "done" {
					cs.Impl = append(cs.Impl, "err")
					cs.Fail("churn-instance-not-finished", fmt.Sprintf("run %d of churn is %s after its Done()", j, st))
					return true
				}
			}
			c.Count("op=churn")
			tLast := time.Now() // the last Done() may have scheduled the removal: from here on the clock counts
			if !awaitFlushed() {
				return false
			}
			cs.Impl = append(cs.Impl, obs())
			if time.Since(tLast) > c11grace/3 {
				slow = true
			}
		case len(tk) == 3 && tk[1] == "localstart":
			k, _ := strconv.Atoi(tk[2])
			if _, ok := tokens[k]; ok || k >= 1000 || (k >= 200 && k < 260) {
				// 200-259: instances only a message creates
				cs.Impl = append(cs.Impl, "disabled")
				return true
			}
			if failing(k) {
				// CreateProtocol with a constructor that returns an error: the caller gets the error and no instance
				if _, err := cl.L.CreateProtocol(fix.FailProtoName, tree); err == nil {
					cs.Fail("constructor-error-swallowed", "CreateProtocol returned no error although the constructor did")
				}
				tok := fix.LastFailedToken()
				if tok == nil {
					cs.Impl = append(cs.Impl, "err")
					cs.Fail("constructor-not-run", "CreateProtocol did not call the constructor")
					return true
				}
				mu.Lock()
				tokens[k] = tok
				mu.Unlock()
				everUsed[k] = true
				if !awaitFlushed() {
					return false
				}
				checkFailed(k)
				cs.Impl = append(cs.Impl, obs())
				return true
			}
			name := fix.ProtoName
			if k >= 300 {
				name = fix.ShutErrProtoName
			}
			pi, err := cl.L.CreateProtocol(name, tree)
			if err != nil {
				cs.Impl = append(cs.Impl, "err")
				cs.Fail("local-start-failed", err.Error())
				return true
			}
			mu.Lock()
			tokens[k] = pi.Token()
			mu.Unlock()
			everUsed[k] = true
			if !awaitFlushed() {
				return false
			}
			cs.Impl = append(cs.Impl, obs())
		default:
			cs.Impl = append(cs.Impl, "bad-op")
		}
		return true
	}
	for _, op := range cs.Ops {
		if !doOp(op) {
			return
		}
	}
	// closing: finish every parked arrival and every listed instance, then the grace period
	// must end with the tree released (appended so the model sees the same ops)
	if len(overlayParked) > 0 && ov.VerifPendingCount(tree.ID) > 0 {
		cs.Ops = append(cs.Ops, "c11 treeresp")
		if !doOp("c11 treeresp") {
			return
		}
	}
	if n := ov.VerifPendingCount(tree.ID); n > 0 && strings.HasPrefix(ov.VerifTreeState(tree.ID), "present") {
		cs.Fail("parked-message-stuck", fmt.Sprintf("%d message(s) are parked although the tree is stored", n))
	}
	var tail []string
	var keys []string
	for k := range ctl.Parked() {
		keys = append(keys, k)
	}
	sort.Strings(keys)
	for k := range inCtor {
		tail = append(tail, fmt.Sprintf("c11 ctorret %d", k))
	}
	for _, key := range keys {
		m, _ := strconv.Atoi(strings.TrimSuffix(key[1:], "f"))
		if ctl.Where(key) == "ctor" {
			continue
		}
		tail = append(tail, fmt.Sprintf("c11 thread %d %d", msgTok[m], m))
	}
	var ks []int
	for k := range tokens {
		ks = append(ks, k)
	}
	sort.Ints(ks)
	already := map[string]bool{}
	for _, op := range cs.Ops {
		already[op] = true
	}
	for _, op := range tail {
		// thread ops name (k, m): only the right k is enabled, the others answer "disabled" on both sides
		cs.Ops = append(cs.Ops, op)
		if !doOp(op) {
			return
		}
	}
	for _, k := range ks {
		op := fmt.Sprintf("c11 done %d", k)
		cs.Ops = append(cs.Ops, op)
		if !doOp(op) {
			return
		}
	}
	used := len(everUsed) > 0
	st := ov.VerifTreeState(tree.ID)
	if used && st == "present" {
		cs.Fail("tree-not-released", "no instance is listed any more, the tree is present and no removal is scheduled: it will never be released")
	}
	cs.Ops = append(cs.Ops, "c11 wait")
	if !doOp("c11 wait") {
		return
	}
	if st2 := ov.VerifTreeState(tree.ID); used && st2 != "absent" {
		cs.Fail("tree-not-released", fmt.Sprintf("after the last instance finished and the grace period passed the tree is still %s", st2))
	}
	if slow {
		// an op took a sizeable part of the grace period: timer and ops may have raced
		// — the states are not compared with the model. What the oracle found stays unless it rests on the tree state
		// around one call: a handler of a finished instance, a second constructor call, a listed node of a failed
		// constructor, a tree missing under a listed instance or never released are wrong whenever the timer fires
		cs.NoModel = true
		cs.Trivial = true
		cs.Outcome = "unscheduled"
		if cs.Sig == "repeated-done-changed-tree" {
			cs.Oracle, cs.Sig, cs.Msg = "ok", "", ""
		}
		return
	}
	cs.Outcome = fmt.Sprintf("instances=%d handed=%d", len(tokens), handed)
}

// c11gid returns the id of the calling goroutine.
func c11gid() int64 {
	var buf [64]byte
	n := runtime.Stack(buf[:], false)
	f := strings.Fields(string(buf[:n]))
	if len(f) < 2 {
		return -1
	}
	id, _ := strconv.ParseInt(f[1], 10, 64)
	return id
}

func c11gen(c *h.Ctx, yield func(*h.Case)) {
	r := c.Rng
	defer c11storeGen(c, yield)
	// corpus: late message during the grace period (kept the tree for ever before the repair);
	// a run re-using the tree during the grace period; two instances sharing the tree
	yield(&h.Case{Class: "corpus-late", Ops: []string{"c11 localstart 1", "c11 done 1", "c11 arrive 1 5", "c11 thread 1 5"}})
	// a busy server: an instance finishes, many other runs start and finish on the server (op churn), then a late message
	// with the finished token arrives — it must still be dropped, however many instances finished in between (seeded
	// C11r7-B bounded the list of done marks at 1024)
	yield(&h.Case{Class: "busy-server", Ops: []string{"c11 localstart 1", "c11 done 1", "c11 churn 1100", "c11 arrive 1 5", "c11 thread 1 5", "c11 wait"}})
	yield(&h.Case{Class: "busy-server", Ops: []string{"c11 localstart 2", "c11 arrive 3 5", "c11 thread 3 5", "c11 done 3", "c11 churn 40", "c11 arrive 3 6", "c11 thread 3 6", "c11 churn 600", "c11 peerreq", "c11 churn 600",
		"c11 arrive 3 7", "c11 thread 3 7", "c11 arrive 2 8", "c11 thread 2 8", "c11 done 2", "c11 arrive 2 9", "c11 thread 2 9", "c11 wait"}})
	for i := 0; i < c.Pick(1, 6); i++ {
		n := []int{7, 130, 1030, 1500, 2100, 3000}[r.Intn(c.Pick(3, 6))]
		ops := []string{"c11 localstart 1", "c11 arrive 2 5", "c11 thread 2 5"}
		first := 1 + r.Intn(2)
		ops = append(ops, fmt.Sprintf("c11 done %d", first), fmt.Sprintf("c11 churn %d", n), fmt.Sprintf("c11 arrive %d 6", first), fmt.Sprintf("c11 thread %d 6", first),
			fmt.Sprintf("c11 done %d", 3-first), fmt.Sprintf("c11 churn %d", 1+r.Intn(5)), fmt.Sprintf("c11 arrive %d 7", first), fmt.Sprintf("c11 thread %d 7", first),
			fmt.Sprintf("c11 arrive %d 8", 3-first), fmt.Sprintf("c11 thread %d 8", 3-first), "c11 wait")
		yield(&h.Case{Class: "busy-server", Ops: ops})
	}
	// an instance reads its tree after it declared itself done, inside the grace period: the removal stays scheduled
	yield(&h.Case{Class: "corpus-read-after-done", Ops: []string{"c11 localstart 1", "c11 readtree 1", "c11 done 1", "c11 readtree 1", "c11 wait", "c11 readtree 1"}})
	yield(&h.Case{Class: "corpus-read-after-done", Ops: []string{"c11 localstart 1", "c11 arrive 2 5", "c11 thread 2 5", "c11 done 1", "c11 readtree 1", "c11 done 2", "c11 readtree 2", "c11 readtree 1", "c11 peerreq", "c11 wait", "c11 readtree 2", "c11 readtree 3", "c11 readtree 500"}})
	yield(&h.Case{Class: "corpus-peer-request-in-grace", Ops: []string{"c11 localstart 1", "c11 peerreq", "c11 done 1", "c11 peerreq", "c11 wait", "c11 peerreq"}})
	yield(&h.Case{Class: "corpus-reuse", Ops: []string{"c11 localstart 1", "c11 arrive 2 5", "c11 thread 2 5", "c11 done 1", "c11 arrive 2 6", "c11 thread 2 6", "c11 done 2", "c11 arrive 3 7", "c11 thread 3 7", "c11 wait", "c11 done 3"}})
	yield(&h.Case{Class: "corpus-race", Ops: []string{"c11 localstart 1", "c11 arrive 2 5", "c11 done 1", "c11 thread 2 5", "c11 wait", "c11 arrive 2 6", "c11 thread 2 6"}})
	// an instance finishes while another run's constructor is still running: the tree must stay
	yield(&h.Case{Class: "corpus-done-during-constructor", Ops: []string{"c11 localstart 1", "c11 arrive 2 5", "c11 threadc 2 5", "c11 done 1", "c11 peerreq", "c11 wait", "c11 peerreq", "c11 ctorret 2", "c11 arrive 2 6", "c11 thread 2 6"}})
	yield(&h.Case{Class: "corpus-done-during-constructor", Ops: []string{"c11 localstart 1", "c11 arrive 2 5", "c11 arrive 3 6", "c11 threadc 2 5", "c11 thread 3 6", "c11 done 2", "c11 done 1", "c11 ctorret 2", "c11 thread 3 6", "c11 done 3", "c11 wait"}})
	// the instance finishes inside the handler of a message that has others queued behind it: they are dropped
	yield(&h.Case{Class: "corpus-done-with-backlog", Ops: []string{"c11 localstart 1", "c11 hold 2", "c11 arrive 2 5", "c11 thread 2 5", "c11 arrive 2 6", "c11 thread 2 6",
		"c11 arrive 2 7", "c11 thread 2 7", "c11 arrive 2 8", "c11 thread 2 8", "c11 release 2", "c11 done 2", "c11 release 2", "c11 release 2", "c11 release 2"}})
	// … the same with a protocol whose Shutdown() returns an error: the reader must stop all the same
	yield(&h.Case{Class: "corpus-done-with-backlog", Ops: []string{"c11 localstart 1", "c11 hold 300", "c11 arrive 300 5", "c11 thread 300 5", "c11 arrive 300 6", "c11 thread 300 6",
		"c11 arrive 300 7", "c11 thread 300 7", "c11 release 300", "c11 done 300", "c11 release 300", "c11 release 300", "c11 arrive 300 8", "c11 thread 300 8"}})
	yield(&h.Case{Class: "corpus-done-with-backlog", Ops: []string{"c11 localstart 301", "c11 hold 301", "c11 arrive 301 5", "c11 thread 301 5", "c11 arrive 301 6", "c11 thread 301 6",
		"c11 done 301", "c11 release 301", "c11 release 301"}})
	// two runs share the tree: a refused Done(), a real one, a repeated one; the other run goes on and a peer still
	// gets the tree; after the last one the peer is served during the grace period only
	yield(&h.Case{Class: "corpus-others-unaffected", Ops: []string{"c11 localstart 1", "c11 arrive 2 5", "c11 thread 2 5", "c11 donecb 1 0", "c11 peerreq", "c11 donecb 1 1",
		"c11 done 1", "c11 peerreq", "c11 arrive 2 6", "c11 thread 2 6", "c11 arrive 1 7", "c11 thread 1 7", "c11 done 1", "c11 wait", "c11 peerreq", "c11 done 2", "c11 done 2", "c11 peerreq", "c11 wait", "c11 peerreq", "c11 done 2"}})
	// the request path: a message misses the released tree (parked, tree requested); the peer's answer flushes it
	yield(&h.Case{Class: "corpus-parked", Ops: []string{"c11 localstart 1", "c11 done 1", "c11 wait", "c11 arrive 2 5", "c11 peerreq", "c11 treeresp", "c11 treeresp", "c11 thread 2 5", "c11 peerreq", "c11 done 2", "c11 wait"}})
	// … a late message for a finished token, after the tree was released: parked, answered, dropped, released again
	yield(&h.Case{Class: "corpus-parked", Ops: []string{"c11 localstart 1", "c11 done 1", "c11 wait", "c11 arrive 1 5", "c11 treeresp", "c11 thread 1 5", "c11 wait"}})
	// … a local start stores the tree while a message is parked
	yield(&h.Case{Class: "corpus-parked", Ops: []string{"c11 localstart 1", "c11 done 1", "c11 wait", "c11 arrive 2 5", "c11 localstart 3", "c11 threadc 2 5", "c11 done 3", "c11 ctorret 2"}})
	// … an arrival that looked the tree up before it was released stores it again while another message is parked
	// (before /repo fafcac0 that message stayed parked for ever)
	yield(&h.Case{Class: "corpus-parked", Ops: []string{"c11 localstart 1", "c11 arrive 2 5", "c11 done 1", "c11 wait", "c11 arrive 3 6", "c11 thread 2 5", "c11 treeresp", "c11 thread 3 6", "c11 done 2"}})
	// a message whose token names a node that is not in the tree, during the grace period (before the repair of
	// round 5 its lookup cancelled the removal for ever); while an instance is listed; parked first
	yield(&h.Case{Class: "corpus-bad-node", Ops: []string{"c11 localstart 1", "c11 done 1", "c11 arrive 1000 5", "c11 thread 1000 5"}})
	yield(&h.Case{Class: "corpus-bad-node", Ops: []string{"c11 localstart 1", "c11 arrive 1000 5", "c11 thread 1000 5", "c11 peerreq", "c11 done 1", "c11 arrive 1001 6", "c11 thread 1001 6", "c11 peerreq"}})
	yield(&h.Case{Class: "corpus-bad-node", Ops: []string{"c11 localstart 1", "c11 done 1", "c11 wait", "c11 arrive 1000 5", "c11 treeresp", "c11 thread 1000 5"}})
	// a constructor that returns an error: local start (the node stayed listed for ever before the repair of round 5),
	// also while another instance uses the tree (which must stay); an arrival, alone and during the grace period;
	// late messages for the failed token
	yield(&h.Case{Class: "corpus-failed-ctor", Ops: []string{"c11 localstart 500"}})
	yield(&h.Case{Class: "corpus-failed-ctor", Ops: []string{"c11 localstart 1", "c11 localstart 500", "c11 wait", "c11 peerreq", "c11 arrive 1 5", "c11 thread 1 5", "c11 done 500", "c11 done 1"}})
	yield(&h.Case{Class: "corpus-failed-ctor", Ops: []string{"c11 localstart 1", "c11 arrive 500 5", "c11 thread 500 5", "c11 arrive 500 6", "c11 thread 500 6", "c11 wait", "c11 peerreq", "c11 done 1"}})
	yield(&h.Case{Class: "corpus-failed-ctor", Ops: []string{"c11 localstart 1", "c11 done 1", "c11 arrive 501 5", "c11 thread 501 5", "c11 peerreq"}})
	// the three ways a constructor produces no instance for an arrival — a service's NewProtocol panics (200) or returns an
	// error (220), the protocol constructor returns (nil, nil) (240): nothing stays listed, the token is finished, a later
	// message is dropped without a second constructor call, the tree is released; alone, and while instance 1 uses the tree
	for _, k := range []int{200, 220, 240} {
		yield(&h.Case{Class: "corpus-no-instance", Ops: []string{"c11 localstart 1", "c11 done 1", fmt.Sprintf("c11 arrive %d 5", k), fmt.Sprintf("c11 thread %d 5", k),
			fmt.Sprintf("c11 arrive %d 6", k), fmt.Sprintf("c11 thread %d 6", k), "c11 peerreq"}})
		yield(&h.Case{Class: "corpus-no-instance", Ops: []string{"c11 localstart 1", fmt.Sprintf("c11 arrive %d 5", k+1), fmt.Sprintf("c11 thread %d 5", k+1), "c11 wait", "c11 peerreq",
			fmt.Sprintf("c11 arrive %d 6", k+1), fmt.Sprintf("c11 thread %d 6", k+1), "c11 arrive 1 7", "c11 thread 1 7", "c11 done 1"}})
	}
	for n := 0; n < c.Pick(28, 400); n++ {
		cs := &h.Case{Class: "random"}
		m := 0
		next := 1
		known := []int{}
		pending := map[int]int{} // message -> token, parked at tm.found
		waits := 0
		ctor := 0 // instance whose constructor is being held
		maybeAbsent := true
		for j := 0; j < 4+r.Intn(14); j++ {
			x := r.Intn(12)
			switch {
			case maybeAbsent && ctor == 0 && r.Intn(2) == 0:
				// a message for a tree that may have been released: parked and the tree requested (at most one at a
				// time: the flush goroutine hands parked messages over one after the other); then the peer's answer,
				// or a local start, stores the tree again
				m++
				k := next
				if len(known) > 0 && r.Intn(2) == 0 {
					k = known[r.Intn(len(known))]
				} else {
					known = append(known, next)
					next++
				}
				pending[m] = k
				cs.Ops = append(cs.Ops, fmt.Sprintf("c11 arrive %d %d", k, m))
				if r.Intn(3) > 0 {
					cs.Ops = append(cs.Ops, "c11 treeresp")
				} else {
					cs.Ops = append(cs.Ops, fmt.Sprintf("c11 localstart %d", next))
					known = append(known, next)
					next++
				}
				maybeAbsent = false
				c.Count("op=arrive-maybe-absent")
			case maybeAbsent || x == 0:
				k := next
				if r.Intn(6) == 0 {
					k = 500 + next // the constructor fails
					c.Count("op=localstart-failing")
				}
				cs.Ops = append(cs.Ops, fmt.Sprintf("c11 localstart %d", k))
				known = append(known, k)
				next++
				maybeAbsent = false
			case x < 5:
				m++
				k := next
				if len(known) > 0 && r.Intn(4) > 0 {
					k = known[r.Intn(len(known))]
				} else {
					switch r.Intn(9) {
					case 2:
						k = 200 + 20*r.Intn(3) + next%20 // panic / error of a service, (nil, nil) of the constructor
						c.Count("op=arrive-no-instance")
					case 0:
						k = 500 + next // the constructor fails
						c.Count("op=arrive-failing-ctor")
					case 1:
						k = 1000 + next // names no node of the tree
						c.Count("op=arrive-bad-node")
					}
					known = append(known, k)
					next++
				}
				pending[m] = k
				cs.Ops = append(cs.Ops, fmt.Sprintf("c11 arrive %d %d", k, m))
			case x < 8 && len(pending) > 0:
				mm := -1
				for cand := range pending {
					if mm < 0 || cand < mm {
						mm = cand
					}
				}
				k := pending[mm]
				if ctor == 0 && r.Intn(3) == 0 {
					cs.Ops = append(cs.Ops, fmt.Sprintf("c11 threadc %d %d", k, mm))
					ctor = k
					c.Count("op=threadc")
				} else {
					cs.Ops = append(cs.Ops, fmt.Sprintf("c11 thread %d %d", k, mm))
				}
				if ctor == 0 || ctor == k {
					delete(pending, mm)
				}
			case x < 9 && ctor != 0:
				cs.Ops = append(cs.Ops, fmt.Sprintf("c11 ctorret %d", ctor))
				ctor = 0
			case x < 11 && len(known) > 0:
				switch r.Intn(5) {
				case 0:
					cs.Ops = append(cs.Ops, fmt.Sprintf("c11 donecb %d 0", known[r.Intn(len(known))]))
					c.Count("op=donecb0")
				case 1:
					cs.Ops = append(cs.Ops, fmt.Sprintf("c11 donecb %d 1", known[r.Intn(len(known))]))
				default:
					cs.Ops = append(cs.Ops, fmt.Sprintf("c11 done %d", known[r.Intn(len(known))]))
				}
			case x == 11 && r.Intn(2) == 0:
				cs.Ops = append(cs.Ops, "c11 peerreq")
				if len(known) > 0 {
					cs.Ops = append(cs.Ops, fmt.Sprintf("c11 readtree %d", known[r.Intn(len(known))]))
				}
			case x == 11 && r.Intn(3) == 0:
				cs.Ops = append(cs.Ops, "c11 treeresp")
			case waits < 2 && len(pending) == 0:
				waits++
				cs.Ops = append(cs.Ops, "c11 wait")
				maybeAbsent = true
			}
		}
		c.Count("class=random")
		yield(cs)
	}
}

func init() {
	// isolated: a listed instance whose tree was released crashes the process from its reader goroutine
	h.RegisterProp(h.Prop{Name: "c11", Gen: c11gen, Exec: c11exec, Isolate: true, Workers: 4, Timeout: 90 * time.Second})
}
