// Command onetharness drives the real onet code for the correspondence checks.
package main

import "onetverif/harness/h"

func main() { h.Main() }
