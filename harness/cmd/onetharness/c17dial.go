package main

import (
	"fmt"
	"strconv"
	"time"

	"go.dedis.ch/onet/v3/network"
)

// The dialling side act by act (round 7; lean/OnetVerif/Model/C17Dial.lean): the filtering server opens a
// connection itself (Router.Send → Router.connect) and its goroutine is held at the scheduling points
// `connect:before-register` and `connect:before-launch` (the hooks of C10), so that SetValidPeers calls, reads,
// offers and the steps of accepting goroutines (c17acc.go) come in between.
//
//   ddial <d> <ident>    the server sends to a new peer router with that identity (d = next number): connected
//   dreg <d>             registerConnection: registered | closed
//   dlaunch <d>          launchHandleRoutine, the send completes: launched | closed
//   dmsg <d> <m>         the peer sends m over that connection: dispatched:<key>:<m>

type c17dialT struct {
	in      *c17inst
	key     int
	parked  chan string
	release chan struct{}
	done    chan error
	phase   string // connected | registered | running | closed
}

func (w *c17world) dialClose() {
	for _, d := range w.dials {
		select {
		case <-d.release:
		default:
			close(d.release)
		}
	}
}

// called by c17hook for the points of Router.connect
func (w *c17world) dialPoint(name string, c network.Conn) {
	w.rawMu.Lock()
	d := w.dialByAddr[c17addrKey(c.Remote())]
	w.rawMu.Unlock()
	if d == nil {
		return
	}
	d.parked <- name
	<-d.release
}

func (d *c17dialT) wait(name string) string {
	select {
	case got := <-d.parked:
		if got == name {
			return "at"
		}
		return "at:" + got
	case err := <-d.done:
		if err != nil {
			return "closed"
		}
		return "returned"
	case <-time.After(8 * time.Second):
		return "timeout"
	}
}

func (w *c17world) dialOp(tk []string) (string, bool) {
	if len(tk) < 3 || w.srv == nil {
		return "", false
	}
	n, err := strconv.Atoi(tk[2])
	if err != nil || n < 0 {
		return "", false
	}
	if tk[1] == "ddial" {
		k, f, ok := c17parseIdent(tk[len(tk)-1])
		if len(tk) != 4 || !ok || n != len(w.dials) || w.stopped {
			return "", false
		}
		w.accInit()
		in, err := w.newInst(k, f)
		if err != nil {
			w.incon = "a peer's router could not be made: " + err.Error()
			return "harness-error", true
		}
		d := &c17dialT{in: in, key: k, parked: make(chan string, 2), release: make(chan struct{}, 4), done: make(chan error, 1), phase: "connected"}
		w.rawMu.Lock()
		if w.dialByAddr == nil {
			w.dialByAddr = map[string]*c17dialT{}
		}
		w.dialByAddr[c17addrKey(in.r.ServerIdentity.Address)] = d
		w.rawMu.Unlock()
		w.dials = append(w.dials, d)
		go func() {
			_, err := w.srv.Send(in.r.ServerIdentity, &C17Msg{M: -1})
			d.done <- err
		}()
		o := d.wait("connect:before-register")
		if o == "closed" {
			// as for the sequential `dial`: the server's own send towards a listening peer failed
			d.phase = "closed"
			w.cs.Fail("dial-error", fmt.Sprintf("the server's send towards listening peer %d failed before its connection was registered", k))
			return "dial-error", true
		}
		if o != "at" {
			w.incon = "the server's connect did not reach its registration: " + o
			return "harness-error", true
		}
		return "connected", true
	}
	if n >= len(w.dials) {
		return "", false
	}
	d := w.dials[n]
	switch {
	case tk[1] == "dreg" && len(tk) == 3 && d.phase == "connected":
		d.release <- struct{}{}
		switch o := d.wait("connect:before-launch"); o {
		case "at":
			d.phase = "registered"
			if w.stopped {
				w.cs.Fail("registered-after-stop", fmt.Sprintf("the connection the server dialled to peer %d was registered after Router.Stop had returned", d.key))
			}
			return "registered", true
		case "closed":
			d.phase = "closed"
			return "closed", true
		default:
			// the held goroutine did not show up at its next point in time (a swamped machine): no verdict
			w.incon = "the server's connect did not reach its launch: " + o
			return "harness-error", true
		}
	case tk[1] == "dlaunch" && len(tk) == 3 && d.phase == "registered":
		d.release <- struct{}{}
		switch o := d.wait("-"); o {
		case "returned":
			d.phase = "running"
			// the peer's side registers the connection once the server's identity has arrived: a message the peer
			// sends before that would travel over a NEW connection the peer dials — an offer, which is filtered
			w.awaitPeerSide(d.in)
			return "launched", true
		case "closed":
			d.phase = "closed"
			return "closed", true
		default:
			w.incon = "the server's send did not return: " + o
			return "harness-error", true
		}
	case tk[1] == "dmsg" && len(tk) == 4 && d.phase == "running" && !w.stopped:
		m, err := strconv.ParseInt(tk[3], 10, 64)
		if err != nil {
			return "", false
		}
		d.in.r.Send(w.srv.ServerIdentity, &C17Msg{M: m})
		o := w.await(d.in, d.key, m)
		if o != fmt.Sprintf("dispatched:%d:%d", d.key, m) {
			w.cs.Fail("accepted-connection-dropped", fmt.Sprintf("message %d over the connection the server itself opened to peer %d: %q", m, d.key, o))
		}
		return o, true
	}
	return "", false
}

// awaitPeerSide waits until the peer's own router lists its connection with the server.
func (w *c17world) awaitPeerSide(in *c17inst) {
	id := w.srv.ServerIdentity.GetID()
	for i := 0; i < 6000 && in.r.VerifConnCount(id) == 0; i++ {
		time.Sleep(500 * time.Microsecond)
	}
}
