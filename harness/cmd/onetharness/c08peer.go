package main

// A deviating onet TLS peer, built from crypto/tls and kyber only: it
// reimplements the naming of keys in certificates (pubToCN), the DEDIS
// signature extension and the framing of onet messages, so that it can deviate
// from network/tls.go in every way the description of a case asks for. The
// honest side of every handshake is the real code in /repo.

import (
	"bytes"
	"crypto/ecdsa"
	"crypto/elliptic"
	"crypto/rand"
	"crypto/tls"
	"crypto/x509"
	"crypto/x509/pkix"
	"encoding/asn1"
	"encoding/binary"
	"encoding/hex"
	"errors"
	"fmt"
	"io"
	"math/big"
	"net"
	"net/url"
	"strings"
	"sync"
	"time"

	"go.dedis.ch/kyber/v3"
	"go.dedis.ch/kyber/v3/sign/schnorr"
	"go.dedis.ch/kyber/v3/suites"
	"go.dedis.ch/kyber/v3/util/key"
	"go.dedis.ch/onet/v3/network"
)

// the extension that carries the proof (network/tls.go: oidDedisSig)
var c08oid = asn1.ObjectIdentifier{1, 3, 6, 1, 4, 1, 51281, 1, 1}

const c08nonceSize = 32

// c08desc is one handshake description (the tokens of a `c08 hs` line).
type c08desc struct {
	role, suite, tlsv, op, them      string
	ncerts                           int
	der, signedby, time, uris, cn    string
	sig, nonce, id, via, live, decoy string
	// unauth: the honest router under test has UnauthOk set (as every simulation server has, also
	// over TLS): `c08 hsu …`. Nothing on a TLS connection may depend on it.
	unauth bool
}

var c08keysOrder = []string{"role", "suite", "tlsv", "op", "them", "ncerts", "der", "signedby", "time", "uris", "cn", "sig", "nonce", "id", "via", "live", "decoy"}

func (d c08desc) line() string {
	op := "hs"
	if d.unauth {
		op = "hsu"
	}
	return fmt.Sprintf("c08 "+op+" role=%s suite=%s tlsv=%s op=%s them=%s ncerts=%d der=%s signedby=%s time=%s uris=%s cn=%s sig=%s nonce=%s id=%s via=%s live=%s decoy=%s",
		d.role, d.suite, d.tlsv, d.op, d.them, d.ncerts, d.der, d.signedby, d.time, d.uris, d.cn, d.sig, d.nonce, d.id, d.via, d.live, d.decoy)
}

func c08in(s string, set ...string) bool {
	for _, x := range set {
		if s == x {
			return true
		}
	}
	return false
}

func c08isKey(s string) bool { return c08in(s, "h", "v", "a", "o") }

func c08isName(s string) bool {
	p := strings.Split(s, ":")
	if len(p) == 2 {
		// newup / newtail: other spellings pubFromCN decodes to the same key (upper-case hex
		// digits; bytes after the key)
		return c08in(p[0], "new", "old", "newup", "newtail") && c08isKey(p[1])
	}
	return s == "junk" || s == "empty"
}

// c08isID: `<k>` is the identity NewServerIdentity makes for key k; `<k>/<f>` carries the
// deprecated ID field of key f, `<k>/<f>/<addr>` also another declared address
// (tls: a TLS address, tcp: a plain TCP address, own: the honest node's own address).
func c08isID(s string) bool {
	p := strings.Split(s, "/")
	switch len(p) {
	case 1:
		return c08isKey(p[0])
	case 2:
		return c08isKey(p[0]) && c08isKey(p[1])
	case 3:
		return c08isKey(p[0]) && c08isKey(p[1]) && c08in(p[2], "tls", "tcp", "own")
	}
	return false
}

// idKey is the key the declared identity carries ("none" when no identity is sent).
func (d c08desc) idKey() string { return strings.Split(d.id, "/")[0] }

// c08timeValid: the certificate is inside its validity period on the honest node's clock.
func c08timeValid(t string) bool { return c08in(t, "ok", "endsoon", "juststarted") }

// c08parse accepts exactly what the Lean driver accepts.
func c08parse(line string) (c08desc, bool) {
	var d c08desc
	tk := strings.Fields(line)
	if len(tk) != 2+len(c08keysOrder) || tk[0] != "c08" || (tk[1] != "hs" && tk[1] != "hsu") {
		return d, false
	}
	m := map[string]string{}
	for _, t := range tk[2:] {
		kv := strings.Split(t, "=")
		if len(kv) != 2 {
			return d, false
		}
		if _, dup := m[kv[0]]; dup {
			return d, false
		}
		m[kv[0]] = kv[1]
	}
	for _, k := range c08keysOrder {
		if _, ok := m[k]; !ok {
			return d, false
		}
	}
	d = c08desc{role: m["role"], suite: m["suite"], tlsv: m["tlsv"], op: m["op"], them: m["them"], der: m["der"],
		signedby: m["signedby"], time: m["time"], uris: m["uris"], cn: m["cn"], sig: m["sig"], nonce: m["nonce"], id: m["id"], via: m["via"], live: m["live"], decoy: m["decoy"],
		unauth: tk[1] == "hsu"}
	n := m["ncerts"]
	if len(n) == 0 || len(n) > 3 {
		return d, false
	}
	for _, ch := range n {
		if ch < '0' || ch > '9' {
			return d, false
		}
		d.ncerts = d.ncerts*10 + int(ch-'0')
	}
	ok := c08in(d.role, "dial", "accept") && c08in(d.suite, "ed", "g1", "g2") && c08in(d.tlsv, "12", "13") &&
		c08isKey(d.op) && d.ncerts <= 3 && c08in(d.der, "ok", "bad", "two") && c08in(d.signedby, "self", "other") &&
		c08in(d.time, "ok", "expired", "future", "justexpired", "endsoon", "justfuture", "juststarted") && c08isName(d.cn) && c08in(d.nonce, "ok", "short", "none") &&
		c08in(d.via, "key", "relay") && c08in(d.live, "none", "v", "a", "o") && (d.role == "accept" || d.live == "none") &&
		(d.decoy == "none" || c08isName(d.decoy))
	if d.uris != "none" {
		for _, u := range strings.Split(d.uris, ",") {
			p := strings.Split(u, "@")
			switch {
			case len(p) == 1 && c08isName(p[0]):
			case len(p) == 2 && c08in(p[0], "svc", "http") && c08isName(p[1]):
			default:
				ok = false
			}
		}
	}
	if !c08in(d.sig, "none", "junk", "flip") {
		p := strings.Split(d.sig, "/")
		if len(p) != 3 || !c08isKey(p[0]) || !c08in(p[1], "cur", "stale", "foreign", "zero") || !c08isName(p[2]) {
			ok = false
		}
	}
	if d.role == "dial" {
		ok = ok && c08in(d.them, "v", "a", "o") && d.id == "-"
	} else {
		ok = ok && d.them == "-" && (d.id == "none" || c08isID(d.id))
	}
	return d, ok
}

// c08world is the key material of one case.
type c08world struct {
	suite  suites.Suite
	keys   map[string]*key.Pair
	tlsKey *ecdsa.PrivateKey // the deviating peer's TLS key
	other  *ecdsa.PrivateKey // another TLS key (for "not self-signed")
}

var c08suiteName = map[string]string{"ed": "Ed25519", "g1": "bn256.g1", "g2": "bn256.g2"}

func c08newWorld(suite string, h *key.Pair) *c08world {
	s := suites.MustFind(c08suiteName[suite])
	w := &c08world{suite: s, keys: map[string]*key.Pair{"h": h}}
	for _, l := range []string{"v", "a", "o"} {
		w.keys[l] = key.NewKeyPair(s)
	}
	w.tlsKey, _ = ecdsa.GenerateKey(elliptic.P256(), rand.Reader)
	w.other, _ = ecdsa.GenerateKey(elliptic.P256(), rand.Reader)
	return w
}

// c08pubToCN is network.pubToCN: "Z" followed by the hex form of the marshalled key.
func c08pubToCN(p kyber.Point) string {
	var b bytes.Buffer
	p.MarshalTo(&b)
	return "Z" + hex.EncodeToString(b.Bytes())
}

func (w *c08world) name(tok string) string {
	p := strings.Split(tok, ":")
	switch {
	case len(p) == 2 && p[0] == "new":
		return c08pubToCN(w.keys[p[1]].Public)
	case len(p) == 2 && p[0] == "old":
		return w.keys[p[1]].Public.String()
	case len(p) == 2 && p[0] == "newup":
		return "Z" + strings.ToUpper(c08pubToCN(w.keys[p[1]].Public)[1:])
	case len(p) == 2 && p[0] == "newtail":
		return c08pubToCN(w.keys[p[1]].Public) + "00ff"
	case tok == "empty":
		return ""
	}
	return "Zzz-this-names-no-key"
}

// label of a public key among the case's keys
func (w *c08world) label(p kyber.Point) string {
	for _, l := range []string{"h", "v", "a", "o"} {
		if p != nil && w.keys[l].Public.Equal(p) {
			return l
		}
	}
	return "?"
}

func c08rand(n int) []byte {
	const alpha = "abcdefghijklmnopqrstuvwxyzABCDEFGHIJKLMNOPQRSTUVWXYZ0123456789"
	b := make([]byte, n)
	rand.Read(b)
	for i := range b {
		b[i] = alpha[int(b[i])%len(alpha)]
	}
	return b
}

// proof computes the extension value asked for by d.sig; lifted, when not nil,
// is a signature obtained by a relay and is used as it is.
func (w *c08world) proof(d c08desc, cur, stale, lifted []byte) ([]byte, bool, error) {
	switch d.sig {
	case "none":
		return nil, false, nil
	case "junk":
		return c08rand(64), true, nil
	}
	if lifted != nil {
		return lifted, true, nil
	}
	signer, nonceTok, nameTok := "v", "cur", d.cn
	if d.sig != "flip" {
		p := strings.Split(d.sig, "/")
		signer, nonceTok, nameTok = p[0], p[1], p[2]
	} else {
		signer = d.op
	}
	var nonce []byte
	switch nonceTok {
	case "cur":
		nonce = cur
	case "stale":
		if stale == nil {
			return nil, false, errors.New("no stale nonce collected")
		}
		nonce = stale
	case "zero":
		nonce = make([]byte, c08nonceSize)
	default:
		nonce = c08rand(c08nonceSize)
	}
	der, err := asn1.Marshal(w.name(nameTok))
	if err != nil {
		return nil, false, err
	}
	sig, err := schnorr.Sign(w.suite, w.keys[signer].Private, append(append([]byte{}, nonce...), der...))
	if err != nil {
		return nil, false, err
	}
	if d.sig == "flip" {
		sig[len(sig)/2] ^= 0x04
	}
	return sig, true, nil
}

// cert builds the certificate chain described by d for the nonce the honest
// side sent in this handshake.
func (w *c08world) cert(d c08desc, cur, stale, lifted []byte) (*tls.Certificate, error) {
	sig, have, err := w.proof(d, cur, stale, lifted)
	if err != nil {
		return nil, err
	}
	nb, na := time.Now().Add(-5*time.Minute), time.Now().Add(2*time.Hour)
	switch d.time {
	case "expired":
		nb, na = time.Now().Add(-3*time.Hour), time.Now().Add(-1*time.Hour)
	case "future":
		nb, na = time.Now().Add(1*time.Hour), time.Now().Add(3*time.Hour)
	case "justexpired":
		nb, na = time.Now().Add(-2*time.Hour), time.Now().Add(-90*time.Second)
	case "endsoon":
		nb, na = time.Now().Add(-2*time.Hour), time.Now().Add(90*time.Second)
	case "justfuture":
		nb, na = time.Now().Add(90*time.Second), time.Now().Add(2*time.Hour)
	case "juststarted":
		nb, na = time.Now().Add(-90*time.Second), time.Now().Add(2*time.Hour)
	}
	serial := new(big.Int).SetBytes(c08rand(12))
	tmpl := &x509.Certificate{
		BasicConstraintsValid: true,
		ExtKeyUsage:           []x509.ExtKeyUsage{x509.ExtKeyUsageServerAuth, x509.ExtKeyUsageClientAuth},
		NotBefore:             nb,
		NotAfter:              na,
		SerialNumber:          serial,
		SignatureAlgorithm:    x509.ECDSAWithSHA384,
		Subject:               pkix.Name{CommonName: w.name(d.cn)},
	}
	if d.uris != "none" {
		for _, u := range strings.Split(d.uris, ",") {
			p := strings.Split(u, "@")
			var s string
			switch {
			case len(p) == 1:
				s = "onet-pubkey::" + w.name(p[0])
			case p[0] == "svc":
				s = "onet-pubkey:someservice:" + w.name(p[1])
			default:
				s = "http://example.org/" + w.name(p[1])
			}
			uu, err := url.Parse(s)
			if err != nil {
				return nil, err
			}
			tmpl.URIs = append(tmpl.URIs, uu)
		}
	}
	if have {
		tmpl.ExtraExtensions = []pkix.Extension{{Id: c08oid, Value: sig}}
	}
	signer := w.tlsKey
	if d.signedby == "other" {
		signer = w.other
	}
	cder, err := x509.CreateCertificate(rand.Reader, tmpl, tmpl, w.tlsKey.Public(), signer)
	if err != nil {
		return nil, err
	}
	switch d.der {
	case "bad":
		cder = append([]byte{0x30, 0x82, 0x01}, c08rand(40)...)
	case "two":
		cder = append(append([]byte{}, cder...), cder...)
	}
	c := &tls.Certificate{PrivateKey: w.tlsKey}
	if d.decoy != "none" {
		// one more certificate in front: the peer's TLS key, the decoy name, no URI, no proof
		dt := &x509.Certificate{
			BasicConstraintsValid: true,
			ExtKeyUsage:           []x509.ExtKeyUsage{x509.ExtKeyUsageServerAuth, x509.ExtKeyUsageClientAuth},
			NotBefore:             time.Now().Add(-5 * time.Minute),
			NotAfter:              time.Now().Add(2 * time.Hour),
			SerialNumber:          new(big.Int).SetBytes(c08rand(12)),
			SignatureAlgorithm:    x509.ECDSAWithSHA384,
			Subject:               pkix.Name{CommonName: w.name(d.decoy)},
		}
		dder, err := x509.CreateCertificate(rand.Reader, dt, dt, w.tlsKey.Public(), w.tlsKey)
		if err != nil {
			return nil, err
		}
		c.Certificate = append(c.Certificate, dder)
	}
	for i := 0; i < d.ncerts; i++ {
		c.Certificate = append(c.Certificate, cder)
	}
	return c, nil
}

func c08versions(cfg *tls.Config, v string) {
	if v == "12" {
		cfg.MinVersion, cfg.MaxVersion = tls.VersionTLS12, tls.VersionTLS12
	} else {
		cfg.MinVersion, cfg.MaxVersion = tls.VersionTLS13, tls.VersionTLS13
	}
}

// the nonce the deviating peer hands to the honest side
func c08peerNonce(kind string) []byte {
	switch kind {
	case "ok":
		return c08rand(c08nonceSize)
	case "short":
		return []byte("short")
	}
	return nil
}

func c08caPool(nonce []byte) *x509.CertPool {
	if nonce == nil {
		return nil
	}
	p := x509.NewCertPool()
	p.AddCert(&x509.Certificate{RawSubject: nonce})
	return p
}

// onet framing: 4-byte big-endian length, then network.Marshal(msg)
func c08writeMsg(c net.Conn, msg interface{}) error {
	b, err := network.Marshal(msg)
	if err != nil {
		return err
	}
	c.SetWriteDeadline(time.Now().Add(3 * time.Second))
	if err := binary.Write(c, binary.BigEndian, uint32(len(b))); err != nil {
		return err
	}
	_, err = c.Write(b)
	return err
}

func c08readFrame(c net.Conn, d time.Duration) ([]byte, error) {
	c.SetReadDeadline(time.Now().Add(d))
	var n uint32
	if err := binary.Read(c, binary.BigEndian, &n); err != nil {
		return nil, err
	}
	if n > 1<<20 {
		return nil, errors.New("frame too big")
	}
	b := make([]byte, n)
	_, err := io.ReadFull(c, b)
	return b, err
}

// C08Msg is the application message whose dispatch is observed.
type C08Msg struct {
	Tok string
}

var c08msgType = network.RegisterMessage(&C08Msg{})

// --------------------------------------------------------------------------
// deviating server (the honest node dials it)

type c08server struct {
	w      *c08world
	d      c08desc
	ln     net.Listener
	tok    string
	mu     sync.Mutex
	nonces [][]byte // server names seen, in order
	record bool     // preliminary run: only record the nonce and abort
	lift   func(nonce []byte) ([]byte, error)
	wg     sync.WaitGroup
	errs   []string
	// fault sequences (c08 retry): the first failFirst handshakes are answered as firstKind says
	// (nil: no certificate at all), the later ones as d
	failFirst int
	firstKind *c08desc
	// message phase (c08 phase): what is sent back after the honest router's identity, instead of the probe
	seq []c08item
}

func c08startServer(w *c08world, d c08desc, tok string) (*c08server, error) {
	s := &c08server{w: w, d: d, tok: tok}
	cfg := &tls.Config{
		ClientAuth: tls.RequireAnyClientCert,
		ClientCAs:  c08caPool(c08peerNonce(d.nonce)),
		GetCertificate: func(hello *tls.ClientHelloInfo) (*tls.Certificate, error) {
			nonce := []byte(hello.ServerName)
			s.mu.Lock()
			s.nonces = append(s.nonces, nonce)
			rec := s.record
			var stale []byte
			for _, n := range s.nonces {
				if !bytes.Equal(n, nonce) {
					stale = n
					break
				}
			}
			s.mu.Unlock()
			if rec {
				return nil, errors.New("only collecting the nonce")
			}
			s.mu.Lock()
			attempt, ff, fk := len(s.nonces), s.failFirst, s.firstKind
			s.mu.Unlock()
			if attempt <= ff {
				if fk == nil {
					return nil, errors.New("this attempt is aborted")
				}
				return w.cert(*fk, nonce, stale, nil)
			}
			if d.ncerts == 0 && d.decoy == "none" {
				return nil, errors.New("no certificate to present")
			}
			var lifted []byte
			if s.lift != nil && d.sig != "none" && d.sig != "junk" {
				var err error
				if lifted, err = s.lift(nonce); err != nil {
					s.note("relay: " + err.Error())
					return nil, err
				}
			}
			c, err := w.cert(d, nonce, stale, lifted)
			if err != nil {
				s.note("cert: " + err.Error())
			}
			return c, err
		},
	}
	c08versions(cfg, d.tlsv)
	ln, err := tls.Listen("tcp", "127.0.0.1:0", cfg)
	if err != nil {
		return nil, err
	}
	s.ln = ln
	go func() {
		for {
			c, err := ln.Accept()
			if err != nil {
				return
			}
			s.wg.Add(1)
			go s.serve(c.(*tls.Conn))
		}
	}()
	return s, nil
}

func (s *c08server) note(m string) {
	s.mu.Lock()
	s.errs = append(s.errs, m)
	s.mu.Unlock()
}

func (s *c08server) serve(c *tls.Conn) {
	defer s.wg.Done()
	defer c.Close()
	c.SetDeadline(time.Now().Add(5 * time.Second))
	if err := c.Handshake(); err != nil {
		return
	}
	// the honest router sends its identity first; then answer with the probe message
	if _, err := c08readFrame(c, 3*time.Second); err != nil {
		return
	}
	s.mu.Lock()
	seq := s.seq
	s.mu.Unlock()
	if seq != nil {
		if err := c08writeItems(c, s.w, seq, s.tok); err != nil {
			return
		}
	} else if err := c08writeMsg(c, &C08Msg{Tok: s.tok}); err != nil {
		return
	}
	for {
		if _, err := c08readFrame(c, 3*time.Second); err != nil {
			return
		}
	}
}

func (s *c08server) addr() string { return s.ln.Addr().String() }

func (s *c08server) close() {
	s.ln.Close()
	s.wg.Wait()
}

// --------------------------------------------------------------------------
// deviating client (it connects to the honest node's listener)

type c08clientResult struct {
	hs     string // ok | fail
	closed bool   // the honest side closed the connection
	why    string
}

// c08grabNonce connects to the honest listener just far enough to learn a
// nonce it hands out, then gives up (a "stale" nonce for the next connection).
func c08grabNonce(addr, tlsv string) ([]byte, error) {
	var got []byte
	cfg := &tls.Config{
		InsecureSkipVerify: true,
		ServerName:         string(c08rand(c08nonceSize)),
		GetClientCertificate: func(req *tls.CertificateRequestInfo) (*tls.Certificate, error) {
			if len(req.AcceptableCAs) > 0 {
				got = append([]byte{}, req.AcceptableCAs[0]...)
			}
			return nil, errors.New("only collecting the nonce")
		},
	}
	c08versions(cfg, tlsv)
	c, err := tls.DialWithDialer(&net.Dialer{Timeout: 3 * time.Second}, "tcp", addr, cfg)
	if err == nil {
		c.Close()
	}
	if got == nil {
		return nil, fmt.Errorf("no nonce received (%v)", err)
	}
	return got, nil
}

func c08alert(err error) bool {
	return err != nil && (strings.Contains(err.Error(), "remote error") || strings.Contains(err.Error(), "tls:"))
}

// c08runClient performs the described handshake against the honest listener at
// addr, then sends the identity message and the probe message. It returns when
// the honest side has closed the connection or done is closed (the probe
// message was dispatched).
func c08runClient(w *c08world, d c08desc, addr, tok string, stale []byte, lift func(nonce []byte) ([]byte, error),
	done <-chan struct{}) c08clientResult {
	addr0 := addr
	var certErr error
	cfg := &tls.Config{
		InsecureSkipVerify: true,
		ServerName:         string(c08peerNonce(d.nonce)),
		GetClientCertificate: func(req *tls.CertificateRequestInfo) (*tls.Certificate, error) {
			if d.ncerts == 0 && d.decoy == "none" {
				return &tls.Certificate{}, nil
			}
			if len(req.AcceptableCAs) == 0 {
				certErr = errors.New("honest listener sent no nonce")
				return nil, certErr
			}
			nonce := req.AcceptableCAs[0]
			var lifted []byte
			if lift != nil && d.sig != "none" && d.sig != "junk" {
				if lifted, certErr = lift(nonce); certErr != nil {
					return nil, certErr
				}
			}
			var c *tls.Certificate
			c, certErr = w.cert(d, nonce, stale, lifted)
			return c, certErr
		},
	}
	c08versions(cfg, d.tlsv)
	conn, err := tls.DialWithDialer(&net.Dialer{Timeout: 3 * time.Second}, "tcp", addr, cfg)
	if err != nil {
		why := err.Error()
		if certErr != nil {
			why = "harness: " + certErr.Error()
		}
		return c08clientResult{hs: "fail", why: why}
	}
	defer conn.Close()
	if d.tlsv == "13" {
		// under TLS 1.3 the client's handshake ends before the server has looked at
		// the client certificate: a refusal arrives as an alert right afterwards
		conn.SetReadDeadline(time.Now().Add(300 * time.Millisecond))
		var one [1]byte
		_, err := conn.Read(one[:])
		if ne, ok := err.(net.Error); !(ok && ne.Timeout()) {
			return c08clientResult{hs: "fail", why: fmt.Sprint(err)}
		}
	}
	if d.id != "none" {
		ip := strings.Split(d.id, "/")
		addr := network.NewTLSAddress("127.0.0.1:7")
		if len(ip) == 3 {
			switch ip[2] {
			case "tcp":
				addr = network.NewTCPAddress("127.0.0.1:7")
			case "own":
				addr = network.NewTLSAddress(addr0)
			}
		}
		si := network.NewServerIdentity(w.keys[ip[0]].Public, addr)
		if len(ip) >= 2 {
			// the deprecated field is whatever the sender writes: here the identifier of another key
			si.ID = network.NewServerIdentity(w.keys[ip[1]].Public, "").GetID()
		}
		if err := c08writeMsg(conn, si); err != nil {
			return c08clientResult{hs: "ok", closed: true, why: "write identity: " + err.Error()}
		}
	}
	if err := c08writeMsg(conn, &C08Msg{Tok: tok}); err != nil {
		return c08clientResult{hs: "ok", closed: true, why: "write message: " + err.Error()}
	}
	rd := make(chan error, 1)
	go func() {
		conn.SetReadDeadline(time.Now().Add(8 * time.Second))
		var b [64]byte
		for {
			if _, err := conn.Read(b[:]); err != nil {
				rd <- err
				return
			}
		}
	}()
	select {
	case <-done:
		return c08clientResult{hs: "ok"}
	case err := <-rd:
		if ne, ok := err.(net.Error); ok && ne.Timeout() {
			return c08clientResult{hs: "ok", why: "hang"}
		}
		if d.tlsv == "12" || !c08alert(err) {
			return c08clientResult{hs: "ok", closed: true, why: err.Error()}
		}
		return c08clientResult{hs: "fail", why: err.Error()}
	}
}
