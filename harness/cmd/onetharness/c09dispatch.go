package main

import (
	"fmt"
	"strconv"
	"sync"
	"sync/atomic"
	"time"

	"go.dedis.ch/onet/v3/network"
)

// C09, containment at the service level: the survivor's service manager hands every service message
// to its handler in a routine of its own, so handlers that are stuck (in sends towards a peer that
// went silent, say) keep nobody else's message from being handled.
//
//   svcblock <q> <n>   healthy peer q sends n service messages to the survivor whose handlers block
//                      (on a gate: what a send towards a silent peer does for minutes, without the 8 MB)
//   svcping <q> <n>    healthy peer q sends n service messages whose handlers return at once
//   svcrelease         the blocked handlers go on
//
// Oracle dispatch-waits-for-processors: every message is handed to its handler while any number of
// other handlers are stuck.

type C09Block struct{ I int64 }
type C09Ping struct{ I int64 }

var (
	c09blockType, c09pingType network.MessageTypeID
	c09svcOnce                sync.Once
	c09gateMu                 sync.Mutex
	c09svcGate                = make(chan struct{})
	c09blockedIn              int64 // handlers inside, blocked
	c09blockedEver            int64
	c09pings                  int64
)

func c09svcTypes() {
	c09svcOnce.Do(func() {
		c09blockType = network.RegisterMessage(&C09Block{})
		c09pingType = network.RegisterMessage(&C09Ping{})
	})
}

// c09svcHandlers is called by the constructor of the harness service on every server.
func c09svcHandlers(reg func(network.MessageTypeID, func(*network.Envelope) error)) {
	c09svcTypes()
	reg(c09blockType, func(*network.Envelope) error {
		c09gateMu.Lock()
		g := c09svcGate
		c09gateMu.Unlock()
		atomic.AddInt64(&c09blockedEver, 1)
		atomic.AddInt64(&c09blockedIn, 1)
		<-g
		atomic.AddInt64(&c09blockedIn, -1)
		return nil
	})
	reg(c09pingType, func(*network.Envelope) error {
		atomic.AddInt64(&c09pings, 1)
		return nil
	})
}

func (w *c09world) svcSend(qs, ns string, block bool) string {
	q, err1 := strconv.Atoi(qs)
	n, err2 := strconv.Atoi(ns)
	if err1 != nil || err2 != nil || q <= 0 || n <= 0 || n > 400 || len(w.raws[q]) > 0 {
		return "bad-op"
	}
	v := w.victim(q)
	if !v.up || v.frozen || v.isServer {
		return "bad-op"
	}
	beforeB, beforeP := atomic.LoadInt64(&c09blockedEver), atomic.LoadInt64(&c09pings)
	stuck := atomic.LoadInt64(&c09blockedIn)
	var err error
	if !w.guarded(w.allowed(1, 1)+10*time.Second, "hang", fmt.Sprintf("the sends of healthy peer %d to the survivor", q), func() {
		for i := 0; i < n && err == nil; i += 50 {
			var ms []network.Message
			for j := i; j < n && j < i+50; j++ {
				if block {
					ms = append(ms, &C09Block{I: w.seqNext()})
				} else {
					ms = append(ms, &C09Ping{I: w.seqNext()})
				}
			}
			_, err = v.r.Send(w.s.ServerIdentity, ms...)
		}
	}) {
		return "blocked"
	}
	got := func() int64 {
		if block {
			return atomic.LoadInt64(&c09blockedEver) - beforeB
		}
		return atomic.LoadInt64(&c09pings) - beforeP
	}
	if err == nil {
		for end := time.Now().Add(c09waitDeliver); got() < int64(n) && time.Now().Before(end); {
			time.Sleep(500 * time.Microsecond)
		}
	}
	// the property's own oracle
	if err != nil || got() < int64(n) {
		w.dead = true // nothing more is asked of this process
		w.cs.Fail("dispatch-waits-for-processors", fmt.Sprintf("healthy peer %d sent %d service message(s) to the survivor while %d handler(s) of earlier messages are stuck: send error %v, %d handed to their handlers within %v", q, n, stuck, err, got(), c09waitDeliver))
	}
	id := v.sid.GetID()
	if err == nil {
		for end := time.Now().Add(c09waitTable); w.connCount(id) < 1 && time.Now().Before(end) && !w.dead; {
			time.Sleep(time.Millisecond)
		}
		v.connected = true
	}
	res := "ok"
	if err != nil {
		res = "err"
	}
	if block {
		w.tag("svcblock:" + strconv.Itoa(int(atomic.LoadInt64(&c09blockedIn))/100*100) + "+")
		return fmt.Sprintf("%s blocked=%d conns=%d", res, atomic.LoadInt64(&c09blockedIn), w.connCount(id))
	}
	w.tag(fmt.Sprintf("svcping:stuck=%d+", stuck/100*100))
	return fmt.Sprintf("%s handled=%d conns=%d", res, got(), w.connCount(id))
}

func (w *c09world) svcRelease() string {
	n := atomic.LoadInt64(&c09blockedIn)
	c09gateMu.Lock()
	close(c09svcGate)
	c09svcGate = make(chan struct{})
	c09gateMu.Unlock()
	for end := time.Now().Add(c09waitDeliver); atomic.LoadInt64(&c09blockedIn) > 0 && time.Now().Before(end); {
		time.Sleep(500 * time.Microsecond)
	}
	if left := atomic.LoadInt64(&c09blockedIn); left > 0 {
		w.cs.Fail("harness", fmt.Sprintf("%d released handlers did not return", left))
	}
	return fmt.Sprintf("released=%d", n)
}
