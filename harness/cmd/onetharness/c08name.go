package main

// C08, round 7: the bytes of a key name — pubToCN / pubFromCN (network/tls.go) driven directly.
//
//   c08 cn suite=<ed|g1|g2|p256> name=<hex of the bytes of a common name> pts=<hex>:<1|0>,…|-
//       network.VerifPubFromCN(suite, name). pts carries what the real UnmarshalBinary says about the byte
//       strings the generator built the name from (the group is a parameter of the model).
//       Observation: cn=ok:<hex of the marshalled key> | cn=err:<empty|hex|short|point>
//   c08 tocn suite=<…> key=<hex of a marshalled key>
//       network.VerifPubToCN(point). Observation: name=<hex of the name's bytes>
//
// Oracles, independent of the model: the name pubToCN writes decodes to the key it was made from
// (name-roundtrip); whatever pubFromCN returns is spelled in the name it was handed
// (name-decodes-to-unnamed-key); no panic on any string.

import (
	"encoding/hex"
	"fmt"
	"strings"

	"go.dedis.ch/kyber/v3"
	"go.dedis.ch/kyber/v3/suites"
	"go.dedis.ch/onet/v3/network"
	"onetverif/harness/h"
)

var c08nameSuites = []string{"ed", "g1", "g2", "p256"}

func c08nameSuite(s string) (suites.Suite, bool) {
	n, ok := map[string]string{"ed": "Ed25519", "g1": "bn256.g1", "g2": "bn256.g2", "p256": "P256"}[s]
	if !ok {
		return nil, false
	}
	return suites.MustFind(n), true
}

var c08nameLen = map[string]int{"ed": 32, "g1": 64, "g2": 128, "p256": 65}

func c08hexTok(b []byte) string {
	if len(b) == 0 {
		return "-"
	}
	return hex.EncodeToString(b)
}

func c08unhexTok(s string) ([]byte, bool) {
	if s == "-" {
		return nil, true
	}
	b, err := hex.DecodeString(s)
	return b, err == nil
}

func c08parsePts(s string) bool {
	if s == "-" {
		return true
	}
	for _, e := range strings.Split(s, ",") {
		p := strings.Split(e, ":")
		if len(p) != 2 || (p[1] != "0" && p[1] != "1") {
			return false
		}
		if _, ok := c08unhexTok(p[0]); !ok {
			return false
		}
	}
	return true
}

func c08cnErrClass(e string) string {
	switch {
	case strings.Contains(e, "missing a type byte"):
		return "empty"
	case strings.HasPrefix(e, "decoding key:"):
		return "hex"
	case strings.HasPrefix(e, "unmarshaling:"):
		if strings.Contains(e, "EOF") {
			return "short"
		}
		return "point"
	case strings.HasPrefix(e, "encoding key:"):
		if strings.Contains(e, "didn't get enough") {
			return "short"
		}
		if strings.Contains(e, "encoding/hex") {
			return "hex"
		}
		return "point"
	}
	return "other(" + e + ")"
}

func c08cn(tk []string, cs *h.Case) (string, string) {
	m, ok := c08kv(tk, "suite", "name", "pts")
	if !ok {
		return "bad-op", ""
	}
	suite, ok := c08nameSuite(m["suite"])
	name, ok2 := c08unhexTok(m["name"])
	if !ok || !ok2 || !c08parsePts(m["pts"]) {
		return "bad-op", ""
	}
	if suite.Point().MarshalSize() != c08nameLen[m["suite"]] {
		cs.Fail("harness", "MarshalSize of "+m["suite"]+" is not what the model assumes")
	}
	pt, err := network.VerifPubFromCN(suite, string(name))
	if err != nil {
		return "cn=err:" + c08cnErrClass(err.Error()), ""
	}
	b, _ := pt.MarshalBinary()
	if !strings.Contains(strings.ToLower(string(name)), hex.EncodeToString(b)) {
		cs.Fail("name-decodes-to-unnamed-key:"+m["suite"], fmt.Sprintf("pubFromCN(%q) returned the key %x, which the name does not spell", string(name), b))
	}
	return "cn=ok:" + c08hexTok(b), ""
}

func c08tocn(tk []string, cs *h.Case) (string, string) {
	m, ok := c08kv(tk, "suite", "key")
	if !ok {
		return "bad-op", ""
	}
	suite, ok := c08nameSuite(m["suite"])
	kb, ok2 := c08unhexTok(m["key"])
	if !ok || !ok2 || len(kb) != c08nameLen[m["suite"]] {
		return "bad-op", ""
	}
	pt := suite.Point()
	if err := pt.UnmarshalBinary(kb); err != nil {
		cs.Fail("harness", "tocn: the generator handed bytes that are no point: "+err.Error())
		return "harness-error", ""
	}
	name := network.VerifPubToCN(pt)
	back, err := network.VerifPubFromCN(suite, name)
	switch {
	case err != nil:
		cs.Fail("name-roundtrip:"+m["suite"], "pubFromCN refuses the name pubToCN made: "+err.Error())
	case !back.Equal(pt):
		cs.Fail("name-roundtrip:"+m["suite"], fmt.Sprintf("pubFromCN(pubToCN(k)) is another key: name %q", name))
	}
	return "name=" + c08hexTok([]byte(name)), ""
}

// c08nameGen: names built from byte strings the generator knows (so it can tell the model what the real
// UnmarshalBinary says about them), spelled in every way the decoder could read or refuse.
func c08nameGen(c *h.Ctx, yield func(*h.Case)) {
	verdict := func(suite kyber.Group, b []byte) string {
		v := "0"
		if suite.Point().UnmarshalBinary(b) == nil {
			v = "1"
		}
		return hex.EncodeToString(b) + ":" + v
	}
	emit := func(class, suiteN string, name []byte, tbl []string) {
		c.Count("class=cn")
		c.Count("cn-shape=" + class)
		pts := "-"
		if len(tbl) > 0 {
			pts = strings.Join(tbl, ",")
		}
		yield(&h.Case{Class: "cn:" + class, Ops: []string{fmt.Sprintf("c08 cn suite=%s name=%s pts=%s", suiteN, c08hexTok(name), pts)}})
	}
	upperSome := func(s string, all bool) string {
		b := []byte(s)
		for i := range b {
			if b[i] >= 'a' && b[i] <= 'f' && (all || c.Rng.Intn(2) == 0) {
				b[i] -= 32
			}
		}
		return string(b)
	}
	for _, suiteN := range c08nameSuites {
		suite, _ := c08nameSuite(suiteN)
		n := c08nameLen[suiteN]
		// the canonical name of real keys, and its round trip
		for i := 0; i < c.Pick(6, 60); i++ {
			p := suite.Point().Pick(suite.RandomStream())
			kb, _ := p.MarshalBinary()
			c.Count("class=tocn")
			yield(&h.Case{Class: "tocn:" + suiteN, Ops: []string{
				fmt.Sprintf("c08 tocn suite=%s key=%s", suiteN, hex.EncodeToString(kb)),
				fmt.Sprintf("c08 cn suite=%s name=%s pts=%s", suiteN, hex.EncodeToString([]byte("Z"+hex.EncodeToString(kb))), verdict(suite, kb)),
			}})
		}
		emit("empty", suiteN, nil, nil)
		emit("type-byte-only", suiteN, []byte("Z"), nil)
		emit("lower-z", suiteN, []byte("z"), nil)
		for i := 0; i < c.Pick(40, 700); i++ {
			// the bytes
			var b []byte
			kind := c.Rng.Intn(6)
			switch kind {
			case 0, 1:
				p := suite.Point().Pick(suite.RandomStream())
				b, _ = p.MarshalBinary()
			case 2:
				b = make([]byte, n)
				c.Rng.Read(b)
			case 3:
				p := suite.Point().Pick(suite.RandomStream())
				b, _ = p.MarshalBinary()
				tail := make([]byte, 1+c.Rng.Intn(5))
				c.Rng.Read(tail)
				b = append(b, tail...)
			case 4:
				b = make([]byte, c.Rng.Intn(n))
				c.Rng.Read(b)
			default:
				// a valid key with one byte changed
				p := suite.Point().Pick(suite.RandomStream())
				b, _ = p.MarshalBinary()
				b[c.Rng.Intn(len(b))] ^= byte(1 + c.Rng.Intn(255))
			}
			var tbl []string
			if len(b) >= n {
				tbl = append(tbl, verdict(suite, b[:n]))
			}
			// the spelling
			sp := hex.EncodeToString(b)
			shape := []string{"valid", "valid", "random", "tail", "short", "damaged"}[kind]
			switch c.Rng.Intn(4) {
			case 1:
				sp = upperSome(sp, false)
				shape += "+mixed-case"
			case 2:
				sp = upperSome(sp, true)
				shape += "+upper"
			}
			style := c.Rng.Intn(3)
			if style < 2 {
				sp = "Z" + sp
				shape = "new:" + shape
			} else {
				shape = "old:" + shape
			}
			switch c.Rng.Intn(7) {
			case 0:
				// a character that is no hex digit, anywhere (also behind what the old-style reader looks at)
				pos := c.Rng.Intn(len(sp) + 1)
				ch := []byte("gZz :-\x00G~")[c.Rng.Intn(9)]
				sp = sp[:pos] + string(ch) + sp[pos:]
				if pos == 0 {
					shape = "other-first-byte:" + shape
				} else {
					shape += "+non-hex"
				}
			case 1:
				if len(sp) > 0 {
					sp = sp[:len(sp)-1]
					shape += "+odd"
				}
			case 2:
				if len(sp) > 2 {
					sp = sp[:c.Rng.Intn(len(sp))]
					shape += "+cut"
				}
			}
			// every n-byte string an old- or new-style reading of the final spelling can reach
			for _, cand := range []string{sp, strings.TrimPrefix(sp, "Z")} {
				if len(cand) >= 2*n {
					if bb, err := hex.DecodeString(cand[:2*n]); err == nil {
						tbl = append(tbl, verdict(suite, bb))
					}
				}
			}
			emit(shape, suiteN, []byte(sp), tbl)
		}
	}
	for _, l := range []string{
		"c08 cn suite=ed name=5a pts=-", // valid: "Z"
		"c08 cn suite=ed name=5a",
		"c08 cn suite=x25519 name=5a pts=-",
		"c08 cn suite=ed name=5 pts=-",
		"c08 cn suite=ed name=5a pts=zz:1",
		"c08 cn suite=ed name=5a pts=00:2",
		"c08 tocn suite=ed key=00",
		"c08 tocn suite=ed",
		"c08 tocn key=00 suite=ed extra=1",
	} {
		c.Count("class=malformed")
		yield(&h.Case{Class: "malformed", Ops: []string{l}, Trivial: true})
	}
}
