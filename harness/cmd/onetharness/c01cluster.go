package main

import (
	"fmt"
	"math/rand"
	"sort"
	"strconv"
	"strings"
	"sync"
	"time"

	"go.dedis.ch/onet/v3"
	"onetverif/harness/fix"
	"onetverif/harness/h"
)

// C01 (b): real cluster runs without schedule control. k servers, several
// concurrent runs of the recording protocol over shared trees; the harness
// plays the protocol logic from outside: it picks an instance that already
// exists and lets it send to a node / its children / its parent / everybody.
// Trees reach the other servers only through onet's own request/response.
// Oracle: the multiset of (destination instance, value) handled equals the
// multiset sent; nothing is handled by any other instance.

func c01cluster(c *h.Ctx, cs *h.Case) {
	fixMu.Lock()
	defer fixMu.Unlock()
	tk := strings.Fields(cs.Ops[0])
	nsrv, _ := strconv.Atoi(tk[2])
	tcp := tk[3] == "1"
	nruns, _ := strconv.Atoi(tk[4])
	nsends, _ := strconv.Atoi(tk[5])
	seed, _ := strconv.ParseInt(tk[6], 10, 64)
	cs.NoModel = true
	cs.Impl = []string{"ok"}
	cl := fix.NewCluster(nsrv, tcp)
	defer func() {
		fix.DoneAll()
		cl.Close()
	}()
	fix.ResetRecs()
	fix.Prepare = func(rec *fix.Rec) {
		rec.OnEnter = func(d fix.Delivery) {
			if d.Ty == 3 && len(d.Items) == 1 && d.Items[0].V%4 == 0 {
				time.Sleep(400 * time.Microsecond)
			}
		}
	}
	defer func() { fix.Prepare = nil }()
	trees := []*onet.Tree{cl.Roster.GenerateNaryTree(2), cl.Roster.GenerateNaryTree(3), cl.Roster.GenerateStar()}
	type want struct{ tok string }
	var mu sync.Mutex
	expected := map[int]map[string]int{} // value -> instance token id -> count
	var wg sync.WaitGroup
	val := 0
	nextVal := func() int { mu.Lock(); defer mu.Unlock(); val++; return val }
	var errs []string
	for run := 0; run < nruns; run++ {
		wg.Add(1)
		go func(run int) {
			defer wg.Done()
			r := rand.New(rand.NewSource(seed*1000 + int64(run)))
			tree := trees[r.Intn(len(trees))]
			pi, err := cl.L.CreateProtocol(fix.ProtoName, tree)
			if err != nil {
				mu.Lock()
				errs = append(errs, err.Error())
				mu.Unlock()
				return
			}
			rootTok := pi.Token()
			tokOf := func(n *onet.TreeNode) *onet.Token {
				t := rootTok.Clone()
				t.TreeNodeID = n.ID
				return t
			}
			nodes := tree.List()
			known := []*onet.TreeNode{tree.Root}
			isKnown := map[string]bool{tree.Root.ID.String(): true}
			expect := func(n *onet.TreeNode, v int) {
				mu.Lock()
				if expected[v] == nil {
					expected[v] = map[string]int{}
				}
				expected[v][fix.TokenKey(tokOf(n))]++
				mu.Unlock()
				if !isKnown[n.ID.String()] {
					isKnown[n.ID.String()] = true
					known = append(known, n)
				}
			}
			// on a stream transport some messages are big enough to arrive in several reads, directly
			// followed by the next frame on the same connection
			msgFor := func(v int) interface{} {
				if tcp && r.Intn(3) == 0 {
					return fix.BigPayload(v, 40000+r.Intn(300000))
				}
				return &fix.M3{V: v}
			}
			for s := 0; s < nsends; s++ {
				src := known[r.Intn(len(known))]
				var rec *fix.Rec
				for try := 0; try < 500 && rec == nil; try++ {
					rec = fix.RecOf(tokOf(src))
					if rec == nil {
						time.Sleep(10 * time.Millisecond) // its first message is still on the way
					}
				}
				if rec == nil {
					mu.Lock()
					errs = append(errs, fmt.Sprintf("run %d: instance at node %v never appeared", run, src.RosterIndex))
					mu.Unlock()
					return
				}
				v := nextVal()
				var err error
				switch x := r.Intn(10); {
				case x < 4:
					dst := nodes[r.Intn(len(nodes))]
					if dst == src {
						continue
					}
					expect(dst, v)
					err = rec.Tni.SendTo(dst, msgFor(v))
				case x < 7:
					if len(src.Children) == 0 {
						continue
					}
					for _, ch := range src.Children {
						expect(ch, v)
					}
					err = rec.Tni.SendToChildren(msgFor(v))
				case x < 9:
					if src.Parent == nil {
						continue
					}
					expect(src.Parent, v)
					err = rec.Tni.SendToParent(msgFor(v))
				default:
					for _, n := range nodes {
						if n != src {
							expect(n, v)
						}
					}
					es := rec.Tni.Broadcast(msgFor(v))
					if len(es) > 0 {
						err = es[0]
					}
				}
				if err != nil {
					mu.Lock()
					errs = append(errs, fmt.Sprintf("run %d: send %d: %v", run, v, err))
					mu.Unlock()
				}
			}
			// a burst towards one instance whose handler is slow: a backlog builds up behind the running
			// handler while more messages keep arriving (each must still be handled exactly once)
			if len(nodes) > 1 {
				src := tree.Root
				dst := nodes[1+r.Intn(len(nodes)-1)]
				if rec := fix.RecOf(tokOf(src)); rec != nil {
					for b := 0; b < 24; b++ {
						v := nextVal()
						expect(dst, v)
						if err := rec.Tni.SendTo(dst, msgFor(v)); err != nil {
							mu.Lock()
							errs = append(errs, fmt.Sprintf("run %d: burst send %d: %v", run, v, err))
							mu.Unlock()
						}
						if b%6 == 5 {
							time.Sleep(300 * time.Microsecond)
						}
					}
				}
			}
		}(run)
	}
	wg.Wait()
	// collect what every instance handled
	got := map[int]map[string]int{}
	collect := func() int {
		n := 0
		for _, rec := range fix.AllRecs() {
			tok := fix.TokenKey(rec.Tni.Token())
			for _, d := range rec.Drain() {
				if d.Ty != 3 {
					continue
				}
				for _, it := range d.Items {
					if got[it.V] == nil {
						got[it.V] = map[string]int{}
					}
					got[it.V][tok]++
				}
			}
		}
		for _, m := range got {
			for _, k := range m {
				n += k
			}
		}
		return n
	}
	total := 0
	for _, m := range expected {
		for _, k := range m {
			total += k
		}
	}
	deadline := time.Now().Add(15 * time.Second)
	for collect() < total && time.Now().Before(deadline) {
		time.Sleep(20 * time.Millisecond)
	}
	time.Sleep(50 * time.Millisecond)
	n := collect()
	for _, e := range errs {
		cs.Fail("send-error", e)
	}
	var vs []int
	for v := range expected {
		vs = append(vs, v)
	}
	sort.Ints(vs)
	for _, v := range vs {
		for tok, k := range expected[v] {
			if got[v][tok] < k {
				cs.Fail("lost", fmt.Sprintf("value %d: sent %d time(s) to instance %s, handled %d time(s) after 15 s", v, k, tok[len(tok)-36:], got[v][tok]))
			} else if got[v][tok] > k {
				cs.Fail("duplicated", fmt.Sprintf("value %d: sent %d time(s) to instance %s, handled %d time(s)", v, k, tok[len(tok)-36:], got[v][tok]))
			}
		}
	}
	for v, m := range got {
		for tok := range m {
			if v < 0 {
				cs.Fail("content-changed", fmt.Sprintf("the payload of value %d arrived changed at instance %s", -v-1, tok[len(tok)-36:]))
			} else if expected[v][tok] == 0 {
				cs.Fail("wrong-instance", fmt.Sprintf("value %d handled by instance %s which it was not sent to", v, tok[len(tok)-36:]))
			}
		}
	}
	cs.Outcome = fmt.Sprintf("cluster servers=%d tcp=%v runs=%d deliveries=%d/%d", nsrv, tcp, nruns, n, total)
}
