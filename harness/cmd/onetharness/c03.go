package main

import (
	"bytes"
	"encoding/hex"
	"errors"
	"fmt"
	"io"
	"math/rand"
	"net"
	"sort"
	"strconv"
	"strings"
	"sync"
	"sync/atomic"
	"syscall"
	"time"

	"go.dedis.ch/kyber/v3"
	"go.dedis.ch/kyber/v3/pairing/bn256"
	"go.dedis.ch/kyber/v3/util/key"
	"go.dedis.ch/onet/v3/log"
	"go.dedis.ch/onet/v3/network"
	"golang.org/x/xerrors"
	"onetverif/harness/fix"
	"onetverif/harness/h"
)

// C03: wire integrity. Five kinds of operations (see lean/OnetVerif/Model/C03.lean, Drv.step):
//
//   cfg <max|gen> <registered type ids> <undecodable buffers>
//   raw <frames> <tail> <chunks>    real sendRaw -> re-chunking writer -> net.Pipe -> real receiveRaw
//   unm <buffer>                    network.Unmarshal
//   loop <frames> <tail> <chunks>   the same stream into a real Router (handleConn) through a
//                                   pipe-backed Host; Receive results, dispatches and the close are logged
//   send <tcp|local>/<chunks> <buffers>
//                                   Router.Send between two real routers (TCP: through a re-chunking
//                                   proxy; local: in-memory transport)
//
// Every case runs in its own sub-process (Isolate), so a crash or a hang of the code under test is
// an observation.

// ---------------------------------------------------------------------------------------------
// message shapes

type c03Inner struct {
	A int32
	B []byte
	S string
}

type c03Nested struct {
	I c03Inner
	L []c03Inner
	P *c03Inner
	Q *c03Inner
	N [][]byte
}

type c03Ints struct {
	I   int
	I32 int32
	I64 int64
	U32 uint32
	U64 uint64
	B   bool
	F   float64
	LI  []int64
	LU  []uint32
	LS  []string
}

type c03Bytes struct{ B []byte }

type c03Points struct {
	P  kyber.Point
	S  kyber.Scalar
	Ps []kyber.Point
	Ss []kyber.Scalar
}

// c03Unreg is never registered: sending it must fail at the sender.
type c03Unreg struct{ X int32 }

var c03types []network.MessageTypeID

func init() {
	c03types = network.RegisterMessages(&c03Inner{}, &c03Nested{}, &c03Ints{}, &c03Bytes{}, &c03Points{})
	h.RegisterProp(h.Prop{Name: "c03", Gen: c03gen, Exec: c03exec, Isolate: true, Workers: 8, Timeout: 40 * time.Second})
}

// integer edge values inside the lossless range of the encoding library: its zig-zag step shifts
// an int64 left by one, so |v| must stay below 2^62.
var c03edge64 = []int64{0, 1, -1, 127, 128, -128, 1<<31 - 1, -1 << 31, 1 << 32, 1<<62 - 1, -1 << 62}
var c03edge32 = []int32{0, 1, -1, 63, 64, -64, -65, 1<<31 - 1, -1 << 31}
var c03edgeU64 = []uint64{0, 1, 127, 128, 1<<32 - 1, 1 << 32, 1<<63 - 1, 1 << 63, 1<<64 - 1}

func c03bytes(r *rand.Rand, n int) []byte {
	b := make([]byte, n)
	r.Read(b)
	return b
}

func c03inner(r *rand.Rand) c03Inner {
	v := c03Inner{A: c03edge32[r.Intn(len(c03edge32))]}
	if r.Intn(3) > 0 {
		v.B = c03bytes(r, r.Intn(40))
	}
	if r.Intn(3) > 0 {
		v.S = string(c03bytes(r, r.Intn(12)))
	}
	return v
}

func c03seed(r *rand.Rand) []byte { return c03bytes(r, 16) }

func c03point(r *rand.Rand, bn bool) kyber.Point {
	if bn {
		switch r.Intn(3) {
		case 0:
			g := bn256.NewSuiteG1()
			return g.Point().Pick(g.XOF(c03seed(r)))
		case 1:
			g := bn256.NewSuiteG2()
			return g.Point().Pick(g.XOF(c03seed(r)))
		default:
			g := bn256.NewSuiteGT()
			return g.Point().Pick(g.XOF(c03seed(r)))
		}
	}
	switch r.Intn(6) {
	case 0:
		return fix.Suite.Point().Base()
	case 1:
		return fix.Suite.Point().Null()
	}
	return fix.Suite.Point().Pick(fix.Suite.XOF(c03seed(r)))
}

func c03scalar(r *rand.Rand, bn bool) kyber.Scalar {
	if bn {
		g := bn256.NewSuiteG1()
		return g.Scalar().Pick(g.XOF(c03seed(r)))
	}
	switch r.Intn(6) {
	case 0:
		return fix.Suite.Scalar().Zero()
	case 1:
		return fix.Suite.Scalar().One()
	}
	return fix.Suite.Scalar().Pick(fix.Suite.XOF(c03seed(r)))
}

// c03value draws a value of one of the registered shapes; the returned string names the shape.
func c03value(r *rand.Rand) (interface{}, string) {
	switch r.Intn(8) {
	case 0:
		v := c03inner(r)
		return &v, "inner"
	case 1, 2:
		v := &c03Nested{I: c03inner(r)}
		for i := r.Intn(4); i > 0; i-- {
			v.L = append(v.L, c03inner(r))
		}
		if r.Intn(2) == 0 {
			x := c03inner(r)
			v.P = &x
		}
		if r.Intn(4) == 0 {
			v.Q = &c03Inner{}
		}
		for i := r.Intn(4); i > 0; i-- {
			v.N = append(v.N, c03bytes(r, r.Intn(9)))
		}
		return v, "nested"
	case 3:
		v := &c03Ints{
			I:   int(c03edge64[r.Intn(len(c03edge64))]),
			I32: c03edge32[r.Intn(len(c03edge32))],
			I64: c03edge64[r.Intn(len(c03edge64))],
			U32: uint32(c03edgeU64[r.Intn(len(c03edgeU64))]),
			U64: c03edgeU64[r.Intn(len(c03edgeU64))],
			B:   r.Intn(2) == 0,
			F:   float64(r.Intn(1000)) / 8,
		}
		for i := r.Intn(5); i > 0; i-- {
			v.LI = append(v.LI, c03edge64[r.Intn(len(c03edge64))])
			v.LU = append(v.LU, uint32(c03edgeU64[r.Intn(len(c03edgeU64))]))
		}
		for i := r.Intn(3); i > 0; i-- {
			v.LS = append(v.LS, string(c03bytes(r, r.Intn(5))))
		}
		return v, "ints"
	case 4:
		return &c03Bytes{}, "empty"
	case 5:
		return &c03Bytes{B: c03bytes(r, r.Intn(300))}, "bytes"
	default:
		bn := r.Intn(3) == 0
		v := &c03Points{}
		if r.Intn(5) > 0 {
			v.P = c03point(r, bn)
		}
		if r.Intn(5) > 0 {
			v.S = c03scalar(r, bn)
		}
		for i := r.Intn(3); i > 0; i-- {
			v.Ps = append(v.Ps, c03point(r, bn))
		}
		for i := r.Intn(3); i > 0; i-- {
			v.Ss = append(v.Ss, c03scalar(r, bn))
		}
		if bn {
			return v, "bn256"
		}
		return v, "ed25519"
	}
}

// c03sized builds a byte-string message whose marshalled length is exactly n (n >= 21).
func c03sized(r *rand.Rand, n int) []byte {
	for l := n - 16; l >= 0; l-- {
		b, err := network.Marshal(&c03Bytes{B: c03bytes(r, l)})
		if err == nil && len(b) == n {
			return b
		}
		if err == nil && len(b) < n {
			break
		}
	}
	return nil
}

// ---------------------------------------------------------------------------------------------
// helpers

func c03hexList(s string) ([][]byte, bool) {
	if s == "-" {
		return nil, true
	}
	var out [][]byte
	for _, p := range strings.Split(s, ",") {
		if p == "-" {
			out = append(out, []byte{})
			continue
		}
		b, err := hex.DecodeString(p)
		if err != nil {
			return nil, false
		}
		out = append(out, b)
	}
	return out, true
}

func c03unhex(s string) ([]byte, bool) {
	if s == "-" {
		return []byte{}, true
	}
	b, err := hex.DecodeString(s)
	return b, err == nil
}

func c03ints(s string) ([]int, bool) {
	if s == "-" {
		return nil, true
	}
	var out []int
	for _, p := range strings.Split(s, ",") {
		v, err := strconv.Atoi(p)
		if err != nil || v < 0 {
			return nil, false
		}
		out = append(out, v)
	}
	return out, true
}

func c03joinHex(l [][]byte) string {
	if len(l) == 0 {
		return "-"
	}
	s := make([]string, len(l))
	for i, b := range l {
		s[i] = h.Hex(b)
	}
	return strings.Join(s, ",")
}

// c03class maps an error of Receive / receiveRaw / Unmarshal to the model's small enum.
func c03class(err error) string {
	switch {
	case err == nil:
		return "ok"
	case strings.Contains(err.Error(), "too big packet"):
		return "toobig"
	case xerrors.Is(err, network.ErrEOF):
		return "eof"
	case xerrors.Is(err, network.ErrClosed):
		return "closed"
	case xerrors.Is(err, network.ErrTimeout):
		return "timeout"
	case xerrors.Is(err, network.ErrCanceled):
		return "canceled"
	case xerrors.Is(err, network.ErrUnknown):
		return "neterr"
	case strings.Contains(err.Error(), "not registered"):
		return "unknown"
	case strings.Contains(err.Error(), "decoding:"):
		return "decode"
	case strings.Contains(err.Error(), "buffer read"):
		return "short"
	}
	return "other"
}

// c03unmarshal calls the real Unmarshal; a panic is reported as class "panic".
func c03unmarshal(buf []byte) (v interface{}, class string) {
	defer func() {
		if r := recover(); r != nil {
			v, class = nil, "panic"
		}
	}()
	_, v, err := network.Unmarshal(buf, fix.Suite)
	return v, c03class(err)
}

// c03chunker is the re-chunking writer: whatever the sender writes leaves in segments of the
// given sizes (zero sizes are skipped; what is left after the last size leaves in one piece when
// the stream is flushed).
type c03chunker struct {
	net.Conn
	sizes []int
	buf   []byte
	// after stallAt bytes (>= 0) the writer stalls once for `stall`, then goes on with the sizes `post`
	stallAt int
	stall   time.Duration
	post    []int
	emitted int
	stalled bool
}

func (k *c03chunker) stallNow() {
	if k.stallAt >= 0 && !k.stalled && k.emitted >= k.stallAt {
		k.stalled = true
		time.Sleep(k.stall)
		k.sizes = k.post
	}
}

func (k *c03chunker) emit(final bool) error {
	for len(k.buf) > 0 {
		k.stallNow()
		for len(k.sizes) > 0 && k.sizes[0] == 0 {
			k.sizes = k.sizes[1:]
		}
		n := len(k.buf)
		if len(k.sizes) > 0 {
			if k.sizes[0] > n {
				if !final {
					return nil
				}
			} else {
				n = k.sizes[0]
			}
			k.sizes = k.sizes[1:]
		} else if !final {
			return nil
		}
		if k.stallAt >= 0 && !k.stalled && k.emitted+n > k.stallAt {
			n = k.stallAt - k.emitted
		}
		if _, err := k.Conn.Write(k.buf[:n]); err != nil {
			return err
		}
		k.buf = k.buf[n:]
		k.emitted += n
	}
	return nil
}

func (k *c03chunker) Write(p []byte) (int, error) {
	k.buf = append(k.buf, p...)
	if err := k.emit(false); err != nil {
		return 0, err
	}
	return len(p), nil
}

func (k *c03chunker) Flush() error { return k.emit(true) }

// ---------------------------------------------------------------------------------------------
// pipe-backed Host and recording Conn for the loop operation

type c03host struct {
	mu        sync.Mutex
	fn        func(network.Conn)
	quit      chan bool
	listening bool
}

func (x *c03host) Listen(fn func(network.Conn)) error {
	x.mu.Lock()
	x.fn, x.listening = fn, true
	x.mu.Unlock()
	<-x.quit
	return nil
}
func (x *c03host) Stop() error {
	x.mu.Lock()
	defer x.mu.Unlock()
	if x.listening {
		close(x.quit)
		x.listening = false
	}
	return nil
}
func (x *c03host) Address() network.Address { return network.NewTCPAddress("127.0.0.1:1") }
func (x *c03host) Listening() bool {
	x.mu.Lock()
	defer x.mu.Unlock()
	return x.listening
}
func (x *c03host) Connect(si *network.ServerIdentity) (network.Conn, error) {
	return nil, errors.New("the pipe host does not open connections")
}

type c03entry struct {
	kind string // ok | err | disp | close
	what string
	// for "ok": what Receive returned; for "disp": what the processor was handed
	env *network.Envelope
	// the delivered message itself: it is kept, as a receiver may keep it, and only turned back
	// into bytes after everything on the connection has been received
	val interface{}
}

type c03log struct {
	mu sync.Mutex
	l  []c03entry
}

func (l *c03log) add(kind, what string) {
	l.mu.Lock()
	l.l = append(l.l, c03entry{kind: kind, what: what})
	l.mu.Unlock()
}

func (l *c03log) addVal(v interface{}) {
	l.mu.Lock()
	l.l = append(l.l, c03entry{kind: "disp", val: v})
	l.mu.Unlock()
}

func (l *c03log) addEnv(kind string, e *network.Envelope) {
	l.mu.Lock()
	l.l = append(l.l, c03entry{kind: kind, val: e.Msg, env: e})
	l.mu.Unlock()
}

// c03hexOf marshals a kept value back into bytes.
func c03hexOf(v interface{}) string {
	b, err := network.Marshal(v)
	if err != nil {
		return "unmarshallable"
	}
	return h.Hex(b)
}

type c03rec struct {
	network.Conn
	log    *c03log
	closed chan struct{}
	once   sync.Once
	// the limit under test applies from the second Receive on: the first one is the identity
	// exchange, which is not part of the modelled stream
	limit network.Size
	first bool
}

func (r *c03rec) Receive() (*network.Envelope, error) {
	env, err := r.Conn.Receive()
	if !r.first {
		r.first = true
		network.MaxPacketSize = r.limit
	}
	if err != nil {
		r.log.add("err", c03class(err))
	} else {
		r.log.addEnv("ok", env)
	}
	return env, err
}

func (r *c03rec) Close() error {
	r.once.Do(func() {
		r.log.add("close", "")
		close(r.closed)
	})
	return r.Conn.Close()
}

// ---------------------------------------------------------------------------------------------
// link fixtures for the send operation

type c03link struct {
	r1, r2   *network.Router
	to       *network.ServerIdentity
	mu       sync.Mutex
	release  chan struct{} // while set and open, the receiving processor waits on it
	got      []interface{} // delivered values, kept
	seen     []string      // what each of them marshalled to when its operation was evaluated
	closed1  chan bool
	closed2  chan bool
	proxy    net.Listener
	pattern  atomic.Value // []int
	stopOnce sync.Once
	// the same two routers seen from the other side (round 5, `send <tcp|local>/back`): r2 sends to r1
	// over the connection r1 opened; nil until the first such operation
	back *c03link
}

// reverse returns the view of the link in which the accepting router is the sender: its messages
// travel over the connection the other side opened (Router.Send finds it under the peer's identity).
func (l *c03link) reverse() *c03link {
	if l.back != nil {
		return l.back
	}
	b := &c03link{r1: l.r2, r2: l.r1, to: l.r1.ServerIdentity, closed1: make(chan bool, 16), closed2: make(chan bool, 16)}
	b.pattern.Store([]int{})
	b.register()
	l.back = b
	return b
}

func (l *c03link) deliveries() int {
	l.mu.Lock()
	defer l.mu.Unlock()
	return len(l.got)
}

func (l *c03link) register() {
	for _, t := range c03types {
		l.r2.RegisterProcessorFunc(t, func(e *network.Envelope) error {
			l.mu.Lock()
			rel := l.release
			l.release = nil
			l.mu.Unlock()
			if rel != nil {
				<-rel
			}
			l.mu.Lock()
			l.got = append(l.got, e.Msg)
			l.mu.Unlock()
			return nil
		})
	}
	l.r1.AddErrorHandler(func(*network.ServerIdentity) {
		select {
		case l.closed1 <- true:
		default:
		}
	})
	l.r2.AddErrorHandler(func(*network.ServerIdentity) {
		select {
		case l.closed2 <- true:
		default:
		}
	})
}

func c03tcpRouter() (*network.Router, error) {
	kp := key.NewKeyPair(fix.Suite)
	sid := network.NewServerIdentity(kp.Public, network.NewTCPAddress("127.0.0.1:0"))
	hst, err := network.NewTCPHost(sid, fix.Suite)
	if err != nil {
		return nil, err
	}
	sid.Address = hst.Address()
	r := network.NewRouter(sid, hst)
	r.UnauthOk = true
	r.Quiet = true
	return r, nil
}

func c03wait(r *network.Router) {
	for i := 0; i < 2000 && !r.Listening(); i++ {
		time.Sleep(time.Millisecond)
	}
}

func c03newLink(tcp bool) (*c03link, error) {
	l := &c03link{closed1: make(chan bool, 16), closed2: make(chan bool, 16)}
	l.pattern.Store([]int{})
	if !tcp {
		lm := network.NewLocalManager()
		mk := func(port string) (*network.Router, error) {
			kp := key.NewKeyPair(fix.Suite)
			sid := network.NewServerIdentity(kp.Public, network.NewLocalAddress("127.0.0.1:"+port))
			return network.NewLocalRouterWithManager(lm, sid, fix.Suite)
		}
		var err error
		if l.r1, err = mk("2001"); err != nil {
			return nil, err
		}
		if l.r2, err = mk("2002"); err != nil {
			return nil, err
		}
		l.r1.Quiet, l.r2.Quiet = true, true
		l.to = l.r2.ServerIdentity
	} else {
		var err error
		if l.r1, err = c03tcpRouter(); err != nil {
			return nil, err
		}
		if l.r2, err = c03tcpRouter(); err != nil {
			return nil, err
		}
		ln, err := net.Listen("tcp", "127.0.0.1:0")
		if err != nil {
			return nil, err
		}
		l.proxy = ln
		target := l.r2.ServerIdentity.Address.NetworkAddress()
		if i := strings.LastIndex(target, ":"); i >= 0 {
			target = "127.0.0.1" + target[i:]
		}
		go l.serveProxy(target)
		l.to = network.NewServerIdentity(l.r2.ServerIdentity.Public, network.NewTCPAddress(ln.Addr().String()))
	}
	l.register()
	go l.r1.Start()
	go l.r2.Start()
	c03wait(l.r1)
	c03wait(l.r2)
	return l, nil
}

// serveProxy forwards client->server bytes re-cut according to the current pattern (cyclic; at
// most 48 separately flushed pieces per read, the rest in one write) and server->client bytes as
// they come; when one side ends both are closed.
func (l *c03link) serveProxy(target string) {
	for {
		c, err := l.proxy.Accept()
		if err != nil {
			return
		}
		go func(c net.Conn) {
			s, err := net.DialTimeout("tcp", target, 2*time.Second)
			if err != nil {
				c.Close()
				return
			}
			if t, ok := s.(*net.TCPConn); ok {
				t.SetNoDelay(true)
			}
			// When the server side ends first (it refused a packet), the proxy goes on
			// swallowing what the client still writes for a moment before it closes the
			// client side: whether the sender's write of an already refused body fails or
			// not is then not left to a race with the reset.
			var serverGone int32
			up := make(chan bool, 1)
			down := make(chan bool, 1)
			go func() {
				buf := make([]byte, 1<<16)
				pos := 0
				for {
					if atomic.LoadInt32(&serverGone) == 1 {
						c.SetReadDeadline(time.Now().Add(40 * time.Millisecond))
					}
					n, err := c.Read(buf)
					b := buf[:n]
					if atomic.LoadInt32(&serverGone) == 1 {
						b = nil
					}
					pat := l.pattern.Load().([]int)
					for pieces := 0; len(b) > 0; pieces++ {
						k := len(b)
						if len(pat) > 0 && pieces < 48 {
							k = pat[pos%len(pat)]
							pos++
							if k <= 0 {
								k = 1
							}
							if k > len(b) {
								k = len(b)
							}
						}
						if _, werr := s.Write(b[:k]); werr != nil {
							atomic.StoreInt32(&serverGone, 1)
							break
						}
						b = b[k:]
						if len(b) > 0 {
							time.Sleep(60 * time.Microsecond)
						}
					}
					if err != nil {
						break
					}
				}
				up <- true
			}()
			go func() {
				buf := make([]byte, 1<<16)
				for {
					n, err := s.Read(buf)
					if n > 0 {
						if _, werr := c.Write(buf[:n]); werr != nil {
							break
						}
					}
					if err != nil {
						break
					}
				}
				atomic.StoreInt32(&serverGone, 1)
				c.SetReadDeadline(time.Now().Add(40 * time.Millisecond))
				down <- true
			}()
			select {
			case <-up:
			case <-down:
				<-up
			}
			c.Close()
			s.Close()
		}(c)
	}
}

func (l *c03link) stop() {
	l.stopOnce.Do(func() {
		stopped := make(chan bool)
		go func() {
			l.r1.Stop()
			l.r2.Stop()
			close(stopped)
		}()
		select {
		case <-stopped:
		case <-time.After(3 * time.Second):
		}
		if l.proxy != nil {
			l.proxy.Close()
		}
	})
}

// ---------------------------------------------------------------------------------------------
// executor

type c03state struct {
	cs      *h.Case
	max     int
	defMax  network.Size
	links   map[string]*c03link
	host    *c03host
	router  *network.Router
	log     *c03log
	peer    *network.ServerIdentity
	tags    map[string]bool
	unacc   int
	stopped bool
	// the types the pipe router has a processor for (nil = all of c03types)
	procs map[network.MessageTypeID]bool
	// identities of the harness types registered by `reg` operations of this case, in order
	regOrder []int
}

func (st *c03state) tag(s string) { st.tags[s] = true }

func (st *c03state) close() {
	intact := func(l *c03link) {
		// a value that was delivered intact must still be intact after the later traffic
		l.mu.Lock()
		for i, v := range l.got {
			if i < len(l.seen) && l.seen[i] != "" && c03hexOf(v) != l.seen[i] {
				st.cs.Fail("delivered-value-changed", fmt.Sprintf("delivery %d marshalled to %s when it arrived and to %s after the later messages of the connection", i, l.seen[i], c03hexOf(v)))
			}
		}
		l.mu.Unlock()
	}
	for _, l := range st.links {
		l.stop()
		intact(l)
		if l.back != nil {
			intact(l.back)
		}
	}
	st.links = map[string]*c03link{}
	if st.router != nil {
		done := make(chan bool)
		go func() { st.router.Stop(); close(done) }()
		select {
		case <-done:
		case <-time.After(3 * time.Second):
		}
		st.router = nil
	}
}

func (st *c03state) cfg(m, reg, bad string) string {
	// tear down live connections: the limit is a package variable read by their receive loops
	st.close()
	st.procs = nil
	if m == "gen" {
		network.MaxPacketSize = st.defMax
	} else {
		v, err := strconv.Atoi(m)
		if err != nil || v < 0 || v >= 1<<32 {
			return "bad-op"
		}
		network.MaxPacketSize = network.Size(v)
	}
	st.max = int(network.MaxPacketSize)
	ids, ok := c03hexList(reg)
	if !ok {
		return "bad-op"
	}
	if _, ok := c03hexList(bad); !ok {
		return "bad-op"
	}
	for _, id := range ids {
		var t network.MessageTypeID
		if len(id) != 16 {
			return "bad-op"
		}
		copy(t[:], id)
		if !strings.HasPrefix(t.String(), "PTID(") {
			st.cs.Fail("registry", "type id "+h.Hex(id)+" of the registered table is unknown to the real registry")
		}
	}
	return "ok"
}

// pipe builds a pipe whose sending end goes through the real sendRaw behind the re-chunking
// writer, and whose receiving end is a real TCPConn.
func c03pipe(chunks []int) (send *network.TCPConn, ck *c03chunker, a net.Conn, recv *network.TCPConn, b net.Conn) {
	a, b = net.Pipe()
	ck = &c03chunker{Conn: a, sizes: append([]int{}, chunks...), stallAt: -1}
	return network.VerifNewTCPConn(ck, fix.Suite), ck, a, network.VerifNewTCPConn(b, fix.Suite), b
}

func c03feed(send *network.TCPConn, ck *c03chunker, a net.Conn, frames [][]byte, tail []byte) {
	for _, f := range frames {
		if _, err := send.VerifSendRaw(f); err != nil {
			a.Close()
			return
		}
	}
	if _, err := ck.Write(tail); err == nil {
		if ck.Flush() == nil {
			ck.stallNow() // a stall after the last byte, before the close
		}
	}
	a.Close()
}

// firstOversize returns the index of the first frame above the limit (len(frames) if none).
func (st *c03state) firstOversize(frames [][]byte) int {
	for i, f := range frames {
		if len(f) > st.max {
			return i
		}
	}
	return len(frames)
}

func (st *c03state) raw(frames [][]byte, tail []byte, chunks []int) string {
	send, ck, a, recv, b := c03pipe(chunks)
	go c03feed(send, ck, a, frames, tail)
	var got [][]byte
	end := ""
	type res struct {
		b   []byte
		err error
	}
	for end == "" {
		ch := make(chan res, 1)
		go func() {
			buf, err := recv.VerifReceiveRaw()
			ch <- res{buf, err}
		}()
		select {
		case r := <-ch:
			if r.err != nil {
				end = c03class(r.err)
			} else {
				got = append(got, append([]byte{}, r.b...))
			}
		case <-time.After(5 * time.Second):
			end = "hang"
			st.cs.Fail("hang", "receiveRaw did not return within 5 s")
		}
	}
	b.Close()
	a.Close()
	// the property's own oracle: frames within the limit come out intact, in order, first
	k := st.firstOversize(frames)
	okPrefix := len(got) >= k
	for i := 0; okPrefix && i < k; i++ {
		okPrefix = bytes.Equal(got[i], frames[i])
	}
	switch {
	case !okPrefix:
		st.cs.Fail("framing", fmt.Sprintf("sent frames %s (limit %d), received %s", c03joinHex(frames), st.max, c03joinHex(got)))
	case k < len(frames) && (len(got) != k || end != "toobig"):
		st.cs.Fail("oversize-not-refused", fmt.Sprintf("frame %d is above the limit %d, received %d frames, end %s", k, st.max, len(got), end))
	case k == len(frames) && len(tail) == 0 && (len(got) != k || end != "eof"):
		st.cs.Fail("framing", fmt.Sprintf("sent %d frames and closed, received %d, end %s", k, len(got), end))
	}
	st.tag(fmt.Sprintf("raw:%s:%s", end, c03bucket(len(got))))
	return c03joinHex(got) + " end:" + end
}

// hasProc: does the pipe router have a processor for the type of this marshalled buffer?
func (st *c03state) hasProc(f []byte) bool {
	if st.procs == nil || len(f) < 16 {
		return true
	}
	var t network.MessageTypeID
	copy(t[:], f[:16])
	return st.procs[t]
}

func c03bucket(n int) string {
	switch {
	case n == 0:
		return "0"
	case n == 1:
		return "1"
	case n < 5:
		return "2-4"
	}
	return "5+"
}

func (st *c03state) loopRouter() error {
	if st.router != nil {
		return nil
	}
	kp := key.NewKeyPair(fix.Suite)
	sid := network.NewServerIdentity(kp.Public, network.NewTCPAddress("127.0.0.1:1"))
	st.host = &c03host{quit: make(chan bool)}
	st.router = network.NewRouter(sid, st.host)
	st.router.UnauthOk, st.router.Quiet = true, true
	st.log = &c03log{}
	for _, t := range c03types {
		if st.procs != nil && !st.procs[t] {
			continue
		}
		st.router.RegisterProcessorFunc(t, func(e *network.Envelope) error {
			st.log.addEnv("disp", e)
			return nil
		})
	}
	go st.router.Start()
	c03wait(st.router)
	if !st.router.Listening() {
		return errors.New("pipe router does not listen")
	}
	pk := key.NewKeyPair(fix.Suite)
	st.peer = network.NewServerIdentity(pk.Public, network.NewTCPAddress("127.0.0.1:2"))
	return nil
}

// c03resetConn turns the peer's orderly close into a connection reset: a net.Error that is no
// time-out.
type c03resetConn struct{ net.Conn }

func (c c03resetConn) Read(p []byte) (int, error) {
	n, err := c.Conn.Read(p)
	if err == io.EOF {
		return n, &net.OpError{Op: "read", Net: "tcp", Err: syscall.ECONNRESET}
	}
	return n, err
}

func (st *c03state) loop(frames [][]byte, tail []byte, chunks []int, mode string, post []int) string {
	stall, reset := mode == "stall", mode == "reset"
	if err := st.loopRouter(); err != nil {
		st.cs.Fail("harness", err.Error())
		return "harness-error"
	}
	st.log.mu.Lock()
	st.log.l = nil
	st.log.mu.Unlock()
	send, ck, a, recv, b := c03pipe(chunks)
	stallAt := 0
	if stall {
		// the sender stalls after the bytes of `chunks` for several read time-outs; the time-out
		// of the package is scaled down for this operation (hook VerifSetReadTimeout)
		for _, c := range chunks {
			stallAt += c
		}
		ck.stallAt, ck.stall, ck.post = stallAt, 900*time.Millisecond, post
		old := network.VerifSetReadTimeout(250 * time.Millisecond)
		defer network.VerifSetReadTimeout(old)
	}
	if reset {
		// only the bytes of `chunks` are written; the close that follows reaches the receiver as a reset
		for _, c := range chunks {
			stallAt += c
		}
		recv = network.VerifNewTCPConn(c03resetConn{b}, fix.Suite)
	}
	rec := &c03rec{Conn: recv, log: st.log, closed: make(chan struct{}), limit: network.Size(st.max)}
	network.MaxPacketSize = st.defMax
	st.host.mu.Lock()
	fn := st.host.fn
	st.host.mu.Unlock()
	go fn(rec)
	go func() {
		// the identity exchange first, in one piece, not through the chunker
		if _, err := network.VerifNewTCPConn(a, fix.Suite).Send(st.peer); err != nil {
			a.Close()
			return
		}
		if reset {
			var stream []byte
			for _, f := range frames {
				stream = append(append(stream, c03be32(len(f))...), f...)
			}
			stream = append(stream, tail...)
			if stallAt < len(stream) {
				stream = stream[:stallAt]
			}
			c03feed(send, ck, a, nil, stream)
			return
		}
		c03feed(send, ck, a, frames, tail)
	}()
	hang := false
	select {
	case <-rec.closed:
	case <-time.After(6 * time.Second):
		hang = true
	}
	time.Sleep(200 * time.Microsecond)
	b.Close()
	a.Close()
	st.log.mu.Lock()
	l := append([]c03entry{}, st.log.l...)
	st.log.mu.Unlock()
	// only now, after the whole stream went through the connection, the kept values are compared
	for i := range l {
		if l[i].kind == "disp" {
			l[i].what = c03hexOf(l[i].val)
		}
	}
	// canonical events; the first Receive is the identity exchange
	var ev, dels, nps []string
	end := ""
	if len(l) > 0 && l[0].kind == "ok" {
		l = l[1:]
	} else if len(l) > 0 {
		ev = append(ev, "identity-refused")
	}
	for i := 0; i < len(l); i++ {
		e := l[i]
		next := ""
		if i+1 < len(l) {
			next = l[i+1].kind
		}
		switch e.kind {
		case "ok":
			if next == "disp" {
				ev = append(ev, "d:"+l[i+1].what)
				dels = append(dels, l[i+1].what)
				// what the processor is handed: the type id of the value, the peer, the frame's size
				if d := l[i+1].env; d != nil {
					hx, _ := hex.DecodeString(l[i+1].what)
					if d.MsgType != network.MessageType(d.Msg) || d.ServerIdentity == nil || !d.ServerIdentity.Public.Equal(st.peer.Public) ||
						(len(hx) >= 16 && (!bytes.Equal(hx[:16], d.MsgType[:]) || int(d.Size) != len(hx))) {
						st.cs.Fail("envelope-fields", fmt.Sprintf("the processor was handed an envelope with MsgType %x, Size %d, ServerIdentity %v for the message %s from the peer %v", d.MsgType[:], d.Size, d.ServerIdentity, l[i+1].what, st.peer))
					}
				}
				i++
			} else if e.env != nil && st.procs != nil && !st.procs[e.env.MsgType] {
				// no processor for this type: Dispatch answers with an error, the message is dropped
				ev = append(ev, "np:"+c03hexOf(e.val))
				nps = append(nps, c03hexOf(e.val))
			} else {
				ev = append(ev, "lost")
				st.cs.Fail("received-not-dispatched", "a message came out of Receive and was not dispatched")
			}
		case "err":
			if next == "close" {
				ev = append(ev, "end:"+e.what)
				end = e.what
				i = len(l)
			} else {
				ev = append(ev, "x:"+e.what)
			}
		case "disp":
			ev = append(ev, "stray:"+e.what)
			st.cs.Fail("stray-dispatch", "a dispatch without a preceding successful Receive")
		case "close":
			ev = append(ev, "end:noerr")
			end = "noerr"
			i = len(l)
		}
	}
	if hang {
		ev = append(ev, "hang")
		end = "hang"
		st.cs.Fail("hang", "the receive loop neither closed the connection nor finished within 6 s after the peer closed")
	}
	// the property's own oracle: every decodable frame within the limit is delivered equal, in
	// order, nothing else before them; an over-limit frame ends the connection
	k := st.firstOversize(frames)
	var want, wantNp []string
	for _, f := range frames[:k] {
		if v, cl := c03unmarshal(f); cl == "ok" {
			if !st.hasProc(f) {
				wantNp = append(wantNp, h.Hex(f))
			} else if b, err := network.Marshal(v); err == nil && bytes.Equal(b, f) {
				want = append(want, h.Hex(f))
			} else {
				want = append(want, "noncanonical")
			}
		}
	}
	if !stall && !reset && k == len(frames) && len(tail) == 0 && strings.Join(nps, ",") != strings.Join(wantNp, ",") {
		st.cs.Fail("delivery", fmt.Sprintf("frames of types without a processor: %v, reported as such: %v", wantNp, nps))
	}
	if stall || reset {
		// what went out before the stall / the reset is all the receiver may ever use
		var stream []byte
		for _, f := range frames {
			stream = append(append(stream, c03be32(len(f))...), f...)
		}
		stream = append(stream, tail...)
		if stallAt < len(stream) {
			stream = stream[:stallAt]
		}
		in := c03split(stream, st.max)
		rest := len(stream)
		for _, f := range in {
			rest -= 4 + len(f)
		}
		wantEnd := "timeout"
		if reset {
			wantEnd = "neterr"
		}
		if rest >= 4 {
			off := len(stream) - rest
			if n := int(stream[off])<<24 | int(stream[off+1])<<16 | int(stream[off+2])<<8 | int(stream[off+3]); n > st.max {
				wantEnd = "toobig"
			}
		}
		want = nil
		for _, f := range in {
			if v, cl := c03unmarshal(f); cl == "ok" {
				if !st.hasProc(f) {
					continue
				}
				if b, err := network.Marshal(v); err == nil && bytes.Equal(b, f) {
					want = append(want, h.Hex(f))
				} else {
					want = append(want, "noncanonical")
				}
			}
		}
		same := len(dels) == len(want)
		for i := 0; same && i < len(want); i++ {
			same = dels[i] == want[i] || want[i] == "noncanonical"
		}
		if !same || end != wantEnd {
			sig, what := "stall-not-closed", "the sender stalled after %d bytes for longer than the read time-out"
			if reset {
				sig, what = "reset-not-closed", "the connection was reset after %d bytes"
			}
			st.cs.Fail(sig, fmt.Sprintf(what+": deliveries %v (complete decodable frames before it: %v), end %q (expected %q), events %s", stallAt, dels, want, end, wantEnd, strings.Join(ev, ",")))
		}
		k = len(frames)
		tail = []byte{1}
	}
	okPrefix := len(dels) >= len(want)
	for i := 0; okPrefix && i < len(want); i++ {
		okPrefix = dels[i] == want[i] || want[i] == "noncanonical"
	}
	switch {
	case stall || reset:
	case !okPrefix:
		st.cs.Fail("delivery", fmt.Sprintf("decodable frames sent: %v, delivered: %v", want, dels))
	case k < len(frames) && (len(dels) != len(want) || end != "toobig"):
		st.cs.Fail("oversize-not-closed", fmt.Sprintf("frame %d is above the limit %d: %d deliveries (expected %d), end %q", k, st.max, len(dels), len(want), end))
	case k == len(frames) && len(tail) == 0 && (len(dels) != len(want) || end != "eof"):
		st.cs.Fail("delivery", fmt.Sprintf("%d decodable frames then close: %d deliveries, end %q", len(want), len(dels), end))
	}
	refused := 0
	for _, e := range ev {
		if strings.HasPrefix(e, "x:") {
			refused++
		}
		if e == "x:timeout" {
			st.cs.Fail("stall-not-closed", "the receive loop went on reading after a read time-out inside the stream: "+strings.Join(ev, ","))
		}
		if e == "x:toobig" {
			st.cs.Fail("oversize-not-closed", "the receive loop went on reading after a packet above the limit: "+strings.Join(ev, ","))
		}
	}
	if reset {
		st.tag(fmt.Sprintf("loop-reset:%s:d%s:x%s", end, c03bucket(len(dels)), c03bucket(refused)))
	} else if stall {
		st.tag(fmt.Sprintf("loop-stall:%s:d%s:x%s", end, c03bucket(len(dels)), c03bucket(refused)))
	} else {
		st.tag(fmt.Sprintf("loop:%s:d%s:x%s:np%s", end, c03bucket(len(dels)), c03bucket(refused), c03bucket(len(nps))))
	}
	if len(ev) == 0 {
		return "-"
	}
	return strings.Join(ev, ",")
}

func (st *c03state) send(tr string, bufs [][]byte) string {
	parts := strings.SplitN(tr, "/", 2)
	if parts[0] != "tcp" && parts[0] != "local" {
		return "bad-op"
	}
	var pat []int
	hold, back := false, false
	if len(parts) == 2 && parts[0] == "local" && parts[1] == "hold" {
		hold = true
	} else if len(parts) == 2 && parts[1] == "back" {
		// the accepting router of the link answers over the connection the other one opened
		back = true
	} else if len(parts) == 2 {
		var ok bool
		if pat, ok = c03ints(parts[1]); !ok {
			return "bad-op"
		}
	}
	l := st.links[parts[0]]
	if l == nil {
		var err error
		if l, err = c03newLink(parts[0] == "tcp"); err != nil {
			st.cs.Fail("harness", err.Error())
			return "harness-error"
		}
		st.links[parts[0]] = l
	}
	l.pattern.Store(pat)
	if back || l.back != nil {
		// both directions of one link are in use: the routers' error handlers feed the channels of both
		// views, so a close noticed during an earlier operation must not be taken for one of this operation
		for _, x := range []*c03link{l, l.reverse()} {
			for _, ch := range []chan bool{x.closed1, x.closed2} {
				for drained := false; !drained; {
					select {
					case <-ch:
					default:
						drained = true
					}
				}
			}
		}
	}
	if back {
		l = l.reverse()
	}
	var vals []network.Message
	want := 0
	stopAt := -1 // first message the property does not promise to deliver
	over := false
	for i, b := range bufs {
		if len(b) >= 16 && bytes.Equal(b[:16], c03unencType[:]) {
			// a registered type whose values the protobuf encoder refuses
			vals = append(vals, &c03Unenc{C: make(chan int)})
			if stopAt < 0 {
				stopAt = i
			}
			continue
		}
		v, cl := c03unmarshal(b)
		switch cl {
		case "ok":
			if m, err := network.Marshal(v); err != nil || !bytes.Equal(m, b) {
				st.cs.Fail("codec-roundtrip", "Marshal(Unmarshal(b)) differs from b = "+h.Hex(b))
			}
			vals = append(vals, v)
			if stopAt < 0 && parts[0] == "tcp" && len(b) > st.max {
				stopAt, over = i, true
			}
		case "unknown":
			vals = append(vals, &c03Unreg{X: 1})
			if stopAt < 0 {
				stopAt = i
			}
		default:
			return "bad-op"
		}
		if stopAt < 0 {
			want++
		}
	}
	before := l.deliveries()
	if hold {
		// the receiver's processor sits on the first message for a while: the queues of the
		// in-memory transport fill up behind it
		rel := make(chan struct{})
		l.mu.Lock()
		l.release = rel
		l.mu.Unlock()
		go func() {
			time.Sleep(400 * time.Millisecond)
			close(rel)
		}()
	}
	_, err := l.r1.Send(l.to, vals...)
	res := "ok"
	if err != nil {
		res = "err:other"
		switch {
		case strings.Contains(err.Error(), "not registered"):
			res = "err:marshal"
		case strings.Contains(err.Error(), "encoding:"):
			res = "err:encode"
		case strings.Contains(err.Error(), "at least one message"):
			res = "err:empty"
		}
	}
	closed := false
	deadline := time.After(4 * time.Second)
wait:
	for l.deliveries()-before < want || (over && !closed) {
		select {
		case <-l.closed2:
			closed = true
		case <-deadline:
			break wait
		case <-time.After(200 * time.Microsecond):
		}
	}
	if over {
		// let the sender notice too, so that the next send dials afresh
		select {
		case <-l.closed1:
		case <-time.After(2 * time.Second):
		}
		time.Sleep(15 * time.Millisecond)
	} else {
		select {
		case <-l.closed2:
			closed = true
		default:
		}
	}
	l.mu.Lock()
	var got []string
	for _, v := range l.got[before:] {
		got = append(got, c03hexOf(v))
	}
	for len(l.seen) < before {
		l.seen = append(l.seen, "")
	}
	l.seen = append(l.seen[:before], got...)
	l.mu.Unlock()
	ev := []string{}
	for _, g := range got {
		ev = append(ev, "d:"+g)
	}
	if closed {
		ev = append(ev, "end:closed")
	}
	// the property's own oracle: what was sent before the first refused message arrives equal,
	// in order, once
	okAll := len(got) == want
	for i := 0; okAll && i < want; i++ {
		okAll = got[i] == h.Hex(bufs[i])
	}
	if !okAll {
		sig := "message-lost"
		if len(got) > want {
			sig = "extra-delivery"
		} else if len(got) == want {
			sig = "delivered-value-differs"
		}
		var exp []string
		for _, b := range bufs[:want] {
			exp = append(exp, h.Hex(b))
		}
		st.cs.Fail(sig, fmt.Sprintf("Send returned %q; promised deliveries %v, got %v", res, exp, got))
	}
	if stopAt < 0 && res != "ok" && len(bufs) > 0 {
		st.cs.Fail("send-error", fmt.Sprintf("Send of valid messages returned %v", err))
	}
	st.tag(fmt.Sprintf("send-%s:%s:d%s:closed=%v", parts[0], res, c03bucket(len(got)), closed))
	if len(ev) == 0 {
		return res + " -"
	}
	return res + " " + strings.Join(ev, ",")
}

func c03exec(c *h.Ctx, cs *h.Case) {
	defer c03hangDump(cs)()
	log.SetDebugVisible(0)
	st := &c03state{cs: cs, defMax: network.MaxPacketSize, max: int(network.MaxPacketSize),
		links: map[string]*c03link{}, tags: map[string]bool{}}
	defer func() { network.MaxPacketSize = st.defMax }()
	defer st.close()
	for _, op := range cs.Ops {
		tk := strings.Fields(op)
		obs := "bad-op"
		switch {
		case len(tk) == 5 && tk[1] == "cfg":
			obs = st.cfg(tk[2], tk[3], tk[4])
		case len(tk) == 5 && (tk[1] == "raw" || tk[1] == "loop"):
			fr, ok1 := c03hexList(tk[2])
			tl, ok2 := c03unhex(tk[3])
			reset := tk[1] == "loop" && strings.HasSuffix(tk[4], "!")
			cp := strings.Split(strings.TrimSuffix(tk[4], "!"), "~")
			ch, ok3 := c03ints(cp[0])
			var post []int
			if len(cp) == 2 {
				var ok4 bool
				post, ok4 = c03ints(cp[1])
				ok3 = ok3 && ok4 && tk[1] == "loop" && !reset
			}
			if ok1 && ok2 && ok3 && len(cp) <= 2 {
				if tk[1] == "raw" {
					obs = st.raw(fr, tl, ch)
				} else {
					mode := ""
					if len(cp) == 2 {
						mode = "stall"
					} else if reset {
						mode = "reset"
					}
					obs = st.loop(fr, tl, ch, mode, post)
				}
			}
		case len(tk) == 3 && tk[1] == "unm":
			if b, ok := c03unhex(tk[2]); ok {
				_, cl := c03unmarshal(b)
				if cl == "panic" {
					cs.Fail("unmarshal-panic", "Unmarshal panicked on "+tk[2])
				}
				if cl == "ok" {
					obs = "ok"
				} else {
					obs = "err:" + cl
				}
				st.tag("unm:" + cl)
			}
		case len(tk) == 4 && tk[1] == "send":
			if bufs, ok := c03hexList(tk[3]); ok {
				obs = st.send(tk[2], bufs)
			}
		default:
			// the operations of the round-4 deepening pass (c03r4.go)
			if o, ok := st.r4op(tk); ok {
				obs = o
			} else if o, ok := st.r7op(tk); ok {
				obs = o
			}
		}
		cs.Impl = append(cs.Impl, obs)
	}
	if strings.HasPrefix(cs.Class, "loop-sweep") {
		c03causal(cs)
	}
	// deliveries nobody asked for (late duplicates) on the send links
	var tags []string
	for t := range st.tags {
		tags = append(tags, t)
	}
	sort.Strings(tags)
	cs.Outcome = strings.Join(tags, " ")
}

// ---------------------------------------------------------------------------------------------
// generators

type c03g struct {
	c *h.Ctx
	r *rand.Rand
}

func (g *c03g) regTable() string {
	var l [][]byte
	for _, t := range c03types {
		l = append(l, append([]byte{}, t[:]...))
	}
	return c03joinHex(l)
}

// chunks draws a segmentation style for a stream of n bytes.
func (g *c03g) chunks(n int) []int {
	r := g.r
	var out []int
	switch r.Intn(7) {
	case 0: // one piece
		return nil
	case 1: // every byte on its own
		for i := 0; i < n; i++ {
			out = append(out, 1)
		}
	case 2: // small pieces
		for s := 0; s < n; {
			k := 1 + r.Intn(4)
			out = append(out, k)
			s += k
		}
	case 3: // mixed small and large
		for s := 0; s < n; {
			k := 1 + r.Intn(3)
			if r.Intn(3) == 0 {
				k = 1 + r.Intn(n+1)
			}
			out = append(out, k)
			s += k
		}
	case 4: // header split at every position, bodies whole
		out = []int{1 + r.Intn(3), 1, 2, 1 + r.Intn(n+1)}
	case 5: // two pieces
		out = []int{r.Intn(n + 1)}
	default: // a few large pieces with zero-length noise
		for s := 0; s < n; {
			k := r.Intn(n/2 + 2)
			out = append(out, k)
			s += k
		}
	}
	return out
}

func (g *c03g) stream(frames [][]byte, tail []byte) int {
	n := len(tail)
	for _, f := range frames {
		n += 4 + len(f)
	}
	return n
}

func c03be32(n int) []byte { return []byte{byte(n >> 24), byte(n >> 16), byte(n >> 8), byte(n)} }

// mutate returns a damaged copy of b.
func (g *c03g) mutate(b []byte) []byte {
	r := g.r
	o := append([]byte{}, b...)
	switch r.Intn(6) {
	case 0:
		if len(o) > 0 {
			o[r.Intn(len(o))] ^= 1 << uint(r.Intn(8))
		}
	case 1:
		o = o[:r.Intn(len(o)+1)]
	case 2:
		o = append(o, c03bytes(r, 1+r.Intn(6))...)
	case 3:
		if len(o) > 16 {
			i := 16 + r.Intn(len(o)-16)
			o[i] = byte(r.Intn(256))
		}
	case 4:
		if len(o) > 17 {
			i := 16 + r.Intn(len(o)-16)
			o = append(o[:i], o[i+1:]...)
		}
	default:
		if len(o) >= 16 {
			copy(o[:16], c03bytes(r, 16))
		}
	}
	return o
}

// classifyFrames fills the undecodable table for the frames a stream is made of and tells
// which frames are unusable for a value-level comparison (decodable but not canonical).
func (g *c03g) table(frames [][]byte) (bad [][]byte, usable bool) {
	usable = true
	seen := map[string]bool{}
	for _, f := range frames {
		v, cl := c03unmarshal(f)
		switch cl {
		case "decode":
			if !seen[string(f)] {
				seen[string(f)] = true
				bad = append(bad, f)
			}
		case "ok":
			if m, err := network.Marshal(v); err != nil || !bytes.Equal(m, f) {
				usable = false
			}
		case "panic", "other":
			usable = false
		}
	}
	return
}

func (g *c03g) valueBuf() ([]byte, string) {
	for {
		v, kind := c03value(g.r)
		b, err := network.Marshal(v)
		if err == nil {
			return b, kind
		}
	}
}

func c03gen(c *h.Ctx, yield func(*h.Case)) {
	g := &c03g{c: c, r: c.Rng}
	r := c.Rng
	reg := g.regTable()
	emit := func(class string, ops ...string) {
		c.Count("class=" + class)
		for _, o := range ops {
			c.Count("op=" + strings.Fields(o)[1])
		}
		yield(&h.Case{Class: class, Ops: ops})
	}
	small := func(i int64) []byte {
		b, _ := network.Marshal(&c03Ints{I64: i})
		return b
	}
	// ---- corpus: the witnesses of the oversize defect (fixed in /repo) and the real limit
	big, _ := network.Marshal(&c03Bytes{B: make([]byte, 3000)})
	emit("corpus-oversize-send",
		"c03 cfg 1000 "+reg+" -",
		"c03 send tcp "+h.Hex(small(1)),
		"c03 send tcp "+h.Hex(big),
		"c03 send tcp "+h.Hex(small(2)),
		"c03 send tcp "+h.Hex(small(3))+","+h.Hex(small(4)))
	emit("corpus-oversize-loop",
		"c03 cfg 64 "+reg+" -",
		fmt.Sprintf("c03 loop %s,%s,%s - 3,1,1,1,9", h.Hex(small(1)), h.Hex(bytes.Repeat([]byte{0}, 65)), h.Hex(small(2))),
		fmt.Sprintf("c03 loop %s %s 3,1,1,1,9", h.Hex(small(1)),
			h.Hex(append(c03be32(65), append(append(c03be32(len(small(2))), small(2)...), bytes.Repeat([]byte{0}, 33)...)...))),
		fmt.Sprintf("c03 raw %s,%s,%s - 1,1,1,1,1", h.Hex(small(1)), h.Hex(bytes.Repeat([]byte{7}, 65)), h.Hex(small(2))))
	emit("corpus-real-limit",
		"c03 cfg gen "+reg+" -",
		fmt.Sprintf("c03 raw - %s 2", h.Hex(c03be32(10*1024*1024+1))),
		fmt.Sprintf("c03 raw - %s 1,1,1,1", h.Hex(append(c03be32(10*1024*1024), 1, 2, 3))),
		fmt.Sprintf("c03 loop %s %s -", h.Hex(small(5)), h.Hex(append(c03be32(1<<32-1), small(6)...))))
	emit("corpus-one-byte-reads",
		"c03 cfg 4096 "+reg+" -",
		fmt.Sprintf("c03 raw -,01,%s - %s", h.Hex(small(7)), h.Ints(bytes1(4+5+4+len(small(7))))),
		fmt.Sprintf("c03 loop %s,%s,%s - %s", h.Hex(small(8)), h.Hex(small(9)), h.Hex(small(10)), h.Ints(bytes1(3*(4+len(small(8)))))))

	// ---- the classes of the round-4 deepening pass (c03r4.go); their corpus cases come first
	c03genR4(g, emit)
	c03genR5(g, emit)
	c03genR7(g, emit)
	c03genR7b(g, emit)

	// ---- raw framing: random frame lists, random chunkings, cut or over-limit tails
	for i := 0; i < c.Pick(1100, 30000); i++ {
		max := []int{0, 1, 8, 64, 300}[r.Intn(5)]
		var ops []string
		ops = append(ops, fmt.Sprintf("c03 cfg %d %s -", max, reg))
		for j := 0; j < 1+r.Intn(3); j++ {
			var frames [][]byte
			for k := r.Intn(6); k > 0; k-- {
				n := r.Intn(max + 1)
				switch r.Intn(6) {
				case 0:
					n = 0
				case 1:
					n = max
				case 2:
					if max > 0 {
						n = max - 1
					}
				}
				if r.Intn(25) == 0 {
					n = max + 1 + r.Intn(4)
				}
				frames = append(frames, c03bytes(r, n))
			}
			var tail []byte
			switch r.Intn(6) {
			case 0: // a frame cut short
				f := c03bytes(r, r.Intn(max+1))
				whole := append(c03be32(len(f)), f...)
				tail = whole[:r.Intn(len(whole))]
			case 1: // a header above the limit and whatever follows
				tail = append(c03be32(max+1+r.Intn(1000)), c03bytes(r, r.Intn(20))...)
			case 2: // arbitrary bytes
				tail = c03bytes(r, r.Intn(24))
			}
			ops = append(ops, fmt.Sprintf("c03 raw %s %s %s", c03joinHex(frames), h.Hex(tail), h.Ints(g.chunks(g.stream(frames, tail)))))
		}
		emit("raw", ops...)
	}

	// ---- receive loop on streams of marshalled values, refused frames and damaged tails
	for i := 0; i < c.Pick(2300, 60000); i++ {
		class := []string{"loop-valid", "loop-valid", "loop-mixed", "loop-mixed", "loop-garbage"}[r.Intn(5)]
		var frames [][]byte
		var tail []byte
		kinds := map[string]bool{}
		nf := r.Intn(6)
		if class == "loop-garbage" {
			nf = r.Intn(2)
		}
		for k := 0; k < nf; k++ {
			b, kind := g.valueBuf()
			kinds[kind] = true
			if class == "loop-mixed" {
				switch r.Intn(5) {
				case 0:
					b = g.mutate(b)
					kinds["mutated"] = true
				case 1:
					b = c03bytes(r, r.Intn(16))
					kinds["short"] = true
				case 2:
					b = append(c03bytes(r, 16), c03bytes(r, r.Intn(10))...)
					kinds["unknown-type"] = true
				}
			}
			frames = append(frames, b)
		}
		max := 0
		for _, f := range frames {
			if len(f) > max {
				max = len(f)
			}
		}
		switch r.Intn(4) {
		case 0: // the largest frame is exactly at the limit
		case 1: // the largest frame is one byte above it
			if max > 0 {
				max--
			}
		default:
			max += 1 + r.Intn(2000)
		}
		switch class {
		case "loop-mixed":
			switch r.Intn(5) {
			case 0:
				b, _ := g.valueBuf()
				whole := append(c03be32(len(b)), b...)
				tail = whole[:r.Intn(len(whole))]
			case 1:
				b, _ := g.valueBuf()
				tail = append(c03be32(max+1+r.Intn(100)), append(c03be32(len(b)), b...)...)
			}
		case "loop-garbage":
			switch r.Intn(3) {
			case 0:
				tail = c03bytes(r, r.Intn(80))
			case 1: // a damaged valid stream
				var s []byte
				for k := 1 + r.Intn(3); k > 0; k-- {
					b, _ := g.valueBuf()
					s = append(s, append(c03be32(len(b)), b...)...)
				}
				tail = g.mutate(s)
				for k := r.Intn(3); k > 0; k-- {
					tail = g.mutate(tail)
				}
			default: // small random lengths so that several "frames" are parsed
				for k := 1 + r.Intn(5); k > 0; k-- {
					tail = append(tail, 0, 0, 0, byte(r.Intn(40)))
					tail = append(tail, c03bytes(r, r.Intn(40))...)
				}
			}
		}
		// the decoder's verdict on every buffer the receiver will hand to it is the codec
		// parameter of the model; the damaged tail is cut into the buffers a receiver would see
		bad, usable := g.table(append(append([][]byte{}, frames...), c03split(tail, max)...))
		if !usable {
			c.Count("skipped=noncanonical-frame")
			continue
		}
		for k := range kinds {
			c.Count("shape=" + k)
		}
		emit(class,
			fmt.Sprintf("c03 cfg %d %s %s", max, reg, c03joinHex(bad)),
			fmt.Sprintf("c03 loop %s %s %s", c03joinHex(frames), h.Hex(tail), h.Ints(g.chunks(g.stream(frames, tail)))))
	}

	// ---- a sender that stalls, inside a frame or between two, for longer than the read time-out
	for i := 0; i < c.Pick(40, 500); i++ {
		var frames [][]byte
		for k := 1 + r.Intn(4); k > 0; k-- {
			b, _ := g.valueBuf()
			if r.Intn(6) == 0 {
				b = append(c03bytes(r, 16), c03bytes(r, r.Intn(10))...)
			}
			frames = append(frames, b)
		}
		max := 4096
		total := g.stream(frames, nil)
		at := r.Intn(total + 1)
		switch r.Intn(4) {
		case 0: // inside a header
			off := 0
			for _, f := range frames[:r.Intn(len(frames))] {
				off += 4 + len(f)
			}
			at = off + 1 + r.Intn(3)
		case 1: // exactly between two frames
			at = 0
			for _, f := range frames[:r.Intn(len(frames)+1)] {
				at += 4 + len(f)
			}
		}
		var pre []int
		for s := 0; s < at; {
			k := 1 + r.Intn(at-s)
			if r.Intn(3) == 0 {
				k = 1
			}
			pre = append(pre, k)
			s += k
		}
		bad, usable := g.table(frames)
		if !usable {
			continue
		}
		emit("loop-stall",
			fmt.Sprintf("c03 cfg %d %s %s", max, reg, c03joinHex(bad)),
			fmt.Sprintf("c03 loop %s - %s~%s", c03joinHex(frames), h.Ints(pre), h.Ints(g.chunks(total-at))))
	}

	// ---- the in-memory transport under back-pressure: more messages than its queues hold while
	// the receiver sits on the first one
	for i := 0; i < c.Pick(3, 30); i++ {
		var bufs [][]byte
		for k := 0; k < 430+r.Intn(120); k++ {
			bufs = append(bufs, small(int64(k)))
		}
		emit("send-local-backpressure",
			"c03 cfg 4096 "+reg+" -",
			"c03 send local "+h.Hex(small(-1)),
			"c03 send local/hold "+c03joinHex(bufs),
			"c03 send local "+h.Hex(small(-2)))
	}

	// ---- Unmarshal on arbitrary and damaged buffers
	for i := 0; i < c.Pick(150, 600); i++ {
		ops := []string{"c03 cfg 4096 " + reg + " -"}
		for j := 0; j < c.Pick(25, 170); j++ {
			var b []byte
			switch r.Intn(4) {
			case 0:
				b = c03bytes(r, r.Intn(40))
			case 1:
				b, _ = g.valueBuf()
			default:
				b, _ = g.valueBuf()
				for k := 1 + r.Intn(3); k > 0; k-- {
					b = g.mutate(b)
				}
			}
			if _, cl := c03unmarshal(b); cl == "decode" {
				// the decoder's verdict is the codec parameter of the model
				ops = append(ops, "c03 cfg 4096 "+reg+" "+h.Hex(b))
			}
			ops = append(ops, "c03 unm "+h.Hex(b))
		}
		emit("unmarshal", ops...)
	}

	// ---- values router to router: TCP through the re-chunking proxy, and the in-memory transport
	unreg := append(append([]byte{}, bytes.Repeat([]byte{0xee}, 16)...), 1)
	for i := 0; i < c.Pick(600, 6000); i++ {
		tr := "tcp"
		class := "send-tcp"
		if r.Intn(3) == 0 {
			tr, class = "local", "send-local"
		}
		max := 600 + r.Intn(3000)
		var ops []string
		ops = append(ops, fmt.Sprintf("c03 cfg %d %s -", max, reg))
		for j := 0; j < 1+r.Intn(5); j++ {
			var bufs [][]byte
			for k := 1 + r.Intn(4); k > 0; k-- {
				b, kind := g.valueBuf()
				if r.Intn(6) == 0 {
					n := max - r.Intn(3)
					if nb := c03sized(r, n); nb != nil {
						b, kind = nb, "near-limit"
					}
				}
				if len(b) > max && tr == "tcp" {
					continue
				}
				c.Count("shape=" + kind)
				bufs = append(bufs, b)
			}
			switch r.Intn(9) {
			case 0: // an over-limit message ends the burst
				if nb := c03sized(r, max+1+r.Intn(200)); nb != nil {
					bufs = append(bufs, nb)
					c.Count("shape=over-limit")
				}
			case 1:
				bufs = append(bufs, unreg)
				c.Count("shape=unregistered")
			}
			if len(bufs) == 0 {
				continue
			}
			t := tr
			if tr == "tcp" {
				pat := []string{"", "/1", "/1,2,3", "/3,1,1,1,400", "/7,5000", "/2"}[r.Intn(6)]
				t += pat
			}
			ops = append(ops, fmt.Sprintf("c03 send %s %s", t, c03joinHex(bufs)))
		}
		if len(ops) > 1 {
			emit(class, ops...)
		}
	}
	// ---- two cooperating sites (round 5): bursts in both directions over one connection, alternating —
	// the accepting router answers over the connection the other one opened (`send <tr>/back`)
	for i := 0; i < c.Pick(60, 1200); i++ {
		tr := "tcp"
		if r.Intn(3) == 0 {
			tr = "local"
		}
		max := 600 + r.Intn(3000)
		ops := []string{fmt.Sprintf("c03 cfg %d %s -", max, reg)}
		steps := 2 + r.Intn(6)
		backs := 0
		for j := 0; j < steps; j++ {
			var bufs [][]byte
			for k := 1 + r.Intn(4); k > 0; k-- {
				b, kind := g.valueBuf()
				if r.Intn(8) == 0 {
					if nb := c03sized(r, max-r.Intn(3)); nb != nil {
						b, kind = nb, "near-limit"
					}
				}
				if len(b) > max {
					continue
				}
				c.Count("shape=" + kind)
				bufs = append(bufs, b)
			}
			if len(bufs) == 0 {
				continue
			}
			t := tr
			if j > 0 && r.Intn(2) == 0 {
				t += "/back"
				backs++
			} else if tr == "tcp" {
				t += []string{"", "/1", "/1,2,3", "/2"}[r.Intn(4)]
			}
			ops = append(ops, fmt.Sprintf("c03 send %s %s", t, c03joinHex(bufs)))
		}
		if backs > 0 {
			c.Count(fmt.Sprintf("duplex-steps=%d", len(ops)-1))
			emit("send-duplex", ops...)
		}
	}
}

// c03split cuts a byte string into the length-prefixed pieces it contains (up to the first
// length above max or the first incomplete piece); only used to fill the decoder table.
func c03split(b []byte, max int) [][]byte {
	var out [][]byte
	for len(b) >= 4 {
		n := int(b[0])<<24 | int(b[1])<<16 | int(b[2])<<8 | int(b[3])
		if n > max || n > len(b)-4 {
			break
		}
		out = append(out, b[4:4+n])
		b = b[4+n:]
	}
	return out
}

func bytes1(n int) []int {
	l := make([]int, n)
	for i := range l {
		l[i] = 1
	}
	return l
}
