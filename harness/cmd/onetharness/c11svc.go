package main

import (
	"errors"

	"go.dedis.ch/onet/v3"
	"go.dedis.ch/onet/v3/log"
	"onetverif/harness/fix"
)

// The three ways a constructor produces no instance for a remotely created run (C11): a service whose
// NewProtocol panics (serviceManager.newProtocol recovers the panic into an error), a service whose
// NewProtocol returns an error, and a protocol constructor that returns (nil, nil) (fix.NilProtoName).
// The service decides by the protocol id of the token; for every other protocol it leaves the creation
// to onet.

const c11SvcName = "VerifC11Svc"

var (
	c11SvcID     onet.ServiceID
	c11PanicProt = onet.ProtocolNameToID("VerifC11PanicProto")
	c11ErrProt   = onet.ProtocolNameToID("VerifC11ErrProto")
)

type c11Service struct {
	*onet.ServiceProcessor
}

func (s *c11Service) NewProtocol(tn *onet.TreeNodeInstance, conf *onet.GenericConfig) (onet.ProtocolInstance, error) {
	switch tn.Token().ProtoID {
	case c11PanicProt:
		fix.CountConstructed(tn.Token())
		panic("the service's NewProtocol panics")
	case c11ErrProt:
		fix.CountConstructed(tn.Token())
		return nil, errors.New("the service's NewProtocol refuses")
	}
	return nil, nil
}

func init() {
	id, err := onet.RegisterNewService(c11SvcName, func(c *onet.Context) (onet.Service, error) {
		return &c11Service{ServiceProcessor: onet.NewServiceProcessor(c)}, nil
	})
	if err != nil {
		log.Fatal(err)
	}
	c11SvcID = id
}
