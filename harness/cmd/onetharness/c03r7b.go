package main

// C03, round 7 (second part): interface-typed fields inside a message of the wire model.
//
//   c03 pbi <suite of the value> <point|scalar> <n> <hex of the value's MarshalBinary | nil> <hex of a string>
//       protobuf.Encode of struct { N int32; P kyber.Point (or S kyber.Scalar); T string } with that value in the
//       interface field (nil: the field is nil). Observation: enc <hex>
//       Model: the field is a length-delimited byte string, `encIface` (8-byte tag of the dynamic type if a
//       generator is registered for it, then the bytes), nothing when nil; theorem c03_wire_iface_field.
//       Oracle (wire-iface-field): decoded again with the constructors of the value's own suite, the message
//       carries an equal point / scalar (the mod.Int scalars of P256 / Residue512 are the known finding and
//       are not judged here).

import (
	"fmt"
	"regexp"
	"strconv"

	"go.dedis.ch/kyber/v3"
	"go.dedis.ch/onet/v3/network"
	"go.dedis.ch/protobuf"
	"onetverif/harness/h"
)

type c03PtMsg struct {
	N int32
	P kyber.Point
	T string
}

type c03ScMsg struct {
	N int32
	S kyber.Scalar
	T string
}

var c03intRe = regexp.MustCompile(`^-?[0-9]+$`)

func (st *c03state) pbi(valSuite, kind, ns, val, ts string) string {
	vs, ok := c03suite(valSuite)
	if !ok || (kind != "point" && kind != "scalar") || !c03intRe.MatchString(ns) {
		return "bad-op"
	}
	n, err := strconv.ParseInt(ns, 10, 64)
	if err != nil || n < -2147483648 || n > 2147483647 {
		return "bad-op"
	}
	t, ok := c03unhex(ts)
	if !ok {
		return "bad-op"
	}
	var raw []byte
	if val != "nil" {
		if raw, ok = c03unhex(val); !ok {
			return "bad-op"
		}
	}
	var msg, back interface{}
	var same func() bool
	if kind == "point" {
		m, b := &c03PtMsg{N: int32(n), T: string(t)}, &c03PtMsg{}
		if val != "nil" {
			m.P = vs.Point()
			if err := m.P.UnmarshalBinary(raw); err != nil {
				st.cs.Fail("harness", "pbi: the bytes are no point of "+valSuite+": "+err.Error())
				return "harness-error"
			}
		}
		msg, back = m, b
		same = func() bool { return (m.P == nil && b.P == nil) || (m.P != nil && b.P != nil && m.P.Equal(b.P)) }
	} else {
		m, b := &c03ScMsg{N: int32(n), T: string(t)}, &c03ScMsg{}
		if val != "nil" {
			m.S = vs.Scalar()
			if err := m.S.UnmarshalBinary(raw); err != nil {
				st.cs.Fail("harness", "pbi: the bytes are no scalar of "+valSuite+": "+err.Error())
				return "harness-error"
			}
		}
		msg, back = m, b
		same = func() bool { return (m.S == nil && b.S == nil) || (m.S != nil && b.S != nil && m.S.Equal(b.S)) }
	}
	enc, err := protobuf.Encode(msg)
	if err != nil {
		st.cs.Fail("codec-roundtrip", "protobuf.Encode refuses a message with a "+kind+" of "+valSuite+": "+err.Error())
		return "enc err"
	}
	nistScalar := kind == "scalar" && !c03tagged(valSuite, kind)
	if !nistScalar {
		derr := func() (e error) {
			defer func() {
				if r := recover(); r != nil {
					e = fmt.Errorf("panic: %v", r)
				}
			}()
			return protobuf.DecodeWithConstructors(enc, back, network.DefaultConstructors(vs))
		}()
		if derr != nil || !same() {
			st.cs.Fail("wire-iface-field", fmt.Sprintf("a message with a %s of %s (%s) does not come back equal when decoded with the constructors of that suite: %v", kind, valSuite, val, derr))
		}
	}
	st.tag(fmt.Sprintf("pbi:%s:%s:nil=%v", valSuite, kind, val == "nil"))
	return "enc " + h.Hex(enc)
}

func c03genR7b(g *c03g, emit func(class string, ops ...string)) {
	c, r := g.c, g.r
	for i := 0; i < c.Pick(60, 1500); i++ {
		var ops []string
		for j := 1 + r.Intn(3); j > 0; j-- {
			name := c03suiteNames[r.Intn(len(c03suiteNames))]
			vs, ok := c03suite(name)
			if !ok {
				continue
			}
			kind := []string{"point", "scalar"}[r.Intn(2)]
			val := "nil"
			if r.Intn(5) > 0 {
				v, _ := c03ifaceValue(vs, kind, c03bytes(r, 16))
				b, err := v.MarshalBinary()
				if err != nil || len(b) == 0 {
					continue
				}
				val = h.Hex(b)
			}
			ops = append(ops, fmt.Sprintf("c03 pbi %s %s %d %s %s", name, kind, c03edge32[r.Intn(len(c03edge32))], val, h.Hex(c03bytes(r, r.Intn(6)))))
		}
		if len(ops) > 0 {
			c.Count("class=pbi")
			emit("pbi", ops...)
		}
	}
	for _, l := range []string{"c03 pbi Ed25519 point 1 nil", "c03 pbi nil point 1 nil -", "c03 pbi Ed25519 line 1 nil -", "c03 pbi Ed25519 point +1 nil -", "c03 pbi Ed25519 point 2147483648 nil -", "c03 pbi Ed25519 point 1 zz -"} {
		emit("malformed", l)
	}
}
