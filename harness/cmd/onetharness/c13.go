package main

import (
	"bytes"
	"encoding/hex"
	"encoding/json"
	"fmt"
	"io/ioutil"
	"os"
	"os/exec"
	"sort"
	"strconv"
	"strings"

	"github.com/google/uuid"
	"go.dedis.ch/kyber/v3"
	"go.dedis.ch/kyber/v3/pairing"
	"go.dedis.ch/kyber/v3/suites"
	"go.dedis.ch/onet/v3"
	"go.dedis.ch/onet/v3/network"
	"onetverif/harness/fix"
	"onetverif/harness/h"
)

// C13: identifiers. Every op builds one value with the real constructors
// (NewServerIdentity / NewTreeNode / NewRoster / NewTree / Token.ID /
// ProtocolNameToID / RegisterNewService) and observes its identifier; the Lean
// model assembles the pre-image byte for byte, hashes it the way the code does
// and prints the identifier, so the two observation streams must be equal.
//
// The property's own oracle (independent of the model): identifiers are
// recomputed from freshly built copies (determinism) and compared pairwise
// within the case (distinctness). Two strengths, because the full distinctness
// statement is known to be false for trees and rosters:
//   full    — different values must have different ids (tokens, names, keys,
//             trees of one shape, and the two always-run known witnesses);
//   partial — what Props/C13.lean proves for the code as it is: roster ids
//             are equal iff the flattened key sequences are equal, tree ids iff
//             roster id and the pre-order (key, is-leaf) sequences are equal.
//             Pairs that collide inside that class are counted, not reported.

var c13bn = pairing.NewSuiteBn256()

type c13key struct {
	kind byte // 'e' Ed25519, 'p' P256, 'b' bn256.G1, 'g' bn256.G2 (text form not modelled: rosters only)
	raw  []byte
	pt   kyber.Point
}

var c13p256 = suites.MustFind("P256")

type c13obj struct {
	kind  string // roster | tree | token | proto | service
	id    string
	value string // canonical description of the value itself (what "different" means)
	class string // what the partial statement says determines the id
	sig   string // how the value is shown in a signature (needs the pair: see c13pairSig)
	tree  *c13tnode
	mem   [][]string // roster: per member, hex of key and service keys
	tok   [6]string
}

type c13tnode struct {
	key  string
	kids []*c13tnode
}

func c13point(kind byte, raw []byte) (kyber.Point, error) {
	var p kyber.Point
	switch kind {
	case 'e':
		p = fix.Suite.Point()
	case 'p':
		if len(raw) != 65 || raw[0] != 4 {
			return nil, fmt.Errorf("not an uncompressed P256 point")
		}
		p = c13p256.Point()
	case 'b':
		if len(raw) != 64 {
			return nil, fmt.Errorf("not a bn256.G1 point")
		}
		p = c13bn.G1().Point()
	default:
		p = c13bn.G2().Point()
	}
	if err := p.UnmarshalBinary(raw); err != nil {
		return nil, err
	}
	return p, nil
}

func c13si(k c13key, port int) *network.ServerIdentity {
	// a fresh point every time: the id may depend on the key's value only
	p, _ := c13point(k.kind, k.raw)
	return network.NewServerIdentity(p, network.NewLocalAddress(fmt.Sprintf("127.0.0.1:%d", 2000+port)))
}

// letters for signatures: first key seen is r (the root in tree witnesses) for
// trees, A, B, … for rosters
func c13letters(tree bool) func(string) string {
	seen := map[string]string{}
	return func(k string) string {
		if l, ok := seen[k]; ok {
			return l
		}
		n := len(seen)
		var l string
		if tree {
			alpha := "rabcdefghijklmnopqstuvwxyz"
			if n < len(alpha) {
				l = string(alpha[n])
			} else {
				l = fmt.Sprintf("k%d", n)
			}
		} else {
			if n < 26 {
				l = string(rune('A' + n))
			} else {
				l = fmt.Sprintf("K%d", n)
			}
		}
		seen[k] = l
		return l
	}
}

func c13treeStr(n *c13tnode, name func(string) string) string {
	s := name(n.key)
	if len(n.kids) > 0 {
		var ks []string
		for _, k := range n.kids {
			ks = append(ks, c13treeStr(k, name))
		}
		s += "(" + strings.Join(ks, ",") + ")"
	}
	return s
}

func c13rosterStr(mem [][]string, name func(string) string) string {
	var ms []string
	for _, m := range mem {
		s := name(m[0])
		if len(m) > 1 {
			var sv []string
			for _, k := range m[1:] {
				sv = append(sv, name(k))
			}
			s += "{svc:" + strings.Join(sv, ",") + "}"
		}
		ms = append(ms, s)
	}
	return "[" + strings.Join(ms, ",") + "]"
}

func c13pairSig(a, b *c13obj) string {
	switch a.kind {
	case "tree":
		nm := c13letters(true)
		return "tree-id-collision:" + c13treeStr(a.tree, nm) + "=" + c13treeStr(b.tree, nm)
	case "roster":
		nm := c13letters(false)
		return "roster-id-collision:" + c13rosterStr(a.mem, nm) + "=" + c13rosterStr(b.mem, nm)
	case "token":
		var d []string
		for i, f := range []string{"roster", "tree", "proto", "service", "round", "node"} {
			if a.tok[i] != b.tok[i] {
				d = append(d, f)
			}
		}
		return "token-id-collision:" + strings.Join(d, "+")
	}
	return a.kind + "-id-collision"
}

func c13pre(n *c13tnode, out *[]string) {
	leaf := "n"
	if len(n.kids) == 0 {
		leaf = "l"
	}
	*out = append(*out, n.key+leaf)
	for _, k := range n.kids {
		c13pre(k, out)
	}
}

func c13exec(c *h.Ctx, cs *h.Case) {
	var keys []c13key
	var members [][]int // current roster: key indices per member
	var roster *onet.Roster
	var objs []*c13obj
	var reuseTok *onet.Token
	regProbed := false
	var reuseFields [6]string
	full := strings.HasPrefix(cs.Class, "witness") || strings.HasPrefix(cs.Class, "full")
	reg := newC13reg()
	bad := func() { cs.Impl = append(cs.Impl, "bad-op") }
	nondet := func(kind, what string) {
		cs.Fail(kind+"-id-nondeterministic", what)
	}
	mkSI := func(m []int, port int) *network.ServerIdentity {
		si := c13si(keys[m[0]], port)
		for j, s := range m[1:] {
			p, _ := c13point(keys[s].kind, keys[s].raw)
			suite := map[byte]string{'e': "Ed25519", 'p': "P256", 'b': "bn256.G1"}[keys[s].kind]
			if suite == "" {
				suite = c13bn.String()
			}
			si.ServiceIdentities = append(si.ServiceIdentities,
				network.ServiceIdentity{Name: fmt.Sprintf("svc%d", j), Suite: suite, Public: p})
		}
		return si
	}
	siSpec := map[*network.ServerIdentity][]int{} // identity object -> key indices (server, services…)
	mkRoster := func() *onet.Roster {
		var sis []*network.ServerIdentity
		for i, m := range members {
			si := mkSI(m, i)
			siSpec[si] = m
			sis = append(sis, si)
		}
		return onet.NewRoster(sis)
	}
	// the server keys of a roster belong to one suite (NewRoster adds them up)
	var rosterKind byte
	oneKind := func(ms [][]int, want byte) bool {
		k := keys[ms[0][0]].kind
		for _, m := range ms {
			if keys[m[0]].kind != k {
				return false
			}
		}
		if want != 0 && want != k {
			return false
		}
		if want == 0 {
			rosterKind = k
		}
		return true
	}
	parseMembers := func(toks []string) ([][]int, bool) {
		var ms [][]int
		for _, s := range toks {
			var m []int
			for _, f := range strings.Split(s, "/") {
				i, err := strconv.ParseUint(f, 10, 31)
				if err != nil || int(i) >= len(keys) {
					return nil, false
				}
				m = append(m, int(i))
			}
			ms = append(ms, m)
		}
		return ms, len(ms) > 0
	}
	// recordRoster: the observation and the oracle entries of the current roster (`members`, `roster`)
	recordRoster := func(how string) {
		id := roster.ID.String()
		if g, err := roster.GetID(); err != nil || g.String() != id {
			if how == "roster" {
				nondet("roster", "GetID differs from the id NewRoster assigned")
			} else {
				cs.Fail("roster-derived-id:"+how, "the roster returned by "+how+" carries the id "+id+" but GetID() of its own list is "+g.String())
			}
		}
		if fresh := mkRoster().ID.String(); fresh != id {
			if how == "roster" {
				nondet("roster", "a roster rebuilt from the same keys has another id")
			} else {
				cs.Fail("roster-derived-id:"+how, "the roster returned by "+how+" has the id "+id+", NewRoster of the same list has "+fresh)
			}
		}
		if d := c13rosterAccessors(roster, members, keys); d != "" {
			cs.Fail("roster-accessor", d)
		}
		// the accessors are queries: afterwards the roster still is the list its id stands for (an aggregate that is
		// summed up inside a member's key object changes key material the id covers)
		if g, err := roster.GetID(); err != nil || g.String() != id {
			cs.Fail("roster-id-changed-by-accessor", "after Publics / Get / ServicePublics / ServiceAggregate the roster's id "+id+" no longer is GetID() of its list — "+how)
		} else if again := c13rosterAccessors(roster, members, keys); again != "" {
			cs.Fail("roster-id-changed-by-accessor", "a second round of the accessors sees other keys than the first: "+again)
		}
		o := &c13obj{kind: "roster", id: id}
		var flat []string
		for _, m := range members {
			var mk []string
			for _, k := range m {
				mk = append(mk, hex.EncodeToString(keys[k].raw))
			}
			o.mem = append(o.mem, mk)
			flat = append(flat, mk...)
		}
		o.value = fmt.Sprint(o.mem)
		o.class = strings.Join(flat, ",")
		objs = append(objs, o)
		cs.Impl = append(cs.Impl, id)
	}
	// aliasCheck: a roster's id must stay the id of its list whatever the caller does afterwards with the
	// slice it handed to NewRoster, and whatever other rosters are derived from it (round 5: a roster
	// that shares its list with the caller's slice or with a sibling made by Concat carries a stale id)
	aliasCheck := func(ro *onet.Roster, how string) {
		if ro == nil || len(ro.List) == 0 {
			return
		}
		used := map[int]bool{}
		for _, m := range members {
			for _, k := range m {
				used[k] = true
			}
		}
		var free []int
		for k := range keys {
			if !used[k] && keys[k].kind == rosterKind {
				free = append(free, k)
			}
		}
		sort.Ints(free)
		stale := func(r *onet.Roster) bool {
			g, err := r.GetID()
			return err != nil || !g.Equal(r.ID)
		}
		n := len(ro.List)
		// (1) the caller's slice, with spare capacity, changed after the call
		ids := make([]*network.ServerIdentity, n, n+3)
		copy(ids, ro.List)
		r2 := onet.NewRoster(ids)
		first := ro.List[0]
		if n >= 2 && !ids[0].Public.Equal(ids[n-1].Public) {
			ids[0], ids[n-1] = ids[n-1], ids[0]
		} else if len(free) > 0 {
			ids[0] = mkSI([]int{free[0]}, 300)
		}
		if len(free) > 0 {
			ids = append(ids, mkSI([]int{free[0]}, 301))
		}
		_ = ids
		if r2 == nil || !r2.ID.Equal(ro.ID) || stale(r2) || r2.List[0] != first || len(r2.List) != n {
			cs.Fail("roster-id-stale:list-shared-with-caller", "after "+how+": a roster made by NewRoster changed (or its id no longer is the id of its list) when the caller changed the slice it had passed")
			return
		}
		// (2) siblings: two rosters derived from one roster by Concat
		if len(free) >= 2 {
			a, b := mkSI([]int{free[0]}, 302), mkSI([]int{free[1]}, 303)
			s1 := ro.Concat(a)
			s2 := ro.Concat(b)
			s3 := s1.Concat(b)
			s4 := s1.Concat(a, mkSI([]int{free[1]}, 304))
			for _, x := range []struct {
				r    *onet.Roster
				last *network.ServerIdentity
				n    int
			}{{s1, a, n + 1}, {s2, b, n + 1}, {s3, b, n + 2}, {s4, nil, n + 2}, {ro, nil, n}} {
				if x.r == nil || len(x.r.List) != x.n || stale(x.r) || (x.last != nil && x.r.List[x.n-1] != x.last) {
					cs.Fail("roster-id-stale:sibling-concat", "after "+how+": rosters derived from one roster by Concat share their lists — a later Concat changed a member of an earlier result (or its id is not the id of its list)")
					return
				}
			}
		}
	}
	// adopt: the members of a roster the code derived from the current one
	adopt := func(res *onet.Roster, extra map[*network.ServerIdentity][]int) bool {
		var ms [][]int
		for _, si := range res.List {
			m, ok := siSpec[si]
			if !ok {
				m, ok = extra[si]
			}
			if !ok {
				return false
			}
			ms = append(ms, m)
		}
		members, roster = ms, res
		for _, si := range res.List {
			if m, ok := extra[si]; ok {
				siSpec[si] = m
			}
		}
		return true
	}
	for _, op := range cs.Ops {
		tk := strings.Fields(op)
		if len(tk) < 2 || tk[0] != "c13" {
			bad()
			continue
		}
		switch tk[1] {
		case "keys":
			var ks []c13key
			ok := len(tk) > 2
			for _, s := range tk[2:] {
				if len(s) < 3 || !strings.ContainsRune("egpb", rune(s[0])) {
					ok = false
					break
				}
				raw, err := hex.DecodeString(s[1:])
				if err != nil {
					ok = false
					break
				}
				p, err := c13point(s[0], raw)
				if err != nil {
					ok = false
					break
				}
				ks = append(ks, c13key{s[0], raw, p})
			}
			if !ok {
				bad()
				continue
			}
			keys = ks
			var out []string
			sids, nids := map[string]string{}, map[string]string{}
			for i, k := range keys {
				if k.kind == 'g' {
					out = append(out, "-")
					continue
				}
				si := c13si(k, i)
				tn := onet.NewTreeNode(0, si)
				sid, nid := si.ID.String(), tn.ID.String()
				if si.GetID().String() != sid || c13si(k, i+7).ID.String() != sid {
					nondet("server", "server id of key "+hex.EncodeToString(k.raw)+" is not a function of the key")
				}
				if onet.NewTreeNode(3, c13si(k, i+9)).ID.String() != nid {
					nondet("node", "node id of key "+hex.EncodeToString(k.raw)+" is not a function of the key")
				}
				// the id follows the key, not the deprecated ID field: an identity whose field was written by somebody else
				// (it is part of the encoding: the sender chooses it), a copy whose key was replaced, a field that is stale
				forged := network.ServerIdentityID(uuid.NewSHA1(uuid.NameSpaceURL, append([]byte("not the id of "), k.raw...)))
				pFresh, _ := c13point(k.kind, k.raw)
				lit := network.ServerIdentity{Public: pFresh, Address: si.Address, ID: forged}
				if got := lit.GetID().String(); got != sid {
					cs.Fail("server-id-from-id-field", "an identity with the key "+hex.EncodeToString(k.raw)+" whose ID field holds "+forged.String()+" answers GetID() = "+got+", the key's id is "+sid)
				}
				if o := keys[(i+1)%len(keys)]; o.kind == k.kind && !bytes.Equal(o.raw, k.raw) {
					rot := c13si(k, i+11) // ID field = id of k
					rot.Public, _ = c13point(o.kind, o.raw)
					if want := c13si(o, i+12).ID.String(); rot.GetID().String() != want {
						cs.Fail("server-id-from-id-field", "an identity whose key was replaced by "+hex.EncodeToString(o.raw)+" answers GetID() = "+rot.GetID().String()+", the new key's id is "+want)
					}
				}
				kh := hex.EncodeToString(k.raw)
				if o, dup := sids[sid]; dup && o != kh {
					cs.Fail("server-id-collision", "keys "+o+" and "+kh+" have server id "+sid)
				}
				if o, dup := nids[nid]; dup && o != kh {
					cs.Fail("node-id-collision", "keys "+o+" and "+kh+" have node id "+nid)
				}
				sids[sid], nids[nid] = kh, kh
				out = append(out, sid+"/"+nid)
			}
			cs.Impl = append(cs.Impl, strings.Join(out, " "))
		case "roster":
			ms, ok := parseMembers(tk[2:])
			if !ok || !oneKind(ms, 0) {
				bad()
				continue
			}
			members = ms
			roster = mkRoster()
			if roster == nil {
				cs.Impl = append(cs.Impl, "err:nil-roster")
				continue
			}
			recordRoster("roster")
			aliasCheck(roster, "NewRoster")
		case "concat":
			ms, ok := parseMembers(tk[2:])
			if !ok || roster == nil || !oneKind(ms, rosterKind) {
				bad()
				continue
			}
			extra := map[*network.ServerIdentity][]int{}
			var sis []*network.ServerIdentity
			for i, m := range ms {
				si := mkSI(m, 100+i)
				extra[si] = m
				sis = append(sis, si)
			}
			res := roster.Concat(sis...)
			if res == nil || !adopt(res, extra) {
				cs.Impl = append(cs.Impl, "err:nil-roster")
				cs.Fail("roster-derived:concat", "Concat returned no roster or one with foreign identities")
				continue
			}
			recordRoster("Concat")
			aliasCheck(roster, "Concat")
		case "zconcat":
			// Concat over identities whose deprecated ID field is unset (struct literals — receiver and arguments): members
			// are recognised by their keys (fix /repo 08623bf; before, every argument "was" entry 0 and was dropped).  The
			// current roster stays what it is.
			ms, ok := parseMembers(tk[2:])
			if !ok || roster == nil || !oneKind(ms, rosterKind) {
				bad()
				continue
			}
			strip := func(si *network.ServerIdentity) *network.ServerIdentity {
				return &network.ServerIdentity{Public: si.Public, Address: si.Address, ServiceIdentities: si.ServiceIdentities}
			}
			var base, add []*network.ServerIdentity
			for _, si := range roster.List {
				base = append(base, strip(si))
			}
			have := map[string]bool{}
			want := 0
			for _, m := range members {
				have[string(keys[m[0]].raw)] = true
				want++
			}
			for i, m := range ms {
				add = append(add, strip(mkSI(m, 100+i)))
				if !have[string(keys[m[0]].raw)] {
					have[string(keys[m[0]].raw)] = true
					want++
				}
			}
			res := onet.NewRoster(base).Concat(add...)
			if res == nil {
				cs.Impl = append(cs.Impl, "err:nil-roster")
				cs.Fail("roster-derived:zconcat", "Concat returned no roster")
				continue
			}
			if len(res.List) != want {
				cs.Fail("roster-derived:zconcat", fmt.Sprintf("Concat over identities without ID field: %d members, %d expected (members are told apart by their keys)", len(res.List), want))
			}
			if g, err := res.GetID(); err != nil || !g.Equal(res.ID) || !onet.NewRoster(res.List).ID.Equal(res.ID) {
				cs.Fail("roster-derived-id:Concat", "the roster returned by Concat (identities without ID field) carries an id that is not the id of its list")
			}
			cs.Impl = append(cs.Impl, res.ID.String())
		case "withroot":
			if len(tk) != 3 || roster == nil {
				bad()
				continue
			}
			p, err := strconv.ParseUint(tk[2], 10, 31)
			if err != nil || int(p) >= len(roster.List) {
				bad()
				continue
			}
			root := roster.List[p]
			if p%2 == 1 {
				root = mkSI(members[p], 200) // a separate value with the same key
			}
			res := roster.NewRosterWithRoot(root)
			if res == nil || !adopt(res, nil) {
				cs.Impl = append(cs.Impl, "err:nil-roster")
				cs.Fail("roster-derived:withroot", "NewRosterWithRoot returned no roster for a member of the roster")
				continue
			}
			recordRoster("NewRosterWithRoot")
		case "rotate":
			// the current roster with its list rotated left by k becomes the current roster
			if len(tk) != 3 || roster == nil {
				bad()
				continue
			}
			k, err := strconv.ParseUint(tk[2], 10, 31)
			if err != nil {
				bad()
				continue
			}
			n := len(roster.List)
			sh := int(k) % n
			old, oldMembers := roster, members
			list := append(append([]*network.ServerIdentity{}, roster.List[sh:]...), roster.List[:sh]...)
			res := onet.NewRoster(list)
			if res == nil || !adopt(res, nil) {
				cs.Impl = append(cs.Impl, "err:nil-roster")
				continue
			}
			if d := c13rotationOracle(old, res, oldMembers, keys, sh); d != "" {
				cs.Fail("roster-rotation", d+" — "+op)
			}
			recordRoster("roster")
		case "svcreg", "svcunreg", "svcid", "protoreg", "peerset", "ideq":
			obs, o := reg.exec(cs, tk, nondet)
			if o != nil {
				objs = append(objs, o)
			}
			cs.Impl = append(cs.Impl, obs)
		case "toml":
			// the current roster through its TOML form (Roster.Toml / RosterToml.Roster): the id travels as a field, every
			// identity is rebuilt from address and server key.  Oracle: the id is carried, the server keys come back in
			// order, and — for a roster without service keys — the id still is the id of the list that came back.  With
			// service keys it is not (they are not part of the TOML form): known finding, witness in the corpus.
			if len(tk) != 2 || roster == nil || rosterKind != 'e' {
				bad()
				continue
			}
			back := roster.Toml(fix.Suite).Roster(fix.Suite)
			hasSvc, kept := false, 0
			for _, m := range members {
				hasSvc = hasSvc || len(m) > 1
			}
			if !back.ID.Equal(roster.ID) {
				cs.Fail("roster-toml-id-not-carried", "the roster read back from the TOML form carries the id "+back.ID.String()+", the original "+roster.ID.String())
			}
			same := len(back.List) == len(roster.List)
			for i := 0; same && i < len(back.List); i++ {
				same = back.List[i] != nil && back.List[i].Public != nil && back.List[i].Public.Equal(roster.List[i].Public) &&
					back.List[i].Address == roster.List[i].Address
				if same {
					kept += len(back.List[i].ServiceIdentities)
				}
			}
			if !same {
				cs.Fail("roster-toml-list", "the roster read back from the TOML form does not list the same servers (keys, addresses) in the same order")
			}
			g, err := back.GetID()
			gs := "err"
			if err == nil {
				gs = g.String()
				if same && !onet.NewRoster(back.List).ID.Equal(g) {
					nondet("roster", "GetID and NewRoster disagree on the list read back from the TOML form")
				}
			}
			switch faithful := err == nil && g.Equal(back.ID); {
			case faithful:
			case !hasSvc:
				cs.Fail("roster-toml-id-not-of-list:plain", "a roster without service keys read back from its TOML form carries the id "+back.ID.String()+" but GetID() of its list is "+gs)
			case cs.Class == "witness-roster-toml":
				cs.Fail("roster-toml-id-not-of-list:[A{svc:B},C]", "the roster [A with service key B, C] read back from its TOML form carries the id "+back.ID.String()+" but lists no service key: GetID() of its list is "+gs)
			default:
				c.Count("known-class toml (service keys not in the TOML form)")
			}
			cs.Impl = append(cs.Impl, fmt.Sprintf("id=%s getid=%s svc=%d", back.ID.String(), gs, kept))
		case "nokey":
			// identities without a public key (a struct literal, NewServerIdentity(nil, …)): GetID is the nil id, whatever
			// the address — "no key" identifies nothing, and nothing else of the identity enters an id
			if len(tk) != 4 {
				bad()
				continue
			}
			p1, e1 := strconv.ParseUint(tk[2], 10, 16)
			p2, e2 := strconv.ParseUint(tk[3], 10, 16)
			if e1 != nil || e2 != nil {
				bad()
				continue
			}
			a := network.ServerIdentity{Address: network.NewLocalAddress(fmt.Sprintf("127.0.0.1:%d", p1)), Description: "a"}
			b := network.NewServerIdentity(nil, network.NewTCPAddress(fmt.Sprintf("10.0.0.1:%d", p2)))
			ia, ib := a.GetID(), b.GetID()
			isNil := ia.IsNil() && ib.IsNil() && b.ID.IsNil() && ia.String() == "00000000-0000-0000-0000-000000000000"
			if !isNil {
				cs.Fail("server-id-of-no-key", "an identity without a public key has the id "+ia.String()+" / "+ib.String()+" (ID field "+b.ID.String()+"), not the nil id")
			}
			if !ia.Equal(ib) {
				cs.Fail("server-id-nondeterministic", "two identities without a key have the ids "+ia.String()+" and "+ib.String())
			}
			cs.Impl = append(cs.Impl, fmt.Sprintf("nil=%v same=%v", isNil, ia.Equal(ib)))
		case "subset":
			if len(tk) != 4 || roster == nil {
				bad()
				continue
			}
			p, e1 := strconv.ParseUint(tk[2], 10, 31)
			n, e2 := strconv.ParseUint(tk[3], 10, 31)
			if e1 != nil || e2 != nil || int(p) >= len(roster.List) {
				bad()
				continue
			}
			res := roster.RandomSubset(roster.List[p], int(n))
			obs := "ok"
			if res == nil {
				obs = "inconsistent"
				cs.Fail("roster-derived:subset", "RandomSubset returned no roster")
			} else {
				g, err := res.GetID()
				if err != nil || !g.Equal(res.ID) || !onet.NewRoster(res.List).ID.Equal(res.ID) {
					obs = "inconsistent"
					cs.Fail("roster-derived-id:RandomSubset", "the roster returned by RandomSubset carries an id that is not the id of its list")
				}
				if len(res.List) == 0 || res.List[0] != roster.List[p] {
					obs = "inconsistent"
					cs.Fail("roster-derived:subset", "RandomSubset does not start with the requested root")
				}
			}
			cs.Impl = append(cs.Impl, obs)
		case "tree":
			if len(tk) != 3 || roster == nil {
				bad()
				continue
			}
			type pa struct{ m, idx, a int }
			var l []pa
			ok := true
			for _, s := range strings.Split(tk[2], ",") {
				f := strings.Split(s, ":")
				if len(f) != 2 {
					ok = false
					break
				}
				mi := strings.Split(f[0], "@")
				if len(mi) > 2 {
					ok = false
					break
				}
				m, e1 := strconv.ParseUint(mi[0], 10, 31)
				a, e2 := strconv.ParseUint(f[1], 10, 31)
				idx := m
				var e3 error
				if len(mi) == 2 {
					idx, e3 = strconv.ParseUint(mi[1], 10, 31)
				}
				if e1 != nil || e2 != nil || e3 != nil || int(m) >= len(roster.List) {
					ok = false
					break
				}
				l = append(l, pa{int(m), int(idx), int(a)})
			}
			// independent builds of the same description; the RosterIndex a node is created with is
			// advisory (nothing checks it against the roster): as written in the op, or overridden
			build := func(index func(p pa) int) (*onet.TreeNode, *c13tnode, bool) {
				pos := 0
				var rec func() (*onet.TreeNode, *c13tnode, bool)
				rec = func() (*onet.TreeNode, *c13tnode, bool) {
					if pos >= len(l) {
						return nil, nil, false
					}
					p := l[pos]
					pos++
					tn := onet.NewTreeNode(index(p), roster.List[p.m])
					d := &c13tnode{key: hex.EncodeToString(keys[members[p.m][0]].raw)}
					for i := 0; i < p.a; i++ {
						ch, dc, ok := rec()
						if !ok {
							return nil, nil, false
						}
						tn.AddChild(ch)
						d.kids = append(d.kids, dc)
					}
					return tn, d, true
				}
				r, d, ok := rec()
				return r, d, ok && pos == len(l)
			}
			var root *onet.TreeNode
			var desc *c13tnode
			asWritten := func(p pa) int { return p.idx }
			if ok {
				root, desc, ok = build(asWritten)
			}
			if !ok {
				bad()
				continue
			}
			t := onet.NewTree(roster, root)
			id := t.ID.String()
			root2, _, _ := build(asWritten)
			if onet.NewTree(mkRoster(), root2).ID.String() != id {
				nondet("tree", "a tree rebuilt from the same roster and shape has another id")
			}
			// the id is a function of roster, shape and the members on the nodes — not of the
			// RosterIndex fields the nodes happen to carry
			for _, alt := range []func(p pa) int{func(p pa) int { return p.m }, func(pa) int { return 0 }} {
				root3, _, _ := build(alt)
				if onet.NewTree(roster, root3).ID.String() != id {
					cs.Fail("tree-id-depends-on-roster-index", "the same members on the same shape over the same roster get another tree id when the nodes carry other RosterIndex values — "+op)
					break
				}
			}
			if sig, d := c13rebuildOracle(t, roster); sig != "" {
				cs.Fail(sig, d+" — "+op)
			}
			var pre []string
			c13pre(desc, &pre)
			o := &c13obj{kind: "tree", id: id, tree: desc}
			o.value = roster.ID.String() + " " + c13treeStr(desc, func(k string) string { return k })
			o.class = roster.ID.String() + " " + strings.Join(pre, ",")
			objs = append(objs, o)
			cs.Impl = append(cs.Impl, id)
		case "token":
			if len(tk) != 8 {
				bad()
				continue
			}
			var u [6]uuid.UUID
			ok := true
			for i := 0; i < 6; i++ {
				b, err := hex.DecodeString(tk[2+i])
				if err != nil || len(b) != 16 {
					ok = false
					break
				}
				copy(u[i][:], b)
			}
			if !ok {
				bad()
				continue
			}
			tok := &onet.Token{RosterID: onet.RosterID(u[0]), TreeID: onet.TreeID(u[1]), ProtoID: onet.ProtocolID(u[2]),
				ServiceID: onet.ServiceID(u[3]), RoundID: onet.RoundID(u[4]), TreeNodeID: onet.TreeNodeID(u[5])}
			fresh := tok.ID().String()
			id := fresh
			// the id (and the text form of a protocol id) does not depend on what is registered: a token whose
			// protocol is registered globally between two looks at its id (first token of a case)
			if !regProbed {
				regProbed = true
				name := "c13-" + tk[4] + "-" + tk[2][:8]
				pid := onet.ProtocolNameToID(name)
				pt := &onet.Token{RosterID: tok.RosterID, TreeID: tok.TreeID, ProtoID: pid, ServiceID: tok.ServiceID, RoundID: tok.RoundID, TreeNodeID: tok.TreeNodeID}
				id1, s1 := pt.ID().String(), pid.String()
				_, _ = onet.GlobalProtocolRegister(name, func(*onet.TreeNodeInstance) (onet.ProtocolInstance, error) { return nil, nil })
				id2, s2 := pt.ID().String(), pid.String()
				if s1 != uuid.UUID(pid).String() || s2 != s1 {
					cs.Fail("proto-id-string-depends-on-registration", "ProtocolID.String() of "+uuid.UUID(pid).String()+" is "+s1+" before and "+s2+" after the protocol was registered globally")
				} else if id1 != id2 || pt.Clone().ID().String() != id1 {
					cs.Fail("token-id-depends-on-registration", "the id of a token changed when its protocol was registered globally: "+id1+" / "+id2)
				}
			}
			if tok.Clone().ID().String() != id || tok.ID().String() != id {
				nondet("token", "a token's id changes between calls / for a clone")
			}
			if tok.ChangeTreeNodeID(onet.TreeNodeID(u[5])).ID().String() != id {
				nondet("token", "ChangeTreeNodeID to the same node changes the id")
			}
			// the identifier is a function of the six fields, not of the object's history: the
			// token object of the previous op (whose ID was already asked for), a clone of it and a
			// ChangeTreeNodeID copy of it are given this op's fields and asked again
			assign := func(t *onet.Token) {
				t.RosterID, t.TreeID, t.ProtoID = onet.RosterID(u[0]), onet.TreeID(u[1]), onet.ProtocolID(u[2])
				t.ServiceID, t.RoundID, t.TreeNodeID = onet.ServiceID(u[3]), onet.RoundID(u[4]), onet.TreeNodeID(u[5])
			}
			if reuseTok != nil {
				var changed []string
				for i, f := range []string{"roster", "tree", "proto", "service", "round", "node"} {
					if tk[2+i] != reuseFields[i] {
						changed = append(changed, f)
					}
				}
				what := strings.Join(changed, "+")
				cl := reuseTok.Clone()
				cl.ID()
				viaNode := reuseTok.ChangeTreeNodeID(onet.TreeNodeID(u[5]))
				assign(viaNode)
				assign(cl)
				assign(reuseTok)
				id = reuseTok.ID().String() // observed on the re-used object
				if id != fresh {
					cs.Fail("token-id-stale:"+what, "a token whose fields ("+what+") were assigned after ID() had been called keeps its old id "+id+"; a fresh token with the same fields has "+fresh)
				}
				if cl.ID().String() != fresh {
					cs.Fail("token-id-stale-clone:"+what, "a Clone() whose fields ("+what+") were assigned has another id than a fresh token with the same fields")
				}
				if viaNode.ID().String() != fresh {
					cs.Fail("token-id-stale-changenode:"+what, "a ChangeTreeNodeID copy whose fields were assigned has another id than a fresh token with the same fields")
				}
			} else {
				reuseTok = &onet.Token{}
				assign(reuseTok)
				reuseTok.ID()
			}
			for i := 0; i < 6; i++ {
				reuseFields[i] = tk[2+i]
			}
			o := &c13obj{kind: "token", id: id}
			for i := 0; i < 6; i++ {
				o.tok[i] = tk[2+i]
			}
			o.value = strings.Join(tk[2:], " ")
			o.class = o.value
			objs = append(objs, o)
			cs.Impl = append(cs.Impl, id)
		case "proto", "service":
			if len(tk) != 3 {
				bad()
				continue
			}
			var nb []byte
			if tk[2] != "-" {
				var err error
				nb, err = hex.DecodeString(tk[2])
				if err != nil {
					bad()
					continue
				}
			}
			name := string(nb)
			var id string
			if tk[1] == "proto" {
				id = uuid.UUID(onet.ProtocolNameToID(name)).String()
				if uuid.UUID(onet.ProtocolNameToID(string(append([]byte{}, nb...)))).String() != id {
					nondet("proto", "ProtocolNameToID is not a function of the name")
				}
			} else {
				sid, err := onet.RegisterNewService(name, func(c *onet.Context) (onet.Service, error) { return nil, nil })
				if err != nil {
					// already registered (by this binary): its id is still observable
					sid = onet.ServiceFactory.ServiceID(name)
				} else {
					if !onet.ServiceFactory.ServiceID(name).Equal(sid) {
						nondet("service", "the factory reports another id than Register returned")
					}
					onet.UnregisterService(name)
					sid2, err := onet.RegisterNewService(name, func(c *onet.Context) (onet.Service, error) { return nil, nil })
					if err == nil {
						onet.UnregisterService(name)
						if !sid2.Equal(sid) {
							nondet("service", "registering the same name again gives another id")
						}
					}
				}
				id = uuid.UUID(sid).String()
			}
			o := &c13obj{kind: tk[1], id: id, value: tk[2], class: tk[2]}
			objs = append(objs, o)
			cs.Impl = append(cs.Impl, id)
		default:
			bad()
		}
	}
	// distinctness, pairwise within the case and within one kind
	byKind := map[string][]*c13obj{}
	for _, o := range objs {
		byKind[o.kind] = append(byKind[o.kind], o)
	}
	ids := map[string]bool{}
	classColl := 0
	var kinds []string
	for k := range byKind {
		kinds = append(kinds, k)
	}
	sort.Strings(kinds)
	for _, k := range kinds {
		l := byKind[k]
		first := map[string]*c13obj{}
		for _, o := range l {
			ids[k+o.id] = true
			p, seen := first[o.id]
			if !seen {
				first[o.id] = o
				continue
			}
			switch {
			case p.value == o.value:
			case full || p.class != o.class:
				cs.Fail(c13pairSig(p, o), fmt.Sprintf("two different %ss have the same id %s: %s and %s", k, o.id, p.value, o.value))
			default:
				classColl++
				c.Count("known-class collision (" + k + ")")
			}
		}
		// equal values must have equal ids
		byVal := map[string]string{}
		for _, o := range l {
			if id, ok := byVal[o.value]; ok && id != o.id {
				cs.Fail(k+"-id-nondeterministic", "the same "+k+" got ids "+id+" and "+o.id)
			}
			byVal[o.value] = o.id
		}
	}
	cs.Outcome = fmt.Sprintf("objs=%d ids=%d classcoll=%d", len(objs), len(ids), classColl)
	// the same case in a second process: identifiers must not depend on the process
	if strings.HasSuffix(cs.Class, "xproc") && os.Getenv("ONETHARNESS_CHILD") == "" {
		got, err := c13child(c, cs)
		if err != nil {
			cs.Fail("xproc-failed", err.Error())
		} else if strings.Join(got, "\n") != strings.Join(cs.Impl, "\n") {
			cs.Fail("xproc-id-differs", "a second process computed other identifiers for the same inputs")
		}
	}
}

func c13child(c *h.Ctx, cs *h.Case) ([]string, error) {
	dir, err := ioutil.TempDir(c.Workdir, "c13x")
	if err != nil {
		return nil, err
	}
	defer os.RemoveAll(dir)
	in, out := dir+"/in.json", dir+"/out.jsonl"
	b, _ := json.Marshal(&h.Case{Class: cs.Class, Ops: cs.Ops})
	if err := ioutil.WriteFile(in, b, 0600); err != nil {
		return nil, err
	}
	cmd := exec.Command(os.Args[0], "c13", "replay="+in, "out="+out, "workdir="+dir)
	cmd.Env = append(os.Environ(), "ONETHARNESS_CHILD=1")
	if o, err := cmd.CombinedOutput(); err != nil {
		return nil, fmt.Errorf("%v: %s", err, o)
	}
	ob, err := ioutil.ReadFile(out)
	if err != nil {
		return nil, err
	}
	var got h.Case
	if err := json.Unmarshal(bytes.SplitN(ob, []byte("\n"), 2)[0], &got); err != nil {
		return nil, err
	}
	return got.Impl, nil
}

// ---------------------------------------------------------------------------------------------
// generation

// c13shapes returns every ordered forest with n nodes as a pre-order arity list.
func c13forests(n int, memo map[int][][]int) [][]int {
	if n == 0 {
		return [][]int{{}}
	}
	if r, ok := memo[n]; ok {
		return r
	}
	var out [][]int
	// first tree has k nodes (root + forest of k-1), the remaining forest n-k
	for k := 1; k <= n; k++ {
		for _, sub := range c13forests(k-1, memo) {
			ar := c13topArity(sub)
			for _, rest := range c13forests(n-k, memo) {
				t := append([]int{ar}, sub...)
				out = append(out, append(t, rest...))
			}
		}
	}
	memo[n] = out
	return out
}

// number of top-level trees of a forest given as pre-order arity list
func c13topArity(ar []int) int {
	n, pos := 0, 0
	var skip func()
	skip = func() {
		a := ar[pos]
		pos++
		for i := 0; i < a; i++ {
			skip()
		}
	}
	for pos < len(ar) {
		skip()
		n++
	}
	return n
}

// c13trees returns every ordered rooted tree with n nodes.
func c13trees(n int, memo map[int][][]int) [][]int {
	var out [][]int
	for _, f := range c13forests(n-1, memo) {
		out = append(out, append([]int{c13topArity(f)}, f...))
	}
	return out
}

func c13treeOp(ar []int, place []int) string {
	var s []string
	for i, a := range ar {
		s = append(s, fmt.Sprintf("%d:%d", place[i], a))
	}
	return "c13 tree " + strings.Join(s, ",")
}

func c13perms(n int) [][]int {
	if n == 0 {
		return [][]int{{}}
	}
	var out [][]int
	for _, p := range c13perms(n - 1) {
		for i := 0; i <= len(p); i++ {
			q := append(append(append([]int{}, p[:i]...), n-1), p[i:]...)
			out = append(out, q)
		}
	}
	return out
}

func c13gen(c *h.Ctx, yield func(*h.Case)) {
	b5boundSearch(c)
	r := c.Rng
	edKey := func() string {
		b := make([]byte, 32)
		r.Read(b)
		s := fix.Suite.Scalar().SetBytes(b)
		p, _ := fix.Suite.Point().Mul(s, nil).MarshalBinary()
		return "e" + hex.EncodeToString(p)
	}
	bnKey := func() string {
		b := make([]byte, 32)
		r.Read(b)
		s := c13bn.G2().Scalar().SetBytes(b)
		p, _ := c13bn.G2().Point().Mul(s, nil).MarshalBinary()
		return "g" + hex.EncodeToString(p)
	}
	edKeys := func(n int) string {
		var ks []string
		for i := 0; i < n; i++ {
			ks = append(ks, edKey())
		}
		return "c13 keys " + strings.Join(ks, " ")
	}
	idRoster := func(n int) string {
		var ms []string
		for i := 0; i < n; i++ {
			ms = append(ms, strconv.Itoa(i))
		}
		return "c13 roster " + strings.Join(ms, " ")
	}
	emit := func(class string, ops ...string) {
		c.Count("class=" + class)
		for _, o := range ops {
			f := strings.Fields(o)
			if len(f) > 1 {
				c.Count("op=" + f[1])
			}
		}
		yield(&h.Case{Class: class, Ops: ops})
	}

	// --- the known findings: always run (fixed keys), full-strength oracle ----------------------
	// (corpus/C13/*.ops holds them as files; the built-in copy is used when a file is missing)
	corpus := fix.LoadCorpus("C13")
	have := map[string]bool{}
	for _, cs := range corpus {
		have[cs.Class] = true
	}
	for _, w := range c13witnesses {
		if !have[w[0]] {
			emit(w[0], w[1:]...)
		}
	}
	for _, cs := range corpus {
		emit(cs.Class, cs.Ops...)
	}

	memo := map[int][][]int{}
	ident := func(n int) []int {
		p := make([]int, n)
		for i := range p {
			p[i] = i
		}
		return p
	}
	// --- one shape, many placements: full oracle (same shape ⇒ placement decides) ---------------
	allPlacementsUpTo := c.Pick(5, 6)
	maxN := c.Pick(6, 7)
	for n := 1; n <= maxN; n++ {
		shapes := c13trees(n, memo)
		c.Count(fmt.Sprintf("shapes n=%d: %d", n, len(shapes)))
		for _, sh := range shapes {
			ops := []string{edKeys(n), idRoster(n)}
			if n <= allPlacementsUpTo {
				for _, p := range c13perms(n) {
					ops = append(ops, c13treeOp(sh, p))
				}
			} else {
				k := c.Pick(12, 100)
				if n == 6 {
					k = c.Pick(24, 720)
				}
				seen := map[string]bool{}
				for i := 0; i < k; i++ {
					p := r.Perm(n)
					if s := fmt.Sprint(p); !seen[s] {
						seen[s] = true
						ops = append(ops, c13treeOp(sh, p))
					}
				}
			}
			emit(fmt.Sprintf("full-shape-placements n=%d", n), ops...)
		}
	}
	// --- all shapes of n nodes (and of all sizes ≤ n) over one roster: partial oracle -----------
	for n := 2; n <= maxN; n++ {
		for rep := 0; rep < c.Pick(2, 6); rep++ {
			ops := []string{edKeys(n), idRoster(n)}
			p := ident(n)
			if rep > 0 {
				p = r.Perm(n)
			}
			for _, sh := range c13trees(n, memo) {
				ops = append(ops, c13treeOp(sh, p))
			}
			emit(fmt.Sprintf("all-shapes n=%d", n), ops...)
		}
	}
	{
		n := maxN
		ops := []string{edKeys(n), idRoster(n)}
		for m := 1; m <= n; m++ {
			for _, sh := range c13trees(m, memo) {
				ops = append(ops, c13treeOp(sh, r.Perm(n)[:m]))
			}
		}
		emit("all-shapes mixed sizes", ops...)
	}
	// --- full N-ary trees (every inner node has exactly N children): there the id is fully faithful
	// (c13_tree_full_nary_injective) — all such shapes up to 7 nodes, many placements, full oracle -------
	for N := 1; N <= 3; N++ {
		var shapes [][]int
		for n := 1; n <= c.Pick(7, 9); n++ {
			for _, sh := range c13trees(n, memo) {
				ok := true
				for _, a := range sh {
					if a != 0 && a != N {
						ok = false
					}
				}
				if ok {
					shapes = append(shapes, sh)
				}
			}
		}
		for rep := 0; rep < c.Pick(3, 30); rep++ {
			nk := 9
			ops := []string{edKeys(nk), idRoster(nk)}
			for _, sh := range shapes {
				for j := 0; j < 3; j++ {
					ops = append(ops, c13treeOp(sh, r.Perm(nk)[:len(sh)]))
				}
				// two placements that differ in two nodes only
				p := r.Perm(nk)[:len(sh)]
				if len(sh) >= 2 {
					q := append([]int{}, p...)
					a, b := r.Intn(len(sh)), r.Intn(len(sh))
					q[a], q[b] = q[b], q[a]
					ops = append(ops, c13treeOp(sh, p), c13treeOp(sh, q))
				}
			}
			emit(fmt.Sprintf("full-nary N=%d", N), ops...)
		}
	}
	// --- every shape with every placement over FEWER servers than nodes (servers repeat): the tree
	// id must still separate trees whose pre-order (key, leaf) sequences differ ----------------------
	for k := 1; k <= c.Pick(2, 3); k++ {
		maxNodes := c.Pick(4, 5)
		if k == 3 {
			maxNodes = 4
		}
		ops := []string{edKeys(k), idRoster(k)}
		for n := 1; n <= maxNodes; n++ {
			total := 1
			for i := 0; i < n; i++ {
				total *= k
			}
			for _, sh := range c13trees(n, memo) {
				for code := 0; code < total; code++ {
					p := make([]int, n)
					x := code
					for i := range p {
						p[i] = x % k
						x /= k
					}
					ops = append(ops, c13treeOp(sh, p))
				}
			}
		}
		emit(fmt.Sprintf("repeated-members k=%d", k), ops...)
	}
	// --- hand-built trees whose nodes carry constant or stale RosterIndex values (as tests and
	// services that call NewTreeNode themselves do): same shape, every placement — full oracle -----
	for n := 2; n <= c.Pick(4, 5); n++ {
		for _, sh := range c13trees(n, memo) {
			for mode := 0; mode < 2; mode++ {
				ops := []string{edKeys(n), idRoster(n)}
				for _, p := range c13perms(n) {
					var it []string
					for i, a := range sh {
						idx := 0
						if mode == 1 {
							idx = i // the index of the position in the tree, not of the member
						}
						it = append(it, fmt.Sprintf("%d@%d:%d", p[i], idx, a))
					}
					ops = append(ops, "c13 tree "+strings.Join(it, ","))
				}
				emit(fmt.Sprintf("full-stale-index n=%d", n), ops...)
			}
		}
	}
	// --- rosters derived from rosters: Concat, NewRosterWithRoot, RandomSubset -------------------
	for i := 0; i < c.Pick(60, 800); i++ {
		n := 1 + r.Intn(8)
		extra := 1 + r.Intn(5)
		var ks []string
		for j := 0; j < n+extra+2; j++ {
			ks = append(ks, edKey())
		}
		ops := []string{"c13 keys " + strings.Join(ks, " "), idRoster(n)}
		// identities handed to Concat: some new, some already members, one with a service key
		var add, all []string
		for j := 0; j < n; j++ {
			all = append(all, strconv.Itoa(j))
		}
		seen := map[int]bool{}
		for j := 0; j < 1+r.Intn(extra+2); j++ {
			k := r.Intn(n + extra)
			m := strconv.Itoa(k)
			if k >= n && r.Intn(3) == 0 {
				m += "/" + strconv.Itoa(n+extra+r.Intn(2))
			}
			add = append(add, m)
			if k >= n && !seen[k] {
				seen[k] = true
				all = append(all, m)
			}
		}
		ops = append(ops, "c13 zconcat "+strings.Join(add, " "), fmt.Sprintf("c13 zconcat %d", n), "c13 concat "+strings.Join(add, " "),
			"c13 roster "+strings.Join(all, " "),    // the same list through NewRoster: same id
			idRoster(n),                             // the receiver again
			fmt.Sprintf("c13 concat %d", n),         // one new identity: another id than the receiver's
			fmt.Sprintf("c13 concat %d", r.Intn(n)), // nothing new
			fmt.Sprintf("c13 withroot %d", r.Intn(n+1)),
			fmt.Sprintf("c13 subset %d %d", r.Intn(n+1), r.Intn(n+3)),
			"c13 tree 0:0",
			fmt.Sprintf("c13 withroot %d", 0))
		class := "roster-derivations"
		if i%10 == 0 {
			class += " xproc"
		}
		emit(class, ops...)
	}
	// --- larger random trees, servers may repeat; same tree under several rosters ---------------
	for i := 0; i < c.Pick(150, 3000); i++ {
		nk := 2 + r.Intn(12)
		nn := 1 + r.Intn(c.Pick(25, 60))
		ops := []string{edKeys(nk), idRoster(nk)}
		randTree := func() string {
			// random arity list: parent of node j is a random earlier node; then emit pre-order
			par := make([]int, nn)
			kids := make([][]int, nn)
			for j := 1; j < nn; j++ {
				par[j] = r.Intn(j)
				kids[par[j]] = append(kids[par[j]], j)
			}
			var s []string
			var walk func(j int)
			walk = func(j int) {
				s = append(s, fmt.Sprintf("%d:%d", r.Intn(nk), len(kids[j])))
				for _, k := range kids[j] {
					walk(k)
				}
			}
			walk(0)
			return "c13 tree " + strings.Join(s, ",")
		}
		t1, t2 := randTree(), randTree()
		ops = append(ops, t1, t2)
		// the same descriptions over a permuted roster and over a roster with a service key
		perm := r.Perm(nk)
		var ms []string
		for _, p := range perm {
			ms = append(ms, strconv.Itoa(p))
		}
		ops = append(ops, "c13 roster "+strings.Join(ms, " "), t1, t2)
		class := "random-trees"
		if i%10 == 0 {
			class += " xproc"
		}
		emit(class, ops...)
	}
	// --- rosters: sizes, orders, service keys (Ed25519 and bn256) -------------------------------
	for i := 0; i < c.Pick(300, 5000); i++ {
		n := 1 + r.Intn(c.Pick(12, 30))
		nsvc := 0
		switch r.Intn(3) {
		case 1:
			nsvc = 1 + r.Intn(3)
		case 2:
			nsvc = 1 + r.Intn(2*n)
		}
		var ks []string
		for j := 0; j < n; j++ {
			ks = append(ks, edKey())
		}
		for j := 0; j < nsvc; j++ {
			if r.Intn(2) == 0 {
				ks = append(ks, bnKey())
			} else {
				ks = append(ks, edKey())
			}
		}
		// base: members 0..n-1, service key j attached to a random member
		base := make([][]int, n)
		for j := range base {
			base[j] = []int{j}
		}
		for j := 0; j < nsvc; j++ {
			m := r.Intn(n)
			base[m] = append(base[m], n+j)
		}
		show := func(ms [][]int) string {
			var s []string
			for _, m := range ms {
				var f []string
				for _, k := range m {
					f = append(f, strconv.Itoa(k))
				}
				s = append(s, strings.Join(f, "/"))
			}
			return "c13 roster " + strings.Join(s, " ")
		}
		clone := func(ms [][]int) [][]int {
			var o [][]int
			for _, m := range ms {
				o = append(o, append([]int{}, m...))
			}
			return o
		}
		ops := []string{"c13 keys " + strings.Join(ks, " "), show(base), show(base)}
		// variants: swap two members, drop one, duplicate one, move / reorder / strip service keys,
		// turn a service key into a member of its own (the known collision class)
		for v := 0; v < 8; v++ {
			x := clone(base)
			switch v {
			case 0:
				if n >= 2 {
					a, b := r.Intn(n), r.Intn(n)
					x[a], x[b] = x[b], x[a]
				}
			case 1:
				if n >= 2 {
					a := r.Intn(n)
					x = append(x[:a], x[a+1:]...)
				}
			case 2:
				x = append(x, x[r.Intn(n)])
			case 3, 4, 5, 6:
				var with []int
				for j, m := range x {
					if len(m) > 1 {
						with = append(with, j)
					}
				}
				if len(with) == 0 {
					continue
				}
				a := with[r.Intn(len(with))]
				switch v {
				case 3: // move the last service key to another member
					k := x[a][len(x[a])-1]
					x[a] = x[a][:len(x[a])-1]
					b := r.Intn(n)
					x[b] = append(x[b], k)
				case 4: // reverse the service keys of a member
					m := x[a]
					for i, j := 1, len(m)-1; i < j; i, j = i+1, j-1 {
						m[i], m[j] = m[j], m[i]
					}
				case 5: // strip
					x[a] = x[a][:1]
				case 6: // service keys become members right after their owner: same key sequence
					var y [][]int
					for j, m := range x {
						if j == a && keysAllEd(ks, m) {
							for _, k := range m {
								y = append(y, []int{k})
							}
						} else {
							y = append(y, m)
						}
					}
					x = y
				}
			case 7:
				r.Shuffle(len(x), func(i, j int) { x[i], x[j] = x[j], x[i] })
			}
			ops = append(ops, show(x))
		}
		class := "rosters plain"
		if nsvc > 0 {
			class = "rosters svc"
		}
		if i%10 == 0 {
			class += " xproc"
		}
		c.Count(fmt.Sprintf("roster size %d-%d", n/5*5, n/5*5+4))
		emit(class, ops...)
	}
	// --- rosters through their TOML form: without service keys (the id must stay the id of the list), with (known class),
	// after Concat / NewRosterWithRoot / rotation (derived rosters travel too)
	for i := 0; i < c.Pick(60, 900); i++ {
		n := 1 + r.Intn(8)
		withSvc := i%2 == 1
		var ks []string
		var ms [][]int
		for j := 0; j < n; j++ {
			ms = append(ms, []int{len(ks)})
			ks = append(ks, edKey())
			if withSvc && r.Intn(2) == 0 {
				for q := 0; q <= r.Intn(2); q++ {
					ms[j] = append(ms[j], len(ks))
					ks = append(ks, edKey())
				}
			}
		}
		extra := len(ks)
		ks = append(ks, edKey())
		show := func(ms [][]int) string {
			var s []string
			for _, m := range ms {
				var f []string
				for _, k := range m {
					f = append(f, strconv.Itoa(k))
				}
				s = append(s, strings.Join(f, "/"))
			}
			return strings.Join(s, " ")
		}
		ops := []string{"c13 keys " + strings.Join(ks, " "), "c13 roster " + show(ms), "c13 toml"}
		switch r.Intn(4) {
		case 0:
			ops = append(ops, fmt.Sprintf("c13 concat %d", extra), "c13 toml")
		case 1:
			ops = append(ops, fmt.Sprintf("c13 withroot %d", r.Intn(n)), "c13 toml")
		case 2:
			ops = append(ops, fmt.Sprintf("c13 rotate %d", 1+r.Intn(n)), "c13 toml")
		}
		class := "roster-toml plain"
		if withSvc {
			class = "roster-toml svc"
		}
		emit(class, ops...)
	}
	// --- tokens: base + one field changed (each of the six) + two fields swapped ----------------
	for i := 0; i < c.Pick(400, 10000); i++ {
		var f [6]string
		for j := range f {
			b := make([]byte, 16)
			r.Read(b)
			if r.Intn(6) == 0 {
				b = make([]byte, 16) // nil ids are common (service or protocol unset)
			}
			f[j] = hex.EncodeToString(b)
		}
		tokOp := func(f [6]string) string { return "c13 token " + strings.Join(f[:], " ") }
		ops := []string{tokOp(f), tokOp(f)}
		for j := 0; j < 6; j++ {
			g := f
			b, _ := hex.DecodeString(g[j])
			switch r.Intn(3) {
			case 0:
				b[r.Intn(16)] ^= 1 << uint(r.Intn(8)) // one bit
			case 1:
				b[15]++ // last byte
			default:
				r.Read(b)
			}
			g[j] = hex.EncodeToString(b)
			ops = append(ops, tokOp(g))
		}
		a, b := r.Intn(6), r.Intn(6)
		if f[a] != f[b] {
			g := f
			g[a], g[b] = g[b], g[a]
			ops = append(ops, tokOp(g))
		}
		class := "full-tokens"
		if i%20 == 0 {
			class += " xproc"
		}
		emit(class, ops...)
	}
	// --- names: protocol and service ids over a generated corpus --------------------------------
	words := []string{"", "a", "A", "b", "ab", "abc", "Count", "count", "Count ", " Count", "Count/", "protocolname/", "id/", "token/",
		"https://dedis.epfl.ch/", "Skipchain", "skipchain", "CoSi", "CoSiService", "ByzCoin", "byzcoin", "ByzCoinX", "été", "ete",
		"x\x00", "x", "\x00x", strings.Repeat("n", 55), strings.Repeat("n", 56), strings.Repeat("n", 64), strings.Repeat("n", 119), strings.Repeat("n", 120)}
	for i := 0; i < c.Pick(40, 600); i++ {
		var names []string
		if i == 0 {
			names = words
		} else {
			for j := 0; j < 20; j++ {
				switch r.Intn(4) {
				case 0:
					b := make([]byte, 1+r.Intn(40))
					r.Read(b)
					names = append(names, string(b))
				case 1:
					names = append(names, words[r.Intn(len(words))]+words[r.Intn(len(words))])
				case 2:
					w := []byte(words[3+r.Intn(len(words)-3)])
					if len(w) > 0 {
						w[r.Intn(len(w))] ^= 0x20
					}
					names = append(names, string(w))
				default:
					names = append(names, fmt.Sprintf("svc-%d-%d", i, r.Intn(1000)))
				}
			}
		}
		var ops []string
		for _, n := range names {
			ops = append(ops, "c13 proto "+h.Hex([]byte(n)), "c13 service "+h.Hex([]byte(n)))
		}
		class := "full-names"
		if i%10 == 0 {
			class += " xproc"
		}
		emit(class, ops...)
	}
	// --- registries: the id a service / protocol name gets is a function of the name alone — whatever
	// suite the service is registered with, whatever was registered and unregistered before, through the
	// case's own factory and the global one; names that differ (also by exactly a suite's name) differ in id
	for i := 0; i < c.Pick(60, 900); i++ {
		var base []string
		if i == 0 {
			base = []string{"", "Skipchain", "ByzCoin", "x", "Count", "Ed25519", "P256"}
		} else {
			for j := 0; j < 3+r.Intn(4); j++ {
				switch r.Intn(3) {
				case 0:
					b := make([]byte, 1+r.Intn(24))
					r.Read(b)
					base = append(base, string(b))
				case 1:
					base = append(base, words[r.Intn(len(words))])
				default:
					base = append(base, fmt.Sprintf("svc-%d-%d", i, r.Intn(1000)))
				}
			}
		}
		var ops []string
		seen := map[string]bool{}
		for _, w := range base {
			if seen[w] {
				continue
			}
			seen[w] = true
			s1 := c13suiteNames[r.Intn(len(c13suiteNames))]
			s2 := c13suiteNames[r.Intn(len(c13suiteNames))]
			// the name a careless concatenation of name and suite would produce
			cat := w + suites.MustFind(s1).String()
			hw, hc := h.Hex([]byte(w)), h.Hex([]byte(cat))
			ops = append(ops, "c13 svcreg "+hw+" -", "c13 svcid "+hw, "c13 svcreg "+hw+" "+s1, "c13 service "+hw,
				"c13 svcreg "+hc+" -", "c13 svcreg "+hc+" "+s2, "c13 svcunreg "+hw, "c13 svcid "+hw, "c13 svcunreg "+hw,
				"c13 svcreg "+hw+" "+s2, "c13 protoreg "+hw, "c13 protoreg "+hw, "c13 proto "+hw, "c13 protoreg "+hc)
			seen[cat] = true
		}
		class := "full-registry"
		if i%10 == 0 {
			class += " xproc"
		}
		emit(class, ops...)
	}
	// --- peer-set ids (hash of service id and data) and the Equal / IsNil / String methods of all id types
	for i := 0; i < c.Pick(60, 900); i++ {
		sid := make([]byte, 16)
		r.Read(sid)
		data := make([]byte, r.Intn(40))
		r.Read(data)
		var ops []string
		ps := func(s, d []byte) { ops = append(ops, "c13 peerset "+hex.EncodeToString(s)+" "+h.Hex(d)) }
		ps(sid, data)
		ps(sid, data)
		ps(sid, nil)
		ps(sid, append(append([]byte{}, data...), 0))
		ps(make([]byte, 16), data)
		ps(make([]byte, 16), nil)
		s2 := append([]byte{}, sid...)
		s2[r.Intn(16)] ^= 1 << uint(r.Intn(8))
		ps(s2, data)
		if len(data) > 0 {
			d2 := append([]byte{}, data...)
			d2[r.Intn(len(d2))] ^= 1 << uint(r.Intn(8))
			ps(sid, d2)
			ps(sid, data[1:])
			// the last byte of the service id moved into the data: the boundary is fixed by the id's length
			ps(append(append([]byte{}, sid[1:]...), data[0]), data[1:])
		}
		other := make([]byte, 16)
		r.Read(other)
		nilid := strings.Repeat("00", 16)
		hs, ho := hex.EncodeToString(sid), hex.EncodeToString(other)
		// ids that differ in the version nibble / the variant bits only are different ids
		s3, s4 := append([]byte{}, sid...), append([]byte{}, sid...)
		s3[6] ^= 0x10 << uint(r.Intn(4))
		s4[8] ^= 0x40 << uint(r.Intn(2))
		ops = append(ops, "c13 ideq "+hex.EncodeToString(sid)+" "+hex.EncodeToString(s3), "c13 ideq "+hex.EncodeToString(s4)+" "+hex.EncodeToString(sid))
		ops = append(ops, "c13 ideq "+hs+" "+hs, "c13 ideq "+hs+" "+ho, "c13 ideq "+hs+" "+hex.EncodeToString(s2), "c13 ideq "+nilid+" "+nilid,
			"c13 ideq "+nilid+" "+hs, "c13 ideq "+hs+" "+nilid)
		ops = append(ops, fmt.Sprintf("c13 nokey %d %d", 2000+r.Intn(3000), 2000+r.Intn(3000)))
		class := "full-peersets"
		if i%10 == 0 {
			class += " xproc"
		}
		emit(class, ops...)
	}
	// --- rotations of a roster: same members, another order, another id (IsRotation / Equal / Contains) -----
	for i := 0; i < c.Pick(60, 800); i++ {
		n := 2 + r.Intn(9)
		withSvc := r.Intn(3) == 0
		var ks, ms []string
		for j := 0; j < n; j++ {
			ks = append(ks, edKey())
		}
		for j := 0; j < n; j++ {
			m := strconv.Itoa(j)
			if withSvc {
				ks = append(ks, edKey())
				m += "/" + strconv.Itoa(n+j)
			}
			ms = append(ms, m)
		}
		ops := []string{"c13 keys " + strings.Join(ks, " "), "c13 roster " + strings.Join(ms, " ")}
		for j := 0; j < 4; j++ {
			ops = append(ops, fmt.Sprintf("c13 rotate %d", r.Intn(2*n+1)))
		}
		ops = append(ops, fmt.Sprintf("c13 rotate %d", n), "c13 rotate 1", "c13 tree 0:1,1:0", "c13 rotate 0")
		emit("rotations", ops...)
	}
	// --- keys of other suites (P256: text form (X,Y) in decimal; bn256.G1: hex pair): server and node ids,
	// rosters and trees over them ---------------------------------------------------------------------
	for i := 0; i < c.Pick(40, 600); i++ {
		kind := "pb"[i%2]
		n := 2 + r.Intn(5)
		var ks []string
		for j := 0; j < n; j++ {
			b := make([]byte, 32)
			r.Read(b)
			var raw []byte
			if kind == 'p' {
				raw, _ = c13p256.Point().Mul(c13p256.Scalar().SetBytes(b), nil).MarshalBinary()
			} else {
				raw, _ = c13bn.G1().Point().Mul(c13bn.G1().Scalar().SetBytes(b), nil).MarshalBinary()
			}
			ks = append(ks, string(kind)+hex.EncodeToString(raw))
		}
		ops := []string{"c13 keys " + strings.Join(ks, " "), idRoster(n)}
		shapes := c13trees(n, memo)
		for j := 0; j < 4; j++ {
			ops = append(ops, c13treeOp(shapes[r.Intn(len(shapes))], r.Perm(n)))
		}
		ops = append(ops, fmt.Sprintf("c13 rotate %d", 1+r.Intn(n-1)), c13treeOp(shapes[r.Intn(len(shapes))], r.Perm(n)), "c13 withroot "+strconv.Itoa(r.Intn(n)))
		class := "suite-keys " + map[byte]string{'p': "P256", 'b': "bn256.G1"}[kind]
		if i%10 == 0 {
			class += " xproc"
		}
		emit(class, ops...)
	}
	// a roster needs server keys of one suite
	emit("malformed", edKeys(1), "c13 keys p00", "c13 keys b0011", "c13 keys "+c13kR+" p046b17d1f2e12c4247f8bce6e563a440f277037d812deb33a0f4a13945d898c2964fe342e2fe1a7f9b8ee7eb4a7c0f9e162bce33576b315ececbb6406837bf51f5",
		"c13 roster 0 1", "c13 roster 1", "c13 concat 0", "c13 roster 0", "c13 concat 1")
	// --- malformed stream: both sides must refuse, not guess ------------------------------------
	emit("malformed", "c13 keys", "c13 keys e00zz", "c13 roster 0", edKeys(2), "c13 roster 0 5", "c13 tree 0:0", idRoster(2),
		"c13 tree 0:1", "c13 tree 0:1,1:0,1:0", "c13 tree 0:1,7:0", "c13 tree 0-1", "c13 token 00 00 00 00 00 00",
		"c13 proto zz", "c13 frob", "c13 tree 0:1,1:0", "c13 tree 0@x:0", "c13 tree 0@1@2:0", "c13 concat", "c13 concat 9", "c13 withroot 7",
		"c13 withroot", "c13 subset 0", "c13 subset 5 1", "c13 tree 0@5:1,1@0:0",
		"c13 svcreg zz -", "c13 svcreg 00 Foo", "c13 svcreg 00", "c13 svcunreg 00", "c13 svcid zz", "c13 svcid 00", "c13 protoreg zz", "c13 peerset 00 00",
		"c13 peerset 000102030405060708090a0b0c0d0e0f zz", "c13 ideq 00 00", "c13 ideq 000102030405060708090a0b0c0d0e0f 00", "c13 rotate x", "c13 rotate", "c13 rotate 3")
}

const (
	c13kR = "ef2c6fed8324ebdf4592ba287b3a8146f52dcc684e44ae65b62822c41bf143ed0"
	c13kA = "e1989a6b6f76047bbdc199941dfb0e0695210a2eeb072671a46369b0866b4cfb9"
	c13kB = "e3ae8a9a13a01ed6cedd60842eee13ef30321db16e504b605ddbf5d6313366e80"
	c13kC = "ecb3a8182d0e5ad9c38dc1a81ef29f841c6ba2b10e81dc7972f31ab2e46693d8c"
	// two genuine Ed25519 points whose encodings are x‖01 and 01‖x
	c13kX1 = "ea8bef4c40fe97c737b7c8f72adda57c4a29edf179f02f3d0bfd3eafd8e773301"
	c13k1X = "e01a8bef4c40fe97c737b7c8f72adda57c4a29edf179f02f3d0bfd3eafd8e7733"
)

// the witnesses of the known findings (class, ops…)
var c13witnesses = [][]string{
	// r(a(b,c)) and r(a(b),c) over the same roster
	{"witness-tree", "c13 keys " + c13kR + " " + c13kA + " " + c13kB + " " + c13kC, "c13 roster 0 1 2 3",
		"c13 tree 0:1,1:2,2:0,3:0", "c13 tree 0:2,1:1,2:0,3:0"},
	// one server A with service key B, and the two servers A, B
	{"witness-roster", "c13 keys " + c13kR + " " + c13kA, "c13 roster 0/1", "c13 roster 0 1"},
	// r(a, b(c)) with b = x‖01 and r(a(d), c) with d = 01‖x: different servers, same tree id
	// [A with service key B, C] through Roster.Toml / RosterToml.Roster: the id travels, the service key does not
	{"witness-roster-toml", "c13 keys " + c13kR + " " + c13kA + " " + c13kB, "c13 roster 0/1 2", "c13 toml"},
	{"witness-tree-shift", "c13 keys " + c13kR + " " + c13kA + " " + c13kX1 + " " + c13k1X + " " + c13kC, "c13 roster 0 1 2 3 4",
		"c13 tree 0:2,1:0,2:1,4:0", "c13 tree 0:2,1:1,3:0,4:0"},
}

func keysAllEd(ks []string, m []int) bool {
	for _, k := range m {
		if ks[k][0] != 'e' {
			return false
		}
	}
	return true
}

func init() {
	h.RegisterProp(h.Prop{Name: "c13", Gen: c13gen, Exec: c13exec})
}
