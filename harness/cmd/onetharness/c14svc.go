package main

import (
	"errors"
	"sync"
	"sync/atomic"
	"time"

	"go.dedis.ch/kyber/v3"
	"go.dedis.ch/onet/v3"
	"go.dedis.ch/onet/v3/network"
	"go.dedis.ch/onet/v3/log"
)

// The echo/transform service of the C14 harness, registered through the public
// service API. Every handler is a pure function of its argument (c14Transform)
// so that the reply owed to a request can be computed from that request alone.

const c14ServiceName = "VerifC14"

// websocket (protobuf) requests; the path is the struct name
type C14Echo struct {
	A int64
	S string
	B []byte
}
type C14Swap struct {
	A int64
	S string
	B []byte
}

// C14Keep is handled by a handler that retains B (a handler may keep what it
// was given) and answers with the B it retained from the previous request.
type C14Keep struct {
	A int64
	S string
	B []byte
}

// C14Key has an optional field of an interface type (the usual way to carry a
// key in an onet message): the decoder does not reset such fields.
type C14Key struct {
	A int64
	P kyber.Point
}

// C14Both is registered for both APIs with two different functions: over the
// websocket it is answered by bothWs, over REST (POST) by bothRest.
type C14Both struct {
	A int64
	S string
	B []byte
}

// REST (JSON) requests; the resource is the struct name
type C14Post struct {
	A int
	S string
	B []byte
}
type C14Put struct {
	A int
	S string
	B []byte
}
type C14Int struct{ N int }
type C14Bytes struct{ B []byte }
type C14Empty struct{}

// C14Reply is the reply to every request.
type C14Reply struct {
	A int64
	S string
	B []byte
	N int64
}

// c14Bad are the values of S for which a handler fails or panics.
var c14Bad = []string{"fail", "panic", "nil", "panicerr", "panicint", "panicstruct", "panicf"}

// c14NilReply is the value of S for which a handler returns (nil, nil): nothing the
// websocket API can encode (an "encoding" error for that client), `null` over REST.
const c14NilReply = "nilreply"

func c14IsBad(s string) bool {
	for _, b := range c14Bad {
		if s == b {
			return true
		}
	}
	return false
}

// C14Who is answered with the address of the answering server (for requests
// sent to several servers at once).
type C14Who struct {
	Nonce int64
	// FailAddr: the server with this address answers with an error instead
	FailAddr string
}
type C14WhoReply struct {
	Nonce int64
	Addr  string
}

// c14Calls counts handler invocations in this process.
var c14Calls int64

// c14Transform is the reference function: what the handler registered under
// tag owes to a request with these fields. "fail" is refused with an error,
// "panic" and "nil" panic (explicitly / by a nil dereference).
func c14Transform(tag string, a int64, s string, b []byte) (*C14Reply, error) {
	switch s {
	case "fail":
		return nil, errors.New("refused")
	case "panic":
		panic("boom")
	case "nil":
		var p *C14Reply
		return &C14Reply{A: p.A}, nil
	case "panicerr":
		panic(errors.New("boom"))
	case "panicint":
		panic(42)
	case "panicstruct":
		panic(struct{ X int }{7})
	case "panicf":
		log.Panicf("boom %d", 7) // panics with its argument list, a []interface{}
	case c14NilReply:
		return nil, nil // no reply and no error
	}
	r := &C14Reply{A: a, S: s + "/" + tag, N: int64(len(s) + len(b))}
	for i := len(b) - 1; i >= 0; i-- {
		r.B = append(r.B, b[i])
	}
	return r, nil
}

type c14Service struct {
	*onet.ServiceProcessor
	keptMu sync.Mutex
	kept   []byte
}

// c14SlowSleep is how long a request with S == "slow" keeps its websocket
// handler busy; clients named q... stop waiting for the reply before that.
const c14SlowSleep = 2 * time.Second
const c14QuickTimeout = 1 * time.Second

func c14maybeSlow(s string) {
	if s == "slow" {
		time.Sleep(c14SlowSleep)
	}
}

func (s *c14Service) keep(m *C14Keep) (*C14Reply, error) {
	atomic.AddInt64(&c14Calls, 1)
	s.keptMu.Lock()
	prev := s.kept
	s.kept = m.B // retained, not copied
	s.keptMu.Unlock()
	return c14Transform("Keep", m.A, m.S, prev)
}

// who is not counted in c14Calls: how many servers are asked depends on the schedule.
func (s *c14Service) who(m *C14Who) (*C14WhoReply, error) {
	if m.FailAddr != "" && m.FailAddr == string(s.ServerIdentity().Address) {
		return nil, errors.New("this node refuses")
	}
	return &C14WhoReply{Nonce: m.Nonce, Addr: string(s.ServerIdentity().Address)}, nil
}
func (s *c14Service) echo(m *C14Echo) (*C14Reply, error) {
	atomic.AddInt64(&c14Calls, 1)
	c14maybeSlow(m.S)
	return c14Transform("Echo", m.A, m.S, m.B)
}
func (s *c14Service) swap(m *C14Swap) (*C14Reply, error) {
	atomic.AddInt64(&c14Calls, 1)
	c14maybeSlow(m.S)
	return c14Transform("Swap", m.A, m.S, m.B)
}
func (s *c14Service) key(m *C14Key) (*C14Reply, error) {
	atomic.AddInt64(&c14Calls, 1)
	str := ""
	if m.P != nil {
		b, err := m.P.MarshalBinary()
		if err != nil {
			return nil, err
		}
		str = string(b)
	}
	return c14Transform("Key", m.A, str, nil)
}

// C14Ack is acknowledged without a message: its handler has an interface return type and hands back
// (nil, nil) — nothing to encode, the reply is empty (seed C14r7-B handed the request's own bytes
// back). A bad S fails or panics like everywhere.
type C14Ack struct {
	A int64
	S string
	B []byte
}

func (s *c14Service) ack(m *C14Ack) (network.Message, error) {
	atomic.AddInt64(&c14Calls, 1)
	if _, err := c14Transform("Ack", m.A, m.S, m.B); err != nil {
		return nil, err
	}
	return nil, nil
}
func (s *c14Service) bothWs(m *C14Both) (*C14Reply, error) {
	atomic.AddInt64(&c14Calls, 1)
	return c14Transform("BothWs", m.A, m.S, m.B)
}
func (s *c14Service) bothRest(m *C14Both) (*C14Reply, error) {
	atomic.AddInt64(&c14Calls, 1)
	return c14Transform("BothRest", m.A, m.S, m.B)
}
func (s *c14Service) post(m *C14Post) (*C14Reply, error) {
	atomic.AddInt64(&c14Calls, 1)
	return c14Transform("Post", int64(m.A), m.S, m.B)
}
func (s *c14Service) put(m *C14Put) (*C14Reply, error) {
	atomic.AddInt64(&c14Calls, 1)
	return c14Transform("Put", int64(m.A), m.S, m.B)
}
func (s *c14Service) getInt(m *C14Int) (*C14Reply, error) {
	atomic.AddInt64(&c14Calls, 1)
	return c14Transform("Int", int64(m.N), "", nil)
}
func (s *c14Service) getBytes(m *C14Bytes) (*C14Reply, error) {
	atomic.AddInt64(&c14Calls, 1)
	return c14Transform("Bytes", 0, "", m.B)
}
func (s *c14Service) getEmpty(m *C14Empty) (*C14Reply, error) {
	atomic.AddInt64(&c14Calls, 1)
	return c14Transform("Empty", 0, "", nil)
}

func newC14Service(c *onet.Context) (onet.Service, error) {
	s := &c14Service{ServiceProcessor: onet.NewServiceProcessor(c)}
	// (the order is mirrored by `concreteRegs` in lean/OnetVerif/Model/C14.lean)
	if err := s.RegisterHandlers(s.echo, s.swap, s.key, s.keep, s.who, s.bothWs, s.ack); err != nil {
		return nil, err
	}
	for _, r := range []struct {
		f      interface{}
		method string
	}{{s.post, "POST"}, {s.put, "PUT"}, {s.getInt, "GET"}, {s.getBytes, "GET"}, {s.getEmpty, "GET"}, {s.bothRest, "POST"}} {
		if err := s.RegisterRESTHandler(r.f, c14ServiceName, r.method, 3, 3); err != nil {
			return nil, err
		}
	}
	return s, nil
}

var c14RegisterOnce sync.Once

// c14Register registers the service (once per process, before the first server
// is created; not in init() so that the servers of other harnesses do not
// carry this service).
func c14Register() {
	c14RegisterOnce.Do(func() {
		if _, err := onet.RegisterNewService(c14ServiceName, newC14Service); err != nil {
			log.Fatal(err)
		}
	})
}
