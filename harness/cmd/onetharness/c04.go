package main

import (
	"fmt"
	"go.dedis.ch/kyber/v3/util/key"
	"math/rand"
	"sort"
	"strconv"
	"strings"
	"sync"
	"sync/atomic"
	"time"

	"github.com/google/uuid"
	"go.dedis.ch/onet/v3"
	"go.dedis.ch/onet/v3/network"
	"onetverif/harness/fix"
	"onetverif/harness/h"
)

// C04: aggregation of children's messages. A real TreeNodeInstance of the
// recording protocol is created by the overlay on a node with k children;
// protocol-message envelopes are injected through Overlay.Process; after each
// one a barrier message makes sure the reader has dispatched it, then what the
// handlers/channels received since the previous op is the observation.

type c04fixture struct {
	cl    *fix.Cluster
	trees map[string]c04tree
	wide  *onet.Roster
}

// roster returns a roster with at least n members: the cluster's, or — for fan-outs beyond the
// cluster — the cluster's servers followed by identities that exist as keys only (the receiving
// server never dials a sender: envelopes are injected with the sender's identity attached).
func (f *c04fixture) roster(n int) *onet.Roster {
	if n <= len(f.cl.Roster.List) {
		return f.cl.Roster
	}
	if f.wide == nil || len(f.wide.List) < n {
		sis := append([]*network.ServerIdentity{}, f.cl.Roster.List...)
		if f.wide != nil {
			sis = append([]*network.ServerIdentity{}, f.wide.List...)
		}
		for len(sis) < n+8 {
			kp := key.NewKeyPair(fix.Suite)
			sis = append(sis, network.NewServerIdentity(kp.Public, network.NewLocalAddress(fmt.Sprintf("ghost%d:2000", len(sis)))))
		}
		f.wide = onet.NewRoster(sis)
		// trees over the previous wide roster have another roster id: forget them
		for k, t := range f.trees {
			if len(t.t.Roster.List) > len(f.cl.Roster.List) {
				delete(f.trees, k)
			}
		}
	}
	return f.wide
}

type c04tree struct {
	t      *onet.Tree
	target *onet.TreeNode
	srv    int
}

var (
	c04once sync.Once
	c04fix  *c04fixture
)

func c04get() *c04fixture {
	c04once.Do(func() {
		c04fix = &c04fixture{cl: fix.NewCluster(11, false), trees: map[string]c04tree{}}
	})
	return c04fix
}

func (f *c04fixture) tree(root bool, k int) c04tree {
	key := fmt.Sprint(root, k)
	if t, ok := f.trees[key]; ok {
		return t
	}
	var ct c04tree
	if root {
		parent := []int{-1}
		member := []int{0}
		for i := 0; i < k; i++ {
			parent = append(parent, 0)
			member = append(member, i+1)
		}
		t, nodes := fix.BuildTree(f.roster(k+2), parent, member)
		ct = c04tree{t, nodes[0], 0}
	} else {
		t, nodes := fix.Fan(f.roster(k+2), k)
		ct = c04tree{t, nodes[1], 1}
	}
	f.cl.Overlay(ct.srv).RegisterTree(ct.t)
	f.trees[key] = ct
	return ct
}

// unknownTree builds the shape of tree(root, k) over a re-ordered roster (another roster id, hence
// another tree id): node i is still hosted by server i, but no server has seen this tree.
func (f *c04fixture) unknownTree(root bool, k int, r *rand.Rand) c04tree {
	base := f.roster(k + 2)
	perm := r.Perm(len(base.List))
	var sis []*network.ServerIdentity
	pos := map[int]int{}
	for i, j := range perm {
		sis = append(sis, base.List[j])
		pos[j] = i
	}
	ro := onet.NewRoster(sis)
	if root {
		parent := []int{-1}
		member := []int{pos[0]}
		for i := 0; i < k; i++ {
			parent = append(parent, 0)
			member = append(member, pos[i+1])
		}
		t, nodes := fix.BuildTree(ro, parent, member)
		return c04tree{t, nodes[0], 0}
	}
	parent := []int{-1, 0}
	member := []int{pos[0], pos[1]}
	for i := 0; i < k; i++ {
		parent = append(parent, 1)
		member = append(member, pos[i+2])
	}
	t, nodes := fix.BuildTree(ro, parent, member)
	return c04tree{t, nodes[1], 1}
}

// siblingTrees builds, over a roster nobody has seen (the last child is an identity that exists as a key only, so that
// the ids are new in this process), the shape of tree(root, k) and a chain over the same servers in the same depth-first
// order. Neither is registered anywhere.
func (f *c04fixture) siblingTrees(root bool, k int) (c04tree, *onet.Tree) {
	sis := append([]*network.ServerIdentity{}, f.cl.Roster.List[:k+1]...)
	kp := key.NewKeyPair(fix.Suite)
	sis = append(sis, network.NewServerIdentity(kp.Public, network.NewLocalAddress(fmt.Sprintf("sibling%d:2000", atomic.AddInt64(&c04siblings, 1)))))
	// member order: the tree's depth-first order; for the inner shape the last child is the ghost as well
	ro := onet.NewRoster(sis)
	var parent, chainParent, member []int
	n := k + 1 // nodes of the root shape
	target := 0
	if !root {
		n = k + 2
		target = 1
	}
	for i := 0; i < n; i++ {
		m := i
		if i == n-1 {
			m = len(sis) - 1 // the ghost
		}
		member = append(member, m)
		chainParent = append(chainParent, i-1)
		switch {
		case i == 0:
			parent = append(parent, -1)
		case !root && i == 1:
			parent = append(parent, 0)
		default:
			parent = append(parent, target)
		}
	}
	t, nodes := fix.BuildTree(ro, parent, member)
	chain, _ := fix.BuildTree(ro, chainParent, member)
	return c04tree{t, nodes[target], target}, chain
}

var c04siblings int64

// scrambled builds the shape of tree(root, k) over the reversed roster (another tree id), node i
// still hosted by server i, but with the advisory RosterIndex field of every node pointing at the
// roster position of the NEXT node of the tree: the field is not what binds a node to its server.
// With register the tree is stored on the target's server (once); otherwise a fresh equal copy.
func (f *c04fixture) scrambled(root bool, k int, register bool) c04tree {
	key := fmt.Sprint("scr", root, k)
	if t, ok := f.trees[key]; ok && register {
		return t
	}
	base := f.roster(k + 2)
	n := len(base.List)
	var sis []*network.ServerIdentity
	for i := n - 1; i >= 0; i-- {
		sis = append(sis, base.List[i])
	}
	ro := onet.NewRoster(sis)
	pos := func(j int) int { return n - 1 - j }
	parent := []int{-1}
	member := []int{pos(0)}
	first := 1
	if !root {
		parent = append(parent, 0)
		member = append(member, pos(1))
		first = 2
	}
	for i := 0; i < k; i++ {
		parent = append(parent, first-1)
		member = append(member, pos(first+i))
	}
	t, nodes := fix.BuildTree(ro, parent, member)
	for i, nd := range nodes {
		nd.RosterIndex = member[(i+1)%len(nodes)]
	}
	ct := c04tree{t, nodes[first-1], first - 1}
	if register {
		f.cl.Overlay(ct.srv).RegisterTree(ct.t)
		f.trees[key] = ct
	}
	return ct
}

// freshCopy builds the tree of tree(root, k) again: an equal tree, other objects.
func (f *c04fixture) freshCopy(root bool, k int) *onet.Tree {
	if root {
		parent := []int{-1}
		member := []int{0}
		for i := 0; i < k; i++ {
			parent = append(parent, 0)
			member = append(member, i+1)
		}
		t, _ := fix.BuildTree(f.roster(k+2), parent, member)
		return t
	}
	t, _ := fix.Fan(f.roster(k+2), k)
	return t
}

func c04show(target *onet.TreeNode, ds []fix.Delivery) string {
	if len(ds) == 0 {
		return "-"
	}
	var parts []string
	for _, d := range ds {
		var items []string
		for _, it := range d.Items {
			src := "?"
			if it.Node != nil && target.Parent != nil && it.Node.ID.Equal(target.Parent.ID) {
				src = "p"
			} else if it.Node != nil {
				for i, c := range target.Children {
					if c.ID.Equal(it.Node.ID) {
						src = strconv.Itoa(i)
					}
				}
			}
			items = append(items, fmt.Sprintf("%d/%s/%d", d.Ty, src, it.V))
		}
		parts = append(parts, strings.Join(items, ","))
	}
	return strings.Join(parts, ";")
}

// c04sameBatches: the property speaks about which messages a batch holds, not about their order inside it
// (the model comparison is order-sensitive: the code keeps the arrival order)
func c04sameBatches(a, b string) bool {
	canon := func(s string) string {
		bs := strings.Split(s, ";")
		for i, x := range bs {
			it := strings.Split(x, ",")
			sort.Strings(it)
			bs[i] = strings.Join(it, ",")
		}
		return strings.Join(bs, ";")
	}
	return canon(a) == canon(b)
}

func c04exec(c *h.Ctx, cs *h.Case) {
	for _, op := range cs.Ops {
		if strings.HasPrefix(op, "c04 tcpb ") {
			c04tcpExec(c, cs)
			return
		}
		if strings.HasPrefix(op, "c04 inst ") {
			// several instances, registration scripts, channels read on demand: c04multi.go
			c04multiExec(c, cs)
			return
		}
	}
	f := c04get()
	var ct c04tree
	var rec *fix.Rec
	var to *onet.Token
	round := uuid.New()
	k := 0
	isRoot := false
	// oracle bookkeeping: children's messages per aggregated type since the last batch
	pend := map[int][]string{}
	barrier := 0
	inject := func(ty int, src string, v int) error {
		var from *onet.TreeNode
		if src == "p" {
			from = ct.target.Parent
		} else {
			i, _ := strconv.Atoi(src)
			from = ct.target.Children[i]
		}
		env, err := fix.Envelope(from.ServerIdentity, fix.TokenFor(ct.t, from, round), to, fix.Payload(ty, v))
		if err != nil {
			return err
		}
		f.cl.Overlay(ct.srv).Process(env)
		return nil
	}
	defer func() {
		if rec != nil {
			rec.Tni.Done()
		}
	}()
	for _, op := range cs.Ops {
		tk := strings.Fields(op)
		switch {
		case len(tk) == 5 && tk[1] == "cfg":
			isRoot = tk[2] == "root"
			k, _ = strconv.Atoi(tk[3])
			ct = f.tree(isRoot, k)
			to = fix.TokenFor(ct.t, ct.target, round)
			cs.Impl = append(cs.Impl, "ok")
		case len(tk) == 2 && tk[1] == "rereg":
			// the server learns an equal copy of the tree again (every service that generates its
			// tree per run does this): the stored Tree object is replaced, the tree is the same
			nt := f.freshCopy(isRoot, k)
			f.cl.Overlay(ct.srv).RegisterTree(nt)
			cs.Impl = append(cs.Impl, "ok")
		case len(tk) == 5 && tk[1] == "msg":
			ty, _ := strconv.Atoi(tk[2])
			v, _ := strconv.Atoi(tk[4])
			if err := inject(ty, tk[3], v); err != nil {
				cs.Impl = append(cs.Impl, "err")
				continue
			}
			barrier++
			bsrc := "0"
			if !isRoot {
				bsrc = "p"
			}
			inject(9, bsrc, barrier)
			if rec == nil {
				rec = fix.RecOf(to)
			}
			if rec == nil {
				cs.Impl = append(cs.Impl, "no-instance")
				cs.Fail("no-instance", "the overlay created no instance for the injected message")
				continue
			}
			select {
			case got := <-rec.SyncCh:
				if got != barrier {
					cs.Fail("barrier-order", fmt.Sprintf("barrier %d handled, expected %d", got, barrier))
				}
			case <-time.After(10 * time.Second):
				cs.Impl = append(cs.Impl, "hang")
				cs.Fail("hang", "barrier message not handled within 10 s after "+op)
				return
			}
			obs := c04show(ct.target, rec.Drain())
			cs.Impl = append(cs.Impl, obs)
			for _, ch := range rec.RetainedChanged() {
				cs.Fail("delivered-batch-changed", "a protocol that keeps the batch it was handed sees it change later: "+ch)
			}
			// the property's own oracle (independent of the Lean model)
			me := fmt.Sprintf("%d/%s/%d", ty, tk[3], v)
			want := me
			if (ty == 1 || ty == 2) && tk[3] != "p" {
				pend[ty] = append(pend[ty], me)
				if len(pend[ty]) == k {
					want = strings.Join(pend[ty], ",")
					pend[ty] = nil
				} else {
					want = "-"
				}
			}
			if cs.Class != "free" && !c04sameBatches(obs, want) {
				cs.Fail("batch-mismatch", fmt.Sprintf("after %q the instance received %q, the property demands %q", op, obs, want))
			}
		default:
			cs.Impl = append(cs.Impl, "bad-op")
		}
	}
	cs.Outcome = fmt.Sprintf("k=%d root=%v batches=%d", k, isRoot, strings.Count(strings.Join(cs.Impl, " "), ","))
}

func c04gen(c *h.Ctx, yield func(*h.Case)) {
	r := c.Rng
	val := 0
	// witnesses of repaired defects and of seeded changes that were once missed run first
	for _, cs := range fix.LoadCorpus("C04") {
		c.Count("class=corpus")
		yield(cs)
	}
	mk := func(class string, root bool, k int, body func(add func(ty int, src string))) {
		cs := &h.Case{Class: class}
		rs := "inner"
		if root {
			rs = "root"
		}
		cs.Ops = append(cs.Ops, fmt.Sprintf("c04 cfg %s %d 1,2", rs, k))
		body(func(ty int, src string) {
			val++
			if val%7 == 3 {
				cs.Ops = append(cs.Ops, "c04 rereg")
			}
			cs.Ops = append(cs.Ops, fmt.Sprintf("c04 msg %d %s %d", ty, src, val))
		})
		c.Count(fmt.Sprintf("class=%s", class))
		c.Count(fmt.Sprintf("fanout=%d", k))
		yield(cs)
	}
	// premise: rounds of one message per child per aggregated type, interleaved with noise
	premise := func(root bool, k, rounds int, noise int) {
		mk("premise", root, k, func(add func(int, string)) {
			type stream struct {
				ty   int
				msgs []string
			}
			var streams []*stream
			for _, ty := range []int{1, 2} {
				s := &stream{ty: ty}
				for rd := 0; rd < rounds; rd++ {
					for _, i := range r.Perm(k) {
						s.msgs = append(s.msgs, strconv.Itoa(i))
					}
				}
				streams = append(streams, s)
			}
			left := noise
			for len(streams) > 0 || left > 0 {
				if left > 0 && (len(streams) == 0 || r.Intn(3) == 0) {
					left--
					ty := 1 + r.Intn(4)
					src := strconv.Itoa(r.Intn(k))
					if !root && (ty <= 2 || r.Intn(2) == 0) {
						src = "p"
					} else if ty <= 2 {
						ty += 2
					}
					add(ty, src)
					continue
				}
				if len(streams) == 0 {
					continue
				}
				si := r.Intn(len(streams))
				s := streams[si]
				add(s.ty, s.msgs[0])
				s.msgs = s.msgs[1:]
				if len(s.msgs) == 0 {
					streams = append(streams[:si], streams[si+1:]...)
				}
			}
		})
	}
	maxK := c.Pick(6, 9)
	reps := c.Pick(6, 60)
	for k := 1; k <= maxK; k++ {
		for _, root := range []bool{false, true} {
			for i := 0; i < reps; i++ {
				premise(root, k, 1+r.Intn(3), r.Intn(2*k+3))
			}
		}
	}
	// wide fan-outs, around the sizes of machine words (senders beyond the cluster exist as keys only)
	for _, k := range []int{31, 32, 33, 63, 64, 65, 70, 127, 129} {
		if c.Tier != "thorough" && k > 70 {
			continue
		}
		for _, root := range []bool{false, true} {
			premise(root, k, 2, 5)
		}
	}
	// all arrival orders of one round for small fan-outs (thorough: up to 5 children)
	var perms func(n int) [][]int
	perms = func(n int) [][]int {
		if n == 0 {
			return [][]int{{}}
		}
		var out [][]int
		for _, p := range perms(n - 1) {
			for i := 0; i <= len(p); i++ {
				q := append(append(append([]int{}, p[:i]...), n-1), p[i:]...)
				out = append(out, q)
			}
		}
		return out
	}
	for k := 1; k <= c.Pick(4, 5); k++ {
		for _, p := range perms(k) {
			p := p
			mk("premise", false, k, func(add func(int, string)) {
				for j, i := range p {
					add(1, strconv.Itoa(i))
					if j%2 == 0 {
						add(1, "p")
					}
				}
			})
		}
	}
	// free: arbitrary senders (outside the premise; only model/implementation are compared)
	for i := 0; i < c.Pick(40, 600); i++ {
		k := 1 + r.Intn(maxK)
		root := r.Intn(2) == 0
		mk("free", root, k, func(add func(int, string)) {
			for j := 0; j < 3+r.Intn(4*k); j++ {
				src := strconv.Itoa(r.Intn(k))
				if !root && r.Intn(4) == 0 {
					src = "p"
				}
				add(1+r.Intn(4), src)
			}
		})
	}
	c04tcpGen(c, yield)
	c04multiGen(c, yield)
}

func init() {
	// sub-processes running batches of cases (common_batch.go): a panic of the code under test in one of its own
	// goroutines (the reader of an instance) is the observation `crash` of the case that was running, not the end of
	// the harness ("0 cases")
	registerBatched(h.Prop{Name: "c04", Gen: c04gen, Exec: c04exec, Workers: 8, Timeout: 60 * time.Second}, 20)
}
