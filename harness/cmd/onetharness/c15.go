package main

import (
	"bytes"
	"errors"
	"fmt"
	"net"
	"reflect"
	"runtime"
	"sort"
	"strconv"
	"strings"
	"sync"
	"sync/atomic"
	"time"

	"github.com/gorilla/websocket"
	"go.dedis.ch/onet/v3"
	"go.dedis.ch/onet/v3/log"
	"go.dedis.ch/protobuf"
	"onetverif/harness/fix"
	"onetverif/harness/h"
)

// C15: streams deliver everything in order and end cleanly whoever leaves first.
//
// A case drives the client and the service of one or more streaming
// connections step by step against a real server (TCP LocalTest, websocket
// listener), in a sub-process, and waits for the observable effect of each
// step; onet's goroutines (reader, write loop, adapter, forwarders, stoppers)
// run freely in between, except where the harness holds one at a hook.
//
//   c15 open <c> <fresh|garbage|failing|nostop|noout>      connect, send the first message
//   c15 csend <c> <fresh|reuse<j>|garbage|failing|nostop|noout>   a further client message
//                             panics|panicerr|panicidx: the handler panics (string, error value, runtime error);
//                             nostop: the handler hands back a new channel and a nil stop channel;
//                             noout: it hands back a nil channel (and a stop channel, no error)
//   c15 wstart <c> <n>        wait until the handler was invoked more than n times for <c>
//   c15 emit <c> <k> <v>      the service sends v on channel k (until a forwarder takes it)
//   c15 svcclose <c> <k>      the service closes channel k
//   c15 cread <c>             the client reads the next frame
//   c15 cleave <c> <close|drop>   the client closes (close frame) or drops the connection
//   c15 wstop <c> <k>         wait until the stop channel of channel k is closed
//   c15 hold <c> <point>      hold the next goroutine of <c> that reaches the hook point
//   c15 wheld <c> <point>     wait until a goroutine is held there
//   c15 release <c> <point>
//   c15 flood <c> <k> <v> <n> the service emits up to n values v, v+1, ... on channel k and stops at
//                             the first one no forwarder takes within 150 ms (how many are taken
//                             depends on the schedule: the observation is always "ok")
//   c15 wexit <c> <n>         wait until n forwarding routines have ended (hook forwarder-exit;
//                             counted per process, so only for single-connection cases)
//   c15 gc                    garbage collection in the server process; from then on the service tries to
//                             allocate a new channel at the address of a closed and dropped one
//   c15 census                goroutine census of the server process: waits until no routine of
//                             ProcessClientStreamRequest (adapter, stop notifiers, forwarders) is left
//   c15 alive                 a fresh connection streams one value and ends normally
//   c15 cmute <c>             from now on the client only listens: it neither answers a close frame
//                             nor closes its side of the connection
//   c15 wclosed <c>           wait until the server has closed the connection (end of file on the socket)
//   c15 cping <c>             websocket ping through StreamingConn.Ping (clients n...)
//   c15 cpause <c> / cresume <c>   the raw client stops / resumes reading from its socket
//   c15 cpingraw <c>          websocket ping of a raw client
//   c15 emitbig <c> <k> <v> <kb>   like emit, the message padded to <kb> KiB
//   c15 emitempty <c>              the service emits, on channel 0, a message whose encoding is EMPTY (every field
//                                  optional and unset: zero bytes on the wire); a client decodes it as the zero value
//                                  (channel 0, value 0) — a message of the stream like any other
//   c15 emitbad <c> <k>       the service sends a value on channel k that protobuf.Encode refuses
//   c15 creadopt <c> <ms>     clients m... (onet's client, no routine reads for them): one read with its own
//                             options — ReadMessageWithOpts with a deadline <ms> ahead, or ReadMessage if 0
//   c15 quiet <ms>            nothing happens for <ms> milliseconds
//   c15 ping <v>              another client of the same server: a plain request (C15Ping) over a
//                             single-use onet.Client, answered with v+1
//
// A connection named n... is driven through onet's own client (Client.Stream on a kept
// connection for every message, StreamingConn.ReadMessage, Client.Close to leave); all others are
// raw gorilla connections. `open <c> unregistered` connects to a path no handler is registered for.
//
// Every wait is bounded (c15wait); "timeout" is an observation.

const c15ServiceName = "VerifC15"

var c15wait = 3 * time.Second

// C15Req is the streaming request. Reuse < 0: hand out a new channel, else the
// channel of stream Reuse of this connection again.
type C15Req struct {
	Conn  string
	Reuse int64
	Fail  bool
	// NoStop: a new channel, but no stop channel; NoOut: no channel at all (nil), with a stop channel
	NoStop bool
	NoOut  bool
	// Panic: the handler panics on this request — 1: with a string, 2: with an error value,
	// 3: with a runtime error (index out of range)
	Panic int64
}

// C15ReqOfAStreamingEndpointWhoseMessageTypeHasAnUnusuallyLongNameAsGeneratedCodeSometimesProducesThemForNestedMessages is the same request under a type name of 117 characters (the path of
// a websocket endpoint is the name of its message type): connections named l... use it.
type C15ReqOfAStreamingEndpointWhoseMessageTypeHasAnUnusuallyLongNameAsGeneratedCodeSometimesProducesThemForNestedMessages C15Req

const c15LongPath = "C15ReqOfAStreamingEndpointWhoseMessageTypeHasAnUnusuallyLongNameAsGeneratedCodeSometimesProducesThemForNestedMessages"

func (s *c15Service) streamLong(m *C15ReqOfAStreamingEndpointWhoseMessageTypeHasAnUnusuallyLongNameAsGeneratedCodeSometimesProducesThemForNestedMessages) (chan *C15Val, chan bool, error) {
	r := C15Req(*m)
	return s.stream(&r)
}

// C15Val is what the service streams.
type C15Val struct {
	Conn string
	K    int64
	V    int64
	// Pad makes the message big (op emitbig)
	Pad []byte
	// Refuse: this value cannot be encoded (op emitbad)
	Refuse bool
	// Empty: this value's encoding has no bytes (op emitempty)
	Empty bool
}

type c15valPlain C15Val

// MarshalBinary is what protobuf.Encode uses for a *C15Val: the plain encoding of the struct, or —
// for a value marked Refuse — an error, as for a value with a field the encoder has no rule for.
func (v *C15Val) MarshalBinary() ([]byte, error) {
	if v.Refuse {
		return nil, errors.New("c15: a value that cannot be encoded")
	}
	if v.Empty {
		return nil, nil
	}
	p := c15valPlain(*v)
	return protobuf.Encode(&p)
}

// C15Ping is a plain (non-streaming) request of the same service: other clients
// of the server while streams are going on.
type C15Ping struct{ V int64 }
type C15Pong struct{ V int64 }

func (s *c15Service) ping(m *C15Ping) (*C15Pong, error) { return &C15Pong{V: m.V + 1}, nil }

type c15stream struct {
	ch   chan *C15Val
	stop chan bool
	// nilOut: the handler handed back a nil channel for this request
	nilOut bool
}

type c15conn struct {
	streams []*c15stream
	calls   int
	// addresses of channels the service has closed and dropped (no reference kept)
	oldAddr map[uintptr]bool
	spare   []chan *C15Val
}

// c15gcDone is set by the op `gc`: from then on a new channel is allocated, if
// the allocator allows, at the address of a closed and collected one (a service
// that closes and reopens topics meets this by chance).
var c15gcDone bool

type c15Service struct {
	*onet.ServiceProcessor
}

var (
	c15mu    sync.Mutex
	c15cond  = sync.NewCond(&c15mu)
	c15conns = map[string]*c15conn{}
)

func c15get(name string) *c15conn {
	c, ok := c15conns[name]
	if !ok {
		c = &c15conn{}
		c15conns[name] = c
	}
	return c
}

func (s *c15Service) stream(m *C15Req) (chan *C15Val, chan bool, error) {
	c15mu.Lock()
	defer c15mu.Unlock()
	defer c15cond.Broadcast()
	c := c15get(m.Conn)
	c.calls++
	if m.Fail {
		return nil, nil, errors.New("refused")
	}
	switch m.Panic {
	case 1:
		panic("c15: the streaming handler panics")
	case 2:
		panic(errors.New("c15: the streaming handler panics with an error value"))
	case 3:
		var topics []int
		_ = topics[int(m.Panic)] // index out of range: a runtime.Error
	}
	if m.Reuse >= 0 && int(m.Reuse) < len(c.streams) {
		st := c.streams[m.Reuse]
		return st.ch, st.stop, nil
	}
	if m.NoOut {
		st := &c15stream{stop: make(chan bool), nilOut: true}
		c.streams = append(c.streams, st)
		return nil, st.stop, nil
	}
	st := &c15stream{stop: make(chan bool)}
	if m.NoStop {
		st.stop = nil
	}
	if c15gcDone && len(c.oldAddr) > 0 {
		for i := 0; i < 200000 && st.ch == nil; i++ {
			ch := make(chan *C15Val)
			if c.oldAddr[reflect.ValueOf(ch).Pointer()] {
				st.ch = ch
			} else {
				c.spare = append(c.spare, ch)
			}
		}
		c.spare = nil
	}
	if st.ch == nil {
		st.ch = make(chan *C15Val)
	}
	c.streams = append(c.streams, st)
	return st.ch, st.stop, nil
}

var c15RegisterOnce sync.Once

func c15Register() {
	c15RegisterOnce.Do(func() {
		_, err := onet.RegisterNewService(c15ServiceName, func(c *onet.Context) (onet.Service, error) {
			s := &c15Service{ServiceProcessor: onet.NewServiceProcessor(c)}
			if err := s.RegisterStreamingHandlers(s.stream, s.streamLong); err != nil {
				return nil, err
			}
			if err := s.RegisterHandler(s.ping); err != nil {
				return nil, err
			}
			return s, nil
		})
		if err != nil {
			log.Fatal(err)
		}
	})
}

// ---------------------------------------------------------------------------
// hooks: one-shot holds per (connection, point)

type c15holdT struct {
	armed   bool
	parked  bool
	release chan struct{}
}

var (
	c15hmu   sync.Mutex
	c15hcond = sync.NewCond(&c15hmu)
	c15holds = map[string]*c15holdT{} // "<conn> <point>"
)

func c15tag(conn string) []byte { return []byte("#" + conn + "#") }

// c15points counts how often each hook point was reached in this process.
var c15points = map[string]int{}

func c15hook(name string, key interface{}) {
	c15hmu.Lock()
	c15points[name]++
	c15hcond.Broadcast()
	c15hmu.Unlock()
	b, ok := key.([]byte)
	if !ok {
		return
	}
	c15hmu.Lock()
	var hd *c15holdT
	for k, v := range c15holds {
		f := strings.Fields(k)
		if v.armed && !v.parked && f[1] == name && bytes.Contains(b, c15tag(f[0])) {
			hd = v
			break
		}
	}
	if hd == nil {
		c15hmu.Unlock()
		return
	}
	hd.parked = true
	ch := hd.release
	c15hcond.Broadcast()
	c15hmu.Unlock()
	<-ch
}

// ---------------------------------------------------------------------------

type c15client struct {
	conn   *websocket.Conn // raw connection
	oc     *onet.Client    // clients n...: onet's own client
	sc     onet.StreamingConn
	frames chan string
	muted  int32
	done   chan struct{} // closed when the routine reading frames has ended
	// gate is held by the harness while the client does not read (op cpause): the routine reading
	// frames takes it before every read
	gate sync.Mutex
	// manual: clients m...: no routine reads, the harness reads frame by frame with read options (op creadopt)
	manual bool
}

// c15frame reads the next frame of an onet client with the given read options.
func (cl *c15client) c15frame(opts onet.StreamingReadOpts, plain bool) (string, bool) {
	for {
		var v C15Val
		var err error
		if plain {
			err = cl.sc.ReadMessage(&v)
		} else {
			err = cl.sc.ReadMessageWithOpts(&v, opts)
		}
		if err == nil {
			return fmt.Sprintf("data %d %d", v.K, v.V), true
		}
		var ce *websocket.CloseError
		var ne net.Error
		switch {
		case errors.As(err, &ce):
			return fmt.Sprintf("close %d", ce.Code), false
		case errors.As(err, &ne) && ne.Timeout():
			return "deadline", false
		case strings.Contains(err.Error(), "decoding:"):
			return "undecodable", true
		}
		return "eof", false
	}
}

type c15env struct {
	srv  *onet.Server
	base string
	cl   map[string]*c15client
}

func c15start() *c15env {
	c15Register()
	log.SetDebugVisible(0)
	log.OutputToBuf()
	onet.VerifC15SetHook(c15hook)
	e := c14startServer()
	if e == nil {
		return nil
	}
	return &c15env{srv: e.srv, base: e.base, cl: map[string]*c15client{}}
}

func c15msg(conn, m string) ([]byte, bool) {
	switch {
	case m == "fresh":
		b, err := protobuf.Encode(&C15Req{Conn: string(c15tag(conn)), Reuse: -1})
		return b, err == nil
	case m == "failing":
		b, err := protobuf.Encode(&C15Req{Conn: string(c15tag(conn)), Reuse: -1, Fail: true})
		return b, err == nil
	case m == "nostop":
		b, err := protobuf.Encode(&C15Req{Conn: string(c15tag(conn)), Reuse: -1, NoStop: true})
		return b, err == nil
	case m == "panics" || m == "panicerr" || m == "panicidx":
		b, err := protobuf.Encode(&C15Req{Conn: string(c15tag(conn)), Reuse: -1, Panic: c15panicKind[m]})
		return b, err == nil
	case m == "noout":
		b, err := protobuf.Encode(&C15Req{Conn: string(c15tag(conn)), Reuse: -1, NoOut: true})
		return b, err == nil
	case m == "garbage":
		return append([]byte{0xff, 0xff, 0xff, 0xff, 0x01}, c15tag(conn)...), true
	case strings.HasPrefix(m, "reuse"):
		j, err := strconv.Atoi(m[5:])
		if err != nil {
			return nil, false
		}
		b, err := protobuf.Encode(&C15Req{Conn: string(c15tag(conn)), Reuse: int64(j)})
		return b, err == nil
	}
	return nil, false
}

var c15panicKind = map[string]int64{"panics": 1, "panicerr": 2, "panicidx": 3}

func c15req(conn, m string) (*C15Req, bool) {
	switch {
	case m == "panics" || m == "panicerr" || m == "panicidx":
		return &C15Req{Conn: string(c15tag(conn)), Reuse: -1, Panic: c15panicKind[m]}, true
	case m == "fresh":
		return &C15Req{Conn: string(c15tag(conn)), Reuse: -1}, true
	case m == "failing":
		return &C15Req{Conn: string(c15tag(conn)), Reuse: -1, Fail: true}, true
	case m == "nostop":
		return &C15Req{Conn: string(c15tag(conn)), Reuse: -1, NoStop: true}, true
	case m == "noout":
		return &C15Req{Conn: string(c15tag(conn)), Reuse: -1, NoOut: true}, true
	case strings.HasPrefix(m, "reuse"):
		j, err := strconv.Atoi(m[5:])
		if err != nil {
			return nil, false
		}
		return &C15Req{Conn: string(c15tag(conn)), Reuse: int64(j)}, true
	}
	return nil, false
}

// openOnet drives the stream through onet's client: Client.Stream, then
// StreamingConn.ReadMessage in a routine of its own.
func (e *c15env) openOnet(name, m string) string {
	req, ok := c15req(name, m)
	if !ok {
		return "bad-op"
	}
	oc := onet.NewClientKeep(fix.Suite, c15ServiceName)
	sc, err := oc.Stream(e.srv.ServerIdentity, req)
	if err != nil {
		return "dial-error"
	}
	cl := &c15client{oc: oc, sc: sc, frames: make(chan string, 4096), done: make(chan struct{})}
	e.cl[name] = cl
	if strings.HasPrefix(name, "m") {
		cl.manual = true
		return "ok"
	}
	go func() {
		defer close(cl.done)
		for {
			var v C15Val
			err := sc.ReadMessageWithOpts(&v, onet.StreamingReadOpts{Deadline: time.Now().Add(2 * time.Minute)})
			if err != nil {
				var ce *websocket.CloseError
				switch {
				case errors.As(err, &ce):
					cl.frames <- fmt.Sprintf("close %d", ce.Code)
				case strings.Contains(err.Error(), "decoding:"):
					cl.frames <- "undecodable"
					continue
				default:
					cl.frames <- "eof"
				}
				close(cl.frames)
				return
			}
			cl.frames <- fmt.Sprintf("data %d %d", v.K, v.V)
		}
	}()
	return "ok"
}

func (e *c15env) open(name, m string) string {
	if strings.HasPrefix(name, "n") || strings.HasPrefix(name, "m") {
		return e.openOnet(name, m)
	}
	path := "C15Req"
	if strings.HasPrefix(name, "l") {
		path = c15LongPath
	}
	if m == "unregistered" {
		path, m = "C15Nope", "fresh"
	}
	buf, ok := c15msg(name, m)
	if !ok {
		return "bad-op"
	}
	url := strings.Replace(e.base, "http://", "ws://", 1) + "/" + c15ServiceName + "/" + path
	d := &websocket.Dialer{HandshakeTimeout: 10 * time.Second}
	// (clients b...: big messages to a client that does not read. The kernel's buffers are left alone:
	// a receive buffer only grows while the application reads, so the server's write blocks after the
	// initial receive buffer plus its own send buffer, a few MiB; a deliberately small receive buffer
	// makes the transfer itself crawl — delayed acknowledgements — and the reads run into their bound)
	conn, _, err := d.Dial(url, nil)
	if err != nil {
		return "dial-error"
	}
	cl := &c15client{conn: conn, frames: make(chan string, 4096), done: make(chan struct{})}
	e.cl[name] = cl
	// gorilla's default: answer a close frame with a close frame; a muted client stays silent
	conn.SetCloseHandler(func(code int, text string) error {
		if atomic.LoadInt32(&cl.muted) != 0 {
			return nil
		}
		conn.WriteControl(websocket.CloseMessage, websocket.FormatCloseMessage(code, ""), time.Now().Add(time.Second))
		return nil
	})
	if err := conn.WriteMessage(websocket.BinaryMessage, buf); err != nil {
		return "write-error"
	}
	go func() {
		defer close(cl.done)
		for {
			cl.gate.Lock()
			cl.gate.Unlock()
			_, b, err := conn.ReadMessage()
			if err != nil {
				if ce, ok := err.(*websocket.CloseError); ok {
					cl.frames <- fmt.Sprintf("close %d", ce.Code)
				} else {
					cl.frames <- "eof"
				}
				close(cl.frames)
				return
			}
			var v C15Val
			if err := protobuf.Decode(b, &v); err != nil {
				cl.frames <- "undecodable"
				continue
			}
			cl.frames <- fmt.Sprintf("data %d %d", v.K, v.V)
		}
	}()
	return "ok"
}

func (e *c15env) svcStream(name string, k int) *c15stream {
	c15mu.Lock()
	defer c15mu.Unlock()
	c := c15get(string(c15tag(name)))
	if k < 0 || k >= len(c.streams) {
		return nil
	}
	return c.streams[k]
}

func (e *c15env) do(tk []string) string {
	switch {
	case len(tk) == 4 && tk[1] == "open":
		if _, ok := e.cl[tk[2]]; ok {
			return "bad-op"
		}
		return e.open(tk[2], tk[3])
	case len(tk) == 4 && tk[1] == "csend":
		cl, ok := e.cl[tk[2]]
		if ok && cl.oc != nil {
			// a further request on the kept connection of onet's client
			req, ok2 := c15req(tk[2], tk[3])
			if !ok2 {
				return "bad-op"
			}
			if _, err := cl.oc.Stream(e.srv.ServerIdentity, req); err != nil {
				return "timeout"
			}
			return "ok"
		}
		buf, ok2 := c15msg(tk[2], tk[3])
		if !ok || !ok2 {
			return "bad-op"
		}
		if err := cl.conn.WriteMessage(websocket.BinaryMessage, buf); err != nil {
			return "timeout"
		}
		return "ok"
	case len(tk) == 4 && tk[1] == "wstart":
		n, err := strconv.Atoi(tk[3])
		if err != nil {
			return "bad-op"
		}
		deadline := time.Now().Add(c15wait)
		timer := time.AfterFunc(c15wait, func() { c15mu.Lock(); c15cond.Broadcast(); c15mu.Unlock() })
		defer timer.Stop()
		c15mu.Lock()
		defer c15mu.Unlock()
		for c15get(string(c15tag(tk[2]))).calls <= n {
			if time.Now().After(deadline) {
				return "timeout"
			}
			c15cond.Wait()
		}
		return "ok"
	case (len(tk) == 5 && tk[1] == "emit") || (len(tk) == 6 && tk[1] == "emitbig") || (len(tk) == 4 && tk[1] == "emitbad") ||
		(len(tk) == 3 && tk[1] == "emitempty"):
		if tk[1] == "emitbad" {
			tk = append(append([]string{}, tk...), "0")
		}
		if tk[1] == "emitempty" {
			tk = append(append([]string{}, tk...), "0", "0")
		}
		k, err1 := strconv.Atoi(tk[3])
		v, err2 := strconv.Atoi(tk[4])
		if err1 != nil || err2 != nil {
			return "bad-op"
		}
		var pad []byte
		if tk[1] == "emitbig" {
			kb, err := strconv.Atoi(tk[5])
			if err != nil || kb < 0 || kb > 16<<10 {
				return "bad-op"
			}
			pad = make([]byte, kb<<10)
		}
		st := e.svcStream(tk[2], k)
		if st == nil || st.nilOut {
			return "timeout" // (a nil channel: nothing can be emitted on it)
		}
		r := "ok"
		func() {
			defer func() {
				if recover() != nil {
					r = "timeout" // the channel was closed by svcclose: nothing can be emitted
				}
			}()
			c15mu.Lock()
			ch := st.ch
			c15mu.Unlock()
			select {
			case ch <- &C15Val{Conn: string(c15tag(tk[2])), K: int64(k), V: int64(v), Pad: pad, Refuse: tk[1] == "emitbad", Empty: tk[1] == "emitempty"}:
			case <-time.After(c15wait):
				r = "timeout"
			}
		}()
		return r
	case len(tk) == 4 && tk[1] == "svcclose":
		k, err := strconv.Atoi(tk[3])
		if err != nil {
			return "bad-op"
		}
		st := e.svcStream(tk[2], k)
		if st == nil || st.nilOut {
			return "timeout" // (a nil channel cannot be closed)
		}
		r := "ok"
		func() {
			defer func() {
				if recover() != nil {
					r = "timeout"
				}
			}()
			c15mu.Lock()
			ch := st.ch
			c15mu.Unlock()
			close(ch)
			// the service drops the closed channel: only its address is remembered
			c15mu.Lock()
			c := c15get(string(c15tag(tk[2])))
			if c.oldAddr == nil {
				c.oldAddr = map[uintptr]bool{}
			}
			c.oldAddr[reflect.ValueOf(ch).Pointer()] = true
			st.ch = nil
			c15mu.Unlock()
		}()
		return r
	case len(tk) == 2 && tk[1] == "gc":
		c15mu.Lock()
		c15gcDone = true
		c15mu.Unlock()
		for i := 0; i < 5; i++ {
			runtime.GC()
		}
		return "ok"
	case len(tk) == 3 && tk[1] == "cread":
		cl, ok := e.cl[tk[2]]
		if !ok {
			return "bad-op"
		}
		select {
		case f, ok := <-cl.frames:
			if !ok {
				return "timeout"
			}
			return f
		case <-time.After(c15wait):
			return "timeout"
		}
	case len(tk) == 4 && tk[1] == "cleave":
		cl, ok := e.cl[tk[2]]
		if !ok {
			return "bad-op"
		}
		if cl.oc != nil {
			cl.oc.Close() // close frame, then the connection is closed
			return "ok"
		}
		if tk[3] == "close" {
			cl.conn.WriteMessage(websocket.CloseMessage, websocket.FormatCloseMessage(websocket.CloseNormalClosure, "client closed"))
		}
		cl.conn.Close()
		return "ok"
	case len(tk) == 3 && (tk[1] == "cpause" || tk[1] == "cresume"):
		cl, ok := e.cl[tk[2]]
		if !ok || cl.conn == nil {
			return "bad-op"
		}
		if tk[1] == "cpause" {
			cl.gate.Lock()
		} else {
			cl.gate.Unlock()
		}
		return "ok"
	case len(tk) == 3 && tk[1] == "cpingraw":
		// a websocket ping of a raw client; the pong (if any) is consumed by the library under the
		// client's next read
		cl, ok := e.cl[tk[2]]
		if !ok || cl.conn == nil {
			return "bad-op"
		}
		if err := cl.conn.WriteControl(websocket.PingMessage, []byte("c15"), time.Now().Add(c15wait)); err != nil {
			return "timeout"
		}
		return "ok"
	case len(tk) == 4 && tk[1] == "creadopt":
		// clients m...: one read through StreamingConn with its own options — <ms> > 0: ReadMessageWithOpts
		// with a deadline that far ahead; 0: ReadMessageWithOpts with the zero options (no deadline; the
		// harness bounds the wait); 300000: ReadMessage (which arms its own five minutes)
		cl, ok := e.cl[tk[2]]
		ms, err := strconv.Atoi(tk[3])
		if !ok || !cl.manual || err != nil || ms < 0 {
			return "bad-op"
		}
		type res struct{ f string }
		ch := make(chan res, 1)
		go func() {
			for {
				// 0: the zero options (no deadline: the deadline an earlier read armed is cleared);
				// 300000: ReadMessage (its own five minutes); else a deadline that far ahead
				opts := onet.StreamingReadOpts{}
				if ms > 0 {
					opts.Deadline = time.Now().Add(time.Duration(ms) * time.Millisecond)
				}
				f, again := cl.c15frame(opts, ms == c15readMessageMs)
				if f == "undecodable" && again {
					continue
				}
				ch <- res{f}
				return
			}
		}()
		select {
		case r := <-ch:
			return r.f
		case <-time.After(c15wait + time.Duration(ms%c15readMessageMs)*time.Millisecond):
			return "timeout"
		}
	case len(tk) == 3 && tk[1] == "cdrain":
		// clients m...: the usual read loop of a caller of Client.Stream — ReadMessage until it returns an
		// error; every value handed back, in order, then how the loop ended
		cl, ok := e.cl[tk[2]]
		if !ok || !cl.manual {
			return "bad-op"
		}
		// canonical form: which value of one channel comes before which value of another is up to the
		// two forwarders; per channel the order is the property. "drain <k>:<v>,<v>,... ... | <end>"
		ch := make(chan string, 1)
		go func() {
			vals := map[int][]string{}
			end := "timeout"
			for n := 0; n < 100000; n++ {
				f, again := cl.c15frame(onet.StreamingReadOpts{}, true)
				if f == "undecodable" && again {
					continue
				}
				var k, v int
				if _, err := fmt.Sscanf(f, "data %d %d", &k, &v); err != nil {
					end = f
					break
				}
				vals[k] = append(vals[k], strconv.Itoa(v))
			}
			var ks []int
			for k := range vals {
				ks = append(ks, k)
			}
			sort.Ints(ks)
			out := "drain"
			for _, k := range ks {
				out += fmt.Sprintf(" %d:%s", k, strings.Join(vals[k], ","))
			}
			ch <- out + " | " + end
		}()
		select {
		case r := <-ch:
			return r
		case <-time.After(3 * c15wait):
			return "drain | timeout"
		}
	case len(tk) == 3 && tk[1] == "quiet":
		// nothing happens for <ms> milliseconds
		ms, err := strconv.Atoi(tk[2])
		if err != nil || ms < 0 || ms > 10000 {
			return "bad-op"
		}
		time.Sleep(time.Duration(ms) * time.Millisecond)
		return "ok"
	case len(tk) == 3 && tk[1] == "cmute":
		cl, ok := e.cl[tk[2]]
		if !ok || cl.conn == nil {
			return "bad-op"
		}
		atomic.StoreInt32(&cl.muted, 1)
		return "ok"
	case len(tk) == 3 && tk[1] == "wclosed":
		cl, ok := e.cl[tk[2]]
		if !ok || cl.conn == nil {
			return "bad-op"
		}
		// the routine reading frames has seen the close frame (or the end of the
		// connection); then the socket itself must reach its end
		select {
		case <-cl.done:
		case <-time.After(c15wait):
			return "timeout"
		}
		uc := cl.conn.UnderlyingConn()
		uc.SetReadDeadline(time.Now().Add(c15wait))
		var one [1]byte
		for {
			_, err := uc.Read(one[:])
			if err == nil {
				continue
			}
			if ne, ok := err.(net.Error); ok && ne.Timeout() {
				return "timeout"
			}
			return "ok"
		}
	case len(tk) == 3 && tk[1] == "cping":
		cl, ok := e.cl[tk[2]]
		if !ok || cl.oc == nil {
			return "bad-op"
		}
		if err := cl.sc.Ping([]byte("c15"), time.Now().Add(c15wait)); err != nil {
			return "timeout"
		}
		return "ok"
	case len(tk) == 3 && tk[1] == "ping":
		v, err := strconv.ParseInt(tk[2], 10, 64)
		if err != nil {
			return "bad-op"
		}
		oc := onet.NewClient(fix.Suite, c15ServiceName)
		oc.ReadTimeout = c15wait
		var pong C15Pong
		if err := oc.SendProtobuf(e.srv.ServerIdentity, &C15Ping{V: v}, &pong); err != nil {
			return "err"
		}
		return fmt.Sprintf("pong %d", pong.V)
	case len(tk) == 4 && tk[1] == "wstop":
		k, err := strconv.Atoi(tk[3])
		if err != nil {
			return "bad-op"
		}
		st := e.svcStream(tk[2], k)
		if st == nil || st.stop == nil {
			return "timeout" // (a nil stop channel is never seen closed)
		}
		select {
		case <-st.stop:
			return "ok"
		case <-time.After(c15wait):
			return "timeout"
		}
	case len(tk) == 6 && tk[1] == "flood":
		k, err1 := strconv.Atoi(tk[3])
		v, err2 := strconv.Atoi(tk[4])
		n, err3 := strconv.Atoi(tk[5])
		if err1 != nil || err2 != nil || err3 != nil {
			return "bad-op"
		}
		st := e.svcStream(tk[2], k)
		if st == nil {
			return "ok"
		}
		func() {
			defer func() { recover() }()
			c15mu.Lock()
			ch := st.ch
			c15mu.Unlock()
			for i := 0; i < n; i++ {
				select {
				case ch <- &C15Val{Conn: string(c15tag(tk[2])), K: int64(k), V: int64(v + i)}:
				case <-time.After(150 * time.Millisecond):
					return
				}
			}
		}()
		return "ok"
	case len(tk) == 4 && tk[1] == "wexit":
		n, err := strconv.Atoi(tk[3])
		if err != nil {
			return "bad-op"
		}
		deadline := time.Now().Add(c15wait)
		timer := time.AfterFunc(c15wait, func() { c15hmu.Lock(); c15hcond.Broadcast(); c15hmu.Unlock() })
		defer timer.Stop()
		c15hmu.Lock()
		defer c15hmu.Unlock()
		for c15points["forwarder-exit"] < n {
			if time.Now().After(deadline) {
				return "timeout"
			}
			c15hcond.Wait()
		}
		return "ok"
	case len(tk) == 4 && tk[1] == "hold":
		c15hmu.Lock()
		c15holds[tk[2]+" "+tk[3]] = &c15holdT{armed: true, release: make(chan struct{})}
		c15hmu.Unlock()
		return "ok"
	case len(tk) == 4 && tk[1] == "wheld":
		deadline := time.Now().Add(c15wait)
		timer := time.AfterFunc(c15wait, func() { c15hmu.Lock(); c15hcond.Broadcast(); c15hmu.Unlock() })
		defer timer.Stop()
		c15hmu.Lock()
		defer c15hmu.Unlock()
		for {
			hd := c15holds[tk[2]+" "+tk[3]]
			if hd != nil && hd.parked {
				return "ok"
			}
			if hd == nil || time.Now().After(deadline) {
				return "timeout"
			}
			c15hcond.Wait()
		}
	case len(tk) == 4 && tk[1] == "release":
		c15hmu.Lock()
		if hd := c15holds[tk[2]+" "+tk[3]]; hd != nil {
			close(hd.release)
			delete(c15holds, tk[2]+" "+tk[3])
		}
		c15hmu.Unlock()
		return "ok"
	case len(tk) == 2 && tk[1] == "census":
		deadline := time.Now().Add(c15wait)
		for {
			n := c15census()
			if n == 0 {
				return "ok"
			}
			if time.Now().After(deadline) {
				return "stuck"
			}
			time.Sleep(5 * time.Millisecond)
		}
	case len(tk) == 2 && tk[1] == "alive":
		name := "canary"
		for i := 0; ; i++ {
			if _, ok := e.cl[name]; !ok {
				break
			}
			name = fmt.Sprintf("canary%d", i)
		}
		steps := [][]string{{"c15", "open", name, "fresh"}, {"c15", "wstart", name, "0"}, {"c15", "emit", name, "0", "1"},
			{"c15", "cread", name}, {"c15", "svcclose", name, "0"}, {"c15", "cread", name}}
		want := []string{"ok", "ok", "ok", "data 0 1", "ok", "close 1000"}
		for i, st := range steps {
			if got := e.do(st); got != want[i] {
				return fmt.Sprintf("dead:%s:%s", st[1], strings.Replace(got, " ", "-", -1))
			}
		}
		return "ok"
	}
	return "bad-op"
}

// c15census counts the goroutines of the process that run code of
// ProcessClientStreamRequest: the adapter of a connection, its stop notifiers,
// its forwarding routines.
func c15census() int {
	buf := make([]byte, 1<<20)
	for {
		n := runtime.Stack(buf, true)
		if n < len(buf) {
			buf = buf[:n]
			break
		}
		buf = make([]byte, 2*len(buf))
	}
	cnt := 0
	for _, g := range strings.Split(string(buf), "\n\n") {
		if strings.Contains(g, ").ProcessClientStreamRequest.func") {
			cnt++
		}
	}
	return cnt
}

func c15exec(c *h.Ctx, cs *h.Case) {
	e := c15start()
	cs.Impl = make([]string, 0, len(cs.Ops))
	if e == nil {
		for range cs.Ops {
			cs.Impl = append(cs.Impl, "no-server")
		}
		cs.Outcome = "no-server"
		cs.Fail("harness-no-server", "could not start a server with a reachable websocket port")
		return
	}
	if strings.HasPrefix(cs.Class, "corpus:blocked-emit") {
		c15wait = 1200 * time.Millisecond
	}
	for _, op := range cs.Ops {
		tk := strings.Fields(op)
		if len(tk) < 2 || tk[0] != "c15" {
			cs.Impl = append(cs.Impl, "bad-op")
			continue
		}
		cs.Impl = append(cs.Impl, e.do(tk))
	}
	c15oracle(cs)
}

// ---------------------------------------------------------------------------
// the property's own oracle (independent of the model): bookkeeping of what
// the service emitted and what the client received, per connection and channel

// c15frameSeen: a data frame handed to the client of connection n — the next value of its channel, in
// emission order
func c15frameSeen(cs *h.Case, emitted, received map[int][]int, i int, n string, oc []string) {
	if len(oc) != 3 || oc[0] != "data" {
		cs.Fail("c15:frame-missing", fmt.Sprintf("op %d: the read loop of client %s was handed %q in the middle of the stream", i, n, strings.Join(oc, " ")))
		return
	}
	k, _ := strconv.Atoi(oc[1])
	v, _ := strconv.Atoi(oc[2])
	received[k] = append(received[k], v)
	m := len(received[k])
	if m > len(emitted[k]) || emitted[k][m-1] != v {
		cs.Fail("c15:order", fmt.Sprintf("op %d: client %s received %v on channel %d, the service emitted %v", i, n, received[k], k, emitted[k]))
	}
}

func c15oracle(cs *h.Case) {
	type cst struct {
		emitted  map[int][]int
		received map[int][]int
		bad      bool // the client sent a message that does not decode / fails
		unreg    bool // the path is not registered: the error close is the answer
		gone     bool
		closed   string
		held     bool
	}
	st := map[string]*cst{}
	get := func(n string) *cst {
		if st[n] == nil {
			st[n] = &cst{emitted: map[int][]int{}, received: map[int][]int{}}
		}
		return st[n]
	}
	classes := map[string]bool{}
	for i, op := range cs.Ops {
		tk := strings.Fields(op)
		obs := cs.Impl[i]
		if len(tk) < 2 {
			continue
		}
		oc := strings.Fields(obs)
		key := tk[1] + ":" + obs
		if len(oc) > 0 && oc[0] == "data" {
			key = tk[1] + ":data"
		}
		classes[key] = true
		if tk[1] == "alive" {
			if obs != "ok" {
				cs.Fail("c15:canary", fmt.Sprintf("after the case a fresh stream does not work any more: %s", obs))
			}
			continue
		}
		if tk[1] == "census" {
			if obs != "ok" {
				cs.Fail("c15:goroutine-stuck", fmt.Sprintf("op %d: every stream is over and every service closed its channels, but routines of the streaming adapter are still there (%s)", i, obs))
			}
			continue
		}
		if tk[1] == "ping" && len(tk) == 3 {
			v, _ := strconv.ParseInt(tk[2], 10, 64)
			if obs != fmt.Sprintf("pong %d", v+1) {
				cs.Fail("c15:other-client-affected", fmt.Sprintf("op %d %q: a plain request of another client of the same server was answered %q", i, op, obs))
			}
			continue
		}
		if len(tk) < 3 {
			continue
		}
		c := get(tk[2])
		if tk[1] == "emitbig" {
			tk = append([]string{}, tk[:5]...)
			tk[1] = "emit"
		}
		if tk[1] == "emitempty" {
			tk = []string{tk[0], "emit", tk[2], "0", "0"}
		}
		if tk[1] == "creadopt" {
			tk = []string{tk[0], "cread", tk[2]}
		}
		if tk[1] == "emitbad" {
			// not a message of the stream; it must be taken off the service's hands all the same
			if obs != "ok" {
				cs.Fail("c15:service-blocked", fmt.Sprintf("op %d %q: no forwarder took the value (%s)", i, op, obs))
			}
			continue
		}
		blockedOK := strings.HasPrefix(cs.Class, "corpus:blocked-emit") && tk[1] == "emit" && c.held
		switch tk[1] {
		case "open", "csend":
			if tk[3] == "garbage" || tk[3] == "failing" || tk[3] == "noout" || c15panicKind[tk[3]] != 0 {
				// (a handler that hands back no channel ends the stream like a failing one)
				c.bad = true
			}
			if tk[3] == "unregistered" {
				c.unreg = true
			}
		case "hold":
			c.held = true
		case "release":
			c.held = false
		case "emit":
			k, _ := strconv.Atoi(tk[3])
			v, _ := strconv.Atoi(tk[4])
			if obs == "ok" {
				c.emitted[k] = append(c.emitted[k], v)
			} else if !blockedOK {
				cs.Fail("c15:service-blocked", fmt.Sprintf("op %d %q: no forwarder took the value (%s)", i, op, obs))
			}
		case "cleave":
			c.gone = true
		case "wstart":
			if obs != "ok" {
				cs.Fail("c15:request-not-served", fmt.Sprintf("op %d %q: the handler was not invoked (%s)", i, op, obs))
			}
		case "wstop":
			if obs != "ok" {
				cs.Fail("c15:not-stopped", fmt.Sprintf("op %d %q: the service was not told to stop (%s)", i, op, obs))
			}
		case "wexit":
			if obs != "ok" {
				cs.Fail("c15:goroutine-stuck", fmt.Sprintf("op %d %q: a forwarding routine never ended although its service closed the channel (%s)", i, op, obs))
			}
		case "wclosed":
			if obs != "ok" {
				cs.Fail("c15:connection-left-open", fmt.Sprintf("op %d %q: the stream is over but the server does not close the connection (%s)", i, op, obs))
			}
		case "wheld":
			if obs != "ok" {
				cs.Fail("c15:hook-not-reached", fmt.Sprintf("op %d %q: %s", i, op, obs))
			}
		case "cread", "cdrain":
			if tk[1] == "cdrain" {
				// the values handed to the caller by the read loop, channel by channel in the order they came
				parts := strings.SplitN(strings.TrimPrefix(obs, "drain"), " | ", 2)
				for _, grp := range strings.Fields(parts[0]) {
					kv := strings.SplitN(grp, ":", 2)
					if len(kv) != 2 {
						continue
					}
					for _, v := range strings.Split(kv[1], ",") {
						c15frameSeen(cs, c.emitted, c.received, i, tk[2], []string{"data", kv[0], v})
					}
				}
				obs = parts[len(parts)-1]
				oc = strings.Fields(obs)
			}
			switch {
			case len(oc) == 3 && oc[0] == "data":
				k, _ := strconv.Atoi(oc[1])
				v, _ := strconv.Atoi(oc[2])
				c.received[k] = append(c.received[k], v)
				n := len(c.received[k])
				if n > len(c.emitted[k]) || c.emitted[k][n-1] != v {
					cs.Fail("c15:order", fmt.Sprintf("op %d: client %s received %v on channel %d, the service emitted %v", i, tk[2], c.received[k], k, c.emitted[k]))
				}
			case len(oc) == 2 && oc[0] == "close":
				c.closed = oc[1]
				if oc[1] != "1000" && !c.gone && !c.unreg {
					// a client that is still there is never sent anything but the normal close
					// (Props/C15.lean: Inv3.cnN, c15_service_ends_stream): an error close needs a
					// failed read or write, 1006 means no close frame arrived at all
					cs.Fail("c15:abnormal-close", fmt.Sprintf("op %d: the stream of client %s, which is still connected, ended with close %s instead of the normal close 1000", i, tk[2], oc[1]))
				}
				if oc[1] == "1000" && !c.bad && !c.gone {
					for k, em := range c.emitted {
						if len(c.received[k]) != len(em) {
							cs.Fail("c15:incomplete", fmt.Sprintf("op %d: client %s got a normal close after %v on channel %d, the service emitted %v", i, tk[2], c.received[k], k, em))
						}
					}
				}
			default:
				cs.Fail("c15:frame-missing", fmt.Sprintf("op %d %q: the client got %q", i, op, obs))
			}
		}
	}
	var ks []string
	for k := range classes {
		ks = append(ks, k)
	}
	sort.Strings(ks)
	// outcome class: observation kinds hit, number of connections, of channels and of delivered values (bucketed)
	nch, nval := 0, 0
	for _, c := range st {
		nch += len(c.emitted)
		for _, r := range c.received {
			nval += len(r)
		}
	}
	bucket := func(n int) string {
		switch {
		case n == 0:
			return "0"
		case n <= 3:
			return "1-3"
		case n <= 10:
			return "4-10"
		}
		return ">10"
	}
	cs.Outcome = fmt.Sprintf("conns=%d chans=%d values=%s %s", len(st), nch, bucket(nval), strings.Join(ks, " "))
}

// ---------------------------------------------------------------------------
// generator: scenario templates, each a list of ops for one connection

type c15g struct {
	c   *h.Ctx
	val int
}

func (g *c15g) v() int { g.val++; return g.val }

// run emits n values on channel k, each followed by the client's read; burst>1
// emits that many before reading them.
func (g *c15g) values(c string, k, n, burst int) []string {
	var ops []string
	for n > 0 {
		b := burst
		if b > n {
			b = n
		}
		for i := 0; i < b; i++ {
			ops = append(ops, fmt.Sprintf("c15 emit %s %d %d", c, k, g.v()))
		}
		for i := 0; i < b; i++ {
			ops = append(ops, "c15 cread "+c)
		}
		n -= b
	}
	return ops
}

func (g *c15g) happy(c string, n, burst int) []string {
	ops := []string{"c15 open " + c + " fresh", "c15 wstart " + c + " 0"}
	ops = append(ops, g.values(c, 0, n, burst)...)
	return append(ops, "c15 svcclose "+c+" 0", "c15 cread "+c, "c15 wstop "+c+" 0")
}

// the client leaves after p of n values; how: close/drop; unread: values emitted but not read before leaving;
// svcFirst: the service closes its channel just before the client leaves
func (g *c15g) clientLeaves(c string, p, unread int, how string, svcFirst bool) []string {
	ops := []string{"c15 open " + c + " fresh", "c15 wstart " + c + " 0"}
	ops = append(ops, g.values(c, 0, p, 1)...)
	for i := 0; i < unread; i++ {
		ops = append(ops, fmt.Sprintf("c15 emit %s 0 %d", c, g.v()))
	}
	if svcFirst {
		ops = append(ops, "c15 svcclose "+c+" 0", "c15 cleave "+c+" "+how, "c15 wstop "+c+" 0")
	} else {
		ops = append(ops, "c15 cleave "+c+" "+how, "c15 wstop "+c+" 0", "c15 svcclose "+c+" 0")
	}
	return ops
}

// a bad further message after p values
func (g *c15g) badMessage(c string, p int, what string, more int) []string {
	ops := []string{"c15 open " + c + " fresh", "c15 wstart " + c + " 0"}
	ops = append(ops, g.values(c, 0, p, 1)...)
	ops = append(ops, "c15 csend "+c+" "+what, "c15 wstop "+c+" 0")
	for i := 0; i < more; i++ {
		// further client messages after the bad one are drained
		ops = append(ops, "c15 csend "+c+" "+[]string{"fresh", "garbage", "failing", "panics", "panicidx"}[g.c.Rng.Intn(5)])
	}
	return append(ops, "c15 svcclose "+c+" 0", "c15 cread "+c)
}

// two streams on one connection; which one ends first
func (g *c15g) twoStreams(c string, n0, n1 int, firstEnds int, tail int) []string {
	r := g.c.Rng
	ops := []string{"c15 open " + c + " fresh", "c15 wstart " + c + " 0"}
	ops = append(ops, g.values(c, 0, r.Intn(3), 1)...)
	ops = append(ops, "c15 csend "+c+" fresh", "c15 wstart "+c+" 1")
	// wstart only tells that the handler was invoked; the adapter registers the
	// new forwarder after the handler returned. A value taken from channel 1
	// proves that its forwarder runs, so that closing channel 0 next cannot
	// race with the registration (the request would then be refused: allowed,
	// but not what this scenario is about).
	ops = append(ops, g.values(c, 1, 1, 1)...)
	left := []int{n0, n1}
	for left[0]+left[1] > 0 {
		k := r.Intn(2)
		if left[k] == 0 {
			k = 1 - k
		}
		left[k]--
		ops = append(ops, g.values(c, k, 1, 1)...)
	}
	other := 1 - firstEnds
	ops = append(ops, fmt.Sprintf("c15 svcclose %s %d", c, firstEnds))
	// the other stream goes on
	ops = append(ops, g.values(c, other, tail, 1+r.Intn(3))...)
	ops = append(ops, fmt.Sprintf("c15 svcclose %s %d", c, other), "c15 cread "+c, "c15 wstop "+c+" 0", "c15 wstop "+c+" 1")
	return ops
}

// the handler hands out the same channel for a second request
func (g *c15g) reuse(c string, n, burst int) []string {
	ops := []string{"c15 open " + c + " fresh", "c15 wstart " + c + " 0", "c15 csend " + c + " reuse0", "c15 wstart " + c + " 1"}
	ops = append(ops, g.values(c, 0, n, burst)...)
	return append(ops, "c15 svcclose "+c+" 0", "c15 cread "+c, "c15 wstop "+c+" 0")
}

// a service with one long-lived channel per topic: the client asks topic 0,
// topic 1, then topic 0 again (the handler returns channel 0 again); bursts on
// both channels must arrive in emission order per channel
func (g *c15g) revisit(c string, rounds, burst int) []string {
	r := g.c.Rng
	ops := []string{"c15 open " + c + " fresh", "c15 wstart " + c + " 0", "c15 csend " + c + " fresh", "c15 wstart " + c + " 1"}
	ops = append(ops, g.values(c, 1, 1, 1)...)
	calls := 2
	for i := 0; i < rounds; i++ {
		k := i % 2 // 0, 1, 0, 1, ...: every request revisits the channel before the previous one
		ops = append(ops, fmt.Sprintf("c15 csend %s reuse%d", c, k), fmt.Sprintf("c15 wstart %s %d", c, calls))
		calls++
		ops = append(ops, g.values(c, r.Intn(2), 1+r.Intn(2*burst), burst)...)
		ops = append(ops, g.values(c, 0, burst, burst)...)
	}
	first := r.Intn(2)
	ops = append(ops, fmt.Sprintf("c15 svcclose %s %d", c, first))
	ops = append(ops, g.values(c, 1-first, r.Intn(4), burst)...)
	return append(ops, fmt.Sprintf("c15 svcclose %s %d", c, 1-first), "c15 cread "+c, "c15 wstop "+c+" 0", "c15 wstop "+c+" 1")
}

// the service closes a topic's channel and drops it, a garbage collection
// runs, the client asks for a new topic: the new channel (possibly at the
// address of the collected one) must get its own forwarder
func (g *c15g) gcNewChannel(c string, n int) []string {
	ops := []string{"c15 open " + c + " fresh", "c15 wstart " + c + " 0", "c15 csend " + c + " fresh", "c15 wstart " + c + " 1"}
	ops = append(ops, g.values(c, 1, 1, 1)...)
	ops = append(ops, g.values(c, 0, n, 1)...)
	ops = append(ops, "c15 svcclose "+c+" 0", "c15 wexit "+c+" 1", "c15 gc", "c15 csend "+c+" fresh", "c15 wstart "+c+" 2")
	ops = append(ops, g.values(c, 2, 1+n, 2)...)
	ops = append(ops, g.values(c, 1, 1, 1)...)
	return append(ops, "c15 svcclose "+c+" 1", "c15 svcclose "+c+" 2", "c15 cread "+c, "c15 wstop "+c+" 1", "c15 wstop "+c+" 2")
}

// the reader holds a further client message while the stream ends (race (c))
func (g *c15g) readerRace(c string, p int, msg string) []string {
	ops := []string{"c15 open " + c + " fresh", "c15 wstart " + c + " 0"}
	ops = append(ops, g.values(c, 0, p, 1)...)
	ops = append(ops, "c15 hold "+c+" reader-forward", "c15 csend "+c+" "+msg, "c15 wheld "+c+" reader-forward",
		"c15 svcclose "+c+" 0", "c15 cread "+c, "c15 release "+c+" reader-forward", "c15 wstop "+c+" 0")
	return ops
}

// a further request is held in front of the adapter while the stream ends: it is refused and stopped at once
func (g *c15g) adapterRace(c string, p int) []string {
	ops := []string{"c15 open " + c + " fresh", "c15 wstart " + c + " 0"}
	ops = append(ops, g.values(c, 0, p, 1)...)
	ops = append(ops, "c15 hold "+c+" adapter-receive", "c15 csend "+c+" fresh", "c15 wheld "+c+" adapter-receive",
		"c15 svcclose "+c+" 0", "c15 cread "+c, "c15 release "+c+" adapter-receive", "c15 wstart "+c+" 1", "c15 wstop "+c+" 1", "c15 wstop "+c+" 0")
	return ops
}

// a forwarder holds a value while the client leaves
func (g *c15g) forwarderRace(c string, p int, how string) []string {
	ops := []string{"c15 open " + c + " fresh", "c15 wstart " + c + " 0"}
	ops = append(ops, g.values(c, 0, p, 1)...)
	ops = append(ops, "c15 hold "+c+" forwarder-send", fmt.Sprintf("c15 emit %s 0 %d", c, g.v()), "c15 wheld "+c+" forwarder-send",
		"c15 cleave "+c+" "+how, "c15 wstop "+c+" 0", "c15 release "+c+" forwarder-send", "c15 svcclose "+c+" 0")
	return ops
}

// the adapter is busy (held in front of a further message) while the client
// sends more messages than clientInputs holds, then the client leaves
func (g *c15g) inputsOverflow(c string, p, extra int, how string) []string {
	ops := []string{"c15 open " + c + " fresh", "c15 wstart " + c + " 0"}
	ops = append(ops, g.values(c, 0, p, 1)...)
	ops = append(ops, "c15 hold "+c+" adapter-receive")
	for i := 0; i < extra; i++ {
		ops = append(ops, "c15 csend "+c+" reuse0")
	}
	ops = append(ops, "c15 wheld "+c+" adapter-receive", "c15 cleave "+c+" "+how, "c15 release "+c+" adapter-receive",
		"c15 wstop "+c+" 0", "c15 svcclose "+c+" 0", "c15 wexit "+c+" 1")
	return ops
}

// the client leaves first and the service goes on emitting more than outChan
// holds before it closes its channel: no forwarder may be left behind
func (g *c15g) floodAfterLeave(c string, p, n int, how string) []string {
	ops := []string{"c15 open " + c + " fresh", "c15 wstart " + c + " 0"}
	ops = append(ops, g.values(c, 0, p, 1)...)
	ops = append(ops, "c15 cleave "+c+" "+how, "c15 wstop "+c+" 0", fmt.Sprintf("c15 flood %s 0 %d %d", c, g.val+1, n),
		"c15 svcclose "+c+" 0", "c15 wexit "+c+" 1")
	g.val += n
	return ops
}

// a bad first message
func (g *c15g) badFirst(c string, what string) []string {
	return []string{"c15 open " + c + " " + what, "c15 cread " + c}
}

// the client only listens: it neither answers the server's close frame nor
// closes its side. After the service ended the stream (or a bad message ended
// it) the server must not wait for the client: stop channels closed, connection
// closed. readClose: whether the client takes the close frame off the socket.
func (g *c15g) silentClient(c string, n, burst int, second bool, bad string, readClose bool) []string {
	ops := []string{"c15 open " + c + " fresh", "c15 wstart " + c + " 0"}
	if second {
		ops = append(ops, "c15 csend "+c+" fresh", "c15 wstart "+c+" 1")
		ops = append(ops, g.values(c, 1, 1, 1)...)
	}
	ops = append(ops, "c15 cmute "+c)
	ops = append(ops, g.values(c, 0, n, burst)...)
	if bad != "" {
		ops = append(ops, "c15 csend "+c+" "+bad, "c15 wstop "+c+" 0")
	}
	ops = append(ops, "c15 svcclose "+c+" 0")
	if second {
		if bad == "" {
			// (after a bad message the forwarders give up at their next value: nothing more is emitted)
			ops = append(ops, g.values(c, 1, g.c.Rng.Intn(3), 1)...)
		}
		ops = append(ops, "c15 svcclose "+c+" 1")
	}
	if readClose {
		ops = append(ops, "c15 cread "+c)
	}
	ops = append(ops, "c15 wstop "+c+" 0")
	if second {
		ops = append(ops, "c15 wstop "+c+" 1")
	}
	return append(ops, "c15 wclosed "+c)
}

// the stream driven through onet's own client (Client.Stream on a kept
// connection, StreamingConn.ReadMessage / Ping, Client.Close)
func (g *c15g) onetClient(c string, n, burst int, again bool, leave bool) []string {
	ops := []string{"c15 open " + c + " fresh", "c15 wstart " + c + " 0", "c15 cping " + c}
	if again {
		// a second request over the same kept connection: the same channel again, or a new one
		if g.c.Rng.Intn(2) == 0 {
			ops = append(ops, "c15 csend "+c+" reuse0", "c15 wstart "+c+" 1")
		} else {
			ops = append(ops, "c15 csend "+c+" fresh", "c15 wstart "+c+" 1")
			ops = append(ops, g.values(c, 1, 1+g.c.Rng.Intn(2), 1)...)
			ops = append(ops, "c15 svcclose "+c+" 1")
		}
	}
	ops = append(ops, g.values(c, 0, n, burst)...)
	if leave {
		return append(ops, "c15 cping "+c, "c15 cleave "+c+" close", "c15 wstop "+c+" 0", "c15 svcclose "+c+" 0")
	}
	return append(ops, "c15 svcclose "+c+" 0", "c15 cread "+c, "c15 wstop "+c+" 0")
}

// a handler that hands back no stop channel (nil) for request number `which`
// (0: the first one, the probe's case; 1: a later request of a healthy stream;
// 2: the first one, and a second request gets the same pair again). The stream
// ends by the service (end "service"), by the client leaving ("close"/"drop")
// or by a bad message ("garbage"/"failing"/"noout"); census: the case is alone
// on the server and waits until every routine of the adapter has ended.
func (g *c15g) nilStop(c string, n, burst, which int, end string, census bool) []string {
	var ops []string
	chans := 1
	switch which {
	case 0:
		ops = []string{"c15 open " + c + " nostop", "c15 wstart " + c + " 0"}
	case 1:
		ops = []string{"c15 open " + c + " fresh", "c15 wstart " + c + " 0", "c15 csend " + c + " nostop", "c15 wstart " + c + " 1"}
		ops = append(ops, g.values(c, 1, 1, 1)...)
		chans = 2
	default:
		ops = []string{"c15 open " + c + " nostop", "c15 wstart " + c + " 0", "c15 csend " + c + " reuse0", "c15 wstart " + c + " 1"}
	}
	for k := 0; k < chans; k++ {
		ops = append(ops, g.values(c, k, n, burst)...)
	}
	closeAll := func() {
		for k := 0; k < chans; k++ {
			ops = append(ops, fmt.Sprintf("c15 svcclose %s %d", c, k))
		}
	}
	switch end {
	case "service":
		closeAll()
		ops = append(ops, "c15 cread "+c)
	case "close", "drop":
		ops = append(ops, "c15 cleave "+c+" "+end)
		closeAll()
	default:
		ops = append(ops, "c15 csend "+c+" "+end)
		if end == "noout" {
			ops = append(ops, fmt.Sprintf("c15 wstart %s %d", c, map[bool]int{true: 2, false: 1}[which != 0]),
				fmt.Sprintf("c15 wstop %s %d", c, chans))
		}
		closeAll()
		ops = append(ops, "c15 cread "+c)
	}
	if which == 1 {
		ops = append(ops, "c15 wstop "+c+" 0")
	}
	if census {
		ops = append(ops, "c15 census")
	}
	return ops
}

// a handler that hands back no channel (nil) and no error: the stream ends
// like after a failing request, the service is told to stop at once, no
// routine waits on the nil channel. p < 0: it is the first request; else it
// comes after p values of a healthy stream. leave: the client leaves ("close"/
// "drop") instead of reading the close.
func (g *c15g) nilOut(c string, p int, leave string, more int, census bool) []string {
	var ops []string
	k := 0
	if p < 0 {
		// (no forwarder keeps the connection open: the server closes it at once, further messages could not be written)
		more = 0
		ops = []string{"c15 open " + c + " noout", "c15 wstart " + c + " 0", "c15 wstop " + c + " 0"}
	} else {
		ops = []string{"c15 open " + c + " fresh", "c15 wstart " + c + " 0"}
		ops = append(ops, g.values(c, 0, p, 1)...)
		ops = append(ops, "c15 csend "+c+" noout", "c15 wstart "+c+" 1", "c15 wstop "+c+" 1", "c15 wstop "+c+" 0")
		k = 1
	}
	for i := 0; i < more; i++ {
		// further client messages are drained: the stream is ending
		ops = append(ops, "c15 csend "+c+" "+[]string{"fresh", "garbage", "noout", "nostop"}[g.c.Rng.Intn(4)])
	}
	// nothing can be emitted or closed on the nil channel
	if g.c.Rng.Intn(4) == 0 {
		ops = append(ops, fmt.Sprintf("c15 svcclose %s %d", c, k))
	}
	if leave != "" {
		ops = append(ops, "c15 cleave "+c+" "+leave)
	}
	if p >= 0 {
		ops = append(ops, "c15 svcclose "+c+" 0")
	}
	if leave == "" {
		ops = append(ops, "c15 cread "+c)
	}
	if census {
		ops = append(ops, "c15 census")
	}
	return ops
}

// the client stops reading while the service sends big messages: the server's write loop is blocked
// in the middle of a message when the client's pings (and a further request, whose handling tells
// that the pings before it have been handled) arrive. Whatever the reader routine does with a ping,
// it must not disturb the write loop (seed C15r6-A: a ping handler writing the pong itself).
func (g *c15g) pingWhileWriting(c string, n, kb int) []string {
	ops := []string{"c15 open " + c + " fresh", "c15 wstart " + c + " 0"}
	ops = append(ops, g.values(c, 0, 1, 1)...)
	ops = append(ops, "c15 cpause "+c)
	for i := 0; i < n; i++ {
		ops = append(ops, fmt.Sprintf("c15 emitbig %s 0 %d %d", c, g.v(), kb))
	}
	ops = append(ops, "c15 cpingraw "+c, "c15 csend "+c+" reuse0", "c15 wstart "+c+" 1", "c15 cpingraw "+c,
		"c15 csend "+c+" reuse0", "c15 wstart "+c+" 2", "c15 cresume "+c)
	for i := 0; i < n; i++ {
		ops = append(ops, "c15 cread "+c)
	}
	return append(ops, "c15 svcclose "+c+" 0", "c15 cread "+c, "c15 wstop "+c+" 0")
}

// onet's client reading frame by frame with its own options per read: a read with a deadline, a quiet
// period longer than that deadline, then reads without deadline — the deadline of one read must not
// outlive it (seed C15r6-B)
func (g *c15g) readOptions(c string, ms, rounds int) []string {
	ops := []string{"c15 open " + c + " fresh", "c15 wstart " + c + " 0"}
	for i := 0; i < rounds; i++ {
		// the reads after the quiet period: the zero options (nothing armed: what the earlier read armed
		// must be gone), then ReadMessage (its own five minutes)
		ops = append(ops, fmt.Sprintf("c15 emit %s 0 %d", c, g.v()), fmt.Sprintf("c15 creadopt %s %d", c, ms),
			fmt.Sprintf("c15 quiet %d", ms+300), fmt.Sprintf("c15 emit %s 0 %d", c, g.v()), "c15 creadopt "+c+" 0",
			fmt.Sprintf("c15 emit %s 0 %d", c, g.v()), fmt.Sprintf("c15 creadopt %s %d", c, c15readMessageMs))
	}
	return append(ops, "c15 svcclose "+c+" 0", "c15 creadopt "+c+" 0", "c15 wstop "+c+" 0")
}

// onet's client reading to the end with the usual loop (ReadMessage until an error): one or two channels,
// bursts of every length, the further request sent through Client.Stream on the same connection; the loop
// must hand back everything in order and end with the normal close
func (g *c15g) drain(c string, n int, two bool) []string {
	ops := []string{"c15 open " + c + " fresh", "c15 wstart " + c + " 0"}
	if two {
		ops = append(ops, "c15 csend "+c+" fresh", "c15 wstart "+c+" 1")
	}
	for i := 0; i < n; i++ {
		k := 0
		if two && g.c.Rng.Intn(2) == 0 {
			k = 1
		}
		ops = append(ops, fmt.Sprintf("c15 emit %s %d %d", c, k, g.v()))
	}
	ops = append(ops, "c15 svcclose "+c+" 0")
	if two {
		ops = append(ops, "c15 svcclose "+c+" 1")
	}
	return append(ops, "c15 cdrain "+c, "c15 wstop "+c+" 0")
}

// a message whose encoding is empty (zero bytes on the wire) is a message of the stream like any other: it
// reaches the client, in its place, and the stream goes on (seed C15r7-B took it for the end of the stream)
func (g *c15g) emptyMessage(c string, before, after int) []string {
	ops := []string{"c15 open " + c + " fresh", "c15 wstart " + c + " 0"}
	for i := 0; i < before; i++ {
		ops = append(ops, fmt.Sprintf("c15 emit %s 0 %d", c, g.v()), "c15 cread "+c)
	}
	ops = append(ops, "c15 emitempty "+c, "c15 cread "+c)
	for i := 0; i < after; i++ {
		ops = append(ops, fmt.Sprintf("c15 emit %s 0 %d", c, g.v()), "c15 cread "+c)
	}
	return append(ops, "c15 svcclose "+c+" 0", "c15 cread "+c, "c15 wstop "+c+" 0")
}

// the <ms> of `creadopt` that stands for StreamingConn.ReadMessage (deadline: five minutes from now)
const c15readMessageMs = 300000

// the service emits a value that cannot be encoded: the forwarder of that channel ends. two = false: the
// only channel — the stream ends with a normal close, the service is told at tear-down; two = true: the
// stream goes on for the other channel, the first one is not served any more
func (g *c15g) unencodable(c string, p int, two bool, census bool) []string {
	ops := []string{"c15 open " + c + " fresh", "c15 wstart " + c + " 0"}
	if two {
		ops = append(ops, "c15 csend "+c+" fresh", "c15 wstart "+c+" 1")
		ops = append(ops, g.values(c, 1, 1, 1)...)
	}
	ops = append(ops, g.values(c, 0, p, 1)...)
	ops = append(ops, "c15 emitbad "+c+" 0", "c15 wexit "+c+" 1")
	if two {
		ops = append(ops, g.values(c, 1, 1+g.c.Rng.Intn(3), 1)...)
		ops = append(ops, "c15 svcclose "+c+" 1")
	}
	ops = append(ops, "c15 cread "+c, "c15 wstop "+c+" 0", "c15 svcclose "+c+" 0")
	if two {
		ops = append(ops, "c15 wstop "+c+" 1")
	}
	if census {
		ops = append(ops, "c15 census")
	}
	return ops
}

// withPings inserts plain requests of other clients of the same server at random places.
func (g *c15g) withPings(ops []string, n int) []string {
	for i := 0; i < n; i++ {
		at := 1 + g.c.Rng.Intn(len(ops))
		ops = append(ops[:at], append([]string{fmt.Sprintf("c15 ping %d", g.v())}, ops[at:]...)...)
	}
	return ops
}

// interleave merges op lists keeping each list's order.
func (g *c15g) interleave(lists [][]string) []string {
	r := g.c.Rng
	var out []string
	for {
		var live []int
		for i, l := range lists {
			if len(l) > 0 {
				live = append(live, i)
			}
		}
		if len(live) == 0 {
			return out
		}
		i := live[r.Intn(len(live))]
		out = append(out, lists[i][0])
		lists[i] = lists[i][1:]
	}
}

// what ends a stream like a failing handler (noout last: only where a channel index is not needed afterwards)
var c15bads = []string{"garbage", "failing", "panics", "panicerr", "panicidx", "noout"}

func c15genCases(c *h.Ctx, yield func(*h.Case)) {
	g := &c15g{c: c}
	r := c.Rng
	// wall-clock budget of the generator: on a loaded machine the random tail is cut, so that a run
	// (and the widened search of a check, which runs the thorough tier twice) ends in bounded time;
	// the corpus and the systematic classes come first
	start := time.Now()
	budget := time.Duration(c.Pick(70, 240)) * time.Second
	cut := false
	emit := func(class string, ops []string) {
		if c.TooManyFails() {
			return
		}
		if time.Since(start) > budget {
			if !cut {
				cut = true
				c.Count("generator-budget-reached")
			}
			return
		}
		cs := &h.Case{Class: class, Ops: append(ops, "c15 alive")}
		c.Count("class=" + class)
		c.Count(fmt.Sprintf("ops<=%d", (len(cs.Ops)/20+1)*20))
		yield(cs)
	}
	how := func() string { return []string{"close", "drop"}[r.Intn(2)] }

	// corpus: the witnesses of the defects (a), (b), (c), (d)
	emit("corpus:garbage-second-message", append(g.badMessage("s0", 2, "garbage", 0), "c15 alive"))
	emit("corpus:failing-second-message", g.badMessage("s0", 1, "failing", 2))
	emit("corpus:second-stream-ends-first", g.twoStreams("s0", 2, 0, 1, 3))
	emit("corpus:reader-race", g.readerRace("s0", 1, "fresh"))
	emit("corpus:reader-race", g.readerRace("s0", 0, "garbage"))
	emit("corpus:shared-channel", g.reuse("s0", 12, 4))
	{
		// (d) with the schedule under control: with one forwarder per channel the
		// second value cannot be taken while the first is held
		c15 := "s0"
		ops := []string{"c15 open " + c15 + " fresh", "c15 wstart " + c15 + " 0", "c15 csend " + c15 + " reuse0", "c15 wstart " + c15 + " 1",
			"c15 hold " + c15 + " forwarder-send", "c15 emit " + c15 + " 0 1", "c15 wheld " + c15 + " forwarder-send",
			"c15 emit " + c15 + " 0 2", "c15 release " + c15 + " forwarder-send", "c15 cread " + c15,
			"c15 emit " + c15 + " 0 3", "c15 cread " + c15, "c15 svcclose " + c15 + " 0", "c15 cread " + c15}
		emit("corpus:blocked-emit", ops)
	}

	{
		// channel 0, channel 1, channel 0 again (seed C15r3-B): still one forwarder on channel 0,
		// so its second value cannot be taken while the first is held
		c15 := "s0"
		ops := []string{"c15 open " + c15 + " fresh", "c15 wstart " + c15 + " 0", "c15 csend " + c15 + " fresh", "c15 wstart " + c15 + " 1",
			"c15 emit " + c15 + " 1 9", "c15 cread " + c15, "c15 csend " + c15 + " reuse0", "c15 wstart " + c15 + " 2",
			"c15 hold " + c15 + " forwarder-send", "c15 emit " + c15 + " 0 1", "c15 wheld " + c15 + " forwarder-send",
			"c15 emit " + c15 + " 0 2", "c15 release " + c15 + " forwarder-send", "c15 cread " + c15,
			"c15 emit " + c15 + " 0 3", "c15 cread " + c15, "c15 svcclose " + c15 + " 0", "c15 svcclose " + c15 + " 1", "c15 cread " + c15}
		emit("corpus:blocked-emit-revisit", ops)
	}
	emit("corpus:gc-new-channel", g.gcNewChannel("s0", 1))
	emit("corpus:revisit", g.revisit("s0", 3, 4))
	emit("corpus:inputs-overflow", g.inputsOverflow("s0", 1, 14, "close"))
	emit("corpus:flood-after-leave", g.floodAfterLeave("s0", 1, 130, "drop"))
	// a client that never answers the close frame (seed C15r4-B): the server tears the connection down on its own
	emit("corpus:silent-client", g.silentClient("s0", 2, 1, false, "", true))
	emit("corpus:silent-client", g.silentClient("s0", 1, 1, true, "", false))
	emit("corpus:silent-client", g.silentClient("s0", 1, 1, false, "garbage", true))
	emit("corpus:onet-client", g.withPings(g.onetClient("n0", 3, 2, true, false), 2))
	emit("corpus:onet-client", g.onetClient("n0", 2, 1, false, true))
	emit("corpus:unregistered-path", append(g.badFirst("s0", "unregistered"), "c15 ping 5"))
	// round 5 (notes/probes/onet_c15_nil_channels_probe_test.go.txt): nil channels handed back by the handler
	// seed C15r5-A: a streaming handler that panics (first request; a later request while another connection streams)
	emit("corpus:streaming-handler-panics", append(g.badFirst("s0", "panicidx"), "c15 census"))
	emit("corpus:streaming-handler-panics", g.badMessage("s0", 2, "panics", 1))
	emit("corpus:streaming-handler-panics", g.interleave([][]string{g.happy("s1", 3, 1), g.badMessage("s0", 1, "panicerr", 0)}))
	// seed C15r5-B: a message type (= path) with a very long name; the close frame must still be the normal one
	emit("corpus:long-path", g.happy("l0", 2, 1))
	emit("corpus:long-path", g.silentClient("l0", 1, 1, false, "", true))
	// seed C15r6-A: client pings while the write loop is blocked inside a big message
	emit("corpus:ping-while-writing", g.pingWhileWriting("b0", 5, 3072))
	// seed C15r6-B: the client's read options are per read
	emit("corpus:client-read-options", g.readOptions("m0", 2500, 1))
	emit("corpus:empty-message", g.emptyMessage("s0", 2, 2))
	emit("corpus:empty-message", g.emptyMessage("n0", 0, 1))
	emit("corpus:client-drain", g.drain("m0", 7, false))
	emit("corpus:client-drain", g.drain("m0", 12, true))
	emit("corpus:client-drain", g.drain("m0", 0, false))
	// a value the service emits that protobuf.Encode refuses (round 5 "still open", now modelled: Act.emitBad)
	emit("corpus:unencodable-value", g.unencodable("s0", 2, false, true))
	emit("corpus:unencodable-value", g.unencodable("s0", 1, true, true))
	emit("corpus:nil-stop-channel", g.nilStop("s0", 1, 1, 0, "service", true))
	emit("corpus:nil-stop-channel", g.nilStop("s0", 2, 2, 1, "drop", true))
	emit("corpus:nil-stop-channel", g.nilStop("s0", 1, 1, 2, "garbage", true))
	emit("corpus:nil-out-channel", g.nilOut("s0", -1, "", 0, true))
	emit("corpus:nil-out-channel", g.nilOut("s0", -1, "close", 0, true))
	emit("corpus:nil-out-channel", g.nilOut("s0", 2, "", 2, true))

	// every stream length, every leave point (quick: lengths up to 8, thorough: up to 20)
	maxN := c.Pick(8, 20)
	for n := 0; n <= maxN; n++ {
		emit("happy", g.happy("s0", n, 1+r.Intn(4)))
		for p := 0; p <= n; p++ {
			if !c.Thorough() && r.Intn(3) != 0 {
				continue
			}
			emit("client-leaves", g.clientLeaves("s0", p, r.Intn(3), how(), r.Intn(4) == 0))
			emit("bad-message", g.badMessage("s0", p, c15bads[r.Intn(len(c15bads))], r.Intn(3)))
		}
	}
	emit("happy-long", g.happy("s0", c.Pick(150, 400), 150))

	for it := 0; it < c.Pick(150, 1500); it++ {
		emit("two-streams", g.twoStreams("s0", r.Intn(5), r.Intn(5), r.Intn(2), r.Intn(4)))
		emit("reuse", g.reuse("s0", r.Intn(10), 1+r.Intn(4)))
		emit("revisit", g.revisit("s0", 1+r.Intn(4), 1+r.Intn(5)))
		emit("reader-race", g.readerRace("s0", r.Intn(4), []string{"fresh", "garbage", "failing", "reuse0", "panics", "panicidx"}[r.Intn(6)]))
		emit("adapter-race", g.adapterRace("s0", r.Intn(4)))
		emit("forwarder-race", g.forwarderRace("s0", r.Intn(4), how()))
		if it%5 == 0 {
			emit("gc-new-channel", g.gcNewChannel("s0", r.Intn(4)))
			emit("inputs-overflow", g.inputsOverflow("s0", r.Intn(3), 11+r.Intn(12), how()))
			emit("flood-after-leave", g.floodAfterLeave("s0", r.Intn(3), 105+r.Intn(60), how()))
		}
		emit("bad-first", g.badFirst("s0", []string{"garbage", "failing", "unregistered", "panics", "panicerr", "panicidx"}[r.Intn(6)]))
		if it%3 == 1 {
			emit("long-path", g.happy("l0", r.Intn(6), 1+r.Intn(3)))
		}
		if it%4 == 3 {
			emit("unencodable-value", g.unencodable("s0", r.Intn(4), r.Intn(2) == 0, true))
		}
		if it%25 == 2 {
			emit("ping-while-writing", g.pingWhileWriting("b0", 5+r.Intn(3), 2048+r.Intn(3)*1024))
			emit("client-read-options", g.readOptions("m0", 1500+r.Intn(1500), 1+r.Intn(2)))
			emit("client-drain", g.drain("m0", r.Intn(60), r.Intn(2) == 0))
			emit("empty-message", g.emptyMessage([]string{"s0", "n0", "c0"}[r.Intn(3)], r.Intn(4), r.Intn(4)))
		}
		if it%2 == 0 {
			emit("nil-stop", g.withPings(g.nilStop("s0", r.Intn(5), 1+r.Intn(3), r.Intn(3),
				[]string{"service", "service", "close", "drop", "garbage", "failing", "noout"}[r.Intn(7)], true), r.Intn(2)))
			emit("nil-out", g.withPings(g.nilOut("s0", r.Intn(5)-1, []string{"", "", "close", "drop"}[r.Intn(4)], r.Intn(3), true), r.Intn(2)))
		}
		if it%3 == 0 {
			emit("silent-client", g.withPings(g.silentClient("s0", r.Intn(5), 1+r.Intn(3), r.Intn(3) == 0,
				[]string{"", "", "garbage", "failing"}[r.Intn(4)], r.Intn(3) != 0), r.Intn(2)))
			emit("onet-client", g.withPings(g.onetClient("n0", r.Intn(6), 1+r.Intn(3), r.Intn(2) == 0, r.Intn(3) == 0), r.Intn(3)))
		}
		// several streams in parallel on one server
		var lists [][]string
		for i, m := 0, 2+r.Intn(3); i < m; i++ {
			n := fmt.Sprintf("s%d", i)
			switch r.Intn(8) {
			case 6:
				lists = append(lists, g.nilStop(n, r.Intn(4), 1+r.Intn(2), r.Intn(3), []string{"service", "close", "drop", "failing"}[r.Intn(4)], false))
			case 7:
				lists = append(lists, g.nilOut(n, r.Intn(4)-1, []string{"", "close", "drop"}[r.Intn(3)], r.Intn(2), false))
			case 0:
				lists = append(lists, g.happy(n, r.Intn(8), 1+r.Intn(3)))
			case 1:
				lists = append(lists, g.clientLeaves(n, r.Intn(5), r.Intn(3), how(), r.Intn(4) == 0))
			case 2:
				lists = append(lists, g.badMessage(n, r.Intn(5), c15bads[r.Intn(len(c15bads)-1)], r.Intn(2)))
			case 3:
				lists = append(lists, g.twoStreams(n, r.Intn(4), r.Intn(4), r.Intn(2), r.Intn(3)))
			case 4:
				lists = append(lists, g.reuse(n, r.Intn(6), 1+r.Intn(3)))
			case 5:
				lists = append(lists, g.badFirst(n, c15bads[r.Intn(len(c15bads)-1)]))
			}
		}
		switch r.Intn(4) {
		case 0:
			lists = append(lists, g.onetClient("n9", r.Intn(5), 1+r.Intn(2), r.Intn(2) == 0, r.Intn(3) == 0))
		case 1:
			lists = append(lists, g.silentClient("s9", r.Intn(4), 1, false, "", true))
		}
		emit("parallel", g.withPings(g.interleave(lists), r.Intn(3)))
	}
}

func init() {
	h.RegisterProp(h.Prop{Name: "c15", Gen: c15genCases, Exec: c15exec, Isolate: true, Workers: 6, Timeout: 90 * time.Second})
}
