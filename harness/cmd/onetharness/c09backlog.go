package main

import (
	"fmt"
	"strconv"
	"sync"
	"time"

	"go.dedis.ch/onet/v3/network"
)

// op `backlog <p> <fill> <senders>` (class backlog-local, in-memory transport): the victim's
// application is busy in a processor, `fill` messages of the survivor wait in the queues of the
// connection, `senders` goroutines send one more each (some wait for room in the queue), then the
// victim shuts down while letting its application go. Every send has to come back — with or
// without an error — and none may panic.

// C09Slow is handled by a processor that waits.
type C09Slow struct{ I int }

var c09slowType = network.RegisterMessage(&C09Slow{})

func (w *c09world) backlog(ps, fs, ns string) string {
	p, e1 := strconv.Atoi(ps)
	fill, e2 := strconv.Atoi(fs)
	n, e3 := strconv.Atoi(ns)
	if e1 != nil || e2 != nil || e3 != nil || p <= 0 || fill < 0 || fill > 390 || n < 1 || n > 64 || w.tcp {
		return "bad-op"
	}
	v := w.victim(p)
	if !v.up || v.isServer {
		return "bad-op"
	}
	entered := make(chan bool, 1)
	release := make(chan bool)
	var first sync.Once
	v.r.RegisterProcessorFunc(c09slowType, func(*network.Envelope) error {
		first.Do(func() { entered <- true })
		<-release
		return nil
	})
	si := w.sid(p)
	if _, err := w.s.Send(si, &C09Slow{I: 0}); err != nil {
		w.cs.Fail("harness", "first contact: "+err.Error())
		close(release)
		return "harness-error"
	}
	v.connected = true
	select {
	case <-entered:
	case <-time.After(c09waitDeliver):
		w.cs.Fail("harness", "the first message never reached the victim's processor")
		close(release)
		return "harness-error"
	}
	for i := 1; i <= fill; i++ {
		if _, err := w.s.Send(si, &C09Slow{I: i}); err != nil {
			w.cs.Fail("harness", "filling the queues: "+err.Error())
			close(release)
			return "harness-error"
		}
	}
	type outcome struct {
		err      error
		panicked interface{}
	}
	results := make(chan outcome, n)
	for i := 0; i < n; i++ {
		go func(i int) {
			var o outcome
			defer func() {
				if r := recover(); r != nil {
					o.panicked = r
				}
				results <- o
			}()
			_, o.err = w.s.Send(si, &C09Slow{I: 1000 + i})
		}(i)
	}
	// the senders that find no room are waiting inside the transport by now, or will be: nothing
	// depends on how many
	time.Sleep(50 * time.Millisecond)
	var told string
	lost := make(chan bool, 1)
	go func() {
		told = w.down(p, "stop")
		lost <- true
	}()
	time.Sleep(20 * time.Millisecond)
	close(release)
	returned, panics := 0, 0
	example := ""
	deadline := time.After(w.allowed(1, 1) + c09waitDeliver)
	for returned < n {
		select {
		case o := <-results:
			returned++
			if o.panicked != nil {
				panics++
				example = fmt.Sprint(o.panicked)
			}
			continue
		case <-deadline:
		}
		break
	}
	if panics > 0 {
		w.cs.Fail("send-panics-when-peer-closes", fmt.Sprintf("%d of %d sends of the survivor towards a peer that shut down while its queues were full panicked: %s", panics, n, example))
	}
	if returned < n {
		w.cs.Fail("send-exceeds-configured-timeouts", fmt.Sprintf("%d of %d sends of the survivor towards a peer that shut down while its queues were full have not returned", n-returned, n))
		w.dead = true
		return "blocked"
	}
	select {
	case <-lost:
	case <-time.After(c09waitHandlers + c09waitTable):
		w.cs.Fail("router-blocked", "the loss of a peer that shut down while its queues were full was not worked off")
		w.dead = true
		return "blocked"
	}
	w.tag("backlog")
	return fmt.Sprintf("returned=%d panics=%d told=%s", returned, panics, told)
}
