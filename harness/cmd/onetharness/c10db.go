package main

import (
	"fmt"
	"sync"
	"time"

	"go.dedis.ch/onet/v3"
	"go.dedis.ch/onet/v3/log"
	"go.dedis.ch/onet/v3/network"
	"onetverif/harness/fix"
	"onetverif/harness/h"
)

// C10, ops `srvdb` / `srvdbgo`: an in-flight delivery at the level of a service. The service manager
// hands every peer message to its service in a goroutine of its own; Server.Close does not wait for
// these. `srvdb`: the other server of the cluster sends a message to the service of server 0; its
// handler signals that it is inside and blocks. `srvdbgo`: the handler goes on and stores its result
// with Context.Save and reads it back with Context.Load — after a Close that has returned meanwhile
// these must fail with an error (or complete), never panic: the goroutine is nobody's to recover, a
// panic there ends the process.

type C10DbMsg struct{ I int64 }

type c10dbResult struct {
	op, res, detail string
}

type c10dbService struct {
	*onet.ServiceProcessor
	entered chan bool
	release chan bool
	results chan c10dbResult
}

func (s *c10dbService) NewProtocol(tn *onet.TreeNodeInstance, conf *onet.GenericConfig) (onet.ProtocolInstance, error) {
	return nil, nil
}

func (s *c10dbService) Process(env *network.Envelope) {
	s.entered <- true
	<-s.release
	try := func(op string, f func() error) {
		r := c10dbResult{op: op, res: "ok"}
		defer func() {
			if p := recover(); p != nil {
				r.res, r.detail = "panic", fmt.Sprint(p)
			}
			s.results <- r
		}()
		if err := f(); err != nil {
			r.res, r.detail = "err", err.Error()
		}
	}
	try("Save", func() error { return s.Save([]byte("c10db"), env.Msg) })
	try("Load", func() error { _, err := s.Load([]byte("c10db")); return err })
}

const c10dbName = "VerifC10Db"

var (
	c10dbOnce  sync.Once
	c10dbMsgID network.MessageTypeID
)

func c10dbRegister() {
	c10dbOnce.Do(func() {
		c10dbMsgID = network.RegisterMessage(&C10DbMsg{})
		_, err := onet.RegisterNewService(c10dbName, func(c *onet.Context) (onet.Service, error) {
			s := &c10dbService{ServiceProcessor: onet.NewServiceProcessor(c), entered: make(chan bool, 4),
				release: make(chan bool), results: make(chan c10dbResult, 8)}
			c.RegisterProcessor(s, c10dbMsgID)
			return s, nil
		})
		if err != nil {
			log.Fatal(err)
		}
	})
}

func c10dbBusy(cs *h.Case, cl *fix.Cluster) string {
	svc, _ := cl.Servers[0].Service(c10dbName).(*c10dbService)
	if svc == nil {
		cs.Fail("harness", "the database service is missing on the server")
		return "harness-error"
	}
	if _, err := cl.Servers[1].Send(cl.Servers[0].ServerIdentity, &C10DbMsg{I: 7}); err != nil {
		cs.Fail("harness", "cannot send to the server: "+err.Error())
		return "harness-error"
	}
	select {
	case <-svc.entered:
	case <-time.After(5 * time.Second):
		cs.Fail("harness", "the message was not delivered to the service within 5 s")
		return "harness-error"
	}
	return "busy=ok"
}

func c10dbGo(cs *h.Case, cl *fix.Cluster, closed bool) string {
	svc, _ := cl.Servers[0].Service(c10dbName).(*c10dbService)
	if svc == nil {
		return "harness-error"
	}
	select {
	case svc.release <- true:
	case <-time.After(5 * time.Second):
		cs.Fail("harness", "the handler is not waiting")
		return "harness-error"
	}
	out := map[string]string{}
	for i := 0; i < 2; i++ {
		select {
		case r := <-svc.results:
			out[r.op] = r.res
			// the property's own oracle
			if r.res == "panic" {
				when := "on a running server"
				if closed {
					when = "after Server.Close returned"
				}
				cs.Fail("database-use-panics-after-close", fmt.Sprintf("a service handler that was inside a delivery calls Context.%s %s: panic: %s (the goroutine is not recovered by anybody: the process ends)", r.op, when, r.detail))
			}
		case <-time.After(5 * time.Second):
			cs.Fail("hang:handler", "the service handler did not finish its Save / Load within 5 s")
			return "hang"
		}
	}
	return fmt.Sprintf("save=%s load=%s", out["Save"], out["Load"])
}
