package main

import (
	"bytes"
	"crypto/ecdsa"
	"crypto/elliptic"
	"crypto/rand"
	"crypto/tls"
	"crypto/x509"
	"crypto/x509/pkix"
	"encoding/asn1"
	"encoding/binary"
	"encoding/hex"
	"errors"
	"fmt"
	"math/big"
	"net"
	"net/url"
	"os"
	"strconv"
	"sync"
	"time"

	"go.dedis.ch/kyber/v3"
	"go.dedis.ch/kyber/v3/sign/schnorr"
	"go.dedis.ch/onet/v3"
	"go.dedis.ch/onet/v3/network"
	"onetverif/harness/fix"
)

// The TLS flavour of C17 (round 7). Over TLS "the peer" is the holder of a private key; which key the
// valid-peer filter ends up testing is decided by three places of the code together (tls.go makeVerifier,
// router.go receiveServerIdentity, isPeerValid — lean/OnetVerif/Model/C17Tls.lean). `open tls` makes the
// filtering server the way a conode is made (onet.NewServerTCP over a tls:// identity with its private
// key); honest peers are real routers with TLS identities; `offercert` is a peer built from crypto/tls and
// kyber only that holds ONE private key and puts whatever names it likes into its certificate and its
// identity message.

// the extension that carries the proof (network/tls.go: oidDedisSig)
var c17oid = asn1.ObjectIdentifier{1, 3, 6, 1, 4, 1, 51281, 1, 1}

var c17envOnce sync.Once

// pubToCN of network/tls.go: "Z" followed by the hex form of the marshalled key
func c17pubToCN(p kyber.Point) string {
	var b bytes.Buffer
	p.MarshalTo(&b)
	return "Z" + hex.EncodeToString(b.Bytes())
}

func c17freePort() int {
	l, err := net.Listen("tcp", "127.0.0.1:0")
	if err != nil {
		return 0
	}
	defer l.Close()
	return l.Addr().(*net.TCPAddr).Port
}

// openTLS builds the filtering server on a TLS address; its router listens, the client side is not started.
func (w *c17world) openTLS(workdir string) string {
	c17Register()
	c17envOnce.Do(func() { os.Setenv("CONODE_SERVICE_PATH", workdir) })
	w.tcp, w.tls = true, true
	kp := w.keyOf(1000000)
	var lastErr error
	for i := 0; i < 30; i++ {
		port := c17freePort()
		si := network.NewServerIdentity(kp.Public, network.NewTLSAddress("127.0.0.1:"+strconv.Itoa(port)))
		si.SetPrivate(kp.Private)
		// NewServerTCP would build this very router; built here first so that a busy port is an error to retry
		r, err := network.NewTCPRouter(si, fix.Suite)
		if err != nil {
			lastErr = err
			time.Sleep(10 * time.Millisecond)
			continue
		}
		r.Stop()
		srv := onet.NewServerTCP(si, fix.Suite)
		srv.Quiet = true
		srv.RegisterProcessorFunc(c17MsgType, func(e *network.Envelope) error {
			k, ok := w.byPub[e.ServerIdentity.Public.String()]
			who := "?"
			if ok {
				who = strconv.Itoa(k)
			}
			w.disp <- fmt.Sprintf("dispatched:%s:%d", who, e.Msg.(*C17Msg).M)
			return nil
		})
		go srv.Router.Start()
		for j := 0; j < 10000 && !srv.Router.Listening(); j++ {
			time.Sleep(time.Millisecond)
		}
		if !srv.Router.Listening() {
			w.incon = "the router of the TLS server does not listen"
			return "harness-error"
		}
		w.srv, w.ownSrv = srv, true
		return "ok"
	}
	w.incon = fmt.Sprintf("no TLS server could be made: %v", lastErr)
	return "harness-error"
}

// newTLSInst is an honest peer: a real router over a tls:// identity that carries its private key.
func (w *c17world) newTLSInst(k, f int) (*network.Router, error) {
	kp := w.keyOf(k)
	var lastErr error
	for i := 0; i < 20; i++ {
		si := network.NewServerIdentity(kp.Public, network.NewTLSAddress("127.0.0.1:"+strconv.Itoa(c17freePort())))
		si.ID = w.idOf(f)
		si.SetPrivate(kp.Private)
		r, err := network.NewTCPRouter(si, fix.Suite)
		if err == nil {
			return r, nil
		}
		lastErr = err
		time.Sleep(10 * time.Millisecond)
	}
	return nil, lastErr
}

func c17writeFrame(c net.Conn, msg interface{}) error {
	b, err := network.Marshal(msg)
	if err != nil {
		return err
	}
	c.SetWriteDeadline(time.Now().Add(3 * time.Second))
	if err := binary.Write(c, binary.BigEndian, uint32(len(b))); err != nil {
		return err
	}
	_, err = c.Write(b)
	return err
}

// offerCert: a peer that holds the private key of `signer` dials the TLS server with a self-signed
// certificate whose CommonName names key `cn`, whose onet-pubkey URI names key `uri` (-1: no URI), and whose
// DEDIS extension is the signature, made with the key it holds, over nonce ‖ asn1(name of key `name`); then it
// sends the identity `idk:idf` and message m.  Answer: dispatched:<who>:<m> | refused.
func (w *c17world) offerCert(signer, cn, uri, name, idk, idf int, m int64) (string, error) {
	tlsKey, err := ecdsa.GenerateKey(elliptic.P256(), rand.Reader)
	if err != nil {
		return "", err
	}
	var certErr error
	forge := func(req *tls.CertificateRequestInfo) (*tls.Certificate, error) {
		if len(req.AcceptableCAs) == 0 {
			certErr = errors.New("the listener sent no nonce")
			return nil, certErr
		}
		der, err := asn1.Marshal(c17pubToCN(w.keyOf(name).Public))
		if err != nil {
			certErr = err
			return nil, err
		}
		sig, err := schnorr.Sign(fix.Suite, w.keyOf(signer).Private, append(append([]byte{}, req.AcceptableCAs[0]...), der...))
		if err != nil {
			certErr = err
			return nil, err
		}
		serial, _ := rand.Int(rand.Reader, new(big.Int).Lsh(big.NewInt(1), 120))
		tmpl := &x509.Certificate{
			BasicConstraintsValid: true,
			ExtKeyUsage:           []x509.ExtKeyUsage{x509.ExtKeyUsageServerAuth, x509.ExtKeyUsageClientAuth},
			NotAfter:              time.Now().Add(2 * time.Hour),
			NotBefore:             time.Now().Add(-5 * time.Minute),
			SerialNumber:          serial,
			SignatureAlgorithm:    x509.ECDSAWithSHA384,
			Subject:               pkix.Name{CommonName: c17pubToCN(w.keyOf(cn).Public)},
			ExtraExtensions:       []pkix.Extension{{Id: c17oid, Critical: false, Value: sig}},
		}
		if uri >= 0 {
			u, err := url.Parse("onet-pubkey::" + c17pubToCN(w.keyOf(uri).Public))
			if err != nil {
				certErr = err
				return nil, err
			}
			tmpl.URIs = []*url.URL{u}
		}
		cder, err := x509.CreateCertificate(rand.Reader, tmpl, tmpl, tlsKey.Public(), tlsKey)
		if err != nil {
			certErr = err
			return nil, err
		}
		return &tls.Certificate{PrivateKey: tlsKey, Certificate: [][]byte{cder}}, nil
	}
	nonce := make([]byte, 32)
	for {
		rand.Read(nonce)
		if !bytes.ContainsAny(nonce, ".[]%") {
			break
		}
	}
	cfg := &tls.Config{InsecureSkipVerify: true, GetClientCertificate: forge, ServerName: string(nonce)}
	target := "127.0.0.1:" + w.srv.ServerIdentity.Address.Port()
	conn, err := tls.DialWithDialer(&net.Dialer{Timeout: 3 * time.Second}, "tcp", target, cfg)
	if certErr != nil {
		return "", certErr
	}
	if err != nil {
		if _, isNet := err.(*net.OpError); isNet && !c17alertLike(err) {
			return "", err
		}
		return "refused", nil
	}
	defer conn.Close()
	refused := make(chan bool, 1)
	claimed := w.ident(idk, idf, network.NewTLSAddress("127.0.0.1:1"))
	if c17writeFrame(conn, claimed) != nil || c17writeFrame(conn, &C17Msg{M: m}) != nil {
		refused <- true
	} else {
		go func() {
			// the server never writes on this connection: the read ends when it hangs up
			conn.SetReadDeadline(time.Now().Add(4 * time.Second))
			var b [1]byte
			_, err := conn.Read(b[:])
			if ne, ok := err.(net.Error); ok && ne.Timeout() {
				return
			}
			refused <- true
		}()
	}
	want := fmt.Sprintf("dispatched:%d:%d", idk, m)
	deadline := time.After(4 * time.Second)
	for {
		select {
		case d := <-w.disp:
			if d != want {
				w.cs.Fail("stray-dispatch", "the server dispatched "+d+" while "+want+" was awaited")
			}
			return d, nil
		case <-refused:
			select {
			case d := <-w.disp:
				return d + "+closed", nil
			case <-time.After(30 * time.Millisecond):
			}
			return "refused", nil
		case <-deadline:
			return "timeout", nil
		}
	}
}

// a handshake the server turned down shows as a TLS alert ("remote error: tls: bad certificate") or as the
// connection ending inside the handshake
func c17alertLike(err error) bool {
	s := err.Error()
	for _, x := range []string{"remote error", "tls:", "EOF", "reset by peer", "broken pipe"} {
		if bytes.Contains([]byte(s), []byte(x)) {
			return true
		}
	}
	return false
}
