package main

import (
	"bytes"
	"encoding/json"
	"fmt"
	"net"
	"strconv"
	"strings"
	"time"

	"go.dedis.ch/onet/v3/simul/monitor"
)

// C19, clients that report through the proxy (the deterlab set-up: simul/monitor/proxy.go, tcpproxy.go). The op
//
//	c19 proxied <gname> <hosts> <bf> <parts>
//
// makes a result set and a monitor (port chosen by Listen), keeps Listen alive with one idle connection straight to
// the monitor, puts monitor.NewProxy in front of it and lets one client after the other report through the proxy:
// <parts> = clients separated by ';', each <mode>:<records|-> with mode o (the client closes in an orderly way) or
// x (the client dies: SO_LINGER 0 and close, the proxy sees a connection reset), records name/bits/host separated
// by ','. A client writes its records in one piece, waits until the monitor has applied them (its bytes are through
// the relay) and then ends; the next client connects when the monitor has dropped the previous one. At the end the
// idle connection closes, Listen returns, the proxy is stopped; the result set is then known as <gname>.
//
// Oracle of its own (signature proxied-measures-lost): whatever way the clients ended, the result set holds every
// measure every client recorded — a client's end is its own business, the clients after it are served like it was.

func (e *c19env) proxied(tk []string, fail func(sig, msg string)) string {
	gname := tk[2]
	if e.mon != nil || !c19posInt(tk[3]) || !c19posInt(tk[4]) {
		return "bad-op"
	}
	if _, dup := e.stats[gname]; dup {
		return "bad-op"
	}
	type client struct {
		reset bool
		recs  []c19rec
	}
	var clients []client
	for _, p := range strings.Split(tk[5], ";") {
		if len(p) < 3 || p[1] != ':' || (p[0] != 'o' && p[0] != 'x') {
			return "bad-op"
		}
		parts, ok := c19parseParts(p[2:])
		if !ok || len(parts) != 1 {
			return "bad-op"
		}
		clients = append(clients, client{p[0] == 'x', parts[0]})
	}
	stats := monitor.NewStats(map[string]string{"hosts": tk[3], "bf": tk[4]}, "hosts", "bf")
	m := monitor.NewMonitor(stats)
	m.SinkPort = 0
	done := make(chan error, 1)
	go func() { done <- m.Listen() }()
	pc := make(chan uint16, 1)
	go func() { pc <- m.VerifPort() }()
	var port uint16
	select {
	case port = <-pc:
	case <-time.After(3 * time.Second):
		fail("proxied-setup", "the monitor did not start listening")
		return "err"
	}
	waitConns := func(n int, d time.Duration) bool {
		for deadline := time.Now().Add(d); time.Now().Before(deadline); time.Sleep(50 * time.Microsecond) {
			if m.VerifConns() == n {
				return true
			}
		}
		return m.VerifConns() == n
	}
	keeper, err := net.Dial("tcp", net.JoinHostPort("127.0.0.1", strconv.Itoa(int(port))))
	if err != nil || !waitConns(1, 3*time.Second) {
		fail("proxied-setup", fmt.Sprint("no connection to the monitor: ", err))
		return "err"
	}
	prox, err := monitor.NewProxy(port, "127.0.0.1", 0)
	if err != nil {
		keeper.Close()
		fail("proxied-setup", "NewProxy: "+err.Error())
		return "err"
	}
	go prox.Run()
	e.stats[gname], e.names[stats], e.static[gname] = stats, gname, [][2]string{{"hosts", tk[3]}, {"bf", tk[4]}}
	want := 0
	refused := -1
	for i, cl := range clients {
		c, err := net.Dial("tcp", prox.Listener.Addr().String())
		if err != nil {
			fail("proxied-setup", "dial to the proxy: "+err.Error())
			break
		}
		// the relay has this client when the monitor serves one more connection
		served := waitConns(2, 2*time.Second)
		if !served && refused < 0 {
			refused = i
		}
		var buf bytes.Buffer
		enc := json.NewEncoder(&buf)
		for _, r := range cl.recs {
			enc.Encode(c19wire{Name: r.name, Value: r.x, Host: r.host})
			if strings.ToLower(r.name) != "end" {
				e.record(gname, r.name, r.x)
				want++
			}
		}
		if buf.Len() > 0 {
			c.Write(buf.Bytes())
		}
		// the bytes are through the relay when the monitor has applied them
		if served {
			for deadline := time.Now().Add(3 * time.Second); stats.VerifCount() < want && time.Now().Before(deadline); {
				time.Sleep(50 * time.Microsecond)
			}
		}
		if cl.reset {
			if tc, ok := c.(*net.TCPConn); ok {
				tc.SetLinger(0)
			}
		}
		c.Close()
		waitConns(1, 3*time.Second)
	}
	keeper.Close()
	select {
	case <-done:
	case <-time.After(3 * time.Second):
		fail("proxied-setup", "Listen did not return after the last connection")
	}
	prox.Stop()
	e.nProxied++
	if got := stats.VerifCount(); got != want {
		msg := fmt.Sprintf("the result set holds %d of the %d measures the clients recorded through the proxy", got, want)
		if refused >= 0 {
			msg += fmt.Sprintf(" (client %d was not relayed to the monitor)", refused)
		}
		fail("proxied-measures-lost", msg)
		return "incomplete"
	}
	return "ok"
}
