package main

import (
	"fmt"
	"strconv"
	"strings"
	"sync"
	"time"

	"go.dedis.ch/onet/v3/network"
	"onetverif/harness/fix"
)

// C17, the accept path act by act (lean/OnetVerif/Model/C17Accept.lean): a raw connection to the
// filtering server — no router on the peer's side, so the harness decides when the identity and
// every message is written — and the server's own goroutine for that connection held at the
// scheduling points of Router.Start's callback (network/verif_c10_on.go: "accept:before-register",
// "accept:before-launch"). SetValidPeers / GetValidPeers calls are made in between.
//
//   aconn <c>            raw connection number c to the server, nothing written yet
//   aident <c> <ident>   the identity is written; the server reads it and tests it: valid | refused
//   afirst <c> <m>       an application message is written first: iderr
//   areg <c>             the server's goroutine goes on to registerConnection: registered
//   alaunch <c>          ... and to launchHandleRoutine; the loop reads what is waiting: launched:<msgs>
//   amsg <c> <m>         message m is written: dispatched:<key>:<m> | queued | closed
//   areident <c> <ident> one more identity message on a connection that is served: ignored
//   agone <c>            the peer closes its end
//   astop                Router.Stop (once; no aconn afterwards): receive loops end, nothing is dispatched any more;
//                        areg / alaunch of goroutines that stood before registration / launch: closed

type c17raw struct {
	idx       int
	conn      network.Conn
	closed    chan struct{} // the server closed the connection
	parked    chan string   // hook -> harness: the point reached
	release   chan struct{} // harness -> hook
	exited    chan struct{} // the server's accept callback for this connection has returned
	exitOnce  sync.Once
	phase     string // wait | checked | registered | running | closed
	key       int
	okAtCheck bool // the reference's verdict at the moment the identity was tested
	either    bool // a SetValidPeers call was in progress at that moment and changes the verdict
	queued    []int64
	peerOpen  bool
}

var (
	c17worlds   sync.Map // *network.Router -> *c17world
	c17hookOnce sync.Once
)

func c17addrKey(a network.Address) string {
	s := string(a)
	if i := strings.Index(s, "://"); i >= 0 {
		s = s[i+3:]
	}
	// the port alone: a listener's own address may name the wildcard host ("[::]:41234") while the connection
	// made to it names the loopback; ports are unique on the machine / inside one in-memory manager
	if i := strings.LastIndex(s, ":"); i >= 0 {
		s = s[i+1:]
	}
	return s
}

func c17hook(name string, r *network.Router, c network.Conn) {
	if name == "connect:before-register" || name == "connect:before-launch" {
		if v, ok := c17worlds.Load(r); ok && c != nil {
			v.(*c17world).dialPoint(name, c)
		}
		return
	}
	if name != "accept:before-register" && name != "accept:before-launch" && name != "accept:exit" {
		return
	}
	v, ok := c17worlds.Load(r)
	if !ok || c == nil {
		return
	}
	w := v.(*c17world)
	w.rawMu.Lock()
	rc := w.rawByAddr[c17addrKey(c.Remote())]
	w.rawMu.Unlock()
	if rc == nil {
		return // a connection of a bare router of the history: not held
	}
	if name == "accept:exit" {
		// the callback of Router.Start returns (deferred call: whatever way it took)
		rc.exitOnce.Do(func() { close(rc.exited) })
		return
	}
	rc.parked <- name
	<-rc.release
}

func (w *c17world) accInit() {
	c17hookOnce.Do(func() { network.VerifSetRouterHook(c17hook) })
	if w.rawByAddr == nil {
		w.rawByAddr = map[string]*c17raw{}
		c17worlds.Store(w.srv.Router, w)
	}
}

func (w *c17world) accClose() {
	for _, rc := range w.raws {
		select {
		case <-rc.release:
		default:
			close(rc.release)
		}
		// drain a goroutine that is about to report a point
		go func(rc *c17raw) {
			for {
				select {
				case <-rc.parked:
				case <-time.After(2 * time.Second):
					return
				}
			}
		}(rc)
		rc.conn.Close()
	}
	if w.srv != nil {
		c17worlds.Delete(w.srv.Router)
	}
}

// waitPoint waits until the server's goroutine for rc reports the named point, or the server closes
// the connection.
func (rc *c17raw) waitPoint(name string) string {
	closed := rc.closed
	if !rc.peerOpen {
		closed = nil // the peer closed its end itself: that says nothing about the server
	}
	select {
	case got := <-rc.parked:
		if got == name {
			return "at"
		}
		return "at:" + got
	case <-closed:
		return "closed"
	case <-rc.exited:
		// the callback returned without reaching the point: it refused the connection (and closed it before it returned)
		select {
		case got := <-rc.parked: // both ready: the point came first
			if got == name {
				return "at"
			}
			return "at:" + got
		default:
		}
		return "closed"
	case <-time.After(4 * time.Second):
		return "timeout"
	}
}

func (w *c17world) accOp(tk []string) (string, bool) {
	cs := w.cs
	num := func(s string) (int, bool) {
		n, err := strconv.Atoi(s)
		return n, err == nil && n >= 0
	}
	if len(tk) < 3 {
		return "", false
	}
	c, ok := num(tk[2])
	if !ok {
		return "", false
	}
	var rc *c17raw
	if tk[1] != "aconn" {
		if c >= len(w.raws) {
			return "", false
		}
		rc = w.raws[c]
	}
	switch {
	case tk[1] == "aconn" && len(tk) == 3:
		if c != len(w.raws) || w.stopped {
			return "", false
		}
		w.accInit()
		var conn network.Conn
		var err error
		var local string
		if w.tcp {
			var tc *network.TCPConn
			tc, err = network.NewTCPConn(w.srv.ServerIdentity.Address, fix.Suite)
			if err == nil {
				conn, local = tc, c17addrKey(tc.Local())
			}
		} else {
			w.port++
			la := network.NewLocalAddress("127.0.0.1:" + strconv.Itoa(40000+w.port))
			conn, err = network.NewLocalConnWithManager(w.lt.VerifLocalManager(), la, w.srv.ServerIdentity.Address, fix.Suite)
			local = c17addrKey(la)
		}
		if err != nil {
			w.incon = "raw connection: " + err.Error()
			return "harness-error", true
		}
		rc = &c17raw{idx: c, conn: conn, closed: make(chan struct{}), parked: make(chan string), release: make(chan struct{}, 4), exited: make(chan struct{}),
			phase: "wait", peerOpen: true}
		w.rawMu.Lock()
		w.rawByAddr[local] = rc
		w.rawMu.Unlock()
		w.raws = append(w.raws, rc)
		go func() {
			for {
				if _, err := conn.Receive(); err != nil {
					close(rc.closed)
					return
				}
			}
		}()
		return "ok", true

	case tk[1] == "aident" && len(tk) == 4:
		k, f, ok := c17parseIdent(tk[3])
		if !ok || rc.phase != "wait" || !rc.peerOpen {
			return "", false
		}
		rc.key = k
		rc.okAtCheck = w.refValid(k)
		rc.either = w.pend != nil && w.refValidAfter(k) != rc.okAtCheck
		if _, err := rc.conn.Send(w.ident(k, f, network.NewTCPAddress("127.0.0.1:1"))); err != nil {
			w.incon = "writing the identity: " + err.Error()
			return "harness-error", true
		}
		obs := "?"
		switch got := rc.waitPoint("accept:before-register"); got {
		case "at":
			obs, rc.phase = "valid", "checked"
		case "closed":
			obs, rc.phase = "refused", "closed"
		default:
			obs, rc.phase = got, "closed"
		}
		switch {
		case rc.either:
			// the held call changes the verdict: either answer is that of some order of the two
			rc.okAtCheck = obs == "valid"
		case w.pend != nil && rc.okAtCheck && obs != "valid":
			cs.Fail("set-not-atomic", fmt.Sprintf("peer %d is valid before SetValidPeers(%s) and valid after it; its connection, tested while the call is in progress, got %q", k, w.pend.key, obs))
		case rc.okAtCheck && obs != "valid":
			cs.Fail("member-refused", fmt.Sprintf("peer %d is valid by its key (or no set was given yet) when its identity arrives; its connection got %q", k, obs))
		case !rc.okAtCheck && obs != "refused" && f != k:
			cs.Fail("forged-id-accepted", fmt.Sprintf("peer %d is in none of the sets; with the ID field of peer %d in its identity its connection got %q", k, f, obs))
		case !rc.okAtCheck && obs != "refused":
			cs.Fail("non-member-accepted", fmt.Sprintf("peer %d is in none of the sets when its identity arrives; its connection got %q", k, obs))
		}
		return obs, true

	case tk[1] == "afirst" && len(tk) == 4:
		m, err := strconv.ParseInt(tk[3], 10, 64)
		if err != nil || m < 0 || rc.phase != "wait" || !rc.peerOpen {
			return "", false
		}
		rc.conn.Send(&C17Msg{M: m})
		obs := "?"
		switch got := rc.waitPoint("accept:before-register"); got {
		case "closed":
			obs = "iderr"
		case "at":
			obs = "accepted-without-identity"
			cs.Fail("served-without-identity", fmt.Sprintf("connection %d wrote message %d first and no identity; the server went on to register it", c, m))
		default:
			obs = got
		}
		rc.phase = "closed"
		if d := w.stray(40 * time.Millisecond); d != "" {
			cs.Fail("served-without-identity", "a connection that never sent an identity had "+d)
			obs += "+" + d
		}
		return obs, true

	case tk[1] == "areg" && len(tk) == 3:
		if rc.phase != "checked" {
			return "", false
		}
		rc.release <- struct{}{}
		obs := "?"
		switch got := rc.waitPoint("accept:before-launch"); got {
		case "at":
			obs, rc.phase = "registered", "registered"
		case "closed":
			obs, rc.phase = "closed", "closed"
		default:
			obs, rc.phase = got, "closed"
		}
		if obs != "registered" && !w.stopped {
			cs.Fail("accepted-connection-dropped", fmt.Sprintf("connection %d of peer %d passed the validity test; registering it gave %q", c, rc.key, obs))
		}
		if obs == "registered" && w.stopped {
			cs.Fail("registered-after-stop", fmt.Sprintf("connection %d was registered by a router that had been stopped", c))
		}
		return obs, true

	case tk[1] == "alaunch" && len(tk) == 3:
		if rc.phase != "registered" {
			return "", false
		}
		rc.release <- struct{}{}
		if w.stopped {
			// launchHandleRoutine of a stopped router refuses: no receive loop, nothing dispatched
			rc.phase, rc.queued = "closed", nil
			if d := w.stray(40 * time.Millisecond); d != "" {
				cs.Fail("dispatched-after-stop", "connection "+tk[2]+" launched after Router.Stop: "+d)
				return "launched+" + d, true
			}
			return "closed", true
		}
		rc.phase = "running"
		var got []int
		deadline := time.After(4 * time.Second)
	collect:
		for len(got) < len(rc.queued) {
			select {
			case d := <-w.disp:
				p := strings.Split(d, ":")
				if len(p) == 3 && p[1] == strconv.Itoa(rc.key) {
					m, _ := strconv.Atoi(p[2])
					got = append(got, m)
				} else {
					cs.Fail("stray-dispatch", "the server dispatched "+d+" while the messages waiting on connection "+tk[2]+" were awaited")
					break collect
				}
			case <-deadline:
				break collect
			}
		}
		if d := w.stray(20 * time.Millisecond); d != "" {
			got = append(got, -1)
			cs.Fail("stray-dispatch", "after the launch of connection "+tk[2]+": "+d)
		}
		want := make([]int, len(rc.queued))
		for i, m := range rc.queued {
			want[i] = int(m)
		}
		if fmt.Sprint(got) != fmt.Sprint(want) {
			cs.Fail("accepted-connection-dropped", fmt.Sprintf("connection %d of peer %d passed the validity test; the messages %v it wrote meanwhile were dispatched as %v", c, rc.key, want, got))
		}
		rc.queued = nil
		if !rc.peerOpen {
			rc.phase = "closed"
		}
		return "launched:" + cIntsOrDash(got), true

	case tk[1] == "amsg" && len(tk) == 4:
		m, err := strconv.ParseInt(tk[3], 10, 64)
		if err != nil || m < 0 || rc.phase == "wait" || !rc.peerOpen {
			return "", false
		}
		_, serr := rc.conn.Send(&C17Msg{M: m})
		switch rc.phase {
		case "checked", "registered":
			rc.queued = append(rc.queued, m)
			if d := w.stray(15 * time.Millisecond); d != "" {
				cs.Fail("dispatched-before-launch", fmt.Sprintf("connection %d is not launched yet: %s", c, d))
				return "queued+" + d, true
			}
			return "queued", true
		case "closed":
			if d := w.stray(40 * time.Millisecond); d != "" {
				cs.Fail("refused-connection-served", fmt.Sprintf("connection %d of peer %d was closed by the server (its peer was in none of the sets when it was tested, or it sent no identity); message %d written afterwards: %s", c, rc.key, m, d))
				return "closed+" + d, true
			}
			return "closed", true
		}
		// running
		want := fmt.Sprintf("dispatched:%d:%d", rc.key, m)
		obs := "timeout"
		select {
		case d := <-w.disp:
			obs = d
			if d != want && !strings.HasSuffix(d, fmt.Sprintf(":%d", m)) {
				cs.Fail("stray-dispatch", "the server dispatched "+d+" while "+want+" was awaited")
			}
		case <-rc.closed:
			obs = "closed"
			if d := w.stray(30 * time.Millisecond); d != "" {
				obs = d + "+closed"
			}
		case <-time.After(4 * time.Second):
		}
		if strings.HasPrefix(obs, "dispatched:") && obs != want && strings.HasSuffix(obs, fmt.Sprintf(":%d", m)) {
			cs.Fail("dispatched-under-untested-identity", fmt.Sprintf("connection %d was tested and accepted with the key of peer %d; its message %d was dispatched as %q", c, rc.key, m, obs))
		} else if obs != want {
			cs.Fail("accepted-connection-dropped", fmt.Sprintf("connection %d of peer %d was accepted while the peer was valid; message %d written later (send error: %v): %q", c, rc.key, m, serr, obs))
		}
		return obs, true

	case tk[1] == "areident" && len(tk) == 4:
		k, f, ok := c17parseIdent(tk[3])
		if !ok || rc.phase != "running" || !rc.peerOpen {
			return "", false
		}
		rc.conn.Send(w.ident(k, f, network.NewTCPAddress("127.0.0.1:1")))
		// nothing to wait for: the next message on this connection tells under which identity it is served
		if d := w.stray(15 * time.Millisecond); d != "" {
			cs.Fail("stray-dispatch", fmt.Sprintf("connection %d wrote one more identity message: %s", c, d))
			return "dispatched", true
		}
		return "ignored", true

	case tk[1] == "agone" && len(tk) == 3:
		if !rc.peerOpen {
			return "", false
		}
		rc.peerOpen = false
		rc.conn.Close()
		if rc.phase == "wait" || rc.phase == "running" {
			rc.phase = "closed"
		}
		time.Sleep(5 * time.Millisecond)
		return "ok", true
	}
	return "", false
}

// accStop: Router.Stop while goroutines of accepted connections stand wherever the history left them.
func (w *c17world) accStop() (string, bool) {
	cs := w.cs
	if w.stopped || w.srv == nil {
		return "", false
	}
	w.stopped = true
	done := make(chan error, 1)
	go func() { done <- w.srv.Router.Stop() }()
	select {
	case <-done:
	case <-time.After(6 * time.Second):
		cs.Fail("stop-blocked", "Router.Stop did not return within 6 s")
		return "timeout", true
	}
	for _, rc := range w.raws {
		if rc.phase != "running" && rc.phase != "registered" {
			continue
		}
		if rc.peerOpen {
			select {
			case <-rc.closed:
			case <-time.After(3 * time.Second):
				cs.Fail("open-after-stop", fmt.Sprintf("connection %d was registered; Router.Stop left it open", rc.idx))
			}
		}
		if rc.phase == "running" {
			rc.phase = "closed"
		}
	}
	if d := w.stray(20 * time.Millisecond); d != "" {
		cs.Fail("dispatched-after-stop", "after Router.Stop: "+d)
		return "ok+" + d, true
	}
	return "ok", true
}

// stray reports a dispatch that arrives within d although none is expected.
func (w *c17world) stray(d time.Duration) string {
	select {
	case x := <-w.disp:
		return x
	case <-time.After(d):
		return ""
	}
}

func cIntsOrDash(l []int) string {
	if len(l) == 0 {
		return "-"
	}
	s := make([]string, len(l))
	for i, v := range l {
		s[i] = strconv.Itoa(v)
	}
	return strings.Join(s, ",")
}
