package main

import (
	"fmt"
	"strconv"
	"strings"
	"sync"
	"time"

	"go.dedis.ch/onet/v3"
	"go.dedis.ch/onet/v3/log"
	"go.dedis.ch/onet/v3/network"
	"onetverif/harness/fix"
	"onetverif/harness/h"
)

// C05, class "conn": the way from a connection to the instance's queue.
// A fresh 3-server cluster (in-memory or TCP). Server 2 hosts the node under
// test; three runs of the recording protocol give it three instances. The
// feeders are real instances of the same runs on server 0 (the parent) and on
// server 1 (a child): every message travels SendTo -> SendToTreeNode ->
// Router.Send -> the peer's one connection -> handleConn on server 2 ->
// BlockingDispatcher.Dispatch -> Overlay.Process -> TransmitMsg ->
// ProcessProtocolMsg. Handlers are gated as in the script class. Service
// messages for a processor that blocks travel over the same connections
// (serviceManager.Process -> RoutineDispatcher.Dispatch).
//
// Oracle: a message written on a connection is accepted although handlers of
// any instance and service processors are blocked (`connection-blocked`); the
// hand-overs of one connection happen in writing order (`conn-order`);
// handlers of one instance do not overlap and follow the acceptance order.
//
// The tree is registered on server 2 beforehand: the detour of a message
// whose tree is unknown (parked, flushed later by another goroutine) is C01's.

// C05SvcMsg is the service-level message of the class.
type C05SvcMsg struct{ P, M int }

var (
	c05SvcType network.MessageTypeID
	c05SvcMu   sync.Mutex
	// c05SvcHook is called by the processor of the harness service on every server
	c05SvcHook func(si *network.ServerIdentity, m *C05SvcMsg)
)

type c05Service struct {
	*onet.ServiceProcessor
}

func (s *c05Service) NewProtocol(tn *onet.TreeNodeInstance, conf *onet.GenericConfig) (onet.ProtocolInstance, error) {
	return nil, nil
}

func init() {
	c05SvcType = network.RegisterMessage(&C05SvcMsg{})
	_, err := onet.RegisterNewService("VerifC05Svc", func(c *onet.Context) (onet.Service, error) {
		si := c.ServerIdentity()
		c.RegisterProcessorFunc(c05SvcType, func(env *network.Envelope) error {
			m, ok := env.Msg.(*C05SvcMsg)
			if !ok {
				return nil
			}
			c05SvcMu.Lock()
			f := c05SvcHook
			c05SvcMu.Unlock()
			if f != nil {
				f(si, m)
			}
			return nil
		})
		return &c05Service{ServiceProcessor: onet.NewServiceProcessor(c)}, nil
	})
	if err != nil {
		log.Fatal(err)
	}
}

func c05conn(c *h.Ctx, cs *h.Case) {
	fixMu.Lock()
	defer fixMu.Unlock()
	tk0 := strings.Fields(cs.Ops[0])
	tcp := len(tk0) == 3 && tk0[2] == "1"
	cl := fix.NewCluster(3, tcp)
	fix.ResetRecs()
	r := &c05run{insts: map[int]*c05inst{}, byTok: map[string]int{}, gated: true}
	r.cond = sync.NewCond(&r.mu)
	r.fail = func(sig, msg string) { cs.Fail(sig, msg) }
	// service processors: block until released
	running := 0
	procBlocked := map[int]int{} // processor -> calls blocked in it
	gates := map[int]chan struct{}{}
	gateOf := func(p int) chan struct{} {
		if gates[p] == nil {
			gates[p] = make(chan struct{}, 1000)
		}
		return gates[p]
	}
	target := cl.SI(2)
	c05SvcMu.Lock()
	c05SvcHook = func(si *network.ServerIdentity, m *C05SvcMsg) {
		if !si.Equal(target) {
			return
		}
		r.mu.Lock()
		running++
		procBlocked[m.P]++
		g := gateOf(m.P)
		r.cond.Broadcast()
		r.mu.Unlock()
		<-g
		r.mu.Lock()
		running--
		r.cond.Broadcast()
		r.mu.Unlock()
	}
	c05SvcMu.Unlock()
	fix.Prepare = r.prepare
	defer func() {
		c05SvcMu.Lock()
		c05SvcHook = nil
		c05SvcMu.Unlock()
		fix.Prepare = nil
		r.mu.Lock()
		for _, in := range r.insts {
			for j := 0; j < 1000; j++ {
				select {
				case in.gate <- struct{}{}:
				default:
				}
			}
		}
		for _, g := range gates {
			for j := 0; j < 1000; j++ {
				select {
				case g <- struct{}{}:
				default:
				}
			}
		}
		r.mu.Unlock()
		time.Sleep(time.Millisecond)
		fix.DoneAll()
		cl.Close()
	}()
	// root on server 0, the node under test on server 2, its child on server 1
	tree, nodes := fix.BuildTree(cl.Roster, []int{-1, 0, 1}, []int{0, 2, 1})
	cl.Overlay(2).RegisterTree(tree)
	const nInst = 3
	var feeders [2][nInst]*fix.Rec
	for i := 0; i < nInst; i++ {
		pi, err := cl.L.CreateProtocol(fix.ProtoName, tree)
		if err != nil {
			cs.Fail("setup", err.Error())
			return
		}
		tokOf := func(n *onet.TreeNode) *onet.Token {
			t := pi.Token().Clone()
			t.TreeNodeID = n.ID
			return t
		}
		to := tokOf(nodes[1])
		r.mu.Lock()
		r.insts[i] = &c05inst{to: to, gate: make(chan struct{}, 1000)}
		r.byTok[to.ID().String()] = i
		r.mu.Unlock()
		feeders[0][i] = fix.RecOf(pi.Token())
		// the child's instance on server 1 comes into being through a first message from the root
		if err := feeders[0][i].Tni.SendTo(nodes[2], &fix.MSync{V: 1}); err != nil {
			cs.Fail("setup", err.Error())
			return
		}
		for dl := time.Now().Add(5 * time.Second); feeders[1][i] == nil && time.Now().Before(dl); {
			if feeders[1][i] = fix.RecOf(tokOf(nodes[2])); feeders[1][i] == nil {
				time.Sleep(300 * time.Microsecond)
			}
		}
		if feeders[1][i] == nil {
			cs.Fail("setup", "the feeder instance on server 1 never appeared")
			return
		}
	}
	type sentMsg struct{ i, m int }
	var sentBy [2][]sentMsg
	send := func(p, i, m int) error {
		sentBy[p] = append(sentBy[p], sentMsg{i, m})
		return feeders[p][i].Tni.SendTo(nodes[1], &fix.M3{V: m})
	}
	acceptedEv := func(i, m int) bool { // under r.mu
		for _, e := range r.events {
			if e.kind == "accept" && e.inst == i && e.m == m {
				return true
			}
		}
		return false
	}
	state := func(i int) string {
		in := r.insts[i]
		r.mu.Lock()
		defer r.mu.Unlock()
		if in.entered > in.exited {
			return fmt.Sprintf("in:%d", in.running)
		}
		return "idle"
	}
	states := func() string {
		var s []string
		for i := 0; i < nInst; i++ {
			s = append(s, state(i))
		}
		return strings.Join(s, "|")
	}
	blockedNow := func() string {
		r.mu.Lock()
		defer r.mu.Unlock()
		var b []string
		for i := 0; i < nInst; i++ {
			if in := r.insts[i]; in.entered > in.exited {
				b = append(b, fmt.Sprintf("instance %d in the handler of %d", i, in.running))
			}
		}
		if running > 0 {
			b = append(b, fmt.Sprintf("%d service processor(s) running", running))
		}
		if len(b) == 0 {
			return "nothing is blocked"
		}
		return strings.Join(b, ", ")
	}
	const wait = 5 * time.Second
	for _, op := range cs.Ops {
		tk := strings.Fields(op)
		if len(tk) < 2 {
			cs.Impl = append(cs.Impl, "bad-op")
			continue
		}
		num := func(k int) int {
			if k >= len(tk) {
				return -1
			}
			v, err := strconv.Atoi(tk[k])
			if err != nil {
				return -1
			}
			return v
		}
		switch {
		case tk[1] == "cstart" && len(tk) == 3:
			cs.Impl = append(cs.Impl, "ok")
		case tk[1] == "csend" && len(tk) == 5:
			p, i, m := num(2), num(3), num(4)
			if p < 0 || p > 1 || i < 0 || i >= nInst || m < 0 {
				cs.Impl = append(cs.Impl, "bad-op")
				continue
			}
			in := r.insts[i]
			r.mu.Lock()
			expectEnter := !in.closed && in.entered == in.exited
			want := in.entered + 1
			r.mu.Unlock()
			if err := send(p, i, m); err != nil {
				cs.Fail("send-error", err.Error())
			}
			if !r.waitFor(wait, func() bool { return acceptedEv(i, m) }) {
				cs.Impl = append(cs.Impl, "hang")
				cs.Fail("connection-blocked", fmt.Sprintf("message %d for instance %d, written on the connection of peer %d, was not handed over within %v (%s)", m, i, p, wait, blockedNow()))
				return
			}
			if expectEnter {
				if !r.waitFor(wait, func() bool { return in.entered >= want }) {
					cs.Impl = append(cs.Impl, "stuck")
					cs.Fail("lost-wakeup", fmt.Sprintf("instance %d is idle with message %d queued and never starts its handler", i, m))
					return
				}
			} else {
				time.Sleep(300 * time.Microsecond)
			}
			cs.Impl = append(cs.Impl, state(i))
		case tk[1] == "cburst" && len(tk) == 5:
			p, m0 := num(2), num(3)
			var is []int
			for _, x := range strings.Split(tk[4], ",") {
				v, err := strconv.Atoi(x)
				if err != nil || v < 0 || v >= nInst {
					is = nil
					break
				}
				is = append(is, v)
			}
			if p < 0 || p > 1 || m0 < 0 || len(is) == 0 {
				cs.Impl = append(cs.Impl, "bad-op")
				continue
			}
			r.mu.Lock()
			wantEnter := map[int]int{}
			for _, i := range is {
				if in := r.insts[i]; !in.closed && in.entered == in.exited {
					wantEnter[i] = in.entered + 1
				}
			}
			r.mu.Unlock()
			for k, i := range is {
				if err := send(p, i, m0+k); err != nil {
					cs.Fail("send-error", err.Error())
				}
			}
			ok := r.waitFor(wait, func() bool {
				for k, i := range is {
					if !acceptedEv(i, m0+k) {
						return false
					}
				}
				return true
			})
			if !ok {
				cs.Impl = append(cs.Impl, "hang")
				cs.Fail("connection-blocked", fmt.Sprintf("%d messages written back to back on the connection of peer %d were not all handed over within %v (%s)", len(is), p, wait, blockedNow()))
				return
			}
			if !r.waitFor(wait, func() bool {
				for i, w := range wantEnter {
					if r.insts[i].entered < w {
						return false
					}
				}
				return true
			}) {
				cs.Impl = append(cs.Impl, "stuck")
				cs.Fail("lost-wakeup", "an idle instance with a queued message never starts its handler")
				return
			}
			time.Sleep(300 * time.Microsecond)
			cs.Impl = append(cs.Impl, states())
		case tk[1] == "cexit" && len(tk) == 3:
			i := num(2)
			if i < 0 || i >= nInst {
				cs.Impl = append(cs.Impl, "bad-op")
				continue
			}
			in := r.insts[i]
			r.mu.Lock()
			runningH := in.entered > in.exited
			wantExit := in.exited + 1
			more := !in.closed && in.accepted > in.entered
			wantEnter := in.entered + 1
			r.mu.Unlock()
			if !runningH {
				cs.Impl = append(cs.Impl, "no-handler")
				continue
			}
			in.gate <- struct{}{}
			if !r.waitFor(wait, func() bool { return in.exited >= wantExit && (!more || in.entered >= wantEnter) }) {
				cs.Impl = append(cs.Impl, "stuck")
				cs.Fail("lost-wakeup", fmt.Sprintf("instance %d: after its handler returned the next queued message is never handled", i))
				return
			}
			if !more {
				time.Sleep(300 * time.Microsecond)
			}
			cs.Impl = append(cs.Impl, state(i))
		case tk[1] == "csvc" && len(tk) == 5:
			p, q, m := num(2), num(3), num(4)
			if p < 0 || p > 1 || q < 0 || m < 0 {
				cs.Impl = append(cs.Impl, "bad-op")
				continue
			}
			r.mu.Lock()
			want := running + 1
			r.mu.Unlock()
			if _, err := cl.Servers[p].Send(target, &C05SvcMsg{P: q, M: m}); err != nil {
				cs.Fail("send-error", err.Error())
			}
			if !r.waitFor(wait, func() bool { return running >= want }) {
				cs.Impl = append(cs.Impl, "hang")
				cs.Fail("connection-blocked", fmt.Sprintf("service message %d, written on the connection of peer %d, did not reach its processor within %v (%s)", m, p, wait, blockedNow()))
				return
			}
			r.mu.Lock()
			cs.Impl = append(cs.Impl, fmt.Sprintf("running=%d", running))
			r.mu.Unlock()
		case tk[1] == "csvcret" && len(tk) == 3:
			q := num(2)
			r.mu.Lock()
			g := gates[q]
			have := running
			none := q < 0 || g == nil || procBlocked[q] == 0
			if !none {
				procBlocked[q]--
			}
			r.mu.Unlock()
			if none {
				cs.Impl = append(cs.Impl, "no-processor")
				continue
			}
			g <- struct{}{}
			r.waitFor(wait, func() bool { return running < have })
			r.mu.Lock()
			cs.Impl = append(cs.Impl, fmt.Sprintf("running=%d", running))
			r.mu.Unlock()
		case tk[1] == "cstate" && len(tk) == 2:
			cs.Impl = append(cs.Impl, states())
		default:
			cs.Impl = append(cs.Impl, "bad-op")
		}
	}
	time.Sleep(2 * time.Millisecond)
	// the hand-overs of one connection happen in writing order
	r.mu.Lock()
	for p := 0; p < 2; p++ {
		k := 0
		for _, e := range r.events {
			if e.kind != "accept" {
				continue
			}
			mine := false
			for _, s := range sentBy[p] {
				if s.i == e.inst && s.m == e.m {
					mine = true
				}
			}
			if !mine {
				continue
			}
			if k < len(sentBy[p]) && (sentBy[p][k].i != e.inst || sentBy[p][k].m != e.m) {
				cs.Fail("conn-order", fmt.Sprintf("peer %d wrote message %d (for instance %d) as number %d on its connection, the server handed over message %d (for instance %d) at that place", p, sentBy[p][k].m, sentBy[p][k].i, k+1, e.m, e.inst))
				break
			}
			k++
		}
	}
	blocked := 0
	for _, in := range r.insts {
		if in.entered > in.exited {
			blocked++
		}
	}
	nev, nrun := len(r.events), running
	r.mu.Unlock()
	// how many connections the feeders really used (the class is about one connection per peer)
	conns := ""
	for p := 0; p < 2; p++ {
		conns += strconv.Itoa(len(cl.Servers[2].VerifConnsTo(cl.SI(p).GetID())))
	}
	cs.Outcome = fmt.Sprintf("conn tcp=%v events=%d blocked-at-end=%d processors-at-end=%d conns=%s", tcp, nev, blocked, nrun, conns)
}

func c05connGen(c *h.Ctx, yield func(*h.Case)) {
	r := c.Rng
	// corpus: instance 0 blocked in its first handler, a service processor blocked, and the same connection
	// keeps feeding instance 1 and instance 0's backlog
	yield(&h.Case{Class: "conn-corpus", Ops: []string{"c05 cstart 0", "c05 csend 0 0 1", "c05 csvc 0 5 9", "c05 csend 0 0 2",
		"c05 csend 0 1 7", "c05 csend 0 1 8", "c05 cexit 1", "c05 cexit 1", "c05 cstate", "c05 csvcret 5", "c05 cexit 0", "c05 cexit 0"}})
	yield(&h.Case{Class: "conn-corpus", Ops: []string{"c05 cstart 1", "c05 csend 0 0 1", "c05 cburst 0 10 0,1,0,2,1,0", "c05 csvc 1 3 1",
		"c05 cburst 1 20 2,2,0,1", "c05 cexit 1", "c05 cexit 2", "c05 cexit 2", "c05 cstate", "c05 csvcret 3", "c05 cexit 0"}})
	for n := 0; n < c.Pick(24, 400); n++ {
		tcp := 0
		if n%3 == 2 {
			tcp = 1
		}
		cs := &h.Case{Class: fmt.Sprintf("conn tcp=%d", tcp), Ops: []string{fmt.Sprintf("c05 cstart %d", tcp)}}
		m := 0
		procs := 0
		for j := 0; j < 6+r.Intn(22); j++ {
			switch x := r.Intn(12); {
			case x < 4:
				m++
				cs.Ops = append(cs.Ops, fmt.Sprintf("c05 csend %d %d %d", r.Intn(2), r.Intn(3), m))
			case x < 6:
				k := 2 + r.Intn(7)
				var is []string
				for q := 0; q < k; q++ {
					is = append(is, strconv.Itoa(r.Intn(3)))
				}
				cs.Ops = append(cs.Ops, fmt.Sprintf("c05 cburst %d %d %s", r.Intn(2), m+1, strings.Join(is, ",")))
				m += k
				c.Count("op=cburst")
			case x < 9:
				cs.Ops = append(cs.Ops, fmt.Sprintf("c05 cexit %d", r.Intn(3)))
			case x < 10:
				m++
				procs++
				cs.Ops = append(cs.Ops, fmt.Sprintf("c05 csvc %d %d %d", r.Intn(2), r.Intn(2), m))
				c.Count("op=csvc")
			case x < 11 && procs > 0:
				cs.Ops = append(cs.Ops, fmt.Sprintf("c05 csvcret %d", r.Intn(2)))
			default:
				cs.Ops = append(cs.Ops, "c05 cstate")
			}
		}
		c.Count(fmt.Sprintf("class=conn tcp=%d", tcp))
		yield(cs)
	}
}
