package main

// C03, round 7.
//
//   c03 fids <fields>      fields: p<tag> (an ordinary field, tag 0 = none), e<tag>(<fields>) (an embedded struct),
//                          comma separated; "-" = no fields
//       The struct type is built with reflect.StructOf (leaves are int64 fields). protobuf.ProtoFields gives its
//       field numbers - or panics on a repeated number; a value with a different non-zero number in every leaf
//       is encoded and decoded again. Observation: ids=<n,…> found=<yes|no> | panic
//       (model: Model/C03Fields.lean - innerFieldIndexes and the decoder's forward-only field cursor;
//       theorems c03_field_numbers_are_positions, c03_cursor_finds_sorted, c03_tags_can_break_numbering).
//       Oracle: a tag-free type, whatever it embeds, is numbered 1..n and every leaf survives the round trip
//       (field-numbering).
//
// New shapes for the `pb` operation: structs with embedded structs (spliced in, in place) and
// time.Duration fields (kind int64: zig-zag varints, packed in slices) - the schema text of such a type is
// the flat positional schema, which is what c03_field_numbers_are_positions licenses.

import (
	"fmt"
	"reflect"
	"strconv"
	"strings"
	"time"

	"go.dedis.ch/protobuf"
	"onetverif/harness/h"
)

// c03Emb: an embedded struct in front, one in the middle (itself with an embedded struct), durations.
type c03EmbIn struct {
	c03IdIn
	W time.Duration
}

type c03Emb struct {
	c03Inner
	D  time.Duration
	Ds []time.Duration
	c03EmbIn
	P *time.Duration
	Z int32
}

func init() {
	c03pbMakers = append(c03pbMakers, func() interface{} { return &c03Emb{} })
}

type c03sfield struct {
	tag  int
	emb  bool
	subs []c03sfield
}

// c03parseFields accepts exactly what Fields.Text.parse of the model accepts.
func c03parseFields(s string) ([]c03sfield, bool) {
	if s == "-" {
		return nil, true
	}
	pos := 0
	num := func() (int, bool) {
		st := pos
		for pos < len(s) && s[pos] >= '0' && s[pos] <= '9' {
			pos++
		}
		if pos == st || pos-st > 6 {
			return 0, false
		}
		n, _ := strconv.Atoi(s[st:pos])
		return n, true
	}
	var fields func(depth int) ([]c03sfield, bool)
	field := func(depth int) (c03sfield, bool) {
		if pos >= len(s) || depth > 40 {
			return c03sfield{}, false
		}
		switch s[pos] {
		case 'p':
			pos++
			t, ok := num()
			return c03sfield{tag: t}, ok
		case 'e':
			pos++
			t, ok := num()
			if !ok || pos >= len(s) || s[pos] != '(' {
				return c03sfield{}, false
			}
			pos++
			if pos < len(s) && s[pos] == ')' {
				pos++
				return c03sfield{tag: t, emb: true}, true
			}
			subs, ok := fields(depth + 1)
			if !ok || pos >= len(s) || s[pos] != ')' {
				return c03sfield{}, false
			}
			pos++
			return c03sfield{tag: t, emb: true, subs: subs}, true
		}
		return c03sfield{}, false
	}
	fields = func(depth int) ([]c03sfield, bool) {
		var out []c03sfield
		for {
			f, ok := field(depth)
			if !ok {
				return nil, false
			}
			out = append(out, f)
			if pos < len(s) && s[pos] == ',' {
				pos++
				continue
			}
			return out, true
		}
	}
	fs, ok := fields(0)
	if !ok || pos != len(s) {
		return nil, false
	}
	return fs, true
}

func c03structOf(fs []c03sfield) reflect.Type {
	var sf []reflect.StructField
	for i, f := range fs {
		x := reflect.StructField{Name: fmt.Sprintf("F%d", i+1), Type: reflect.TypeOf(int64(0))}
		if f.emb {
			x.Name = fmt.Sprintf("E%d", i+1)
			x.Type = c03structOf(f.subs)
			x.Anonymous = true
		}
		if f.tag != 0 {
			x.Tag = reflect.StructTag(fmt.Sprintf(`protobuf:"%d"`, f.tag))
		}
		sf = append(sf, x)
	}
	return reflect.StructOf(sf)
}

func c03untagged(fs []c03sfield) bool {
	for _, f := range fs {
		if f.tag != 0 || !c03untagged(f.subs) {
			return false
		}
	}
	return true
}

// c03leaves sets (set = true) every int64 leaf to 1, 2, 3, … in field order, or collects them.
func c03leaves(v reflect.Value, set bool, next *int64, got *[]int64) {
	for i := 0; i < v.NumField(); i++ {
		f := v.Field(i)
		if f.Kind() == reflect.Struct {
			c03leaves(f, set, next, got)
			continue
		}
		if set {
			*next++
			f.SetInt(*next)
		} else {
			*got = append(*got, f.Int())
		}
	}
}

func (st *c03state) fids(desc string) string {
	fs, ok := c03parseFields(desc)
	if !ok {
		return "bad-op"
	}
	t := c03structOf(fs)
	var ids []string
	var sorted, nodup = true, true
	panicked := func() (p bool) {
		defer func() {
			if r := recover(); r != nil {
				p = true
			}
		}()
		last := int64(0)
		seen := map[int64]bool{}
		for _, f := range protobuf.ProtoFields(t) {
			ids = append(ids, strconv.FormatInt(f.ID, 10))
			if f.ID <= last {
				sorted = false
			}
			if seen[f.ID] {
				nodup = false
			}
			seen[f.ID] = true
			last = f.ID
		}
		return false
	}()
	untagged := c03untagged(fs)
	if panicked {
		if untagged {
			st.cs.Fail("field-numbering", "ProtoFields panics on a struct type without tags: "+desc)
		}
		st.tag("fids:panic")
		return "panic"
	}
	// round trip of a value with a different number in every leaf
	v := reflect.New(t)
	var n int64
	c03leaves(v.Elem(), true, &n, nil)
	found := "no"
	func() {
		defer func() { recover() }()
		b, err := protobuf.Encode(v.Interface())
		if err != nil {
			return
		}
		w := reflect.New(t)
		if protobuf.Decode(b, w.Interface()) != nil {
			return
		}
		var got []int64
		c03leaves(w.Elem(), false, nil, &got)
		for i, x := range got {
			if x != int64(i+1) {
				return
			}
		}
		found = "yes"
	}()
	if untagged {
		want := make([]string, n)
		for i := range want {
			want[i] = strconv.Itoa(i + 1)
		}
		if strings.Join(ids, ",") != strings.Join(want, ",") || found != "yes" {
			st.cs.Fail("field-numbering", fmt.Sprintf("a struct type without tags (%s) has the field numbers %s (wanted 1..%d), every leaf survives the round trip: %s", desc, strings.Join(ids, ","), n, found))
		}
	}
	st.tag(fmt.Sprintf("fids:untagged=%v:sorted=%v:nodup=%v:found=%s", untagged, sorted, nodup, found))
	if len(ids) == 0 {
		return "ids=- found=" + found
	}
	return "ids=" + strings.Join(ids, ",") + " found=" + found
}

// r7op routes the operations of this file.
func (st *c03state) r7op(tk []string) (string, bool) {
	if len(tk) == 3 && tk[1] == "fids" {
		return st.fids(tk[2]), true
	}
	if len(tk) == 7 && tk[1] == "pbi" {
		return st.pbi(tk[2], tk[3], tk[4], tk[5], tk[6]), true
	}
	return "", false
}

func c03genR7(g *c03g, emit func(class string, ops ...string)) {
	c, r := g.c, g.r
	reg := g.regTable()
	// ---- field numbers: random struct types with embedded structs, some with tags
	var gen func(depth int, tagged bool) string
	gen = func(depth int, tagged bool) string {
		n := r.Intn(5)
		if depth == 0 {
			n = 1 + r.Intn(5)
		}
		var fs []string
		for i := 0; i < n; i++ {
			tag := 0
			if tagged && r.Intn(3) == 0 {
				tag = 1 + r.Intn(12)
			}
			if depth < 3 && r.Intn(3) == 0 {
				fs = append(fs, fmt.Sprintf("e%d(%s)", tag, gen(depth+1, tagged)))
			} else {
				fs = append(fs, fmt.Sprintf("p%d", tag))
			}
		}
		return strings.Join(fs, ",")
	}
	for _, d := range []string{"-", "p0", "e0()", "p0,e0(p0,e0(p0),p0),p0", "p0,p1", "p2,p1", "p0,e7(p0,p0),p0", "e0(e0(e0(p0)))", "p3,e0(p0),p4"} {
		c.Count("class=fids")
		emit("fids:corpus", "c03 fids "+d)
	}
	for i := 0; i < c.Pick(120, 3000); i++ {
		tagged := r.Intn(2) == 0
		var ops []string
		for j := 1 + r.Intn(4); j > 0; j-- {
			ops = append(ops, "c03 fids "+gen(0, tagged))
		}
		c.Count("class=fids")
		if tagged {
			emit("fids:tagged", ops...)
		} else {
			emit("fids:untagged", ops...)
		}
	}
	for _, l := range []string{"c03 fids", "c03 fids p", "c03 fids p0,", "c03 fids e0(p0", "c03 fids x1", "c03 fids p1234567", "c03 fids e0(p0))"} {
		emit("malformed", l)
	}
	// ---- the wire format for structs with embedded structs and durations
	for i := 0; i < c.Pick(80, 1500); i++ {
		ops := []string{"c03 cfg 4096 " + reg + " -"}
		for j := 2 + r.Intn(4); j > 0; j-- {
			v := &c03Emb{c03Inner: c03inner(r), D: time.Duration(c03edge64[r.Intn(len(c03edge64))]), Z: c03edge32[r.Intn(len(c03edge32))]}
			for k := r.Intn(4); k > 0; k-- {
				v.Ds = append(v.Ds, time.Duration(c03edge64[r.Intn(len(c03edge64))]))
			}
			copy(v.Tag[:], c03bytes(r, 4))
			v.c03EmbIn.S = string(c03bytes(r, r.Intn(5)))
			v.W = time.Duration(r.Int63n(1 << 40))
			if r.Intn(2) == 0 {
				x := time.Duration(c03edge64[r.Intn(len(c03edge64))])
				v.P = &x
			}
			b, err := protobuf.Encode(v)
			if err != nil {
				continue
			}
			switch r.Intn(6) {
			case 0, 1, 2:
			case 3:
				for k := 1 + r.Intn(3); k > 0; k-- {
					b = g.mutate(b)
				}
			case 4:
				if b2, err := protobuf.Encode(&c03Emb{D: 5, Z: -1}); err == nil {
					b = append(b, b2...)
				}
			default:
				b = append(append([]byte{byte(r.Intn(256)), byte(r.Intn(8))}, b...), byte(8*(1+r.Intn(12))+r.Intn(8)), byte(r.Intn(4)))
			}
			ops = append(ops, fmt.Sprintf("c03 pb %s %s", c03schema(reflect.TypeOf(v).Elem()), h.Hex(b)))
		}
		c.Count("class=pb-embedded")
		emit("pb-embedded", ops...)
	}
}
