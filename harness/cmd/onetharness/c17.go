package main

import (
	"fmt"
	"sort"
	"strconv"
	"strings"
	"sync"
	"time"

	"github.com/google/uuid"
	"go.dedis.ch/kyber/v3"
	"go.dedis.ch/kyber/v3/util/key"
	"go.dedis.ch/onet/v3"
	"go.dedis.ch/onet/v3/log"
	"go.dedis.ch/onet/v3/network"
	"onetverif/harness/fix"
	"onetverif/harness/h"
)

// C17: valid-peer sets. One case = one fresh onet server (the filtering server, TCP or in-memory
// transport) and a history of operations (see lean/OnetVerif/Model/C17.lean, Drv.step):
//
//   open <tcp|local>
//   set <setid> <idents>    setid r<hex>: Router.SetValidPeers(NewPeerSetID(hex));
//                           c<svc>/<hex>: through the Context of harness service <svc>
//                           ident <key>[:<idfield>]: identity with the public key of peer <key> and
//                           the deprecated ID field of peer <idfield> (0 = empty)
//   get <setid>
//   offer <ident> <m>       a new bare router with the key of that peer (and that ID field in the
//                           identity it sends) connects to the server and sends message m
//   msg <key> <m>           the oldest live router of that peer sends m over its existing connection
//   dial <ident>            the server sends to a new bare router of that peer (opens the connection)
//   drop <key>              all routers of that peer are stopped
//   sethold <setid> <idents> SetValidPeers is started and held while it derives the id of the identity
//                           marked `!` (a public key whose String() waits for a gate); release lets it finish

// C17Msg is the payload sent by peers.
type C17Msg struct{ M int64 }

var c17MsgType network.MessageTypeID

// the two harness services whose Contexts are used for the service-facing calls
type c17Service struct {
	*onet.ServiceProcessor
	ctx *onet.Context
}

func (s *c17Service) NewProtocol(tn *onet.TreeNodeInstance, conf *onet.GenericConfig) (onet.ProtocolInstance, error) {
	return nil, nil
}

var c17RegisterOnce sync.Once

func c17Register() {
	c17RegisterOnce.Do(func() {
		c17MsgType = network.RegisterMessage(&C17Msg{})
		for _, n := range []string{"VerifC17a", "VerifC17b"} {
			_, err := onet.RegisterNewService(n, func(c *onet.Context) (onet.Service, error) {
				return &c17Service{ServiceProcessor: onet.NewServiceProcessor(c), ctx: c}, nil
			})
			if err != nil {
				log.Fatal(err)
			}
		}
	})
}

// c17gatedPoint is a public key whose textual form — what ServerIdentity.GetID derives the id
// from — is only available once the gate is opened: a SetValidPeers call given such an identity
// is held in the middle of its work, deterministically.
type c17gatedPoint struct {
	kyber.Point
	once    sync.Once
	entered chan struct{}
	release chan struct{}
}

func (g *c17gatedPoint) String() string {
	g.once.Do(func() { close(g.entered) })
	<-g.release
	return g.Point.String()
}

// c17pending is a SetValidPeers call that has been started and is held.
type c17pending struct {
	key     string
	members map[int]bool
	gate    *c17gatedPoint
	done    chan struct{}
}

type c17inst struct {
	key    int
	r      *network.Router
	closed chan bool
	live   bool
}

type c17world struct {
	cs     *h.Case
	tcp    bool
	tls    bool // the filtering server listens on a tls:// address (c17tls.go); tcp is set too
	ownSrv bool // the server was made by the harness itself, not by a LocalTest
	lt     *onet.LocalTest
	srv    *onet.Server
	keys   map[int]*key.Pair
	byPub  map[string]int
	byID   map[network.ServerIdentityID]int
	insts  []*c17inst
	port   int
	disp   chan string
	// the property's own reference: a map of sets of keys
	// keyed by the set as the history names it (router-level ids normalised to their 32 bytes,
	// context-level ids by service and bytes): two services that use the same bytes name two sets
	ref     map[string]map[int]bool
	refInit bool
	pend    *c17pending
	// raw connections whose server-side goroutine is driven act by act (c17acc.go)
	raws      []*c17raw
	rawMu     sync.Mutex
	rawByAddr map[string]*c17raw
	// connections the server dials itself, driven act by act (c17dial.go)
	dials      []*c17dialT
	dialByAddr map[string]*c17dialT
	stopped    bool // Router.Stop was called (op astop)
	// an error of the harness's own plumbing (a dial that fails under load, a write on a connection the kernel
	// reset): the rest of the case is not run and the case is counted as inconclusive, never as a failure
	incon string
}

func (w *c17world) keyOf(k int) *key.Pair {
	if kp, ok := w.keys[k]; ok {
		return kp
	}
	kp := key.NewKeyPair(fix.Suite)
	w.keys[k] = kp
	w.byPub[kp.Public.String()] = k
	w.byID[network.NewServerIdentity(kp.Public, "").GetID()] = k
	return kp
}

// idOf is the real id of peer k's key (0 = the nil id).
func (w *c17world) idOf(k int) network.ServerIdentityID {
	if k == 0 {
		return network.ServerIdentityID(uuid.Nil)
	}
	return network.NewServerIdentity(w.keyOf(k).Public, "").GetID()
}

func c17parseIdent(s string) (k, f int, ok bool) {
	p := strings.Split(strings.TrimSuffix(s, "!"), ":")
	k, err := strconv.Atoi(p[0])
	if err != nil || k < 1 || len(p) > 2 {
		return 0, 0, false
	}
	f = k
	if len(p) == 2 {
		if f, err = strconv.Atoi(p[1]); err != nil || f < 0 {
			return 0, 0, false
		}
	}
	return k, f, true
}

// ident builds the ServerIdentity structure for `k:f` at the given address.
func (w *c17world) ident(k, f int, addr network.Address) *network.ServerIdentity {
	si := network.NewServerIdentity(w.keyOf(k).Public, addr)
	si.ID = w.idOf(f)
	return si
}

func (w *c17world) open(tr string) string {
	c17Register()
	w.tcp = tr == "tcp"
	if w.tcp {
		w.lt = onet.NewTCPTest(fix.Suite)
	} else {
		w.lt = onet.NewLocalTest(fix.Suite)
	}
	w.lt.Check = onet.CheckNone
	w.srv = w.lt.GenServers(1)[0]
	w.srv.RegisterProcessorFunc(c17MsgType, func(e *network.Envelope) error {
		k, ok := w.byPub[e.ServerIdentity.Public.String()]
		who := "?"
		if ok {
			who = strconv.Itoa(k)
		}
		w.disp <- fmt.Sprintf("dispatched:%s:%d", who, e.Msg.(*C17Msg).M)
		return nil
	})
	return "ok"
}

func (w *c17world) close() {
	w.releasePending()
	w.dialClose()
	w.accClose()
	for _, in := range w.insts {
		w.stopInst(in)
	}
	if w.lt != nil {
		w.lt.CloseAll()
	}
	if w.ownSrv && w.srv != nil {
		done := make(chan bool)
		go func() { w.srv.Close(); close(done) }()
		select {
		case <-done:
		case <-time.After(5 * time.Second):
		}
	}
}

func (w *c17world) stopInst(in *c17inst) {
	if !in.live {
		return
	}
	in.live = false
	done := make(chan bool)
	go func() { in.r.Stop(); close(done) }()
	select {
	case <-done:
	case <-time.After(3 * time.Second):
	}
}

func (w *c17world) newInst(k, f int) (*c17inst, error) {
	w.port++
	var r *network.Router
	if w.tls {
		var err error
		if r, err = w.newTLSInst(k, f); err != nil {
			return nil, err
		}
	} else if w.tcp {
		sid := w.ident(k, f, network.NewTCPAddress("127.0.0.1:0"))
		hst, err := network.NewTCPHost(sid, fix.Suite)
		if err != nil {
			return nil, err
		}
		sid.Address = hst.Address()
		r = network.NewRouter(sid, hst)
	} else {
		sid := w.ident(k, f, network.NewLocalAddress("127.0.0.1:"+strconv.Itoa(30000+w.port)))
		var err error
		r, err = network.NewLocalRouterWithManager(w.lt.VerifLocalManager(), sid, fix.Suite)
		if err != nil {
			return nil, err
		}
	}
	r.UnauthOk, r.Quiet = true, true
	in := &c17inst{key: k, r: r, closed: make(chan bool, 8), live: true}
	r.AddErrorHandler(func(*network.ServerIdentity) {
		select {
		case in.closed <- true:
		default:
		}
	})
	r.RegisterProcessorFunc(c17MsgType, func(*network.Envelope) error { return nil })
	go r.Start()
	for i := 0; i < 3000 && !r.Listening(); i++ {
		time.Sleep(time.Millisecond)
	}
	w.insts = append(w.insts, in)
	return in, nil
}

// refKey names a set for the reference independently of how the code derives its id.
func c17refKey(tok string) string {
	if strings.HasPrefix(tok, "r") {
		b, _ := c03unhex(tok[1:])
		id := network.NewPeerSetID(nil)
		copy(id[:], b)
		return fmt.Sprintf("r%x", id[:])
	}
	if strings.HasPrefix(tok, "x") {
		// a router-level identifier used through a service's Context: the same set as r<hex>
		if p := strings.Split(tok[1:], "/"); len(p) == 2 {
			return c17refKey("r" + p[1])
		}
	}
	return tok
}

func (w *c17world) setID(tok string) (network.PeerSetID, *onet.Context, bool) {
	var none network.PeerSetID
	if strings.HasPrefix(tok, "r") {
		b, ok := c03unhex(tok[1:])
		if !ok {
			return none, nil, false
		}
		return network.NewPeerSetID(b), nil, true
	}
	if strings.HasPrefix(tok, "c") || strings.HasPrefix(tok, "x") {
		p := strings.Split(tok[1:], "/")
		if len(p) != 2 {
			return none, nil, false
		}
		b, ok := c03unhex(p[1])
		name := map[string]string{"1": "VerifC17a", "2": "VerifC17b"}[p[0]]
		if !ok || name == "" {
			return none, nil, false
		}
		svc, _ := w.srv.Service(name).(*c17Service)
		if svc == nil {
			return none, nil, false
		}
		if tok[0] == 'x' {
			// the identifier is made by network.NewPeerSetID (as r<hex>), the call goes through this service's Context
			return network.NewPeerSetID(b), svc.ctx, true
		}
		return svc.ctx.NewPeerSetID(b), svc.ctx, true
	}
	return none, nil, false
}

// refValid is the property's reference: valid by key.
func (w *c17world) refValid(k int) bool {
	if !w.refInit {
		return true
	}
	for _, s := range w.ref {
		if s[k] {
			return true
		}
	}
	return false
}

// refValidAfter is refValid once the held call has taken effect.
func (w *c17world) refValidAfter(k int) bool {
	if w.pend == nil {
		return w.refValid(k)
	}
	old, had := w.ref[w.pend.key]
	oldInit := w.refInit
	w.ref[w.pend.key], w.refInit = w.pend.members, true
	v := w.refValid(k)
	if had {
		w.ref[w.pend.key] = old
	} else {
		delete(w.ref, w.pend.key)
	}
	w.refInit = oldInit
	return v
}

func (w *c17world) releasePending() bool {
	p := w.pend
	if p == nil {
		return true
	}
	close(p.gate.release)
	ok := true
	select {
	case <-p.done:
	case <-time.After(5 * time.Second):
		ok = false
	}
	w.ref[p.key], w.refInit = p.members, true
	w.pend = nil
	return ok
}

// await waits for the dispatch of (k, m) at the server or for the close of the peer's
// connection, whichever comes first.
func (w *c17world) await(in *c17inst, k int, m int64) string {
	want := fmt.Sprintf("dispatched:%d:%d", k, m)
	deadline := time.After(4 * time.Second)
	for {
		select {
		case d := <-w.disp:
			if d == want {
				return d
			}
			w.cs.Fail("stray-dispatch", "the server dispatched "+d+" while "+want+" was awaited")
			return d
		case <-in.closed:
			// a dispatch may still be on its way only if the connection had been accepted;
			// give it a moment so that "refused" really means "nothing dispatched"
			select {
			case d := <-w.disp:
				return d + "+closed"
			case <-time.After(30 * time.Millisecond):
			}
			return "refused"
		case <-deadline:
			return "timeout"
		}
	}
}

func c17exec(c *h.Ctx, cs *h.Case) {
	log.SetDebugVisible(0)
	log.OutputToBuf() // refusals are logged as errors by the code under test
	w := &c17world{cs: cs, keys: map[int]*key.Pair{}, byPub: map[string]int{}, byID: map[network.ServerIdentityID]int{},
		disp: make(chan string, 64), ref: map[string]map[int]bool{}}
	defer w.close()
	tags := map[string]bool{}
	for _, op := range cs.Ops {
		tk := strings.Fields(op)
		obs := "bad-op"
		if w.incon != "" {
			cs.Impl = append(cs.Impl, "not-run")
			continue
		}
		switch {
		case len(tk) == 3 && tk[1] == "open" && (tk[2] == "tcp" || tk[2] == "local") && w.srv == nil:
			obs = w.open(tk[2])
		case len(tk) == 3 && tk[1] == "open" && tk[2] == "tls" && w.srv == nil:
			obs = w.openTLS(c.Workdir)
		case w.srv == nil:
		case len(tk) == 8 && tk[1] == "offercert" && w.tls:
			var n [4]int
			ok := true
			for i := range n {
				v, err := strconv.Atoi(tk[2+i])
				if tk[2+i] == "-" && i == 2 {
					v, err = -1, nil
				}
				ok = ok && err == nil && (v >= 1 || i == 2 && v == -1)
				n[i] = v
			}
			idk, idf, ok2 := c17parseIdent(tk[6])
			m, err := strconv.ParseInt(tk[7], 10, 64)
			if ok && ok2 && err == nil {
				o, herr := w.offerCert(n[0], n[1], n[2], n[3], idk, idf, m)
				if herr != nil {
					w.incon = "the raw TLS peer could not be made: " + herr.Error()
					obs = "harness-error"
					break
				}
				if o == "timeout" {
					// neither a dispatch nor the end of the connection within the patience (a swamped machine): no verdict
					w.incon = "the raw TLS peer saw neither a dispatch nor the server hanging up"
					obs = "harness-error"
					break
				}
				obs = o
				// the peer is the holder of key n[0]: it is served only if THAT key is valid — and only under its own name
				held := w.refValid(n[0])
				switch {
				case strings.HasPrefix(obs, "dispatched") && !held:
					cs.Fail("non-member-accepted", fmt.Sprintf("the holder of key %d is in none of the sets; with a certificate naming key %d in the CommonName and %s in the URI, and the identity of key %d, it got %q", n[0], n[1], tk[4], idk, obs))
				case strings.HasPrefix(obs, "dispatched") && idk != n[0]:
					cs.Fail("served-under-another-key", fmt.Sprintf("the holder of key %d was served as key %d (%q)", n[0], idk, obs))
				case held && n[0] == n[1] && n[0] == n[3] && n[0] == idk && (n[2] == -1 || n[2] == n[0]) && (!strings.HasPrefix(obs, "dispatched") || strings.HasSuffix(obs, "+closed")):
					cs.Fail("member-refused", fmt.Sprintf("peer %d is valid by its key and presents an honest certificate; it got %q", idk, obs))
				}
				kind := "honest"
				if n[0] != n[1] || n[0] != n[3] || n[0] != idk || (n[2] != -1 && n[2] != n[0]) {
					kind = "forged"
				}
				tags[fmt.Sprintf("offercert:%s:held-valid=%v:%s", kind, held, strings.SplitN(obs, ":", 2)[0])] = true
			}
		case len(tk) == 4 && tk[1] == "set":
			id, ctx, ok := w.setID(tk[2])
			var peers []*network.ServerIdentity
			members := map[int]bool{}
			if tk[3] != "-" {
				for _, s := range strings.Split(tk[3], ",") {
					k, f, ok2 := c17parseIdent(s)
					ok = ok && ok2
					if ok2 {
						peers = append(peers, w.ident(k, f, network.NewTCPAddress("127.0.0.1:1")))
						members[k] = true
					}
				}
			}
			if ok {
				if ctx != nil {
					ctx.SetValidPeers(id, peers)
				} else {
					w.srv.SetValidPeers(id, peers)
				}
				w.ref[c17refKey(tk[2])], w.refInit = members, true
				obs = "ok"
				tags[fmt.Sprintf("set:%d", c03bucketN(len(members)))] = true
			}
		case len(tk) == 4 && tk[1] == "sethold" && w.pend == nil:
			id, ctx, ok := w.setID(tk[2])
			var peers []*network.ServerIdentity
			pd := &c17pending{key: c17refKey(tk[2]), members: map[int]bool{}, done: make(chan struct{})}
			for _, s := range strings.Split(tk[3], ",") {
				k, f, ok2 := c17parseIdent(s)
				ok = ok && ok2
				if !ok2 {
					continue
				}
				pd.members[k] = true
				if strings.HasSuffix(s, "!") && pd.gate == nil {
					pd.gate = &c17gatedPoint{Point: w.keyOf(k).Public, entered: make(chan struct{}), release: make(chan struct{})}
					// built by hand: NewServerIdentity would already ask for the id
					peers = append(peers, &network.ServerIdentity{Public: pd.gate, ID: w.idOf(f), Address: network.NewTCPAddress("127.0.0.1:1")})
				} else {
					peers = append(peers, w.ident(k, f, network.NewTCPAddress("127.0.0.1:1")))
				}
			}
			if ok && pd.gate != nil {
				go func() {
					if ctx != nil {
						ctx.SetValidPeers(id, peers)
					} else {
						w.srv.SetValidPeers(id, peers)
					}
					close(pd.done)
				}()
				select {
				case <-pd.gate.entered:
					obs = "held"
				case <-pd.done:
					obs = "returned-without-asking-for-the-id"
				case <-time.After(3 * time.Second):
					obs = "not-held"
				}
				w.pend = pd
				tags["sethold"] = true
			}
		case len(tk) == 2 && tk[1] == "release" && w.pend != nil:
			if w.releasePending() {
				obs = "ok"
			} else {
				obs = "hang"
				cs.Fail("hang", "the held SetValidPeers call did not return within 5 s after its identity became available")
			}
		case len(tk) == 3 && tk[1] == "get":
			id, ctx, ok := w.setID(tk[2])
			if ok {
				var got []network.ServerIdentityID
				if ctx != nil {
					got = ctx.GetValidPeers(id)
				} else {
					got = w.srv.GetValidPeers(id)
				}
				if got == nil {
					obs = "nil"
				} else {
					var ks []int
					unknown := false
					for _, g := range got {
						if k, ok := w.byID[g]; ok {
							ks = append(ks, k)
						} else {
							unknown = true
						}
					}
					// the caller owns what it was given: it may edit the list in place (filter, sort, overwrite)
					// without any later reader of the set seeing that (seeded C17r6-B: one remembered slice
					// handed to every reader)
					for i := range got {
						got[i] = network.ServerIdentityID(uuid.Nil)
					}
					sort.Ints(ks)
					obs = "set:" + h.Ints(ks)
					if unknown {
						obs += "+unknown-id"
					}
					// oracle: exactly the members given, by key
					var want []int
					for k := range w.ref[c17refKey(tk[2])] {
						want = append(want, k)
					}
					sort.Ints(want)
					if w.pend != nil {
						// a call is in progress: what is read is the table before it or after it
						var after []int
						src := w.ref[c17refKey(tk[2])]
						if w.pend.key == c17refKey(tk[2]) {
							src = w.pend.members
						}
						for k := range src {
							after = append(after, k)
						}
						sort.Ints(after)
						okBefore := w.refInit && !unknown && h.Ints(want) == h.Ints(ks)
						okAfter := !unknown && h.Ints(after) == h.Ints(ks)
						if !okBefore && !okAfter {
							cs.Fail("set-not-atomic", fmt.Sprintf("while SetValidPeers(%s) is in progress, set %s reads as %s: neither the table before the call (%s) nor after it (set:%s)", w.pend.key, tk[2], obs, c17before(w.refInit, want), h.Ints(after)))
						}
					} else if !w.refInit || unknown || h.Ints(want) != h.Ints(ks) {
						cs.Fail("get-mismatch", fmt.Sprintf("set %s holds the keys %v, reading it back gives %s", tk[2], want, obs))
					}
				}
				if got == nil && w.refInit && w.pend == nil {
					cs.Fail("get-mismatch", "reading a set back gives nil although sets were given")
				}
				tags["get:"+strings.SplitN(obs, ":", 2)[0]] = true
			}
		case len(tk) == 4 && tk[1] == "offer":
			k, f, ok := c17parseIdent(tk[2])
			m, err := strconv.ParseInt(tk[3], 10, 64)
			if ok && err == nil {
				in, err := w.newInst(k, f)
				if err != nil {
					w.incon = "a peer's router could not be made: " + err.Error()
					obs = "harness-error"
					break
				}
				_, serr := in.r.Send(w.srv.ServerIdentity, &C17Msg{M: m})
				obs = w.await(in, k, m)
				if serr != nil && obs == "timeout" {
					obs = "send-error"
				}
				valid := w.refValid(k)
				kind := "honest"
				if f != k {
					kind = "forged"
				}
				validAfter := w.refValidAfter(k)
				switch {
				case w.pend != nil && valid != validAfter:
					// either answer is that of some order of the two calls
				case w.pend != nil && valid && !strings.HasPrefix(obs, "dispatched"):
					cs.Fail("set-not-atomic", fmt.Sprintf("peer %d is valid before SetValidPeers(%s) and valid after it; offering a connection while the call is in progress it got %q", k, w.pend.key, obs))
				case valid && !strings.HasPrefix(obs, "dispatched") || valid && strings.HasSuffix(obs, "+closed"):
					cs.Fail("member-refused", fmt.Sprintf("peer %d is valid by its key (or no set was given yet) and got %q", k, obs))
				case !valid && strings.HasPrefix(obs, "dispatched") && f != k:
					cs.Fail("forged-id-accepted", fmt.Sprintf("peer %d is in none of the sets; with the ID field of peer %d in its identity its message was dispatched", k, f))
				case !valid && obs != "refused":
					cs.Fail("non-member-accepted", fmt.Sprintf("peer %d is in none of the sets and got %q", k, obs))
				}
				if obs == "refused" {
					w.stopInst(in)
				}
				tags[fmt.Sprintf("offer:%s:valid=%v:%s", kind, valid, strings.SplitN(obs, ":", 2)[0])] = true
			}
		case len(tk) == 4 && tk[1] == "msg":
			k, err1 := strconv.Atoi(tk[2])
			m, err2 := strconv.ParseInt(tk[3], 10, 64)
			if err1 == nil && err2 == nil {
				var in *c17inst
				for _, x := range w.insts {
					if x.live && x.key == k {
						in = x
						break
					}
				}
				if in == nil {
					obs = "noconn"
				} else {
					in.r.Send(w.srv.ServerIdentity, &C17Msg{M: m})
					obs = w.await(in, k, m)
					if !strings.HasPrefix(obs, "dispatched") || strings.HasSuffix(obs, "+closed") {
						cs.Fail("accepted-connection-dropped", fmt.Sprintf("message %d over the registered connection of peer %d: %q", m, k, obs))
					}
				}
				tags["msg:"+strings.SplitN(obs, ":", 2)[0]] = true
			}
		case len(tk) == 3 && tk[1] == "dial":
			k, f, ok := c17parseIdent(tk[2])
			if ok {
				in, err := w.newInst(k, f)
				if err != nil {
					w.incon = "a peer's router could not be made: " + err.Error()
					obs = "harness-error"
					break
				}
				// (a server that already has a connection with that key uses it: nothing new reaches this router)
				fresh := w.srv.Router.VerifConnCount(in.r.ServerIdentity.GetID()) == 0
				if _, err := w.srv.Send(in.r.ServerIdentity, &C17Msg{M: -1}); err != nil {
					obs = "dial-error"
					cs.Fail("dial-error", err.Error())
				} else {
					obs = "ok"
					// the peer's side registers the connection when the identity arrived
					if fresh {
						w.awaitPeerSide(in)
					}
				}
				tags["dial"] = true
			}
		case len(tk) == 2 && tk[1] == "astop":
			if o, ok := w.accStop(); ok {
				obs = o
				tags["astop"] = true
			}
		case len(tk) >= 3 && (tk[1] == "ddial" || tk[1] == "dreg" || tk[1] == "dlaunch" || tk[1] == "dmsg"):
			if o, ok := w.dialOp(tk); ok {
				obs = o
				tags[tk[1]+":"+strings.SplitN(o, ":", 2)[0]] = true
			}
		case len(tk) >= 3 && strings.HasPrefix(tk[1], "a"):
			if o, ok := w.accOp(tk); ok {
				obs = o
				tags[tk[1]+":"+strings.SplitN(strings.SplitN(o, ":", 2)[0], "+", 2)[0]] = true
			}
		case len(tk) == 3 && tk[1] == "drop":
			k, err := strconv.Atoi(tk[2])
			if err == nil {
				for _, x := range w.insts {
					if x.key == k {
						w.stopInst(x)
					}
				}
				time.Sleep(10 * time.Millisecond)
				obs = "ok"
				tags["drop"] = true
			}
		}
		cs.Impl = append(cs.Impl, obs)
	}
	var tl []string
	for t := range tags {
		tl = append(tl, t)
	}
	sort.Strings(tl)
	tr := "local"
	if w.tcp {
		tr = "tcp"
	}
	if w.tls {
		tr = "tls"
	}
	cs.Outcome = tr + " " + strings.Join(tl, " ")
	if w.incon != "" && cs.Oracle != "fail" {
		c.Count("inconclusive")
		cs.NoModel, cs.Trivial = true, true
		cs.Outcome = "inconclusive"
		cs.Msg = "inconclusive (harness plumbing): " + w.incon
	}
}

func c17before(init bool, want []int) string {
	if !init {
		return "nil"
	}
	return "set:" + h.Ints(want)
}

func c03bucketN(n int) int {
	if n > 2 {
		return 3
	}
	return n
}

func c17gen(c *h.Ctx, yield func(*h.Case)) {
	r := c.Rng
	emit := func(class string, ops ...string) {
		c.Count("class=" + class)
		for _, o := range ops {
			c.Count("op=" + strings.Fields(o)[1])
		}
		yield(&h.Case{Class: class, Ops: ops})
	}
	// ---- corpus: the forged-ID witness (fixed in /repo), on both transports, router and context
	for _, tr := range []string{"tcp", "local"} {
		emit("corpus-forged-id",
			"c17 open "+tr,
			"c17 set r736574 1",
			"c17 offer 2 1",
			"c17 offer 2:1 2",
			"c17 offer 1 3",
			"c17 msg 1 4")
		emit("corpus-empty-idfield-member",
			"c17 open "+tr,
			"c17 set c1/aa 1:0,2:3",
			"c17 offer 1 1",
			"c17 offer 2 2",
			"c17 offer 3 3",
			"c17 get c1/aa")
		emit("corpus-two-services-same-bytes",
			"c17 open "+tr,
			"c17 get c1/aa",
			"c17 offer 5 0",
			"c17 set c1/aa 1",
			"c17 set c2/aa 2",
			"c17 get c1/aa", "c17 get c2/aa", "c17 get raa",
			"c17 set c1/aa -",
			"c17 offer 1 1", "c17 offer 2 2",
			"c17 get c1/aa", "c17 get c2/aa")
		// set ids derived from 32 bytes and more (the documented use: a skipchain id): the same
		// bytes under two services, and bytes that only differ after the 32nd
		long := strings.Repeat("ab", 32)
		emit("corpus-long-setid-bytes",
			"c17 open "+tr,
			"c17 set c1/"+long+" 1",
			"c17 set c2/"+long+" 2",
			"c17 get c1/"+long, "c17 get c2/"+long,
			"c17 set c1/"+long+"01 3",
			"c17 get c1/"+long, "c17 get c1/"+long+"01", "c17 get c2/"+long+"01",
			"c17 offer 1 1", "c17 offer 2 2", "c17 offer 3 3", "c17 offer 4 4",
			"c17 set c2/"+long+" -",
			"c17 offer 1 5", "c17 offer 2 6",
			"c17 get r"+long, "c17 get r"+long+"01")
		// a connection attempt and a read while the very first SetValidPeers is in progress: the
		// table is the one before the call (nil, everybody valid) or the one after it
		emit("corpus-first-set-in-progress",
			"c17 open "+tr,
			"c17 get r01",
			"c17 sethold r01 1,5!",
			"c17 offer 1 1", "c17 get r01", "c17 get r02", "c17 offer 5 2",
			"c17 release",
			"c17 get r01", "c17 offer 2 3", "c17 offer 1 4", "c17 msg 1 5")
		emit("corpus-not-retroactive-and-dial",
			"c17 open "+tr,
			"c17 set r01 1",
			"c17 offer 1 1",
			"c17 set r01 -",
			"c17 msg 1 2",
			"c17 offer 1 3",
			"c17 dial 9",
			"c17 msg 9 4",
			"c17 drop 1",
			"c17 msg 1 5")
	}
	// ---- the accept path act by act: SetValidPeers between the arrival of the connection, the test of
	// its identity, its registration, its launch and its first message
	for _, tr := range []string{"tcp", "local"} {
		emit("corpus-accept-set-in-between",
			"c17 open "+tr,
			"c17 set r01 1",
			"c17 aconn 0", "c17 aident 0 1", // tested while a member
			"c17 set r01 -", // removed before it is registered: the test is not repeated
			"c17 areg 0", "c17 amsg 0 1", "c17 alaunch 0", "c17 amsg 0 2",
			"c17 aconn 1", "c17 aident 1 9", // tested while in no set
			"c17 set c1/02 9", // a member now: the refusal stands
			"c17 amsg 1 3",
			"c17 aconn 2", "c17 aident 2 9:1", "c17 areg 2", "c17 alaunch 2", "c17 amsg 2 4",
			"c17 aconn 3", "c17 afirst 3 5",
			"c17 aconn 4", "c17 set c1/02 -", "c17 set r03 7", "c17 aident 4 7", // connected before the set, tested after
			"c17 amsg 4 6", "c17 set r03 -", "c17 areg 4", "c17 amsg 4 7", "c17 alaunch 4", "c17 get r03",
			"c17 aconn 5", "c17 aident 5 7", "c17 offer 1 8", "c17 offer 7 9")
		// a member that re-declares itself, after it was accepted, as a peer that is in no set (and as
		// one that is in a set): what it sends stays its own
		emit("corpus-accept-redeclared-identity",
			"c17 open "+tr,
			"c17 set r01 1,2",
			"c17 aconn 0", "c17 aident 0 1", "c17 areg 0", "c17 alaunch 0", "c17 amsg 0 1",
			"c17 areident 0 9", "c17 amsg 0 2",
			"c17 areident 0 2", "c17 amsg 0 3",
			"c17 set r01 2", "c17 areident 0 1:2", "c17 amsg 0 4")
		// Router.Stop while one goroutine stands before the test's consequence (registration), one before its launch,
		// one connection is served and one has not said who it is: nothing is dispatched afterwards
		// one set, three entry points (the router, the Contexts of two services): whoever writes, everybody reads the same
		emit("corpus-set-read-across-entry-points",
			"c17 open "+tr,
			"c17 get x1/01",
			"c17 set r01 1,2", "c17 get x1/01", "c17 get x2/01",
			"c17 set r01 3", "c17 get x1/01", "c17 offer 1 1", "c17 offer 3 2",
			"c17 set x2/01 4", "c17 get x1/01", "c17 get r01", "c17 get x2/01", "c17 offer 3 3", "c17 offer 4 4",
			"c17 set x1/01 -", "c17 get x2/01", "c17 get x1/01", "c17 get r01", "c17 offer 4 5",
			"c17 set c1/01 5", "c17 get x1/01", "c17 get c1/01", "c17 get c2/01")
		stopOps := []string{
			"c17 open " + tr,
			"c17 set r01 1,2",
			"c17 aconn 0", "c17 aident 0 1", "c17 areg 0", "c17 alaunch 0", "c17 amsg 0 1", // served
			"c17 aconn 1", "c17 aident 1 2", "c17 areg 1", "c17 amsg 1 2", // before its launch, a message waiting
			"c17 aconn 2", "c17 aident 2 1", "c17 amsg 2 3", // before its registration
			"c17 aconn 3", "c17 aident 3 2", "c17 agone 3"} // before its registration, the peer gone
		if tr == "local" {
			stopOps = append(stopOps, "c17 aconn 4") // silent so far (over TCP it might still wait in the backlog)
		}
		stopOps = append(stopOps, "c17 astop",
			"c17 amsg 0 4", "c17 alaunch 1", "c17 areg 2", "c17 amsg 2 5", "c17 areg 3", "c17 set r01 1,2,3")
		if tr == "local" {
			stopOps = append(stopOps, "c17 aident 4 3", "c17 amsg 4 6", "c17 areg 4")
		}
		emit("corpus-accept-stop-in-between", append(stopOps, "c17 get r01")...)
		emit("corpus-accept-before-any-set",
			"c17 open "+tr,
			"c17 aconn 0", "c17 aconn 1",
			"c17 aident 0 3", // no set yet: everybody
			"c17 set r01 1",  // the first set while connection 0 stands before its registration
			"c17 aident 1 3",
			"c17 areg 0", "c17 alaunch 0", "c17 amsg 0 1", "c17 amsg 1 2",
			"c17 agone 0", "c17 aconn 2", "c17 agone 2", "c17 aconn 3", "c17 aident 3 1", "c17 agone 3", "c17 areg 3", "c17 alaunch 3")
	}
	for i := 0; i < b7Pick(c, 260, 6000) && !b7SearchOver(); i++ {
		tr := "local"
		if r.Intn(2) == 0 {
			tr = "tcp"
		}
		np := 3 + r.Intn(3)
		sets := []string{"r01", "c1/02", "c2/02", "r03"}[:2+r.Intn(3)]
		ops := []string{"c17 open " + tr}
		type rawc struct {
			phase  string // wait | checked | registered | running | closed
			open   bool
			queued int
		}
		var raws []*rawc
		// the generator's own copy of the table: it only decides which acts are due next
		tab, tabInit := map[string]map[int]bool{}, false
		valid := func(k int) bool {
			if !tabInit {
				return true
			}
			for _, m := range tab {
				if m[k] {
					return true
				}
			}
			return false
		}
		var heldSet string
		var heldMembers map[int]bool
		stopped := false
		randSet := func(extra int) (string, map[int]bool) {
			var ps []string
			m := map[int]bool{}
			for k := 1; k <= np; k++ {
				if r.Intn(2) == 0 {
					ps = append(ps, strconv.Itoa(k))
					m[k] = true
				}
			}
			if extra > 0 {
				ps = append(ps, fmt.Sprintf("%d!", extra))
				m[extra] = true
			}
			if len(ps) == 0 {
				return "-", m
			}
			return strings.Join(ps, ","), m
		}
		msg := 0
		for j := 0; j < 8+r.Intn(18); j++ {
			msg++
			x := r.Intn(14)
			var live []int
			for n, rc := range raws {
				if rc.phase != "closed" || (rc.open && r.Intn(3) == 0) {
					live = append(live, n)
				}
			}
			switch {
			case x < 3 && heldSet == "":
				id := sets[r.Intn(len(sets))]
				l, m := randSet(0)
				ops = append(ops, fmt.Sprintf("c17 set %s %s", id, l))
				tab[id], tabInit = m, true
			case x == 3:
				ops = append(ops, "c17 get "+sets[r.Intn(len(sets))])
			case x == 4 && heldSet == "" && r.Intn(3) == 0:
				heldSet = sets[r.Intn(len(sets))]
				var l string
				l, heldMembers = randSet(np + 1)
				ops = append(ops, fmt.Sprintf("c17 sethold %s %s", heldSet, l))
			case x == 5 && heldSet != "":
				ops = append(ops, "c17 release")
				tab[heldSet], tabInit = heldMembers, true
				heldSet = ""
			case !stopped && j >= 5 && r.Intn(9) == 0:
				// Router.Stop with the goroutines wherever they stand: the receive loops end
				if tr == "tcp" {
					// a TCP connection that has written nothing may still wait in the listener's backlog, and closing
					// the listener resets it: before the stop every connection says who it is (the answer shows that
					// the server's goroutine for it runs)
					for n, rc := range raws {
						if rc.phase == "wait" && rc.open {
							k := 1 + r.Intn(np+1)
							ops = append(ops, fmt.Sprintf("c17 aident %d %d", n, k))
							if valid(k) {
								rc.phase = "checked"
							} else {
								rc.phase = "closed"
							}
						}
					}
				}
				ops = append(ops, "c17 astop")
				stopped = true
				for _, rc := range raws {
					if rc.phase == "running" {
						rc.phase = "closed"
					}
				}
			case x < 7 || len(live) == 0:
				if len(raws) < 6 && !stopped {
					ops = append(ops, fmt.Sprintf("c17 aconn %d", len(raws)))
					raws = append(raws, &rawc{phase: "wait", open: true})
				}
			default:
				n := live[r.Intn(len(live))]
				rc := raws[n]
				switch {
				case rc.open && rc.queued == 0 && r.Intn(14) == 0:
					ops = append(ops, fmt.Sprintf("c17 agone %d", n))
					rc.open = false
					if rc.phase == "wait" || rc.phase == "running" {
						rc.phase = "closed"
					}
				case rc.phase == "wait" && rc.open && r.Intn(9) == 0:
					ops = append(ops, fmt.Sprintf("c17 afirst %d %d", n, msg))
					rc.phase = "closed"
				case rc.phase == "wait" && rc.open:
					k := 1 + r.Intn(np+1)
					id := strconv.Itoa(k)
					if r.Intn(6) == 0 {
						id = fmt.Sprintf("%d:%d", k, 1+r.Intn(np))
					}
					ops = append(ops, fmt.Sprintf("c17 aident %d %s", n, id))
					if valid(k) {
						rc.phase = "checked"
					} else {
						rc.phase = "closed"
					}
				case rc.phase == "checked" && r.Intn(2) == 0:
					ops = append(ops, fmt.Sprintf("c17 areg %d", n))
					rc.phase = "registered"
					if stopped {
						rc.phase = "closed"
					}
				case rc.phase == "registered" && r.Intn(2) == 0:
					ops = append(ops, fmt.Sprintf("c17 alaunch %d", n))
					rc.phase, rc.queued = "running", 0
					if !rc.open || stopped {
						rc.phase = "closed"
					}
				case rc.phase == "running" && rc.open && r.Intn(5) == 0:
					ops = append(ops, fmt.Sprintf("c17 areident %d %d", n, 1+r.Intn(np+1)))
				case rc.phase != "wait" && rc.open:
					ops = append(ops, fmt.Sprintf("c17 amsg %d %d", n, msg))
					if rc.phase == "checked" || rc.phase == "registered" {
						rc.queued++
					}
				}
			}
		}
		if heldSet != "" {
			ops = append(ops, "c17 release")
		}
		// let every accepted connection finish its way and say something
		for n, rc := range raws {
			if rc.phase == "checked" {
				ops = append(ops, fmt.Sprintf("c17 areg %d", n))
				rc.phase = "registered"
				if stopped {
					rc.phase = "closed"
				}
			}
			if rc.phase == "registered" {
				ops = append(ops, fmt.Sprintf("c17 alaunch %d", n))
				rc.phase = "running"
				if !rc.open || stopped {
					rc.phase = "closed"
				}
			}
			if rc.phase != "wait" && rc.open {
				msg++
				ops = append(ops, fmt.Sprintf("c17 amsg %d %d", n, msg))
			}
		}
		emit("accept-"+tr, ops...)
	}
	// ---- the dialling side act by act (c17dial.go): SetValidPeers calls, offers and accepting goroutines between the
	// connect, the registration and the launch of a connection the server opens itself
	for _, tr := range []string{"tcp", "local"} {
		emit("corpus-dial-set-in-between",
			"c17 open "+tr,
			"c17 set r01 1",
			"c17 ddial 0 9", // 9 is in no set: the router dials it all the same
			"c17 set r01 -",
			"c17 aconn 0", "c17 aident 0 9", // the same peer offering a connection is refused
			"c17 dreg 0",
			"c17 set c1/02 2",
			"c17 dlaunch 0", "c17 dmsg 0 1", "c17 msg 9 2",
			"c17 ddial 1 2", "c17 aconn 1", "c17 aident 1 2", "c17 areg 1", "c17 dreg 1", "c17 set c1/02 -", "c17 alaunch 1", "c17 dlaunch 1",
			"c17 amsg 1 3", "c17 dmsg 1 4", "c17 offer 9 5", "c17 offer 2 6",
			"c17 ddial 2 7", "c17 ddial 3 8:1", "c17 dreg 3", "c17 astop", "c17 dreg 2", "c17 dlaunch 3")
	}
	for i, nd := 0, c.Pick(12, 200); i < nd && !b7SearchOver(); i++ {
		tr := []string{"tcp", "local"}[r.Intn(2)]
		ops := []string{"c17 open " + tr}
		var ph []int // per dial: 0 connected, 1 registered, 2 running, 3 closed
		msg, stopped := 0, false
		sets := []string{"r01", "c1/02", "x2/01"}
		for j, ns := 0, 5+r.Intn(10); j < ns; j++ {
			msg++
			var cand []int
			for d, p := range ph {
				if p < 3 && !(stopped && p == 2) {
					cand = append(cand, d)
				}
			}
			switch x := r.Intn(10); {
			case x < 3:
				var l []string
				for _, k := range []int{1, 2, 3, 4, 5, 11, 12, 13, 14} {
					if r.Intn(3) == 0 {
						l = append(l, strconv.Itoa(k))
					}
				}
				ops = append(ops, "c17 set "+sets[r.Intn(len(sets))]+" "+tfJoin(l))
			case x < 5 && !stopped && len(ph) < 4:
				// a key of its own per dial: a Send towards a peer the server already has a connection with would not connect
				k := 11 + len(ph)
				id := strconv.Itoa(k)
				if r.Intn(5) == 0 {
					id += ":" + strconv.Itoa(1+r.Intn(5))
				}
				ops = append(ops, fmt.Sprintf("c17 ddial %d %s", len(ph), id))
				ph = append(ph, 0)
			case x < 8 && len(cand) > 0:
				d := cand[r.Intn(len(cand))]
				switch ph[d] {
				case 0:
					ops = append(ops, fmt.Sprintf("c17 dreg %d", d))
					ph[d] = 1
					if stopped {
						ph[d] = 3
					}
				case 1:
					ops = append(ops, fmt.Sprintf("c17 dlaunch %d", d))
					ph[d] = 2
					if stopped {
						ph[d] = 3
					}
				case 2:
					ops = append(ops, fmt.Sprintf("c17 dmsg %d %d", d, msg))
				}
			case x < 9 && !stopped:
				ops = append(ops, fmt.Sprintf("c17 offer %d %d", 1+r.Intn(6), msg))
			case !stopped && r.Intn(4) == 0:
				ops = append(ops, "c17 astop")
				stopped = true
			default:
				ops = append(ops, "c17 get "+sets[r.Intn(len(sets))])
			}
		}
		emit("dial-"+tr, ops...)
	}
	// ---- TLS listener (c17tls.go): the peer is the holder of a private key, whatever names its certificate and its
	// identity message carry.  offercert <key held> <CN> <URI|-> <name under the signature> <identity> <m>
	emit("corpus-tls-forged-certificate",
		"c17 open tls",
		"c17 offercert 9 1 9 9 1 0", // before any set: still only under a name whose key it holds
		"c17 offercert 9 9 9 9 9 1",
		"c17 set r01 1", "c17 set c1/02 2", "c17 set r03 -",
		"c17 offercert 9 1 9 9 1 2", // non-member: member's key in the CN, its own in the URI and under the signature (seeded C17r6-A)
		"c17 offercert 9 1 - 9 1 3",
		"c17 offercert 9 1 1 1 1 4", // everything names the member, the signature is made with the wrong key
		"c17 offercert 9 9 9 9 9 5", // honest non-member
		"c17 offercert 9 9 1 9 9 6", // the URI names a member: it proves nothing
		"c17 offercert 9 9 9 9 1 7", // honest certificate, the identity message claims the member's key
		"c17 offercert 1 1 1 1 1 8", // honest member
		"c17 offercert 2 2 - 2 2 9", // old-style certificate without URI
		"c17 offercert 2 2 9 2 2 10",
		"c17 offercert 1 1 1 1 2 11", // a member that claims another member's key in its identity message
		"c17 offer 1 12", "c17 offer 9 13", "c17 offer 2:9 14", "c17 msg 1 15",
		"c17 dial 9", "c17 get r01", "c17 get c1/02")
	for i, nt := 0, c.Pick(8, 80); i < nt && !b7SearchOver(); i++ {
		ops := []string{"c17 open tls"}
		msg := 0
		pick := func() int { return 1 + r.Intn(4) }
		for j := r.Intn(3); j > 0; j-- {
			msg++
			ops = append(ops, fmt.Sprintf("c17 offercert %d %d %d %d %d %d", pick(), pick(), pick(), pick(), pick(), msg))
		}
		sets := []string{"r01", "c1/02", "r03"}
		for j, ns := 0, 4+r.Intn(8); j < ns; j++ {
			msg++
			switch x := r.Intn(10); {
			case x < 2:
				var l []string
				for k := 1; k <= 4; k++ {
					if r.Intn(3) == 0 {
						l = append(l, strconv.Itoa(k))
					}
				}
				ops = append(ops, "c17 set "+sets[r.Intn(len(sets))]+" "+tfJoin(l))
			case x < 3:
				ops = append(ops, "c17 get "+sets[r.Intn(len(sets))])
			case x < 5:
				ops = append(ops, fmt.Sprintf("c17 offer %d %d", pick(), msg))
			case x < 7:
				// honest certificate (with or without URI)
				k, u := pick(), "-"
				if r.Intn(2) == 0 {
					u = strconv.Itoa(k)
				}
				ops = append(ops, fmt.Sprintf("c17 offercert %d %d %s %d %d %d", k, k, u, k, k, msg))
			case x < 9:
				// the holder of a puts b's key where the identity is compared and its own where the signature is checked
				a, b := pick(), pick()
				u := strconv.Itoa([]int{a, b}[r.Intn(2)])
				if r.Intn(3) == 0 {
					u = "-"
				}
				ops = append(ops, fmt.Sprintf("c17 offercert %d %d %s %d %d %d", a, b, u, []int{a, b}[r.Intn(2)], b, msg))
			default:
				u := strconv.Itoa(pick())
				ops = append(ops, fmt.Sprintf("c17 offercert %d %d %s %d %d %d", pick(), pick(), u, pick(), pick(), msg))
			}
		}
		emit("tls-histories", ops...)
	}
	// ---- random histories over 3..5 set ids (router-level and context-level), 4..7 peers
	n := b7Pick(c, 1200, 20000)
	for i := 0; i < n && !b7SearchOver(); i++ {
		tr := "local"
		if r.Intn(2) == 0 {
			tr = "tcp"
		}
		nsets := 3 + r.Intn(3)
		npeers := 4 + r.Intn(4)
		var sets []string
		for j := 0; j < nsets; j++ {
			d := fmt.Sprintf("%02x", 1+r.Intn(nsets)) // the same bytes may name sets of both services and of the router
			switch r.Intn(4) {
			case 0: // 32 bytes and more, as a skipchain id would be
				d = strings.Repeat(d, 32+r.Intn(3))
			case 1: // long, and only the tail tells it from its siblings
				d = strings.Repeat("5a", 32) + d
			}
			if r.Intn(8) == 0 {
				d += "00" // a router-level id that collides with its unpadded twin
			}
			switch r.Intn(3) {
			case 0:
				sets = append(sets, "r"+d)
			case 1:
				sets = append(sets, "c1/"+d)
			default:
				sets = append(sets, "c2/"+d)
			}
		}
		ident := func(k int) string {
			switch r.Intn(6) {
			case 0:
				return fmt.Sprintf("%d:%d", k, 1+r.Intn(npeers)) // another peer's ID field
			case 1:
				return fmt.Sprintf("%d:0", k)
			}
			return strconv.Itoa(k)
		}
		// a router-level set is written and read through the router or through either service's Context
		via := func(tok string) string {
			if tok[0] == 'r' && r.Intn(2) == 0 {
				return fmt.Sprintf("x%d/%s", 1+r.Intn(2), tok[1:])
			}
			return tok
		}
		ops := []string{"c17 open " + tr}
		msg := 0
		accepted := map[int]bool{}
		for j := 0; j < 6+r.Intn(14); j++ {
			msg++
			switch x := r.Intn(12); {
			case x < 3:
				var ps []string
				for k := 1; k <= npeers; k++ {
					if r.Intn(3) == 0 {
						ps = append(ps, ident(k))
					}
				}
				if r.Intn(5) == 0 {
					ps = nil // an empty set
				}
				l := "-"
				if len(ps) > 0 {
					l = strings.Join(ps, ",")
				}
				ops = append(ops, fmt.Sprintf("c17 set %s %s", via(sets[r.Intn(nsets)]), l))
			case x < 5:
				ops = append(ops, "c17 get "+via(sets[r.Intn(nsets)]))
			case x < 9:
				k := 1 + r.Intn(npeers)
				ops = append(ops, fmt.Sprintf("c17 offer %s %d", ident(k), msg))
				accepted[k] = true
			case x < 10:
				k := 1 + r.Intn(npeers)
				if accepted[k] {
					ops = append(ops, fmt.Sprintf("c17 msg %d %d", k, msg))
				}
			case x < 11:
				k := 1 + r.Intn(npeers)
				ops = append(ops, fmt.Sprintf("c17 drop %d", k))
				accepted[k] = false
			default:
				k := 1 + r.Intn(npeers)
				ops = append(ops, fmt.Sprintf("c17 dial %s", ident(k)))
				accepted[k] = true
			}
		}
		emit("history-"+tr, ops...)
	}
	// ---- histories with a SetValidPeers call held in the middle (first call or a replacement),
	// offers and reads in between
	for i := 0; i < b7Pick(c, 60, 1200) && !b7SearchOver(); i++ {
		tr := "local"
		if r.Intn(2) == 0 {
			tr = "tcp"
		}
		np := 4 + r.Intn(3)
		sets := []string{"r01", "c1/02", "c2/02", "r03"}
		members := func() string {
			var ps []string
			for k := 1; k <= np; k++ {
				if r.Intn(2) == 0 {
					ps = append(ps, strconv.Itoa(k))
				}
			}
			return strings.Join(ps, ",")
		}
		ops := []string{"c17 open " + tr}
		msg := 0
		for j := r.Intn(3); j > 0; j-- { // sometimes the held call is the very first one
			l := members()
			if l == "" {
				l = "-"
			}
			ops = append(ops, fmt.Sprintf("c17 set %s %s", sets[r.Intn(len(sets))], l))
		}
		held := sets[r.Intn(len(sets))]
		l := members()
		gated := fmt.Sprintf("%d!", np+1)
		if l != "" {
			gated = l + "," + gated
		}
		ops = append(ops, fmt.Sprintf("c17 sethold %s %s", held, gated))
		for j := 2 + r.Intn(5); j > 0; j-- {
			msg++
			if r.Intn(3) == 0 {
				ops = append(ops, "c17 get "+sets[r.Intn(len(sets))])
			} else {
				ops = append(ops, fmt.Sprintf("c17 offer %d %d", 1+r.Intn(np+1), msg))
			}
		}
		ops = append(ops, "c17 release", "c17 get "+held)
		for j := 1 + r.Intn(3); j > 0; j-- {
			msg++
			ops = append(ops, fmt.Sprintf("c17 offer %d %d", 1+r.Intn(np+1), msg))
		}
		emit("hold-"+tr, ops...)
	}
}

func init() {
	h.RegisterProp(h.Prop{Name: "c17", Gen: c17gen, Exec: c17exec, Workers: 6})
}
