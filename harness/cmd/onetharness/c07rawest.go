package main

import (
	"encoding/binary"
	"fmt"
	"math/rand"
	"net"
	"os"
	"time"

	"github.com/google/uuid"
	"go.dedis.ch/onet/v3"
	"go.dedis.ch/onet/v3/network"
	"onetverif/harness/fix"
	"onetverif/harness/h"
)

// c07rawEst: arbitrary bytes on an ESTABLISHED connection. The peer does the identity exchange of a member by hand on a
// raw TCP socket and then writes frames whose bodies are the serialised forms of every message kind the overlay
// registers — protocol message, tree request / response, deprecated tree and roster messages, config message — with
// bytes flipped, cut off, or extended, and frames of random bytes; in between untouched ones. The server must survive,
// hold no lock, and serve a real run afterwards (also from the member whose identity the peer used).
func c07rawEst(c *h.Ctx, cs *h.Case, seed int64) {
	cs.NoModel = true
	r := rand.New(rand.NewSource(seed))
	cl := fix.NewCluster(3, true)
	defer cl.Close()
	fix.ResetRecs()
	defer fix.DoneAll()
	tree := cl.Roster.GenerateBinaryTree()
	ov := cl.Overlay(1)
	ov.RegisterTree(tree)
	other, _ := fix.BuildTree(cl.Roster, []int{-1, 0}, []int{1, 2}) // a tree the server does not know
	var me *onet.TreeNode
	for _, n := range tree.List() {
		if n.ServerIdentity.Equal(cl.SI(1)) {
			me = n
		}
	}
	tokTo := fix.TokenFor(tree, me, uuid.New())
	tokFrom := fix.TokenFor(tree, tree.Root, uuid.UUID(tokTo.RoundID))
	unk := fix.TokenFor(other, other.Root, uuid.New())
	m3, _ := network.Marshal(&fix.M3{V: 5})
	m1, _ := network.Marshal(&fix.M1{V: 6})
	base := []interface{}{
		&onet.ProtocolMsg{From: tokFrom, To: tokTo, MsgSlice: m3, MsgType: network.MessageType(&fix.M3{})},
		&onet.ProtocolMsg{From: tokFrom, To: tokTo, MsgSlice: m1, MsgType: network.MessageType(&fix.M1{})},
		&onet.ProtocolMsg{From: tokFrom, To: unk, MsgSlice: m3, MsgType: network.MessageType(&fix.M3{})},
		&onet.ProtocolMsg{To: tokTo, MsgSlice: m3},
		&onet.ProtocolMsg{From: tokFrom, MsgSlice: m3, MsgType: network.MessageType(&fix.M3{})},
		&onet.ProtocolMsg{From: tokFrom},
		&onet.ProtocolMsg{MsgSlice: m1},
		&onet.RequestTree{TreeID: tree.ID, Version: 1},
		&onet.RequestTree{TreeID: other.ID},
		&onet.ResponseTree{TreeMarshal: other.MakeTreeMarshal(), Roster: other.Roster},
		&onet.ResponseTree{TreeMarshal: tree.MakeTreeMarshal()},
		&onet.ResponseTree{},
		other.MakeTreeMarshal(),
		&onet.TreeMarshal{TreeID: other.ID, RosterID: other.Roster.ID},
		&onet.RequestRoster{RosterID: tree.Roster.ID},
		&onet.RequestRoster{},
		other.Roster,
		&onet.Roster{ID: other.Roster.ID},
		&onet.ConfigMsg{Config: onet.GenericConfig{Data: []byte("cfg")}, Dest: tokTo.ID()},
		&onet.ConfigMsg{},
	}
	var bodies [][]byte
	for _, m := range base {
		b, err := network.Marshal(m)
		if err != nil {
			cs.Fail("setup", fmt.Sprintf("cannot serialise %T: %v", m, err))
			return
		}
		bodies = append(bodies, b)
	}
	frame := func(conn net.Conn, body []byte, lie int) error {
		hdr := make([]byte, 4)
		binary.BigEndian.PutUint32(hdr, uint32(len(body)+lie))
		conn.SetWriteDeadline(time.Now().Add(2 * time.Second))
		_, err := conn.Write(append(hdr, body...))
		return err
	}
	addr := cl.SI(1).Address.NetworkAddress()
	idBody, err := network.Marshal(cl.SI(0))
	if err != nil {
		cs.Fail("setup", err.Error())
		return
	}
	written := 0
	for round := 0; round < 10; round++ {
		conn, err := net.DialTimeout("tcp", addr, 2*time.Second)
		if err != nil {
			cs.Fail("listener-gone", err.Error())
			return
		}
		if err := frame(conn, idBody, 0); err != nil {
			conn.Close()
			continue
		}
		for i := 0; i < 8; i++ {
			b := append([]byte{}, bodies[r.Intn(len(bodies))]...)
			lie := 0
			how := r.Intn(8)
			if i < 3 {
				how = 7 // the connection starts with well-formed messages (absent parts included): an undecodable frame ends it
			}
			switch how {
			case 0, 1: // a few bytes flipped (the type id in the first 16 bytes now and then)
				for k := 0; k < 1+r.Intn(3) && len(b) > 0; k++ {
					b[r.Intn(len(b))] ^= byte(1 << uint(r.Intn(8)))
				}
			case 2: // cut off
				b = b[:r.Intn(len(b)+1)]
			case 3: // something behind it
				ext := make([]byte, 1+r.Intn(40))
				r.Read(ext)
				b = append(b, ext...)
			case 4: // random bytes behind a registered type id
				ext := make([]byte, r.Intn(120))
				r.Read(ext)
				if len(b) > 16 {
					b = b[:16]
				}
				b = append(b, ext...)
			case 5: // random bytes
				b = make([]byte, r.Intn(100))
				r.Read(b)
			case 6: // a zero-length frame
				b = nil
			default: // untouched
			}
			if r.Intn(25) == 0 {
				lie = 1 + r.Intn(3) // the prefix announces more than follows at once; the rest is the next frame's head
			}
			if err := frame(conn, b, lie); err != nil {
				break // the server may have closed the connection on an undecodable frame
			}
			written++
			if r.Intn(3) == 0 {
				time.Sleep(time.Duration(r.Intn(800)) * time.Microsecond)
			}
		}
		if r.Intn(2) == 0 {
			time.Sleep(3 * time.Millisecond)
		}
		conn.Close()
	}
	c.Count(fmt.Sprintf("rawest frames=%d", written/10*10))
	if os.Getenv("B7B_DEBUG") != "" {
		fmt.Fprintf(os.Stderr, "B7B written=%d rx=%d\n", written, cl.Servers[1].MsgRx())
	}
	// at rest: no lock held
	for dl := time.Now().Add(5 * time.Second); time.Now().Before(dl) && cl.Servers[1].VerifRoutines() > 0; time.Sleep(time.Millisecond) {
	}
	if held := ov.VerifTryLocks(); len(held) > 0 {
		cs.Fail("lock-held:"+fmt.Sprint(held), fmt.Sprintf("after the mutated frames the server holds %v", held))
	}
	// canary: a real run started by the member whose identity the peer used, over the routers
	pi, err := cl.L.CreateProtocol(fix.ProtoName, tree)
	if err != nil {
		cs.Fail("canary-run", err.Error())
	} else {
		rec := fix.RecOf(pi.Token())
		if err := rec.Tni.SendTo(me, &fix.M3{V: 1}); err != nil {
			cs.Fail("canary-run", err.Error())
		}
		tok := pi.Token().Clone()
		tok.TreeNodeID = me.ID
		ok := false
		for dl := time.Now().Add(5 * time.Second); time.Now().Before(dl) && !ok; time.Sleep(time.Millisecond) {
			if rc := fix.RecOf(tok); rc != nil {
				for _, d := range rc.Drain() {
					if d.Ty == 3 {
						ok = true
					}
				}
			}
		}
		if !ok {
			cs.Fail("canary-run", "after the mutated frames on an established connection a real run over TCP is not served")
		}
	}
	if t := ov.VerifTree(tree.ID); t == nil || len(t.List()) != len(tree.List()) {
		cs.Fail("known-tree-replaced", "the tree the server knew was removed or replaced")
	}
	cs.Impl = []string{"ok"}
	cs.Outcome = "rawbytes-established survived"
	if os.Getenv("B7B_DEBUG") != "" {
		cs.Impl = []string{fmt.Sprintf("dbg written=%d rx=%d", written, cl.Servers[1].MsgRx())}
	}
}
