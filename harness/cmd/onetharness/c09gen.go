package main

import (
	"fmt"
	"os"
	"sort"
	"strconv"
	"strings"
	"time"

	"onetverif/harness/h"
)

// c09searching: the check runs this harness a second and third time ("widened search") when a proof
// obligation is broken and the first run found no failing input. Those runs are recognised by the
// name of their output file; they get a wall-clock budget so that a check on a broken tree ends
// within minutes whatever it finds.
func c09searching() bool {
	for _, a := range os.Args {
		if strings.HasPrefix(a, "out=") && strings.Contains(a, "_search") {
			return true
		}
	}
	return false
}

const c09searchBudget = 100 * time.Second

type c09pending struct {
	cs  *h.Case
	key float64
}

func c09gen(c *h.Ctx, yield func(*h.Case)) {
	r := c.Rng
	start := time.Now()
	searching := c09searching()
	// cases are generated class by class and run interleaved, in proportion: any prefix of the run
	// (a search that runs out of budget, a run cut short by failures) has seen every class
	queues := map[string][]*h.Case{}
	var order []string
	emitTo := func(q, class string, ops ...string) {
		if _, ok := queues[q]; !ok {
			order = append(order, q)
		}
		queues[q] = append(queues[q], &h.Case{Class: class, Ops: ops})
	}
	emit := func(class string, ops ...string) { emitTo(class, class, ops...) }
	entriesSingle := []string{"router", "raw", "sendto", "parent"}
	entriesMulti := []string{"children", "parallel", "multicast", "broadcast"}
	for _, tr := range []string{"tcp", "local", "tls"} {
		// corpus: the SendRaw witness (fixed in /repo) and every entry point towards a peer
		// that never listened
		emitTo("corpus", "corpus-sendraw", "c09 open "+tr+" 0", "c09 send router 1 1", "c09 send raw 1 1")
		emitTo("corpus", "corpus-root-has-no-parent", "c09 open "+tr+" 0,1", "c09 send parent - 1", "c09 send children - 1",
			"c09 send parent 1 1", "c09 send broadcast 1,0 1", "c09 send parallel - 1", "c09 send router 1 0", "c09 selfsend 2", "c09 selfsend 0",
			"c09 selfsend 3 1", "c09 selfsend 1 0", "c09 selfsend 4 3", "c09 selfsend 2", "c09 down 1", "c09 selfsend 3")
		ops := []string{"c09 open " + tr + " 0,2"}
		for _, e := range entriesSingle {
			ops = append(ops, "c09 send "+e+" 1 1")
		}
		for _, e := range entriesMulti {
			ops = append(ops, "c09 send "+e+" 1,2 1", "c09 send "+e+" 2,1 1")
		}
		emitTo("corpus", "corpus-every-entry-dead-peer", ops...)
		// wide fan-outs with many dead children (round 7, seeded C09r7-A: a bounded number of sends in flight whose
		// slot is not given back on error): every multi-destination entry point returns, one error per dead destination
		emitTo("corpus", "corpus-wide-fanout-dead-children",
			"c09 open "+tr+" 0,3",
			"c09 send parallel 1,2,3,4,5,6,7,8,9,10 1",
			"c09 send multicast 10,9,8,7,6,5,4,3,2,1,0 1",
			"c09 send broadcast 1,2,4,5,6,7,8,9,10,11,3 1",
			"c09 send children 3,0,1,2,4,5,6,7,8,9 1",
			"c09 send parallel 3,0 1")
		for i, nw := 0, c.Pick(2, 24); i < nw; i++ {
			// 9..11 children, 0..3 of them listen
			nd := 9 + r.Intn(3)
			perm := r.Perm(nd)
			upN := r.Intn(4)
			ups := []string{"0"}
			var ds []string
			for k, x := range perm {
				if x == 0 {
					// peer 0 is the second survivor: always up
					ds = append(ds, "0")
					continue
				}
				if k < upN {
					ups = append(ups, strconv.Itoa(x))
				}
				ds = append(ds, strconv.Itoa(x))
			}
			e := []string{"parallel", "multicast", "broadcast", "parallel"}[r.Intn(4)]
			emitTo("wide-fanout-"+tr, "wide-fanout-"+tr, "c09 open "+tr+" "+strings.Join(ups, ","),
				"c09 send "+e+" "+strings.Join(ds, ",")+" 1", "c09 send parallel "+strings.Join(ds, ",")+" 1")
		}
		emitTo("corpus", "corpus-fail-detect-recover",
			"c09 open "+tr+" 0,1,2", "c09 handler 10", "c09 handler 11",
			"c09 send router 1 2", "c09 send sendto 2 1", "c09 send sendto 0 1",
			"c09 conns 1", "c09 down 1", "c09 conns 1", "c09 send router 1 1", "c09 send children 2,1,0 1", "c09 send sendto 0 1",
			"c09 up 1", "c09 send raw 1 1", "c09 send router 1 3", "c09 conns 1", "c09 conns 2", "c09 conns 0",
			"c09 down 1", "c09 down 2", "c09 send broadcast 0,1,2 1", "c09 up 2", "c09 send parallel 1,2,0 1")
		// a handler that uses the router it is registered with (witness of the seeded change C09r3-A)
		emitTo("corpus", "corpus-handler-uses-router",
			"c09 open "+tr+" 0,1,2", "c09 rhandler 10 2", "c09 handler 11", "c09 send router 1 1", "c09 down 1",
			"c09 conns 1", "c09 send router 2 1", "c09 send raw 1 1", "c09 up 1", "c09 send sendto 1 1", "c09 conns 1", "c09 conns 2")
		// a long-lived instance: configuration once per node, closing
		emitTo("corpus", "corpus-instance-state",
			"c09 open "+tr+" 0,1,3", "c09 tni 1 - 1,2,3", "c09 tcfg 1", "c09 tcfg 1", "c09 tsend 1 sendto 1", "c09 tsend 1 sendto 1",
			"c09 tsend 1 children -", "c09 tsend 1 parallel -", "c09 tsend 1 sendto -", "c09 tsend 1 parent -", "c09 tsend 1 multicast 3,2,3",
			"c09 up 2", "c09 tsend 1 broadcast -", "c09 tdone 1", "c09 tsend 1 sendto 1", "c09 tsend 1 children -", "c09 tsend 1 broadcast -",
			"c09 tni 2 3 1,2", "c09 tsend 2 parent -", "c09 tsend 2 broadcast -", "c09 down 3", "c09 tsend 2 parent -", "c09 tsend 2 broadcast -")
	}
	// the frozen peer on TLS (witness of the seeded change C09r3-B)
	emitTo("corpus", "corpus-frozen-tls", "c09 open tls 0,1", "c09 handler 10", "c09 send router 1 1", "c09 hang 1", "c09 conns 1",
		"c09 send router 1 1", "c09 up 1", "c09 send raw 1 1", "c09 conns 1")
	pickTr := func() string {
		switch x := r.Intn(10); {
		case x < 4:
			return "local"
		case x < 8:
			return "tcp"
		}
		return "tls"
	}
	// random fault sequences
	n := c.Pick(260, 2200)
	for i := 0; i < n; i++ {
		tr := pickTr()
		nv := 2 + r.Intn(3)
		up := map[int]bool{}
		ups := []int{0}
		for v := 1; v <= nv; v++ {
			if r.Intn(4) > 0 {
				up[v] = true
				ups = append(ups, v)
			}
		}
		ops := []string{fmt.Sprintf("c09 open %s %s", tr, h.Ints(ups))}
		for j := r.Intn(3); j > 0; j-- {
			ops = append(ops, fmt.Sprintf("c09 handler %d", 10+len(ops)))
		}
		// dead-peer sends are slow on the in-memory transport (25 attempts, 20 ms apart): keep the
		// number of them per case small
		dead := 0
		for j := 0; j < 5+r.Intn(10); j++ {
			switch x := r.Intn(10); {
			case x < 6:
				var e string
				var dests []int
				if r.Intn(2) == 0 {
					e = entriesSingle[r.Intn(len(entriesSingle))]
					dests = []int{1 + r.Intn(nv)}
					if e == "sendto" && r.Intn(4) == 0 {
						dests = []int{0}
					}
				} else {
					e = entriesMulti[r.Intn(len(entriesMulti))]
					for _, v := range r.Perm(nv + 1) {
						if r.Intn(2) == 0 {
							dests = append(dests, v)
						}
					}
					if len(dests) == 0 {
						dests = []int{1}
					}
				}
				nd := 0
				for _, d := range dests {
					if d != 0 && !up[d] {
						nd++
					}
				}
				if dead+nd > 4 {
					continue
				}
				dead += nd
				k := 1
				if e == "router" {
					k = 1 + r.Intn(3)
				}
				ops = append(ops, fmt.Sprintf("c09 send %s %s %d", e, h.Ints(dests), k))
			case x < 8:
				v := 1 + r.Intn(nv)
				if up[v] {
					ops = append(ops, fmt.Sprintf("c09 down %d", v))
					up[v] = false
					if r.Intn(2) == 0 {
						ops = append(ops, fmt.Sprintf("c09 conns %d", v))
					}
				}
			default:
				v := 1 + r.Intn(nv)
				if !up[v] {
					ops = append(ops, fmt.Sprintf("c09 up %d", v))
					up[v] = true
				}
			}
		}
		if r.Intn(12) == 0 {
			// lines neither side accepts
			ops = append(ops, []string{"c09 send router 1,2 1", "c09 send sendto 1 2", "c09 send parent 1,2 1", "c09 send children 1 0",
				"c09 tsend 9 children -", "c09 rhandler x 1", "c09 send bogus 1 1", "c09 tni 1 1,2 -", "c09 hang"}[r.Intn(9)])
		}
		emit("faults-"+tr, ops...)
	}
	// one class per send entry point: the entry point is called again and again while its
	// destinations fail and come back, and (tree-node entries) while the instance's own state
	// changes: configuration set, configuration handed on, instance closing
	for i := 0; i < c.Pick(40, 480); i++ {
		e := append(append([]string{}, entriesSingle...), entriesMulti...)[i%8]
		tr := pickTr()
		nv := 3
		up := map[int]bool{}
		ups := []int{0}
		for v := 1; v <= nv; v++ {
			if r.Intn(3) > 0 {
				up[v] = true
				ups = append(ups, v)
			}
		}
		ops := []string{fmt.Sprintf("c09 open %s %s", tr, h.Ints(ups)), "c09 handler 10"}
		dead := 0
		flip := func() {
			v := 1 + r.Intn(nv)
			if up[v] {
				ops = append(ops, fmt.Sprintf("c09 down %d", v))
			} else {
				ops = append(ops, fmt.Sprintf("c09 up %d", v))
			}
			up[v] = !up[v]
		}
		if e == "router" || e == "raw" {
			for j := 0; j < 6+r.Intn(6); j++ {
				if r.Intn(3) == 0 {
					flip()
					continue
				}
				d := 1 + r.Intn(nv)
				if !up[d] {
					if dead >= 3 {
						continue
					}
					dead++
				}
				k := 1
				if e == "router" {
					k = r.Intn(4) // 0: "need to send at least one message"
				}
				ops = append(ops, fmt.Sprintf("c09 send %s %d %d", e, d, k))
			}
			if e == "router" {
				if r.Intn(3) == 0 {
					nn := 1 + r.Intn(5)
					ops = append(ops, fmt.Sprintf("c09 selfsend %d %d", nn, r.Intn(nn)))
				} else {
					ops = append(ops, fmt.Sprintf("c09 selfsend %d", r.Intn(3)))
				}
			}
			emit("entry-"+e+"-"+tr, ops...)
			continue
		}
		// the instance: S below a parent (for "parent", sometimes otherwise) or S as the root
		par := "-"
		kids := []int{1, 2, 3}
		if e == "parent" || r.Intn(4) == 0 {
			par = "3"
			kids = []int{1, 2}
			if e == "parent" && r.Intn(3) == 0 {
				par, kids = "-", []int{1, 2, 3} // the root has no parent
			}
		}
		r.Shuffle(len(kids), func(a, b int) { kids[a], kids[b] = kids[b], kids[a] })
		ops = append(ops, fmt.Sprintf("c09 tni 1 %s %s", par, h.Ints(kids)))
		cfg, closing := false, false
		arg := func(en string) string {
			switch en {
			case "sendto":
				if r.Intn(8) == 0 {
					return "-"
				}
				return strconv.Itoa(kids[r.Intn(len(kids))])
			case "multicast":
				var ds []int
				for _, k := range kids {
					if r.Intn(3) > 0 {
						ds = append(ds, k)
					}
				}
				if r.Intn(4) == 0 && len(ds) > 0 {
					ds = append(ds, ds[0]) // the same node twice
				}
				return h.Ints(ds)
			}
			return "-"
		}
		for j := 0; j < 7+r.Intn(7); j++ {
			switch x := r.Intn(12); {
			case x < 6:
				en := e
				if r.Intn(4) == 0 {
					en = append(append([]string{}, entriesSingle[2:]...), entriesMulti...)[r.Intn(6)]
				}
				// how many sends towards dead peers this costs at most
				nd := 0
				for v := 1; v <= nv; v++ {
					if !up[v] {
						nd++
					}
				}
				if !closing && dead+nd > 4 {
					flip()
					continue
				}
				if !closing {
					dead += nd
				}
				ops = append(ops, fmt.Sprintf("c09 tsend 1 %s %s", en, arg(en)))
			case x < 8:
				flip()
			case x < 10:
				ops = append(ops, "c09 tcfg 1")
				cfg = true
			case x == 10 && j > 3:
				ops = append(ops, "c09 tdone 1")
				closing = true
			}
		}
		_ = cfg
		ops = append(ops, fmt.Sprintf("c09 tsend 1 %s %s", e, arg(e)))
		emit("entry-"+e+"-"+tr, ops...)
	}
	// error handlers that use the router they are registered with: they must come back, their
	// notices must arrive, the survivor must go on sending afterwards
	for i := 0; i < c.Pick(14, 140); i++ {
		tr := pickTr()
		ops := []string{"c09 open " + tr + " 0,1,2,3"}
		if r.Intn(2) == 0 {
			ops = append(ops, "c09 handler 9")
		}
		ops = append(ops, "c09 rhandler 10 2")
		if r.Intn(2) == 0 {
			ops = append(ops, "c09 rhandler 11 3")
		}
		if r.Intn(3) == 0 {
			ops = append(ops, "c09 send router 2 1") // the notified peer is known already
		}
		e := []string{"router", "raw", "sendto", "parent"}[r.Intn(4)]
		ops = append(ops, "c09 send "+e+" 1 1", "c09 down 1", "c09 conns 1", "c09 conns 2",
			"c09 send "+[]string{"router", "raw", "sendto"}[r.Intn(3)]+" 2 1")
		if r.Intn(2) == 0 {
			ops = append(ops, "c09 send router 1 1") // towards the lost peer: an error, in time
		}
		if r.Intn(2) == 0 {
			ops = append(ops, "c09 up 1", "c09 send router 1 2", "c09 down 1", "c09 conns 1")
		}
		emit("reentrant-"+tr, ops...)
	}
	// failures in progress must not hold healthy traffic back: concurrent sends towards dead peers
	// (whose entries are gone from the table, so they dial) and a first contact with a healthy peer
	for i := 0; i < c.Pick(16, 160); i++ {
		tr := "local"
		if r.Intn(4) == 0 {
			tr = "tcp" // results only; the doomed dials are too short on loopback to order anything
		}
		nd := 1 + r.Intn(3)
		ups := []int{0, nd + 1}
		var deads []int
		for d := 1; d <= nd; d++ {
			deads = append(deads, d)
		}
		ops := []string{fmt.Sprintf("c09 open %s %s", tr, h.Ints(ups))}
		if r.Intn(2) == 0 {
			// the dead ones were alive and used once: their entries were reported and removed
			ops[0] = fmt.Sprintf("c09 open %s %s", tr, h.Ints(append([]int{0}, append(append([]int{}, deads...), nd+1)...)))
			ops = append(ops, "c09 handler 10")
			for _, d := range deads {
				ops = append(ops, fmt.Sprintf("c09 send router %d 1", d))
			}
			for _, d := range deads {
				ops = append(ops, fmt.Sprintf("c09 down %d", d))
			}
		}
		e := []string{"router", "raw", "sendto"}[r.Intn(3)]
		ops = append(ops, fmt.Sprintf("c09 par %s %s %d", e, h.Ints(deads), nd+1), fmt.Sprintf("c09 conns %d", nd+1),
			fmt.Sprintf("c09 send router %d 1", nd+1))
		emit("concurrent-"+tr, ops...)
	}
	// the same at the overlay: a tree request towards a dead peer must not stall the handling of
	// other runs' messages
	for i := 0; i < c.Pick(8, 80); i++ {
		emit("orphan-local", "c09 open local 0", fmt.Sprintf("c09 orphan %d %d", 1+r.Intn(3), 1+r.Intn(4)), "c09 send sendto 0 1")
	}
	// a peer that goes silent without closing (power loss, partition): only the read time-out of
	// the survivor's connection reveals it; then handlers, clean table, errors, recovery
	for i := 0; i < c.Pick(8, 60); i++ {
		ops := []string{"c09 open tcp 0,1,2", "c09 handler 10"}
		if r.Intn(2) == 0 {
			ops = append(ops, "c09 handler 11")
		}
		e := []string{"router", "raw", "sendto", "parent"}[r.Intn(4)]
		ops = append(ops, "c09 send "+e+" 1 1", "c09 freeze 1", "c09 conns 1",
			"c09 send "+[]string{"router", "raw", "sendto", "children"}[r.Intn(4)]+" 1 1")
		if r.Intn(2) == 0 {
			ops = append(ops, "c09 up 1", "c09 send router 1 "+strconv.Itoa(1+r.Intn(2)), "c09 conns 1")
		}
		emit("silent-tcp", ops...)
	}
	// a peer whose process stops answering while its address keeps accepting connections (TLS: the
	// handshake is never answered, every dial attempt ends at the dial time-out): sends return an
	// error within the configured time-outs, through every entry point; the peer comes back
	for i := 0; i < c.Pick(6, 48); i++ {
		ops := []string{"c09 open tls 0,1,2", "c09 handler 10"}
		e := []string{"router", "raw", "sendto", "parent"}[r.Intn(4)]
		if r.Intn(3) > 0 {
			ops = append(ops, "c09 send "+e+" 1 1")
		}
		ops = append(ops, "c09 hang 1", "c09 conns 1",
			"c09 send "+[]string{"router", "raw", "sendto", "parent", "children", "multicast"}[r.Intn(6)]+" 1 1")
		if r.Intn(3) == 0 {
			ops = append(ops, "c09 send broadcast 2,1 1")
		}
		ops = append(ops, "c09 up 1", "c09 send "+[]string{"router", "raw", "sendto"}[r.Intn(3)]+" 1 1", "c09 conns 1")
		emit("frozen-tls", ops...)
	}
	// the moment of tree propagation: the sender of the first message of a run dies before the
	// survivor can ask it for the tree; the request fails; the sender restarts and sends again over
	// the same tree: the survivor has to ask again, and everything parked has to be handled
	for i := 0; i < c.Pick(10, 100); i++ {
		t := 1 + r.Intn(5)
		ops := []string{"c09 open tcp 0", "c09 speer 1", "c09 handler 10"}
		if r.Intn(2) == 0 {
			ops = append(ops, "c09 send router 1 1")
		}
		if r.Intn(4) == 0 {
			// the survivor knows the tree already: nothing has to be asked for
			ops = append(ops, fmt.Sprintf("c09 treesend %d 1", t))
		}
		ops = append(ops, "c09 down 1")
		for k := 1 + r.Intn(2); k > 0; k-- {
			ops = append(ops, fmt.Sprintf("c09 orphanmsg %d 1", t))
		}
		if r.Intn(3) == 0 {
			ops = append(ops, "c09 send raw 1 1") // towards the dead sender: an error
		}
		ops = append(ops, "c09 up 1", fmt.Sprintf("c09 treesend %d 1", t))
		if r.Intn(2) == 0 {
			ops = append(ops, fmt.Sprintf("c09 treesend %d 1", t), "c09 conns 1")
		}
		if r.Intn(3) == 0 {
			ops = append(ops, "c09 down 1", fmt.Sprintf("c09 orphanmsg %d 1", t), "c09 conns 1")
		}
		emit("treereq-tcp", ops...)
	}
	// in-memory transport: the survivor's sends wait for room in the queues of a busy peer when that
	// peer shuts down
	for i := 0; i < c.Pick(6, 60); i++ {
		ops := []string{"c09 open local 0,1,2", "c09 handler 10"}
		if r.Intn(2) == 0 {
			ops = append(ops, "c09 send router 1 1")
		}
		// two out of three: more messages than the two queues of the connection hold, so that some
		// senders wait inside the transport; else: a backlog that just fits (the stopping router then
		// closes a connection whose queues are full — the dead-lock fixed by /repo 7764c04)
		fill, snd := 360+r.Intn(30), 44+r.Intn(20)
		if i%3 == 2 {
			fill, snd = 300+r.Intn(60), 8+r.Intn(16)
		}
		ops = append(ops, fmt.Sprintf("c09 backlog 1 %d %d", fill, snd), "c09 conns 1",
			"c09 send router 2 1", "c09 send router 1 1", "c09 up 1", "c09 send router 1 2", "c09 conns 1")
		emit("backlog-local", ops...)
	}
	// stale entries on the in-memory transport (a write on them fails deterministically): the
	// survivor's receive loops are paused, a victim it is connected to dies and comes back, the
	// next sends must reconnect — once per message — and deliver
	for i := 0; i < c.Pick(12, 150); i++ {
		nm := 1 + r.Intn(3)
		ops := []string{"c09 open local 0,1,2", "c09 handler 10",
			fmt.Sprintf("c09 send router 1 %d", 1+r.Intn(2)), "c09 send sendto 2 1", "c09 pause", "c09 kill 1"}
		if r.Intn(2) == 0 {
			ops = append(ops, "c09 send raw 1 1", "c09 conns 1")
		}
		ops = append(ops, "c09 up 1", fmt.Sprintf("c09 send router 1 %d", nm), "c09 conns 1")
		e := []string{"raw", "sendto", "children", "broadcast"}[r.Intn(4)]
		d := "1"
		if e == "children" || e == "broadcast" {
			d = "2,1"
		}
		ops = append(ops, fmt.Sprintf("c09 send %s %s 1", e, d), "c09 conns 1", "c09 conns 2")
		emit("stale-local", ops...)
	}
	// crash points inside the identity exchange and inside a transfer: the connection towards
	// the victim is cut after k bytes; afterwards the victim is reachable again
	for i := 0; i < c.Pick(50, 500); i++ {
		k := r.Intn(260)
		e := []string{"router", "raw", "sendto"}[r.Intn(3)]
		emit("cut-tcp",
			"c09 open tcp 0,1", "c09 handler 10",
			fmt.Sprintf("c09 cut 1 %d", k),
			"c09 send "+e+" 1 1",
			"c09 settle",
			"c09 send router 1 1",
			"c09 send sendto 0 1")
	}

	// the receive loop against peers that are sockets driven frame by frame (c09recv.go): frames that
	// decode and frames that do not, oversized headers, closing between and inside frames, resets,
	// silence; several connections per peer (the swap-with-last removal, entry by entry); set-ups
	// given up before the identity is through
	emitTo("corpus", "corpus-recvloop", "c09 open tcp 0,2", "c09 handler 10", "c09 handler 11", "c09 rawconn 1 id", "c09 rawconn 1 id", "c09 rawconn 1 id",
		"c09 rawconn 3 id", "c09 rawev 1 0 gxg", "c09 rawev 1 0 c", "c09 rawev 1 2 gb", "c09 rawconn 1 id", "c09 rawev 1 1 q", "c09 rawev 3 0 xxp",
		"c09 rawev 1 3 ggxgr", "c09 rawconn 1 noid", "c09 rawconn 1 halfid", "c09 rawconn 1 wrongtype", "c09 conns 1", "c09 send router 2 1", "c09 send router 1 1")
	{
		// handleError on every error value that can be built from the features it looks at
		ops := []string{"c09 herr 0001100", "c09 herr 0001000", "c09 herr 1111111", "c09 herr 00000", "c09 herr 000000x"}
		for m := 0; m < 64; m++ {
			ops = append(ops, fmt.Sprintf("c09 herr %d%d%d0%d%d%d", m>>5&1, m>>4&1, m>>3&1, m>>2&1, m>>1&1, m&1))
		}
		emitTo("corpus", "corpus-handle-error", ops...)
	}
	evAlphabet := "ggggxxbcpqr"
	for i := 0; i < c.Pick(22, 260); i++ {
		ops := []string{"c09 open tcp 0,2"}
		for j := r.Intn(3); j > 0; j-- {
			ops = append(ops, fmt.Sprintf("c09 handler %d", 10+len(ops)))
		}
		open := map[int][]int{} // raw peer -> serial numbers of its open connections
		next := map[int]int{}
		peers := []int{1, 3, 4}[:1+r.Intn(3)]
		for j := 0; j < 6+r.Intn(10); j++ {
			p := peers[r.Intn(len(peers))]
			switch x := r.Intn(10); {
			case x < 3 || len(open[p]) == 0:
				how := "id"
				if r.Intn(5) == 0 {
					how = []string{"noid", "halfid", "wrongtype"}[r.Intn(3)]
				}
				ops = append(ops, fmt.Sprintf("c09 rawconn %d %s", p, how))
				if how == "id" {
					open[p] = append(open[p], next[p])
					next[p]++
				}
			case x < 9:
				k := r.Intn(len(open[p]))
				var ev []byte
				ended := false
				for n := 1 + r.Intn(6); n > 0; n-- {
					e := evAlphabet[r.Intn(len(evAlphabet))]
					ev = append(ev, e)
					if !strings.ContainsRune("gx", rune(e)) {
						ended = true
						if r.Intn(3) > 0 {
							break // sometimes events follow the one that ends the connection: they are not sent
						}
					}
				}
				ops = append(ops, fmt.Sprintf("c09 rawev %d %d %s", p, open[p][k], ev))
				if ended {
					open[p] = append(open[p][:k], open[p][k+1:]...)
				}
			default:
				if r.Intn(2) == 0 {
					ops = append(ops, fmt.Sprintf("c09 conns %d", p))
				} else {
					ops = append(ops, "c09 send router 2 1") // healthy traffic goes on
				}
			}
		}
		for _, p := range peers {
			if len(open[p]) == 0 && r.Intn(2) == 0 {
				ops = append(ops, fmt.Sprintf("c09 send router %d 1", p)) // nothing listens at a raw peer's address
				break
			}
		}
		emit("recvloop-tcp", ops...)
	}
	// the same on the in-memory transport (round 7): the peer's end is a LocalConn the harness holds; what it can do is
	// send frames (decodable or not) and close
	emitTo("corpus", "corpus-recvloop-local", "c09 open local 0", "c09 handler 10", "c09 handler 11",
		"c09 rawconn 1 id", "c09 rawconn 1 id", "c09 rawconn 2 id", "c09 rawconn 1 id",
		"c09 rawev 1 0 gxg", "c09 rawev 1 1 gc", "c09 conns 1", "c09 rawev 2 0 xc", "c09 rawev 1 2 ggxg", "c09 rawev 1 0 c", "c09 conns 1",
		"c09 send sendto 0 1", "c09 rawev 1 2 xgc", "c09 conns 1", "c09 send router 1 1")
	for i, nl := 0, c.Pick(10, 120); i < nl; i++ {
		ops := []string{"c09 open local 0"}
		for j := r.Intn(3); j > 0; j-- {
			ops = append(ops, fmt.Sprintf("c09 handler %d", 10+j))
		}
		open := map[int][]int{}
		next := map[int]int{}
		for j, m := 0, 3+r.Intn(8); j < m; j++ {
			p := 1 + r.Intn(2)
			if len(open[p]) == 0 || (r.Intn(3) == 0 && next[p] < 4) {
				ops = append(ops, fmt.Sprintf("c09 rawconn %d id", p))
				open[p] = append(open[p], next[p])
				next[p]++
				continue
			}
			ki := r.Intn(len(open[p]))
			k := open[p][ki]
			ev := ""
			for x := r.Intn(4); x > 0; x-- {
				ev += string("gx"[r.Intn(2)])
			}
			if ev == "" || r.Intn(2) == 0 {
				ev += "c"
				open[p] = append(open[p][:ki], open[p][ki+1:]...)
			}
			ops = append(ops, fmt.Sprintf("c09 rawev %d %d %s", p, k, ev))
			if r.Intn(3) == 0 {
				ops = append(ops, fmt.Sprintf("c09 conns %d", p))
			}
		}
		emit("recvloop-local", ops...)
	}
	// ... and a peer that goes silent: the (scaled) read time-out ends the loop
	emitTo("corpus", "recvloop-timeout-corpus-inside-frame", "c09 open tcp 0", "c09 handler 10", "c09 rawconn 1 id", "c09 rawev 1 0 gu", "c09 conns 1",
		"c09 rawconn 1 id", "c09 rawev 1 1 v", "c09 conns 1")
	for i := 0; i < c.Pick(3, 24); i++ {
		ops := []string{"c09 open tcp 0", "c09 handler 10"}
		if r.Intn(2) == 0 {
			ops = append(ops, "c09 handler 11")
		}
		ops = append(ops, "c09 rawconn 1 id", "c09 rawev 1 0 "+[]string{"t", "gt", "gxgt", "xt", "ggt", "u", "gu", "v", "gxv", "ggu"}[(i+r.Intn(2)*5)%10], "c09 conns 1")
		if r.Intn(2) == 0 {
			ops = append(ops, "c09 rawconn 1 id", "c09 rawev 1 1 gc")
		}
		emit("recvloop-timeout-tcp", ops...)
	}

	// the peer stalls inside the connection set-up towards the survivor: silent connections sit at
	// the survivor's listener while a healthy peer makes first contact (witness of the seeded change
	// C09r5-B on TLS: a handshake run by the accept loop itself)
	emitTo("corpus", "corpus-stalled-setup", "c09 open tls 0,1,2", "c09 handler 10", "c09 stall 3", "c09 inbound 2 1", "c09 send router 2 1", "c09 conns 2")
	for i := 0; i < c.Pick(10, 90); i++ {
		tr := []string{"tls", "tls", "tcp"}[r.Intn(3)]
		ops := []string{"c09 open " + tr + " 0,1,2", "c09 handler 10"}
		if r.Intn(2) == 0 {
			ops = append(ops, "c09 send router 1 1") // an established connection keeps working
		}
		if r.Intn(4) == 0 {
			ops = append(ops, "c09 inbound 2 1") // peer 2 is connected already: nothing new to accept
		}
		for k := 1 + r.Intn(3); k > 0; k-- {
			ops = append(ops, "c09 stall 3")
		}
		ops = append(ops, fmt.Sprintf("c09 inbound 2 %d", 1+r.Intn(3)))
		if r.Intn(2) == 0 {
			ops = append(ops, "c09 send router 1 1")
		}
		ops = append(ops, "c09 send "+[]string{"router", "raw", "sendto"}[r.Intn(3)]+" 2 1", "c09 conns 2")
		if r.Intn(2) == 0 {
			ops = append(ops, "c09 inbound 1 2", "c09 conns 1")
		}
		if r.Intn(2) == 0 {
			ops = append(ops, "c09 down 2", "c09 conns 2", "c09 send router 2 1")
		}
		emit("stalled-setup-"+tr, ops...)
	}

	// containment at the service level: a few hundred service handlers of the survivor are stuck (as
	// in sends towards a peer that went silent) while healthy peers' messages arrive (witness of the
	// seeded change C09r6-B: a bound on concurrently running processors, the slot taken in Dispatch)
	emitTo("corpus", "corpus-stuck-handlers", "c09 open tcp 0,1,2", "c09 svcblock 1 120", "c09 svcping 2 1", "c09 svcrelease")
	for i := 0; i < c.Pick(8, 60); i++ {
		tr := []string{"tcp", "local", "tls"}[i%3]
		ops := []string{"c09 open " + tr + " 0,1,2,3", "c09 handler 10"}
		if r.Intn(2) == 0 {
			ops = append(ops, "c09 svcping 2 1")
		}
		ops = append(ops, fmt.Sprintf("c09 svcblock 1 %d", 60+r.Intn(200)))
		if r.Intn(2) == 0 {
			ops = append(ops, fmt.Sprintf("c09 svcblock %d %d", 1+r.Intn(2), 40+r.Intn(120)))
		}
		ops = append(ops, fmt.Sprintf("c09 svcping 2 %d", 1+r.Intn(3)), "c09 send sendto 0 1")
		if r.Intn(2) == 0 {
			ops = append(ops, "c09 down 3", "c09 send router 3 1", "c09 svcping 1 1")
		}
		ops = append(ops, "c09 svcrelease", "c09 svcping 1 1")
		if r.Intn(3) == 0 {
			ops = append(ops, "c09 down 1", "c09 conns 1")
		}
		emit("stuck-handlers-"+tr, ops...)
	}

	var all []c09pending
	for _, q := range order {
		for i, cs := range queues[q] {
			k := (float64(i) + 0.5) / float64(len(queues[q]))
			if q == "corpus" {
				k = -1
			}
			all = append(all, c09pending{cs, k})
		}
	}
	sort.SliceStable(all, func(a, b int) bool { return all[a].key < all[b].key })
	for _, p := range all {
		if searching && time.Since(start) > c09searchBudget {
			c.Count("not-run:search-budget")
			continue
		}
		if c.TooManyFails() {
			c.Count("not-run:enough-failures")
			continue
		}
		c.Count("class=" + p.cs.Class)
		for _, o := range p.cs.Ops {
			f := strings.Fields(o)
			if len(f) < 2 {
				continue
			}
			c.Count("op=" + f[1])
			if f[1] == "send" && len(f) > 2 {
				c.Count("entry=" + f[2])
			}
			if f[1] == "tsend" && len(f) > 3 {
				c.Count("entry=tni-" + f[3])
			}
			if f[1] == "rawconn" && len(f) > 3 {
				c.Count("rawconn=" + f[3])
			}
			if f[1] == "rawev" && len(f) > 4 {
				for _, e := range f[4] {
					c.Count("event=" + string(e))
					if !strings.ContainsRune("gx", e) {
						break
					}
				}
			}
		}
		yield(p.cs)
	}
}
