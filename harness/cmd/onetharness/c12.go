package main

import (
	"fmt"
	"strconv"
	"strings"
	"sync"
	"time"

	"github.com/google/uuid"
	"go.dedis.ch/onet/v3"
	"go.dedis.ch/onet/v3/network"
	"onetverif/harness/fix"
	"onetverif/harness/h"
)

// C12: the roster's tree generators. Every op calls one generator of the real
// code on a roster built for it and dumps the returned tree as a pre-order list
// of (roster index, number of children); the Lean model prints the same from
// its transcription of the generator. The property's own oracle is a walker
// that checks the returned tree against the documented shape, independently of
// the model.

const (
	c12sigA = "big generator places one server on several nodes (roster 3, N 2, 7 nodes, one host)"
	c12sigB = "big generator places one server on several nodes (roster 5, N 3, 4 nodes, two alternating hosts)"
)

var (
	c12mu      sync.Mutex
	c12sis     = map[string]*network.ServerIdentity{}
	c12rosters = map[string]*onet.Roster{}
)

// deterministic identities: key (i+1)·G, address on host `host`
func c12si(i, host int) *network.ServerIdentity {
	k := fmt.Sprint(i, "@", host)
	if si, ok := c12sis[k]; ok {
		return si
	}
	p := fix.Suite.Point().Mul(fix.Suite.Scalar().SetInt64(int64(i+1)), nil)
	addr := network.NewAddress(network.PlainTCP, fmt.Sprintf("10.%d.%d.%d:%d", host/62500, host/250%250, host%250+1, 2000+i%60000))
	si := network.NewServerIdentity(p, addr)
	c12sis[k] = si
	return si
}

// c12rebuilt: the same identity as a Go object of its own — the key re-parsed from its encoding (as an identity that
// arrived over the wire or was read from a file is), never the roster entry's point object
func c12rebuilt(si *network.ServerIdentity) *network.ServerIdentity {
	b, err := si.Public.MarshalBinary()
	p := fix.Suite.Point()
	if err != nil || p.UnmarshalBinary(b) != nil {
		return network.NewServerIdentity(si.Public.Clone(), si.Address)
	}
	return network.NewServerIdentity(p, si.Address)
}

func c12roster(hosts []int) *onet.Roster {
	c12mu.Lock()
	defer c12mu.Unlock()
	k := fmt.Sprint(hosts)
	if r, ok := c12rosters[k]; ok {
		return r
	}
	var sis []*network.ServerIdentity
	for i, hst := range hosts {
		sis = append(sis, c12si(i, hst))
	}
	r := onet.NewRoster(sis)
	if len(c12rosters) > 4000 {
		c12rosters = map[string]*onet.Roster{}
	}
	c12rosters[k] = r
	return r
}

// c12zroster: a roster whose identities were not made by network.NewServerIdentity - their
// deprecated ID field is unset: struct literals, or a roster that went through its TOML form
// (Roster.Toml / RosterToml.Roster). Server i has key (off+i+1)·G.
func c12zroster(off int, hosts []int, viaToml bool) *onet.Roster {
	var sis []*network.ServerIdentity
	c12mu.Lock()
	for i, hst := range hosts {
		si := c12si(off+i, hst)
		sis = append(sis, &network.ServerIdentity{Public: si.Public, Address: si.Address})
	}
	c12mu.Unlock()
	ro := onet.NewRoster(sis)
	if viaToml {
		ro = ro.Toml(fix.Suite).Roster(fix.Suite)
	}
	return ro
}

func c12dump(t *onet.Tree) string {
	var out []string
	var walk func(n *onet.TreeNode)
	walk = func(n *onet.TreeNode) {
		out = append(out, fmt.Sprintf("%d:%d", n.RosterIndex, len(n.Children)))
		for _, c := range n.Children {
			walk(c)
		}
	}
	walk(t.Root)
	return strings.Join(out, ",")
}

type c12want struct {
	gen      string // nary | big
	n        int    // roster size
	N        int    // branching factor
	nodes    int    // expected node count
	root     int    // expected roster index of the root
	complete bool   // nary: the last level is packed to the left
}

// c12walk is the well-formedness oracle. It returns "" or (what, detail).
func c12walk(ro *onet.Roster, t *onet.Tree, w c12want) (string, string, bool) {
	if t == nil || t.Root == nil {
		return "nil", "the generator returned no tree", false
	}
	if t.Roster != ro {
		return "roster", "the tree does not carry the roster it was generated from", false
	}
	if t.Root.Parent != nil {
		return "parentlink", "the root has a parent", false
	}
	if t.Root.RosterIndex != w.root {
		return "root", fmt.Sprintf("root is roster member %d, expected %d", t.Root.RosterIndex, w.root), false
	}
	// levels by breadth-first walk
	levels := [][]*onet.TreeNode{{t.Root}}
	seen := map[*onet.TreeNode]bool{t.Root: true}
	total := 1
	for {
		var next []*onet.TreeNode
		for _, p := range levels[len(levels)-1] {
			for _, c := range p.Children {
				if c == nil {
					return "parentlink", "nil child", false
				}
				if seen[c] {
					return "parentlink", "a node is reachable twice", false
				}
				seen[c] = true
				if c.Parent != p {
					return "parentlink", "a child's Parent is not the node that lists it", false
				}
				next = append(next, c)
			}
		}
		if len(next) == 0 {
			break
		}
		total += len(next)
		if total > w.nodes+w.n+10 {
			return "size", "far more nodes than requested", false
		}
		levels = append(levels, next)
	}
	if total != w.nodes || t.Size() != w.nodes || len(t.List()) != w.nodes {
		return "size", fmt.Sprintf("%d nodes (Size %d, List %d), expected %d", total, t.Size(), len(t.List()), w.nodes), false
	}
	members := map[int]int{}
	ids := map[onet.TreeNodeID]int{}
	remaining := w.nodes
	capacity := 1
	for _, l := range levels {
		want := capacity
		if remaining < want {
			want = remaining
		}
		if len(l) != want {
			return "levelfill", fmt.Sprintf("a level holds %d nodes, expected min(N^k, remaining) = %d", len(l), want), false
		}
		remaining -= len(l)
		if capacity <= w.nodes {
			capacity *= w.N
		}
		short := false
		for _, nd := range l {
			if nd.RosterIndex < 0 || nd.RosterIndex >= len(ro.List) || ro.List[nd.RosterIndex] != nd.ServerIdentity {
				if nd.RosterIndex < 0 || nd.RosterIndex >= len(ro.List) || !ro.List[nd.RosterIndex].Equal(nd.ServerIdentity) {
					return "rosterindex", "a node's RosterIndex does not point at its server", false
				}
			}
			if len(nd.Children) > w.N {
				return "branching", fmt.Sprintf("a node has %d children, at most %d were asked for", len(nd.Children), w.N), false
			}
			if w.complete {
				// breadth-first filling: once a node of a level has fewer than N children,
				// the nodes to its right have none
				if short && len(nd.Children) > 0 {
					return "levelfill", "children are not packed to the left of the level", false
				}
				if len(nd.Children) < w.N {
					short = true
				}
			}
			if nd.ID != onet.TreeNodeID(uuid.NewSHA1(uuid.NameSpaceURL, []byte(nd.ServerIdentity.Public.String()))) {
				return "node-id-not-from-key", fmt.Sprintf("the id of the node on roster member %d is not the one derived from that server's public key", nd.RosterIndex), false
			}
			members[nd.RosterIndex]++
			ids[nd.ID]++
		}
	}
	if w.nodes == w.n {
		for i := 0; i < w.n; i++ {
			if members[i] != 1 {
				return "members", fmt.Sprintf("roster member %d is on %d nodes although the tree has one node per member", i, members[i]), false
			}
		}
	}
	if len(ids) != w.nodes {
		return "dup-node-id", fmt.Sprintf("%d nodes carry only %d distinct node ids", w.nodes, len(ids)), true
	}
	return "", "", false
}

// c12bigTimeout is generous: a tree of 2000 nodes takes milliseconds. (10 s: on a machine with a load of 25 a
// goroutine was seen to wait several seconds for a processor.)
func c12bigTimeout(nodes int) time.Duration {
	return 10*time.Second + time.Duration(nodes)*5*time.Millisecond
}

// c12serversTimeout: calls that create real servers (LocalTest, simulations: listeners, databases on disk) — under
// load the creation of four local servers was seen to take more than 8 s (false alarm lt-hang, seed 2, round 5)
func c12serversTimeout(nodes int) time.Duration {
	return 60*time.Second + time.Duration(nodes)*5*time.Millisecond
}

func c12exec(c *h.Ctx, cs *h.Case) {
	outs := map[string]int{}
	hung := false
	for _, op := range cs.Ops {
		tk := strings.Fields(op)
		obs := "bad-op"
		if hung {
			// a generator call of this case never returned (its goroutine is still spinning): the
			// rest of the case is not run
			cs.Impl = append(cs.Impl, "not-run")
			continue
		}
		func() {
			defer func() {
				if r := recover(); r != nil {
					obs = "panic"
					if cs.Class != "boundary" {
						cs.Fail(tk[1]+"-panic", fmt.Sprintf("%s: %v", op, r))
					}
				}
			}()
			atoi := func(s string) (int, bool) {
				v, err := strconv.ParseUint(s, 10, 31)
				return int(v), err == nil
			}
			distinct := func(n int) []int {
				hs := make([]int, n)
				for i := range hs {
					hs[i] = i
				}
				return hs
			}
			check := func(ro *onet.Roster, t *onet.Tree, w c12want, known string) {
				what, detail, dup := c12walk(ro, t, w)
				if what == "" {
					return
				}
				if dup && w.gen == "big" {
					// the known finding: reported with its exact signature on the two witnesses,
					// counted everywhere else
					if cs.Class == "witness" && known != "" {
						cs.Fail(known, detail+" — "+op)
					} else if w.nodes > w.n {
						c.Count("big: servers repeat, more nodes than servers (documented)")
					} else {
						c.Count("big: servers repeat although nodes <= servers (known-finding class)")
					}
					outs["dup"]++
					return
				}
				if cs.Class == "boundary" {
					return
				}
				cs.Fail(w.gen+"-"+what, detail+" — "+op)
			}
			switch {
			case len(tk) == 5 && tk[1] == "nary":
				n, ok1 := atoi(tk[2])
				N, ok2 := atoi(tk[3])
				if !ok1 || !ok2 || n == 0 {
					return
				}
				ro := c12roster(distinct(n))
				if tk[4] == "x" {
					t := ro.GenerateNaryTreeWithRoot(N, c12si(n+1000, 0))
					if t != nil {
						obs = c12dump(t)
						cs.Fail("nary-unexpected-tree", "a tree was generated for a root that is not in the roster — "+op)
					} else {
						obs = "none"
					}
					return
				}
				r, ok := atoi(tk[4])
				if !ok || r >= n {
					return
				}
				// the root as the roster's own entry, or as a separate value with the same key
				root := ro.List[r]
				switch (n + N + r) % 3 {
				case 1:
					root = network.NewServerIdentity(root.Public, root.Address)
				case 2:
					root = c12rebuilt(root)
				}
				var t *onet.Tree
				if r == 0 && (n+N)%3 == 0 {
					t = ro.GenerateNaryTree(N)
				} else {
					t = ro.GenerateNaryTreeWithRoot(N, root)
				}
				if t == nil {
					obs = "none"
				} else {
					obs = c12dump(t)
				}
				check(ro, t, c12want{"nary", n, N, n, r, true}, "")
			case len(tk) == 6 && tk[1] == "zroot":
				// a root asked of a roster whose identities' deprecated ID field says nothing about them: unset (struct literals:
				// mode 0; a roster read back from its TOML form: mode 1) or foreign (every entry carries its neighbour's id: mode 2).
				// The root is looked up by its key (fix 08623bf): GenerateNaryTreeWithRoot roots the tree there, NewRosterWithRoot
				// puts it first, a stranger gets neither.
				mode, ok0 := atoi(tk[2])
				n, ok1 := atoi(tk[3])
				N, ok2 := atoi(tk[4])
				if !ok0 || !ok1 || !ok2 || mode > 2 || n == 0 || n > 4096 {
					return
				}
				var sis []*network.ServerIdentity
				c12mu.Lock()
				for i := 0; i < n; i++ {
					b := c12si(i, i)
					switch mode {
					case 0:
						sis = append(sis, &network.ServerIdentity{Public: b.Public, Address: b.Address})
					case 1:
						sis = append(sis, b)
					default:
						sis = append(sis, &network.ServerIdentity{Public: b.Public, Address: b.Address, ID: c12si((i+1)%n, (i+1)%n).ID})
					}
				}
				stranger := c12si(n+1000, 0)
				c12mu.Unlock()
				ro := onet.NewRoster(sis)
				if mode == 1 {
					ro = ro.Toml(fix.Suite).Roster(fix.Suite)
				}
				r, member := -1, false
				var root *network.ServerIdentity
				if tk[5] == "x" {
					root = &network.ServerIdentity{Public: stranger.Public, Address: stranger.Address}
					if mode == 2 {
						root.ID = ro.List[0].ID // a stranger that claims a member's id
					}
				} else {
					r, member = atoi(tk[5])
					if !member || r >= n {
						return
					}
					root = ro.List[r]
					if (n+N+r)%2 == 1 {
						root = &network.ServerIdentity{Public: ro.List[r].Public.Clone(), Address: ro.List[r].Address, ID: ro.List[r].ID}
					}
				}
				nr := ro.NewRosterWithRoot(root)
				t := ro.GenerateNaryTreeWithRoot(N, root)
				if !member {
					if t != nil || nr != nil {
						obs = "unexpected"
						cs.Fail("nary-unexpected-tree", "a tree / a roster was produced for a root that is not in the roster (identities whose ID field is unset or foreign) — "+op)
					} else {
						obs = "none"
					}
					return
				}
				if t == nil {
					obs = "none"
				} else {
					obs = c12dump(t)
				}
				if nr == nil || len(nr.List) != n || !nr.List[0].Public.Equal(ro.List[r].Public) {
					cs.Fail("withroot-order", "NewRosterWithRoot(member "+strconv.Itoa(r)+") does not put that member first (identities whose ID field is unset or foreign) — "+op)
				}
				check(ro, t, c12want{"nary", n, N, n, r, true}, "")
			case len(tk) == 5 && tk[1] == "narywr":
				// ro.NewRosterWithRoot(root).GenerateNaryTree(N): the documented way to a tree whose root is the first entry of
				// its roster.  A root that is not a member: no roster (and so no tree).  The root is an object of its own.
				n, ok1 := atoi(tk[2])
				N, ok2 := atoi(tk[3])
				if !ok1 || !ok2 || n == 0 {
					return
				}
				ro := c12roster(distinct(n))
				r, member := -1, false
				var root *network.ServerIdentity
				if tk[4] == "x" {
					c12mu.Lock()
					root = c12rebuilt(c12si(n+1000, 0))
					c12mu.Unlock()
				} else {
					r, member = atoi(tk[4])
					if !member || r >= n {
						return
					}
					root = c12rebuilt(ro.List[r])
				}
				before := append([]*network.ServerIdentity{}, ro.List...)
				nr := ro.NewRosterWithRoot(root)
				for i := range before {
					if ro.List[i] != before[i] {
						cs.Fail("withroot-changes-receiver", "NewRosterWithRoot changed the list of the roster it was called on — "+op)
						break
					}
				}
				if nr == nil {
					obs = "none"
					if member {
						cs.Fail("withroot-nil", "NewRosterWithRoot returned nil although the root is roster member "+strconv.Itoa(r)+" — "+op)
					}
					return
				}
				var order []int
				seen := map[int]bool{}
				perm := len(nr.List) == n
				pos := map[string]int{}
				for i, o := range ro.List {
					b, _ := o.Public.MarshalBinary()
					pos[string(b)] = i
				}
				for _, si := range nr.List {
					at := -1
					if si != nil && si.Public != nil {
						b, _ := si.Public.MarshalBinary()
						if i, ok := pos[string(b)]; ok {
							at = i
						}
					}
					perm = perm && at >= 0 && !seen[at]
					seen[at] = true
					order = append(order, at)
				}
				var t *onet.Tree
				if N >= 1 || n == 1 {
					t = nr.GenerateNaryTree(N)
				}
				if t == nil {
					obs = "order=" + h.Ints(order) + " none"
				} else {
					obs = "order=" + h.Ints(order) + " " + c12dump(t)
				}
				if !member {
					cs.Fail("withroot-unexpected-roster", "NewRosterWithRoot returned a roster (and GenerateNaryTree a tree) for a root that is not in the roster — "+op)
					return
				}
				if !perm || order[0] != r {
					cs.Fail("withroot-order", fmt.Sprintf("NewRosterWithRoot(member %d) lists the servers %v: not the same servers with the root first — %s", r, order, op))
					return
				}
				if g, err := nr.GetID(); err != nil || !g.Equal(nr.ID) {
					cs.Fail("withroot-id", "the roster returned by NewRosterWithRoot carries an id that is not the id of its list — "+op)
				}
				check(nr, t, c12want{"nary", n, N, n, 0, true}, "")
			case len(tk) == 3 && (tk[1] == "binary" || tk[1] == "star"):
				n, ok := atoi(tk[2])
				if !ok || n == 0 {
					return
				}
				ro := c12roster(distinct(n))
				var t *onet.Tree
				N := 2
				if tk[1] == "binary" {
					t = ro.GenerateBinaryTree()
				} else {
					t = ro.GenerateStar()
					N = n - 1
				}
				if t == nil {
					obs = "none"
				} else {
					obs = c12dump(t)
				}
				check(ro, t, c12want{"nary", n, N, n, 0, true}, "")
			case (len(tk) == 5 && tk[1] == "lt.bigtree") || (len(tk) == 3 && tk[1] == "lt.tree"):
				// the LocalTest wrappers local clusters and simulations go through: fresh servers,
				// roster in creation order, then the roster's generator
				var nodes, nsrv, bf int
				var ok1, ok2, ok3 bool
				if tk[1] == "lt.tree" {
					nsrv, ok1 = atoi(tk[2])
					nodes, bf, ok2, ok3 = nsrv, 2, true, true
				} else {
					nodes, ok1 = atoi(tk[2])
					nsrv, ok2 = atoi(tk[3])
					bf, ok3 = atoi(tk[4])
				}
				if !ok1 || !ok2 || !ok3 || nsrv == 0 || nsrv > 64 {
					return
				}
				if tk[1] == "lt.bigtree" && bf == 0 && nodes > 1 {
					obs = "hang" // see `big`: not run
					return
				}
				l := onet.NewLocalTest(fix.Suite)
				l.Check = onet.CheckNone
				defer l.CloseAll()
				var servers []*onet.Server
				var ro *onet.Roster
				var t *onet.Tree
				done := make(chan interface{}, 1)
				go func() {
					defer func() { done <- recover() }()
					if tk[1] == "lt.tree" {
						servers, ro, t = l.GenTree(nsrv, nsrv%2 == 0)
					} else {
						servers, ro, t = l.GenBigTree(nodes, nsrv, bf, (nodes+nsrv)%2 == 0)
					}
				}()
				select {
				case r := <-done:
					if r != nil {
						panic(r)
					}
				case <-time.After(c12serversTimeout(nodes)):
					obs = "hang"
					hung = true
					cs.Fail("lt-hang", "the LocalTest generator did not return — "+op)
					return
				}
				if t == nil {
					obs = "none"
				} else {
					obs = c12dump(t)
				}
				if len(servers) != nsrv || ro == nil || len(ro.List) != nsrv {
					cs.Fail("lt-servers", fmt.Sprintf("%d servers / roster of %d asked for, got %d", nsrv, nsrv, len(servers)))
					return
				}
				for i, srv := range servers {
					if !ro.List[i].Equal(srv.ServerIdentity) {
						cs.Fail("lt-roster-order", "the roster does not list the servers in the order they were created")
						return
					}
				}
				if t != nil && l.Trees[t.ID] != t {
					cs.Fail("lt-tree-unlisted", "the generated tree is not recorded in LocalTest.Trees")
				}
				gen := "big"
				if tk[1] == "lt.tree" {
					gen = "nary"
				}
				check(ro, t, c12want{gen, nsrv, bf, nodes, 0, tk[1] == "lt.tree"}, "")
			case (len(tk) == 5 && tk[1] == "znary") || (len(tk) == 6 && tk[1] == "zbig"):
				// the generators over identities whose ID field is unset; `off` moves the keys, so that
				// the rosters of one case differ
				off, ok0 := atoi(tk[2])
				if !ok0 || off > 1000000 {
					return
				}
				if tk[1] == "znary" {
					n, ok1 := atoi(tk[3])
					N, ok2 := atoi(tk[4])
					if !ok1 || !ok2 || n == 0 || n > 4096 {
						return
					}
					ro := c12zroster(off, distinct(n), (off+n+N)%2 == 0)
					var t *onet.Tree
					switch (off + n) % 3 {
					case 0:
						t = ro.GenerateNaryTree(N)
					case 1:
						t = ro.GenerateNaryTreeWithRoot(N, nil)
					default:
						// a root given by value: Search compares the ID fields, which are all unset -
						// the first server matches
						t = ro.GenerateNaryTreeWithRoot(N, &network.ServerIdentity{Public: ro.List[0].Public, Address: ro.List[0].Address})
					}
					if t == nil {
						obs = "none"
					} else {
						obs = c12dump(t)
					}
					check(ro, t, c12want{"nary", n, N, n, 0, true}, "")
					return
				}
				N, ok1 := atoi(tk[3])
				nodes, ok2 := atoi(tk[4])
				var hosts []int
				ok3 := true
				for _, f := range strings.Split(tk[5], ",") {
					v, ok := atoi(f)
					ok3 = ok3 && ok
					hosts = append(hosts, v)
				}
				if !ok1 || !ok2 || !ok3 || N == 0 || nodes > 100000 {
					return
				}
				ro := c12zroster(off, hosts, (off+N+nodes)%2 == 0)
				t := ro.GenerateBigNaryTree(N, nodes)
				if t == nil {
					obs = "none"
				} else {
					obs = c12dump(t)
				}
				check(ro, t, c12want{"big", len(hosts), N, nodes, 0, false}, "")
			case len(tk) == 5 && tk[1] == "naryk":
				// the roster by its servers' keys (repeats allowed), the root by key or nil
				N, ok1 := atoi(tk[2])
				var keys []int
				ok2 := true
				if tk[4] != "-" {
					for _, f := range strings.Split(tk[4], ",") {
						v, ok := atoi(f)
						ok2 = ok2 && ok
						keys = append(keys, v)
					}
				}
				rootKey, ok3 := -1, tk[3] == "nil"
				if !ok3 {
					rootKey, ok3 = atoi(tk[3])
				}
				if !ok1 || !ok2 || !ok3 {
					return
				}
				ro := &onet.Roster{}
				distinctKeys := true
				first := -1
				if len(keys) > 0 {
					var sis []*network.ServerIdentity
					seen := map[int]bool{}
					for i, k := range keys {
						sis = append(sis, c12si(k, k))
						if seen[k] {
							distinctKeys = false
						}
						seen[k] = true
						if k == rootKey && first < 0 {
							first = i
						}
					}
					ro = onet.NewRoster(sis)
				}
				var root *network.ServerIdentity
				if tk[3] != "nil" {
					// a separate value with the same key as the roster's entry (if there is one)
					orig := c12si(rootKey, rootKey)
					root = c12rebuilt(orig)
				} else {
					first = 0
				}
				t := ro.GenerateNaryTreeWithRoot(N, root)
				if t == nil {
					obs = "none"
					if first >= 0 && cs.Class != "boundary" {
						cs.Fail("nary-nil", "no tree although the root asked for is roster member "+strconv.Itoa(first)+" — "+op)
					}
					return
				}
				obs = c12dump(t)
				if first < 0 {
					cs.Fail("nary-unexpected-tree", "a tree was generated for a root that is not in the roster — "+op)
					return
				}
				if distinctKeys {
					check(ro, t, c12want{"nary", len(keys), N, len(keys), first, true}, "")
				} else if cs.Class != "boundary" {
					// a roster that lists a server several times: node ids repeat (outside the node-id clause), everything
					// else must hold — one node per roster *position*, the requested root, at most N children, levels filled
					if what, detail, _ := c12walk(ro, t, c12want{"nary", len(keys), N, len(keys), first, true}); what != "" && what != "dup-node-id" {
						cs.Fail("nary-"+what, detail+" (roster with a server listed several times) — "+op)
					}
				}
			case len(tk) == 7 && tk[1] == "narymut":
				// the roster is searched (a tree is generated), then two entries of its list are exchanged
				// in place, then the generator is called with a root given by key: it must be looked up
				// in the list as it is now
				N, ok1 := atoi(tk[2])
				i, ok2 := atoi(tk[3])
				j, ok3 := atoi(tk[4])
				var keys []int
				ok4 := true
				for _, f := range strings.Split(tk[6], ",") {
					v, ok := atoi(f)
					ok4 = ok4 && ok
					keys = append(keys, v)
				}
				rootKey, ok5 := -1, tk[5] == "nil"
				if !ok5 {
					rootKey, ok5 = atoi(tk[5])
				}
				if !ok1 || !ok2 || !ok3 || !ok4 || !ok5 || i >= len(keys) || j >= len(keys) {
					return
				}
				var sis []*network.ServerIdentity
				seen := map[int]bool{}
				distinctKeys := true
				for _, k := range keys {
					sis = append(sis, c12si(k, k))
					distinctKeys = distinctKeys && !seen[k]
					seen[k] = true
				}
				ro := onet.NewRoster(sis)
				// every member is looked up once, a tree is generated
				for _, si := range ro.List {
					ro.Search(si.ID)
				}
				if N >= 1 {
					ro.GenerateNaryTreeWithRoot(N, ro.List[len(ro.List)-1])
				}
				ro.List[i], ro.List[j] = ro.List[j], ro.List[i]
				keys[i], keys[j] = keys[j], keys[i]
				first := -1
				for p, k := range keys {
					if k == rootKey && first < 0 {
						first = p
					}
				}
				var root *network.ServerIdentity
				if tk[5] != "nil" {
					orig := c12si(rootKey, rootKey)
					root = c12rebuilt(orig)
				} else {
					first = 0
				}
				t := ro.GenerateNaryTreeWithRoot(N, root)
				if t == nil {
					obs = "none"
					if first >= 0 && cs.Class != "boundary" {
						cs.Fail("nary-nil", "no tree although the root asked for is roster member "+strconv.Itoa(first)+" — "+op)
					}
					return
				}
				obs = c12dump(t)
				if first < 0 {
					cs.Fail("nary-unexpected-tree", "a tree was generated for a root that is not in the roster — "+op)
					return
				}
				if distinctKeys {
					check(ro, t, c12want{"nary", len(keys), N, len(keys), first, true}, "")
				} else if cs.Class != "boundary" {
					// a roster that lists a server several times: node ids repeat (outside the node-id clause), everything
					// else must hold — one node per roster *position*, the requested root, at most N children, levels filled
					if what, detail, _ := c12walk(ro, t, c12want{"nary", len(keys), N, len(keys), first, true}); what != "" && what != "dup-node-id" {
						cs.Fail("nary-"+what, detail+" (roster with a server listed several times) — "+op)
					}
				}
				// the lookups themselves, on the list as it is now
				for p, si := range ro.List {
					if q, e := ro.Search(si.ID); distinctKeys && (q != p || e != si) && cs.Class != "boundary" {
						cs.Fail("nary-search-stale", fmt.Sprintf("after two entries of the list were exchanged Search finds member %d at %d — %s", p, q, op))
						break
					}
				}
			case len(tk) == 4 && tk[1] == "bigempty":
				N, ok1 := atoi(tk[2])
				nodes, ok2 := atoi(tk[3])
				if !ok1 || !ok2 {
					return
				}
				t := (&onet.Roster{}).GenerateBigNaryTree(N, nodes) // documented: panics
				if t == nil {
					obs = "none"
				} else {
					obs = c12dump(t)
				}
			case len(tk) == 4 && tk[1] == "simnil":
				hosts, ok1 := atoi(tk[2])
				bf, ok2 := atoi(tk[3])
				if !ok1 || !ok2 {
					return
				}
				sim := &onet.SimulationBFTree{BF: bf, Hosts: hosts, Suite: "Ed25519"}
				sc := &onet.SimulationConfig{}
				if err := sim.CreateTree(sc); err != nil {
					obs = "err"
				} else {
					obs = "ok"
				}
				if obs != "err" || sc.Tree != nil {
					cs.Fail("sim-tree-without-roster", "CreateTree without a roster did not fail — "+op)
				}
			case (len(tk) == 6 && tk[1] == "sim") || (len(tk) == 4 && tk[1] == "simlocal"):
				// what simulations do: CreateRoster over the given host names, then CreateTree
				hosts, ok1 := atoi(tk[2])
				bf, ok2 := atoi(tk[3])
				na, ok3, tls := 1, true, false
				local := tk[1] == "simlocal"
				if !local {
					na, ok3 = atoi(tk[4])
					if tk[5] != "0" && tk[5] != "1" {
						return
					}
					tls = tk[5] == "1"
				}
				if !ok1 || !ok2 || !ok3 || hosts == 0 || na == 0 || hosts > 4096 || (local && hosts > 16) {
					return
				}
				if bf == 0 && hosts > 1 {
					obs = "hang" // see `big`: the level loop never ends for N = 0; not run
					return
				}
				addrs := make([]string, na)
				for i := range addrs {
					addrs[i] = fmt.Sprintf("10.77.%d.%d", i/250, i%250+1)
				}
				if local {
					addrs[0] = "127.0.0.1"
				}
				const basePort = 2000
				sim := &onet.SimulationBFTree{BF: bf, Hosts: hosts, Suite: "Ed25519", TLS: tls}
				sc := &onet.SimulationConfig{}
				var err error
				done := make(chan interface{}, 1)
				go func() {
					defer func() { done <- recover() }()
					sim.CreateRoster(sc, addrs, basePort)
					err = sim.CreateTree(sc)
				}()
				select {
				case r := <-done:
					if r != nil {
						panic(r)
					}
				case <-time.After(c12serversTimeout(hosts)):
					obs = "hang"
					hung = true
					cs.Fail("sim-hang", "CreateRoster/CreateTree did not return — "+op)
					return
				}
				if err != nil || sc.Tree == nil || sc.Roster == nil {
					obs = "none"
					cs.Fail("sim-nil", fmt.Sprintf("no roster / tree (%v) — %s", err, op))
					return
				}
				// the roster: Hosts servers, server c on host name c mod na, port base + 2·(c / na),
				// pairwise distinct keys and addresses, a private key for every address
				ro := sc.Roster
				if len(ro.List) != hosts {
					obs = c12dump(sc.Tree)
					cs.Fail("sim-roster-size", fmt.Sprintf("%d servers, %d hosts asked for — %s", len(ro.List), hosts, op))
					return
				}
				var hidx, ports []int
				keys := map[string]bool{}
				adrs := map[network.Address]bool{}
				for c, si := range ro.List {
					hi := -1
					for i, a := range addrs {
						if a == si.Address.Host() {
							hi = i
						}
					}
					pt, _ := strconv.Atoi(si.Address.Port())
					hidx = append(hidx, hi)
					ports = append(ports, pt-basePort)
					if hi != c%na {
						cs.Fail("sim-host", fmt.Sprintf("server %d is on host name %d (%s), expected %d — %s", c, hi, si.Address, c%na, op))
					}
					if !local && pt != basePort+(c/na)*2 {
						cs.Fail("sim-port", fmt.Sprintf("server %d has port %d, expected %d — %s", c, pt, basePort+(c/na)*2, op))
					}
					want := network.PlainTCP
					if tls {
						want = network.TLS
					}
					if si.Address.ConnType() != want {
						cs.Fail("sim-conntype", fmt.Sprintf("server %d: connection type %v — %s", c, si.Address.ConnType(), op))
					}
					keys[si.Public.String()] = true
					adrs[si.Address] = true
					pk := sc.PrivateKeys[si.Address]
					if pk == nil || pk.Private == nil || !fix.Suite.Point().Mul(pk.Private, nil).Equal(si.Public) {
						cs.Fail("sim-private-key", fmt.Sprintf("no matching private key stored for server %d — %s", c, op))
					}
				}
				if len(keys) != hosts || len(adrs) != hosts || len(sc.PrivateKeys) != hosts {
					cs.Fail("sim-distinct", fmt.Sprintf("%d servers: %d distinct keys, %d distinct addresses, %d private keys — %s", hosts, len(keys), len(adrs), len(sc.PrivateKeys), op))
				}
				obs = c12dump(sc.Tree) + " hosts=" + h.Ints(hidx)
				if !local {
					obs += " ports=" + h.Ints(ports)
				}
				check(ro, sc.Tree, c12want{"sim", hosts, bf, hosts, 0, false}, "")
			case (len(tk) == 6 && tk[1] == "npred") || (len(tk) == 6 && tk[1] == "bpred"):
				// onet's own predicates on a generated tree (c12pred.go)
				M, ok0 := atoi(tk[5])
				var ro *onet.Roster
				var t *onet.Tree
				var n, N, nodes int
				gen := "nary"
				if tk[1] == "npred" {
					var ok1, ok2, ok3 bool
					var r int
					n, ok1 = atoi(tk[2])
					N, ok2 = atoi(tk[3])
					r, ok3 = atoi(tk[4])
					if !ok0 || !ok1 || !ok2 || !ok3 || n == 0 || n > 4096 || r >= n {
						return
					}
					nodes = n
					ro = c12roster(distinct(n))
					t = ro.GenerateNaryTreeWithRoot(N, ro.List[r])
				} else {
					gen = "big"
					var ok1, ok2 bool
					N, ok1 = atoi(tk[2])
					nodes, ok2 = atoi(tk[3])
					var hosts []int
					ok3 := true
					for _, f := range strings.Split(tk[4], ",") {
						v, ok := atoi(f)
						ok3 = ok3 && ok
						hosts = append(hosts, v)
					}
					if !ok0 || !ok1 || !ok2 || !ok3 || N == 0 || nodes > 4096 {
						return
					}
					n = len(hosts)
					ro = c12roster(hosts)
					done := make(chan interface{}, 1)
					go func() {
						defer func() { done <- recover() }()
						t = ro.GenerateBigNaryTree(N, nodes)
					}()
					select {
					case r := <-done:
						if r != nil {
							panic(r)
						}
					case <-time.After(c12bigTimeout(nodes)):
						obs = "hang"
						hung = true
						cs.Fail("big-hang", "GenerateBigNaryTree did not return — "+op)
						return
					}
				}
				if t == nil || t.Root == nil {
					obs = "none"
					if cs.Class != "boundary" {
						cs.Fail(gen+"-nil", "the generator returned no tree — "+op)
					}
					return
				}
				var what, detail string
				obs, what, detail = c12preds(t, gen, n, N, nodes, M)
				c.Count("predicates: " + gen + " nary=" + obs[strings.Index(obs, "nary=")+5:strings.Index(obs, "nary=")+6] + " useslist=" + obs[strings.Index(obs, "useslist=")+9:strings.Index(obs, "useslist=")+10])
				if what != "" && cs.Class != "boundary" {
					cs.Fail(gen+"-pred-"+what, detail+" — "+op)
				}
			case len(tk) == 5 && tk[1] == "big":
				N, ok1 := atoi(tk[2])
				nodes, ok2 := atoi(tk[3])
				var hosts []int
				ok3 := true
				for _, f := range strings.Split(tk[4], ",") {
					v, ok := atoi(f)
					ok3 = ok3 && ok
					hosts = append(hosts, v)
				}
				if !ok1 || !ok2 || !ok3 {
					return
				}
				if N == 0 && nodes > 1 {
					// the real loop never ends for N = 0 (no parent ever gets a child); not run
					obs = "hang"
					return
				}
				ro := c12roster(hosts)
				// watchdog: the generator has loops whose termination is part of the property
				var t *onet.Tree
				done := make(chan interface{}, 1)
				go func() {
					defer func() { done <- recover() }()
					t = ro.GenerateBigNaryTree(N, nodes)
				}()
				select {
				case r := <-done:
					if r != nil {
						panic(r)
					}
				case <-time.After(c12bigTimeout(nodes)):
					obs = "hang"
					hung = true
					cs.Fail("big-hang", "GenerateBigNaryTree did not return — "+op)
					return
				}
				if t == nil {
					obs = "none"
				} else {
					obs = c12dump(t)
				}
				known := ""
				switch strings.Join(tk[2:], " ") {
				case "2 7 0,0,0":
					known = c12sigA
				case "3 4 0,1,0,1,0":
					known = c12sigB
				}
				check(ro, t, c12want{"big", len(hosts), N, nodes, 0, false}, known)
			}
		}()
		outs[strings.SplitN(obs, ":", 2)[0]]++
		cs.Impl = append(cs.Impl, obs)
	}
	cs.Outcome = fmt.Sprintf("trees=%d none=%d panic=%d dup=%d", len(cs.Ops)-outs["none"]-outs["panic"]-outs["bad-op"]-outs["hang"], outs["none"], outs["panic"], outs["dup"])
}

func c12gen(c *h.Ctx, yield func(*h.Case)) {
	b5boundSearch(c)
	r := c.Rng
	emit := func(class string, ops []string) {
		c.Count("class=" + class)
		c.Count(fmt.Sprintf("ops=%d", len(ops)/50*50))
		yield(&h.Case{Class: class, Ops: ops})
	}
	pattern := func(p, n int) string {
		hs := make([]int, n)
		for i := range hs {
			switch p {
			case 0: // all on one host
				hs[i] = 0
			case 1: // all distinct
				hs[i] = i
			case 2: // two alternating hosts
				hs[i] = i % 2
			case 3: // mixed: three hosts
				hs[i] = i % 3
			default: // random, few hosts
				hs[i] = r.Intn(1 + p - 3)
			}
		}
		return h.Ints(hs)
	}
	pname := []string{"one-host", "distinct", "alternating", "mixed"}
	// --- the known finding, always run -----------------------------------------------------------
	// (corpus/C12/*.ops holds the witnesses as files; the built-in copy is used when they are missing)
	corpus := fix.LoadCorpus("C12")
	haveOp := map[string]bool{}
	for _, cs := range corpus {
		for _, o := range cs.Ops {
			haveOp[o] = true
		}
	}
	for _, w := range []string{"c12 big 2 7 0,0,0", "c12 big 3 4 0,1,0,1,0"} {
		if !haveOp[w] {
			emit("witness", []string{w})
		}
	}
	for _, cs := range corpus {
		emit(cs.Class, cs.Ops)
	}
	// --- n-ary / binary / star: every roster size, branching factor and root ---------------------
	maxn := c.Pick(16, 40)
	for n := 1; n <= maxn; n++ {
		var ops []string
		for N := 1; N <= c.Pick(6, 8); N++ {
			for root := 0; root < n; root++ {
				ops = append(ops, fmt.Sprintf("c12 nary %d %d %d", n, N, root))
			}
			ops = append(ops, fmt.Sprintf("c12 nary %d %d x", n, N))
		}
		for N := 1; N <= 3; N++ {
			for root := 0; root < n; root++ {
				if root < 3 || root == n-1 || (root+N)%4 == 0 {
					ops = append(ops, fmt.Sprintf("c12 narywr %d %d %d", n, N, root))
				}
			}
			ops = append(ops, fmt.Sprintf("c12 narywr %d %d x", n, N))
		}
		ops = append(ops, fmt.Sprintf("c12 nary %d %d 0", n, n), fmt.Sprintf("c12 nary %d %d %d", n, n+3, n-1),
			fmt.Sprintf("c12 binary %d", n), fmt.Sprintf("c12 star %d", n))
		emit(fmt.Sprintf("nary exhaustive n=%d", n), ops)
	}
	for i := 0; i < c.Pick(40, 150); i++ {
		n := 1 + r.Intn(c.Pick(300, 1200))
		N := 1 + r.Intn(12)
		if r.Intn(4) == 0 {
			N = 1 + r.Intn(n+2)
		}
		ops := []string{fmt.Sprintf("c12 nary %d %d %d", n, N, r.Intn(n)), fmt.Sprintf("c12 nary %d %d x", n, N),
			fmt.Sprintf("c12 narywr %d %d %d", n, N, r.Intn(n)), fmt.Sprintf("c12 narywr %d %d x", n, N)}
		if r.Intn(3) == 0 {
			ops = append(ops, fmt.Sprintf("c12 binary %d", n), fmt.Sprintf("c12 star %d", n))
		}
		emit("nary sampled", ops)
	}
	// --- big generator: exhaustive small enumeration ---------------------------------------------
	maxRo, maxN, maxNodes := c.Pick(12, 16), c.Pick(5, 6), c.Pick(25, 40)
	for p := 0; p < 4; p++ {
		for n := 1; n <= maxRo; n++ {
			var ops []string
			for N := 1; N <= maxN; N++ {
				for nodes := 1; nodes <= maxNodes; nodes++ {
					ops = append(ops, fmt.Sprintf("c12 big %d %d %s", N, nodes, pattern(p, n)))
				}
			}
			emit(fmt.Sprintf("big exhaustive %s roster=%d", pname[p], n), ops)
		}
	}
	// --- big generator: random host layouts, sampled sizes up to 2000 nodes ----------------------
	for i := 0; i < c.Pick(150, 800); i++ {
		n := 1 + r.Intn(c.Pick(20, 60))
		if r.Intn(10) == 0 {
			n = 1 + r.Intn(c.Pick(200, 1000))
		}
		hs := pattern(r.Intn(9), n)
		var ops []string
		for j := 0; j < 4; j++ {
			N := 1 + r.Intn(7)
			nodes := 1 + r.Intn(3*n)
			switch r.Intn(5) {
			case 0:
				nodes = n // use-all
			case 1:
				nodes = 1 + r.Intn(c.Pick(600, 2000))
			}
			ops = append(ops, fmt.Sprintf("c12 big %d %d %s", N, nodes, hs))
		}
		emit("big sampled", ops)
	}
	// --- the LocalTest wrappers (GenTree, GenBigTree): node counts below, at and above the number
	// of servers ---------------------------------------------------------------------------------
	{
		var ops []string
		for nsrv := 1; nsrv <= c.Pick(5, 7); nsrv++ {
			ops = append(ops, fmt.Sprintf("c12 lt.tree %d", nsrv))
			for _, nodes := range []int{1, nsrv - 2, nsrv - 1, nsrv, nsrv + 1, 2*nsrv + 1} {
				if nodes >= 1 {
					ops = append(ops, fmt.Sprintf("c12 lt.bigtree %d %d %d", nodes, nsrv, 1+(nodes+nsrv)%3))
				}
			}
			if len(ops) >= 12 {
				emit("localtest wrappers", ops)
				ops = nil
			}
		}
		if len(ops) > 0 {
			emit("localtest wrappers", ops)
		}
	}
	for i := 0; i < c.Pick(6, 60); i++ {
		var ops []string
		for j := 0; j < 5; j++ {
			nsrv := 1 + r.Intn(c.Pick(8, 20))
			ops = append(ops, fmt.Sprintf("c12 lt.bigtree %d %d %d", 1+r.Intn(3*nsrv), nsrv, 1+r.Intn(4)))
		}
		ops = append(ops, fmt.Sprintf("c12 lt.tree %d", 1+r.Intn(c.Pick(8, 20))))
		emit("localtest wrappers sampled", ops)
	}
	// --- identities whose (deprecated) ID field is unset, several different rosters per case --------
	for i := 0; i < c.Pick(12, 60); i++ {
		var ops []string
		off := 0
		for j := 0; j < 6; j++ {
			n := 2 + r.Intn(c.Pick(12, 40))
			switch r.Intn(3) {
			case 0:
				ops = append(ops, fmt.Sprintf("c12 znary %d %d %d", off, n, 1+r.Intn(4)))
			case 1:
				ops = append(ops, fmt.Sprintf("c12 zbig %d %d %d %s", off, 1+r.Intn(4), n, pattern(r.Intn(4), n))) // use-all
			default:
				ops = append(ops, fmt.Sprintf("c12 zbig %d %d %d %s", off, 1+r.Intn(4), 1+r.Intn(2*n), pattern(r.Intn(4), n)))
			}
			if r.Intn(3) > 0 {
				off += 1 + r.Intn(n) // the next roster overlaps this one, or is disjoint from it
			}
		}
		emit("identities without ID field", ops)
	}
	// --- … and a root asked of such a roster (every root, a stranger; ID field unset / lost in TOML / foreign) ----------
	for n := 1; n <= c.Pick(9, 16); n++ {
		var ops []string
		for root := 0; root < n; root++ {
			ops = append(ops, fmt.Sprintf("c12 zroot %d %d %d %d", (n+root)%3, n, 1+(n+root)%3, root))
		}
		for mode := 0; mode < 3; mode++ {
			ops = append(ops, fmt.Sprintf("c12 zroot %d %d 2 x", mode, n))
		}
		emit("root lookup without ID field", ops)
	}
	// --- the roster by keys: root lookup by key (present, absent, nil), keys in any order ----------
	for n := 1; n <= c.Pick(8, 14); n++ {
		perm := r.Perm(3 * n)
		keys := perm[:n]
		absent := perm[n]
		var ops []string
		for N := 1; N <= 3; N++ {
			ops = append(ops, fmt.Sprintf("c12 naryk %d nil %s", N, h.Ints(keys)))
			for _, k := range keys {
				ops = append(ops, fmt.Sprintf("c12 naryk %d %d %s", N, k, h.Ints(keys)))
			}
			ops = append(ops, fmt.Sprintf("c12 naryk %d %d %s", N, absent, h.Ints(keys)))
		}
		emit("nary by key", ops)
	}
	// --- a roster whose list is changed in place between two uses (two entries exchanged) -------------
	for n := 2; n <= c.Pick(9, 14); n++ {
		perm := r.Perm(3 * n)
		keys := perm[:n]
		var ops []string
		for rep := 0; rep < 4; rep++ {
			i, j := r.Intn(n), r.Intn(n)
			if rep == 0 {
				i, j = 0, n-1
			}
			root := fmt.Sprint(keys[[]int{i, j, r.Intn(n)}[rep%3]])
			if rep == 3 {
				root = "nil"
			}
			ops = append(ops, fmt.Sprintf("c12 narymut %d %d %d %s %s", 1+r.Intn(3), i, j, root, h.Ints(keys)))
		}
		ops = append(ops, fmt.Sprintf("c12 narymut 2 0 1 %d %s", perm[n], h.Ints(keys))) // absent root
		emit("nary over a roster changed in place", ops)
	}
	for i := 0; i < c.Pick(10, 60); i++ {
		// outside the domain of the node-id clause: a roster that lists a server several times
		// (Search finds the first entry); model and code must still agree
		n := 2 + r.Intn(10)
		keys := make([]int, n)
		for j := range keys {
			keys[j] = r.Intn(1 + n/2)
		}
		ops := []string{fmt.Sprintf("c12 naryk %d nil %s", 1+r.Intn(4), h.Ints(keys))}
		for j := 0; j < 3; j++ {
			ops = append(ops, fmt.Sprintf("c12 naryk %d %d %s", 1+r.Intn(4), r.Intn(2+n/2), h.Ints(keys)))
		}
		emit("nary by key, repeated servers", ops)
	}
	// --- simulations: CreateRoster over 1..k host names, then CreateTree (nodes = servers) --------
	for hosts := 1; hosts <= c.Pick(12, 24); hosts++ {
		var ops []string
		for bf := 1; bf <= c.Pick(3, 5); bf++ {
			for _, na := range []int{1, 2, 3, hosts - 1, hosts, hosts + 2} {
				if na >= 1 && (na <= 3 || na >= hosts-1) {
					ops = append(ops, fmt.Sprintf("c12 sim %d %d %d %d", hosts, bf, na, (hosts+bf+na)%2))
				}
			}
		}
		emit(fmt.Sprintf("simulation exhaustive hosts=%d", hosts), ops)
	}
	for i := 0; i < c.Pick(8, 60); i++ {
		var ops []string
		for j := 0; j < 3; j++ {
			hosts := 1 + r.Intn(c.Pick(60, 300))
			ops = append(ops, fmt.Sprintf("c12 sim %d %d %d %d", hosts, 1+r.Intn(6), 1+r.Intn(hosts+2), r.Intn(2)))
		}
		emit("simulation sampled", ops)
	}
	{
		var ops []string
		for hosts := 1; hosts <= c.Pick(4, 8); hosts++ {
			ops = append(ops, fmt.Sprintf("c12 simlocal %d %d", hosts, 1+hosts%3))
		}
		ops = append(ops, "c12 simnil 3 2", "c12 simnil 1 1")
		emit("simulation localhost", ops)
	}
	// --- onet's own predicates (Size, IsNary, IsBinary, UsesList, IsLeaf …) on generated trees ----------
	for n := 1; n <= c.Pick(14, 30); n++ {
		var ops []string
		for N := 1; N <= c.Pick(5, 7); N++ {
			for _, M := range []int{N, 2, N + 1} {
				ops = append(ops, fmt.Sprintf("c12 npred %d %d %d %d", n, N, (n*N+M)%n, M))
			}
		}
		if n >= 2 {
			ops = append(ops, fmt.Sprintf("c12 npred %d %d 0 %d", n, n-1, n-1)) // star
		}
		emit("predicates nary", ops)
	}
	for p := 0; p < 4; p++ {
		var ops []string
		for n := 1; n <= c.Pick(7, 12); n++ {
			for N := 1; N <= 3; N++ {
				for _, nodes := range []int{1, n - 1, n, n + 1, 2*n + 1} {
					if nodes >= 1 {
						ops = append(ops, fmt.Sprintf("c12 bpred %d %d %s %d", N, nodes, pattern(p, n), N))
					}
				}
			}
		}
		emit("predicates big "+pname[p], ops)
	}
	for i := 0; i < c.Pick(10, 60); i++ {
		n := 1 + r.Intn(c.Pick(200, 900))
		N := 1 + r.Intn(9)
		if r.Intn(3) == 0 && n > 1 {
			// N divides n-1: the tree passes IsNary(N)
			N = 1 + r.Intn(8)
			n = 1 + N*(1+r.Intn(c.Pick(40, 120)))
		}
		nodes := 1 + r.Intn(2*n)
		if r.Intn(2) == 0 {
			nodes = n
		}
		emit("predicates sampled", []string{fmt.Sprintf("c12 npred %d %d %d %d", n, N, r.Intn(n), N),
			fmt.Sprintf("c12 npred %d %d %d %d", n, N, r.Intn(n), 1+r.Intn(N+1)),
			fmt.Sprintf("c12 bpred %d %d %s %d", N, nodes, pattern(r.Intn(7), n), N)})
	}
	// --- boundary: N = 0 (outside the property's domain; model and code must still agree) and
	// malformed lines ------------------------------------------------------------------------------
	emit("boundary", []string{"c12 nary 1 0 0", "c12 nary 2 0 0", "c12 nary 5 0 3", "c12 big 0 1 0,1", "c12 big 0 3 0,1",
		"c12 big 2 0 0,1,2", "c12 star 1", "c12 star 2", "c12 binary 1",
		"c12 bigempty 2 3", "c12 bigempty 1 1", "c12 naryk 2 nil -", "c12 naryk 2 5 -", "c12 naryk 0 nil 4,2,9", "c12 naryk 0 2 4,2,9",
		"c12 sim 1 0 1 0", "c12 sim 3 0 2 1", "c12 npred 1 0 0 0", "c12 npred 1 3 0 0", "c12 bpred 2 1 0 0"})
	emit("malformed", []string{"c12 nary 0 2 0", "c12 nary 3 2 3", "c12 nary 3 2", "c12 nary a 2 0", "c12 big 2 5", "c12 big 2 5 -",
		"c12 big 2 x 0,1", "c12 binary 0", "c12 star", "c12 tree 3",
		"c12 lt.tree 0", "c12 lt.bigtree 3 0 2", "c12 lt.bigtree 3 2", "c12 lt.tree x",
		"c12 naryk 2 nil", "c12 naryk x nil 1,2", "c12 naryk 2 y 1,2", "c12 naryk 2 1 1,,2", "c12 bigempty 2", "c12 bigempty a 1",
		"c12 znary 0 0 2", "c12 znary a 3 2", "c12 zbig 0 0 3 0,1", "c12 zbig 0 2 3", "c12 zbig 0 2 x 0,1",
		"c12 sim 0 2 1 0", "c12 sim 3 2 0 0", "c12 sim 3 2 1 2", "c12 sim 3 2 1", "c12 simlocal 0 2", "c12 simlocal 2", "c12 simnil 3", "c12 simnil a 2",
		"c12 narymut 2 0 5 1 1,2,3", "c12 narymut 2 0 1 1", "c12 narymut x 0 1 1 1,2", "c12 narymut 2 0 1 y 1,2",
		"c12 npred 0 2 0 2", "c12 npred 3 2 3 2", "c12 npred 3 2 0", "c12 npred 3 x 0 2", "c12 bpred 0 3 0,1 2", "c12 bpred 2 3 - 2", "c12 bpred 2 3 0,1", "c12 bpred 2 5000 0,1 2"})
}

func init() {
	h.RegisterProp(h.Prop{Name: "c12", Gen: c12gen, Exec: c12exec})
}
