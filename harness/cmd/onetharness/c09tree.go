package main

import (
	"fmt"
	"strconv"
	"strings"
	"sync/atomic"
	"time"

	"github.com/google/uuid"
	"go.dedis.ch/onet/v3"
	"go.dedis.ch/onet/v3/network"
	"onetverif/harness/fix"
)

// The moment of tree propagation (ops speer / orphanmsg / treesend, class treereq-tcp): a victim
// that is a full onet server (it can answer a tree request; it restarts with the same identity and
// address — onet.NewServerTCP over a fixed port) roots a tree with the survivor below it, known to
// the victim only. A message over that tree reaches the survivor — handed to its overlay as the
// router would (`orphanmsg`: the sender may be dead by now, the tree request has to dial) or sent
// by the victim's root instance through the network (`treesend`). Observed: what the survivor's
// tree store says about the tree, how many messages are parked for it, how many were handed to
// protocol instances.

type c09tree struct {
	x       int
	tree    *onet.Tree
	nodes   []*onet.TreeNode
	round   uuid.UUID
	sent    int64
	handled int64
	// the victim's root instance of its current incarnation
	root *onet.TreeNodeInstance
	inc  *onet.Server
}

// startServer brings a server victim up (again) on its fixed address.
func (w *c09world) startServer(v *c09victim) error {
	if v.own == nil {
		v.own = w.identity(v, w.addr(c09port(v.n)))
		v.sid = v.own
	}
	si := w.identity(v, v.own.Address)
	// a busy port is to be waited for, not a fatal log line of NewServerTCP
	var err error
	for i := 0; i < 250; i++ {
		var r *network.Router
		if r, err = network.NewTCPRouter(si, fix.Suite); err == nil {
			r.Stop()
			break
		}
		time.Sleep(20 * time.Millisecond)
	}
	if err != nil {
		return err
	}
	srv := onet.NewServerTCP(si, fix.Suite)
	srv.Quiet = true
	srv.UnauthOk = true
	srv.RegisterProcessorFunc(c09MsgType, func(*network.Envelope) error { atomic.AddInt64(&v.got, 1); return nil })
	go srv.Router.Start()
	for j := 0; j < 10000 && !srv.Router.Listening(); j++ {
		time.Sleep(time.Millisecond)
	}
	if !srv.Router.Listening() {
		return fmt.Errorf("the router of server victim %d does not listen", v.n)
	}
	w.mu.Lock()
	v.callMark = len(w.calls)
	w.mu.Unlock()
	v.srv, v.up, v.connected = srv, true, false
	return nil
}

func (w *c09world) speer(xs string) string {
	x, err := strconv.Atoi(xs)
	if err != nil || x <= 0 || !w.tcp || w.lt == nil {
		return "bad-op"
	}
	w.vmu.Lock()
	_, known := w.victims[x]
	w.vmu.Unlock()
	if known {
		return "bad-op"
	}
	v := w.victim(x)
	v.isServer = true
	if err := w.startServer(v); err != nil {
		w.cs.Fail("harness", err.Error())
		return "harness-error"
	}
	w.tag("speer")
	return "ok"
}

func (w *c09world) treeOf(t, x int) *c09tree {
	if tr, ok := w.trees[t]; ok {
		if tr.x != x {
			return nil
		}
		return tr
	}
	ro := onet.NewRoster([]*network.ServerIdentity{w.sid(x), w.s.ServerIdentity})
	tree, nodes := fix.BuildTree(ro, []int{-1, 0}, []int{0, 1})
	tr := &c09tree{x: x, tree: tree, nodes: nodes, round: uuid.New()}
	w.trees[t] = tr
	return tr
}

// treeMsg: via == "orphanmsg" or "treesend".
func (w *c09world) treeMsg(via, ts, xs string) string {
	t, err1 := strconv.Atoi(ts)
	x, err2 := strconv.Atoi(xs)
	if err1 != nil || err2 != nil || t < 0 || x <= 0 || w.lt == nil {
		return "bad-op"
	}
	w.vmu.Lock()
	v, ok := w.victims[x]
	w.vmu.Unlock()
	if !ok || !v.isServer || (via == "treesend" && !v.up) {
		return "bad-op"
	}
	tr := w.treeOf(t, x)
	if tr == nil {
		return "bad-op"
	}
	ov := w.lt.Overlays[w.s.ServerIdentity.ID]
	known := strings.TrimSuffix(ov.VerifTreeState(tr.tree.ID), "+armed")
	if via == "treesend" {
		if tr.inc != v.srv {
			// this incarnation of the victim starts its run over the tree (and so knows the tree)
			svc, _ := v.srv.Service("VerifC09").(*c09Service)
			if svc == nil {
				w.cs.Fail("harness", "the harness service is missing on a server victim")
				return "harness-error"
			}
			pi, err := svc.ctx.CreateProtocol(fix.ProtoName, tr.tree)
			if err != nil {
				w.cs.Fail("harness", err.Error())
				return "harness-error"
			}
			rec := fix.RecOf(pi.(interface{ Token() *onet.Token }).Token())
			if rec == nil {
				w.cs.Fail("harness", "no recorder for the victim's root instance")
				return "harness-error"
			}
			tr.root, tr.inc = rec.Tni, v.srv
		}
		var err error
		if !w.guarded(w.allowed(1, 1), "hang", "a send of a server victim's root instance", func() {
			err = tr.root.SendTo(tr.nodes[1], &fix.M3{V: int(atomic.AddInt64(&w.seq, 1))})
		}) {
			return "blocked"
		}
		if err != nil {
			w.cs.Fail("harness", "the victim's send to the survivor failed: "+err.Error())
			return "harness-error"
		}
	} else {
		env, err := fix.Envelope(w.sid(x), fix.TokenFor(tr.tree, tr.nodes[0], tr.round), fix.TokenFor(tr.tree, tr.nodes[1], tr.round),
			&fix.M3{V: int(atomic.AddInt64(&w.seq, 1))})
		if err != nil {
			w.cs.Fail("harness", err.Error())
			return "harness-error"
		}
		if !w.guarded(w.allowed(1, 1), "send-exceeds-configured-timeouts",
			fmt.Sprintf("handling a message over a tree only peer %d knows (the tree request goes to it; the configured time-outs allow %v per connect)", x, w.perConnect()),
			func() { ov.Process(env) }) {
			return "blocked"
		}
	}
	tr.sent++
	// what the property promises: if somebody who has the tree can be asked (the sender listens and
	// knows the tree) or the tree is there already, everything sent over the tree so far is handled
	wantAll := known == "present" || (v.up && tr.inc == v.srv)
	count := func() int64 {
		for _, rec := range fix.AllRecs() {
			tok := rec.Tni.Token()
			if tok.TreeID.Equal(tr.tree.ID) && rec.Tni.ServerIdentity().Equal(w.s.ServerIdentity) {
				for _, d := range rec.Drain() {
					if d.Ty == 3 {
						tr.handled++
					}
				}
			}
		}
		return tr.handled
	}
	for end := time.Now().Add(c09waitDeliver); wantAll && count() < tr.sent && time.Now().Before(end); {
		time.Sleep(time.Millisecond)
	}
	time.Sleep(3 * time.Millisecond)
	handled := count()
	state := strings.TrimSuffix(ov.VerifTreeState(tr.tree.ID), "+armed")
	parked := ov.VerifPendingCount(tr.tree.ID)
	if wantAll && handled < tr.sent {
		w.cs.Fail("not-delivered", fmt.Sprintf("peer %d listens and has tree %d; of the %d message(s) sent to the survivor over that tree %d were handed to protocol instances within %v (the survivor's store says the tree is %s, %d message(s) are parked for it): after a tree request that failed while the peer was down the survivor does not ask again",
			x, t, tr.sent, handled, c09waitDeliver, state, parked))
	}
	if v.up && handled > 0 {
		v.connected = true
	}
	w.tag(fmt.Sprintf("%s:%s", via, state))
	return fmt.Sprintf("state=%s parked=%d handled=%d", state, parked, handled)
}
