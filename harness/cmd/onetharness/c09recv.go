package main

import (
	"encoding/binary"
	"fmt"
	"io"
	"net"
	"sort"
	"strconv"
	"strings"
	"sync/atomic"
	"time"

	"go.dedis.ch/onet/v3/network"
	"onetverif/harness/fix"
)

// C09, the receive loop (lean/OnetVerif/Model/C09Recv.lean): a *raw peer* is a TCP socket driven by
// the harness frame by frame. It connects to the survivor, sends an identity like a router does and
// then does to the connection what a failing peer can do: frames that decode, frames that do not, a
// header announcing an oversized frame, closing between or inside frames, resetting, going silent.
// The survivor's side is the unchanged code: listener callback, receiveServerIdentity,
// registerConnection, handleConn, handleError, the error handlers, removeConnection.
//
//   rawconn <p> <id|noid|halfid|wrongtype>   a connection from raw peer p; only `id` completes the set-up
//   rawev <p> <k> <events>                   events g x b c p q r t on p's raw connection number k
//   herr <7 bits>                            handleError on an error value with these features
//
// After every operation the survivor's table is read (hook VerifConnsTo) and p's entries are
// printed in table order by the serial numbers of the raw connections: the swap-with-last removal
// is compared entry by entry.

type c09raw struct {
	serial int
	sock   *net.TCPConn
	tc     *network.TCPConn
	// in-memory transport (round 7): the peer's end is a LocalConn of the survivor's manager; events g, x, c only
	lc    *network.LocalConn
	local string
}

func (r *c09raw) closeEnd() {
	if r.lc != nil {
		r.lc.Close()
		return
	}
	r.sock.Close()
}

func (w *c09world) rawOpen(p int) []*c09raw { return w.raws[p] }

// rawTable: p's entries in S's connection table, in table order, by raw-connection serial number.
func (w *c09world) rawTable(p int) string {
	var conns []network.Conn
	if !w.guarded(c09waitTable, "router-blocked", "reading the survivor's connection table (it takes the router's lock)", func() {
		conns = w.s.VerifConnsTo(w.sid(p).GetID())
	}) {
		return "blocked"
	}
	var out []string
	for _, c := range conns {
		name := "?"
		for _, r := range w.raws[p] {
			if string(c.Remote()) == r.local {
				name = strconv.Itoa(r.serial)
			}
		}
		out = append(out, name)
	}
	if len(out) == 0 {
		return "-"
	}
	return strings.Join(out, ",")
}

// waitTable polls until S's table holds n connections with p.
func (w *c09world) waitTable(p, n int, patience time.Duration) bool {
	id := w.sid(p).GetID()
	for end := time.Now().Add(patience); !w.dead; {
		if w.connCount(id) == n {
			return true
		}
		if !time.Now().Before(end) {
			break
		}
		time.Sleep(500 * time.Microsecond)
	}
	return false
}

func c09frame(body []byte) []byte {
	b := make([]byte, 4+len(body))
	binary.BigEndian.PutUint32(b, uint32(len(body)))
	copy(b[4:], body)
	return b
}

// sawClose waits until the survivor has closed its end of the socket.
func c09sawClose(sock *net.TCPConn, patience time.Duration) bool {
	sock.SetReadDeadline(time.Now().Add(patience))
	buf := make([]byte, 256)
	for {
		if _, err := sock.Read(buf); err != nil {
			ne, ok := err.(net.Error)
			return !(ok && ne.Timeout())
		}
	}
}

func (w *c09world) rawConn(ps, how string) string {
	p, err := strconv.Atoi(ps)
	if err != nil || p <= 0 || w.tls || w.silentClass || w.useProxy || (!w.tcp && (how != "id" || w.lt == nil)) {
		return "bad-op"
	}
	v := w.victim(p)
	if v.isServer || (v.up && len(w.raws[p]) == 0) {
		return "bad-op"
	}
	switch how {
	case "id", "noid", "halfid", "wrongtype":
	default:
		return "bad-op"
	}
	si := w.sid(p)
	id := si.GetID()
	before := w.connCount(id)
	w.mu.Lock()
	opStart := len(w.calls)
	w.mu.Unlock()
	if !w.tcp {
		// in-memory transport: a connection of the survivor's manager whose peer end the harness holds
		w.tag("rawconn:local")
		la := network.NewLocalAddress(fmt.Sprintf("127.0.0.1:%d", 25000+p*32+w.rawNext[p]))
		lc, err := network.NewLocalConnWithManager(w.lt.VerifLocalManager(), la, w.s.ServerIdentity.Address, fix.Suite)
		if err != nil {
			w.cs.Fail("harness", "raw peer cannot reach the survivor: "+err.Error())
			return "harness-error"
		}
		if _, err := lc.Send(si); err != nil {
			w.cs.Fail("harness", "raw peer cannot send its identity: "+err.Error())
			return "harness-error"
		}
		r := &c09raw{serial: w.rawNext[p], lc: lc, local: string(la)}
		w.rawNext[p]++
		w.raws[p] = append(w.raws[p], r)
		go func() {
			for {
				if _, err := lc.Receive(); err != nil && !strings.Contains(err.Error(), "not registered") && !strings.Contains(err.Error(), "decoding") {
					return
				}
			}
		}()
		if !w.waitTable(p, before+1, c09waitTable) && !w.dead {
			w.cs.Fail("connection-not-registered", fmt.Sprintf("peer %d connected and sent its identity; the survivor's table holds %d connection(s) with it after %v, expected %d", p, w.connCount(id), c09waitTable, before+1))
		}
		return "table=" + w.rawTable(p)
	}
	cn, err := net.DialTimeout("tcp", w.s.ServerIdentity.Address.NetworkAddress(), 5*time.Second)
	if err != nil {
		w.cs.Fail("harness", "raw peer cannot reach the survivor: "+err.Error())
		return "harness-error"
	}
	sock := cn.(*net.TCPConn)
	tc := network.VerifNewTCPConn(sock, fix.Suite)
	w.tag("rawconn:" + how)
	if how == "id" {
		if _, err := tc.Send(si); err != nil {
			w.cs.Fail("harness", "raw peer cannot send its identity: "+err.Error())
			return "harness-error"
		}
		r := &c09raw{serial: w.rawNext[p], sock: sock, tc: tc, local: sock.LocalAddr().String()}
		w.rawNext[p]++
		w.raws[p] = append(w.raws[p], r)
		// what the survivor sends over this connection is read and thrown away
		go func() {
			for {
				if _, err := tc.Receive(); err != nil && !strings.Contains(err.Error(), "not registered") && !strings.Contains(err.Error(), "decoding") {
					return
				}
			}
		}()
		if !w.waitTable(p, before+1, c09waitTable) && !w.dead {
			w.cs.Fail("connection-not-registered", fmt.Sprintf("peer %d connected and sent its identity; the survivor's table holds %d connection(s) with it after %v, expected %d", p, w.connCount(id), c09waitTable, before+1))
		}
		return "table=" + w.rawTable(p)
	}
	// the set-up is abandoned half-way
	body, _ := network.Marshal(si)
	switch how {
	case "noid":
	case "halfid":
		fr := c09frame(body)
		sock.Write(fr[:4+len(body)/2])
	case "wrongtype":
		tc.Send(&C09Msg{V: w.seqNext()})
	}
	if how != "wrongtype" {
		sock.CloseWrite()
	}
	closed := c09sawClose(sock, c09waitTable)
	sock.Close()
	if !closed {
		w.cs.Fail("aborted-setup-left-open", fmt.Sprintf("peer %d gave the connection set-up up (%s); the survivor has not closed its end within %v", p, how, c09waitTable))
	}
	if n := w.connCount(id); n != before && !w.dead {
		w.cs.Fail("aborted-setup-registered", fmt.Sprintf("peer %d gave the connection set-up up (%s); the survivor's table went from %d to %d connection(s) with it", p, how, before, n))
	}
	if calls := w.callsSince(opStart); len(calls) > 0 {
		w.cs.Fail("handler-wrong-peer", fmt.Sprintf("peer %d gave the connection set-up up (%s) before it was known; error handlers were called: %v", p, how, calls))
	}
	return "table=" + w.rawTable(p)
}

// u / v: the peer goes silent INSIDE a frame (after the header and ten body bytes / after two header bytes): the read
// time-out is what ends the loop, as for t (round 7, seeded C09r7-B)
const c09events = "gxbcpqrtuv"

func (w *c09world) rawEv(ps, ks, evs string) string {
	p, err1 := strconv.Atoi(ps)
	k, err2 := strconv.Atoi(ks)
	if err1 != nil || err2 != nil || p <= 0 || evs == "" || len(w.rh) > 0 {
		return "bad-op"
	}
	for _, e := range evs {
		if !strings.ContainsRune(c09events, e) {
			return "bad-op"
		}
	}
	var raw *c09raw
	for _, r := range w.raws[p] {
		if r.serial == k {
			raw = r
		}
	}
	if raw == nil {
		return "bad-op"
	}
	if raw.lc != nil && strings.Trim(evs, "gxc") != "" {
		return "bad-op" // the in-memory transport knows frames (decodable or not) and the close, nothing else
	}
	if strings.ContainsAny(evs, "tuv") {
		// every idle connection of the survivor runs into the (scaled) read time-out
		total := w.connCount(w.s2.ServerIdentity.GetID())
		w.vmu.Lock()
		var vs []*c09victim
		for _, v := range w.victims {
			vs = append(vs, v)
		}
		w.vmu.Unlock()
		for _, v := range vs {
			if v.sid != nil {
				total += w.connCount(v.sid.GetID())
			}
		}
		if total != 1 || w.oldTimeout == 0 {
			return "bad-op"
		}
	}
	id := w.sid(p).GetID()
	tableBefore := w.connCount(id)
	gotBefore := atomic.LoadInt64(&w.selfGot)
	w.mu.Lock()
	opStart := len(w.calls)
	w.mu.Unlock()
	sent := int64(0)
	dispatched := func() int64 { return atomic.LoadInt64(&w.selfGot) - gotBefore }
	awaitGood := func() {
		for end := time.Now().Add(c09waitDeliver); dispatched() < sent && time.Now().Before(end); {
			time.Sleep(200 * time.Microsecond)
		}
	}
	ended, endEv := false, ' '
	patience := c09waitHandlers
	for _, e := range evs {
		switch e {
		case 'g':
			if raw.lc != nil {
				raw.lc.Send(&C09Msg{V: w.seqNext()})
			} else {
				raw.tc.Send(&C09Msg{V: w.seqNext()})
			}
			sent++
			continue
		case 'x':
			if raw.lc != nil {
				// a buffer the survivor cannot decode
				raw.lc.VerifSendRaw([]byte{0xE7, 0xE7, 0xE7, 0xE7, 0xE7, 0xE7, 0xE7, 0xE7, 0xE7, 0xE7, 0xE7, 0xE7, 0xE7, 0xE7, 0xE7, 0xE7, 0xE7, 0xE7, 0xE7, 0xE7})
				continue
			}
			// a well-formed frame of a type nobody registered
			body := make([]byte, 24)
			for i := range body {
				body[i] = 0xE7
			}
			raw.sock.Write(c09frame(body))
			continue
		}
		// the event that ends the connection: what was sent before it must have been read first (a
		// reset may discard what the survivor has not read yet)
		awaitGood()
		switch e {
		case 'b':
			hdr := make([]byte, 4)
			binary.BigEndian.PutUint32(hdr, uint32(network.MaxPacketSize)+1)
			raw.sock.Write(hdr)
		case 'c':
			raw.closeEnd()
		case 'p':
			raw.sock.Write([]byte{0, 0})
			raw.sock.Close()
		case 'q':
			hdr := make([]byte, 4)
			binary.BigEndian.PutUint32(hdr, 100)
			raw.sock.Write(append(hdr, make([]byte, 10)...))
			raw.sock.Close()
		case 'r':
			raw.sock.SetLinger(0)
			raw.sock.Close()
		case 't':
			patience = c09waitSilent
		case 'u':
			hdr := make([]byte, 4)
			binary.BigEndian.PutUint32(hdr, 100)
			raw.sock.Write(append(hdr, make([]byte, 10)...))
			patience = c09waitSilent
		case 'v':
			raw.sock.Write([]byte{0, 0})
			patience = c09waitSilent
		}
		ended, endEv = true, e
		break
	}
	w.tag("rawev:" + evs)
	awaitGood()
	want := 0
	if ended {
		want = len(w.handlers)
	}
	about := func() (mine, others []string) {
		for _, c := range w.callsSince(opStart) {
			if strings.HasSuffix(c, ">"+strconv.Itoa(p)) {
				mine = append(mine, c)
			} else {
				others = append(others, c)
			}
		}
		return
	}
	if ended {
		for end := time.Now().Add(patience); time.Now().Before(end); {
			if mine, _ := about(); len(mine) >= want {
				break
			}
			time.Sleep(500 * time.Microsecond)
		}
		// the deferred clean-up of the receive loop follows the handlers
		w.waitTable(p, tableBefore-1, patience)
		var rest []*c09raw
		for _, r := range w.raws[p] {
			if r != raw {
				rest = append(rest, r)
			}
		}
		w.raws[p] = rest
		// (a socket the peer has not closed itself — b, t — stays as it is until the verdict is in)
		defer raw.closeEnd()
	} else {
		// nothing the peer did ends the connection: give a wrong report a moment to show up
		time.Sleep(3 * time.Millisecond)
	}
	calls, others := about()
	what := map[rune]string{'b': "announced a frame larger than MaxPacketSize", 'c': "closed the connection", 'p': "closed the connection inside a frame header",
		'q': "closed the connection inside a frame body", 'r': "reset the connection", 't': "went silent until the read time-out"}[endEv]
	// the property's own oracle
	if got := dispatched(); got < sent {
		w.cs.Fail("not-delivered", fmt.Sprintf("peer %d sent %d well-formed frames (events %q) on a healthy connection; %d were dispatched within %v", p, sent, evs, got, c09waitDeliver))
	} else if got > sent {
		w.cs.Fail("spurious-delivery", fmt.Sprintf("peer %d sent %d well-formed frames (events %q); %d were dispatched", p, sent, evs, got))
	}
	if ended {
		for _, hd := range w.handlers {
			found := false
			for _, c := range calls {
				if c == fmt.Sprintf("%d>%d", hd, p) {
					found = true
				}
			}
			if !found {
				w.cs.Fail("handler-not-told", fmt.Sprintf("peer %d %s; error handler %d was not called for it within %v; calls: %v", p, what, hd, patience, calls))
			}
		}
		if n := w.connCount(id); n != tableBefore-1 && !w.dead {
			w.cs.Fail("stale-connection-kept", fmt.Sprintf("peer %d %s; the survivor's table went from %d to %d connection(s) with it", p, what, tableBefore, n))
		}
	} else {
		if len(calls) > 0 {
			w.cs.Fail("handler-called-for-live-peer", fmt.Sprintf("peer %d sent frames only (events %q) and keeps its connection; error handlers were called: %v", p, evs, calls))
		}
		if n := w.connCount(id); n != tableBefore && !w.dead {
			w.cs.Fail("live-connection-dropped", fmt.Sprintf("peer %d sent frames only (events %q); the survivor's table went from %d to %d connection(s) with it", p, evs, tableBefore, n))
		}
	}
	if len(others) > 0 {
		w.cs.Fail("handler-wrong-peer", fmt.Sprintf("events on a connection of peer %d, handler calls about other peers: %v", p, others))
	}
	told := "-"
	if len(calls) > 0 {
		told = strings.Join(calls, ",")
	}
	table := w.rawTable(p)
	// ... and the entries left are those of the connections that are still open
	var open []string
	for _, r := range w.raws[p] {
		open = append(open, strconv.Itoa(r.serial))
	}
	listed := strings.Split(table, ",")
	if table == "-" {
		listed = nil
	}
	sort.Strings(open)
	sort.Strings(listed)
	if strings.Join(open, ",") != strings.Join(listed, ",") && table != "blocked" && !w.dead {
		w.cs.Fail("wrong-connection-removed", fmt.Sprintf("peer %d has open connections number %v; after events %q on number %d the survivor's table lists (in table order) %s ('?': a connection that is closed)", p, open, evs, k, table))
	}
	return fmt.Sprintf("dispatched=%d told=%s table=%s", dispatched(), told, table)
}

func (w *c09world) closeRaws() {
	for _, rs := range w.raws {
		for _, r := range rs {
			r.closeEnd()
		}
	}
}

// an error value with chosen features, for handleError
type c09err struct{ text string }

func (e *c09err) Error() string { return e.text }

// ... that is a net.Error
type c09netErr struct {
	c09err
	to bool
}

func (e *c09netErr) Timeout() bool   { return e.to }
func (e *c09netErr) Temporary() bool { return false }

// ... that has a Timeout method and is no net.Error
type c09almostNetErr struct {
	c09err
	to bool
}

func (e *c09almostNetErr) Timeout() bool { return e.to }

func c09herr(cs interface{ Fail(string, string) }, bits string) string {
	if len(bits) != 7 || strings.Trim(bits, "01") != "" {
		return "bad-op"
	}
	b := func(i int) bool { return bits[i] == '1' }
	closedT, pipeT, cancelT, isEOF, eofT, netE, to := b(0), b(1), b(2), b(3), b(4), b(5), b(6)
	var err error
	if isEOF {
		// io.EOF is one value: its text is "EOF", it is no net.Error
		if !eofT || closedT || pipeT || cancelT || netE || to {
			return "bad-op"
		}
		err = io.EOF
	} else {
		text := "read tcp 127.0.0.1:1->127.0.0.1:2:"
		if closedT {
			text += " use of closed network connection"
		}
		if pipeT {
			text += " write: broken pipe"
		}
		if cancelT {
			text += " operation was canceled"
		}
		if eofT {
			text += " unexpected EOF"
		}
		if !closedT && !pipeT && !cancelT && !eofT {
			text += " connection reset by peer"
		}
		switch {
		case netE:
			err = &c09netErr{c09err{text}, to}
		case to:
			err = &c09almostNetErr{c09err{text}, to}
		default:
			err = &c09err{text}
		}
	}
	out := network.VerifC09HandleError(err)
	name := "?"
	switch out {
	case network.ErrClosed:
		name = "closed"
	case network.ErrCanceled:
		name = "canceled"
	case network.ErrEOF:
		name = "eof"
	case network.ErrTimeout:
		name = "timeout"
	case network.ErrUnknown:
		name = "unknown"
	}
	// the property's own oracle: whatever the network layer reports for a connection ends the
	// receive loop with a report (classes timeout / closed / EOF / unknown) — unless it says "canceled"
	if name == "?" || (name == "canceled" && !cancelT) {
		cs.Fail("error-class-ends-no-loop", fmt.Sprintf("handleError(%q) = %v: the receive loop neither reports nor drops a connection on this class", err.Error(), out))
	}
	if netE && to && !closedT && !pipeT && !cancelT && !eofT && name != "timeout" {
		cs.Fail("timeout-not-recognised", fmt.Sprintf("handleError of a net.Error with Timeout() (%q) = %v", err.Error(), out))
	}
	return name
}
