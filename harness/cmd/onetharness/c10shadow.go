package main

// A small thread-level copy of the router's closing logic, used by the C10
// harness for two things only: to generate schedules that make sense (which
// thread is parked, which peer has a connection) and to know what to wait for
// after each operation (the settled view). What is compared with the Lean
// model is always what the real router did, never this.

import (
	"fmt"
	"strings"
)

type c10sConn struct {
	setup   string // pending registered ok err
	h       string // none recv got disp gone
	open    bool
	inTable bool
	inbox   int
	gotMsg  bool // the pending Receive result is a message (not an error)
}

type c10sThread struct {
	name    string
	kind    string // send inc stop
	peer    int
	conn    int // -1: none
	conns   []int
	fin     string
	stopPc  string // close wait
	after   bool
	blocked bool
}

type c10shadow struct {
	flag      bool
	listening bool
	conns     []*c10sConn
	threads   []*c10sThread
	nstops    int
	disp      int
}

func newC10shadow() *c10shadow { return &c10shadow{listening: true} }

func (s *c10shadow) thread(name string) *c10sThread {
	for _, t := range s.threads {
		if t.name == name {
			return t
		}
	}
	return nil
}

func (s *c10shadow) peerThread(k int) *c10sThread {
	if t := s.thread(fmt.Sprintf("s%d", k)); t != nil {
		return t
	}
	return s.thread(fmt.Sprintf("i%d", k))
}

func (s *c10shadow) anyLive() bool {
	for _, c := range s.conns {
		if c.h == "recv" || c.h == "got" || c.h == "disp" {
			return true
		}
	}
	return false
}

func (s *c10shadow) settle() {
	for changed := true; changed; {
		changed = false
		for _, c := range s.conns {
			if c.h == "recv" && (!c.open || c.inbox > 0) {
				c.gotMsg = c.open
				if c.open {
					c.inbox--
				}
				c.h = "got"
				changed = true
			}
		}
		for _, t := range s.threads {
			if t.kind == "stop" && t.blocked && !s.anyLive() {
				t.blocked, t.after = false, true
				changed = true
			}
		}
	}
}

func (s *c10shadow) dial(t *c10sThread) {
	s.conns = append(s.conns, &c10sConn{setup: "pending", h: "none", open: true})
	t.conn = len(s.conns) - 1
	t.conns = append(t.conns, t.conn)
}

// op applies one line; false = the Lean driver answers bad-op
func (s *c10shadow) op(tk []string) bool {
	defer s.settle()
	num := func(x string) int {
		n := 0
		fmt.Sscan(x, &n)
		return n
	}
	switch tk[0] {
	case "send":
		k := num(tk[1])
		if s.peerThread(k) != nil {
			return false
		}
		t := &c10sThread{name: "s" + tk[1], kind: "send", peer: k, conn: -1}
		s.threads = append(s.threads, t)
		s.dial(t)
	case "resend":
		k := num(tk[1])
		pt := s.peerThread(k)
		if pt == nil || s.thread("r"+tk[1]) != nil {
			return false
		}
		t := &c10sThread{name: "r" + tk[1], kind: "send", peer: k, conn: -1}
		s.threads = append(s.threads, t)
		usable := false
		for _, ci := range pt.conns {
			if s.conns[ci].inTable {
				usable = s.conns[ci].open
				break
			}
		}
		if usable {
			t.fin = "ok"
		} else {
			s.dial(t)
		}
	case "in":
		k := num(tk[1])
		if s.peerThread(k) != nil {
			return false
		}
		t := &c10sThread{name: "i" + tk[1], kind: "inc", peer: k, conn: -1}
		s.threads = append(s.threads, t)
		if s.listening {
			s.dial(t)
			s.conns[t.conn].inbox = 1
		} else {
			t.fin = "norun"
		}
	case "stop":
		s.nstops++
		s.listening = false
		s.threads = append(s.threads, &c10sThread{name: fmt.Sprintf("stop%d", s.nstops), kind: "stop", conn: -1, stopPc: "close"})
	case "msg":
		pt := s.peerThread(num(tk[1]))
		if pt == nil || len(pt.conns) == 0 {
			return false
		}
		if c := s.conns[pt.conns[0]]; c.open {
			c.inbox++
		}
	case "peerclose":
		k := num(tk[1])
		if s.peerThread(k) == nil {
			return false
		}
		for _, t := range s.threads {
			if t.kind != "stop" && t.peer == k {
				for _, ci := range t.conns {
					s.conns[ci].open = false
				}
			}
		}
	case "rel":
		return s.release(tk[1])
	}
	return true
}

func (s *c10shadow) release(name string) bool {
	if p := strings.Split(name, ".h"); len(p) == 2 {
		t := s.thread(p[0])
		n := 0
		fmt.Sscan(p[1], &n)
		if t == nil || n < 1 || n > len(t.conns) {
			return false
		}
		c := s.conns[t.conns[n-1]]
		switch c.h {
		case "got":
			if s.flag || !c.gotMsg {
				c.h, c.open, c.inTable = "gone", false, false
			} else {
				c.h = "disp"
			}
		case "disp":
			s.disp++
			c.h = "recv"
		default:
			return false
		}
		return true
	}
	t := s.thread(name)
	if t == nil || t.fin != "" {
		return false
	}
	if t.kind == "stop" {
		switch {
		case t.after:
			t.after, t.fin = false, "ret"
		case t.blocked:
			return false
		case t.stopPc == "close":
			s.flag = true
			for _, c := range s.conns {
				if c.inTable {
					c.open = false
				}
			}
			t.stopPc = "wait"
		case t.stopPc == "wait":
			if s.anyLive() {
				t.blocked = true
			} else {
				t.after = true
			}
		}
		return true
	}
	if t.conn < 0 {
		return false
	}
	c := s.conns[t.conn]
	done := "err"
	if t.kind == "inc" {
		done = "done"
	}
	switch c.setup {
	case "pending":
		if s.flag {
			c.setup, c.open, t.fin = "err", false, done
		} else {
			c.setup, c.inTable = "registered", true
		}
	case "registered":
		if s.flag {
			c.setup, t.fin = "err", done
		} else {
			c.setup, c.h = "ok", "recv"
			t.fin = "ok"
			if t.kind == "inc" {
				t.fin = "done"
			}
		}
	default:
		return false
	}
	return true
}

// a got-state that was reached on a closed connection carries an error: the
// shadow does not remember which, but `release` of it only needs flag/open.

func (s *c10shadow) view() string {
	var parts []string
	for _, t := range s.threads {
		st := t.fin
		if st == "" {
			switch {
			case t.kind == "stop" && t.after:
				st = "after"
			case t.kind == "stop" && t.blocked:
				st = "waiting"
			case t.kind == "stop":
				st = t.stopPc
			case t.conn >= 0:
				st = map[string]string{"pending": "reg", "registered": "launch", "ok": "ok", "err": "err"}[s.conns[t.conn].setup]
			}
		}
		parts = append(parts, t.name+"="+st)
		for n, ci := range t.conns {
			if h := s.conns[ci].h; h != "none" {
				parts = append(parts, fmt.Sprintf("%s.h%d=%s", t.name, n+1, h))
			}
		}
	}
	parts = append(parts, fmt.Sprintf("disp=%d", s.disp))
	return strings.Join(parts, " ")
}

// parked returns the names that `rel` can be applied to
func (s *c10shadow) parked() []string {
	var out []string
	for _, t := range s.threads {
		if t.fin == "" && !(t.kind == "stop" && t.blocked) {
			out = append(out, t.name)
		}
		for n, ci := range t.conns {
			if h := s.conns[ci].h; h == "got" || h == "disp" {
				out = append(out, fmt.Sprintf("%s.h%d", t.name, n+1))
			}
		}
	}
	return out
}

func (s *c10shadow) openPeers() []int {
	var out []int
	seen := map[int]bool{}
	for _, t := range s.threads {
		if t.kind == "stop" || seen[t.peer] {
			continue
		}
		seen[t.peer] = true
		open := false
		for _, u := range s.threads {
			if u.kind != "stop" && u.peer == t.peer {
				for _, ci := range u.conns {
					open = open || s.conns[ci].open
				}
			}
		}
		if open {
			out = append(out, t.peer)
		}
	}
	return out
}

func (s *c10shadow) rest() bool {
	for _, c := range s.conns {
		if !(c.setup == "ok" || c.setup == "err") || !(c.h == "none" || c.h == "gone") {
			return false
		}
	}
	for _, t := range s.threads {
		if t.kind == "stop" && t.fin != "ret" && !t.after {
			return false
		}
	}
	return true
}
